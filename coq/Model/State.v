(* C09: the mutable package-level state of the program and why it cannot influence results.
   (1) Inventory (T1): every package-level variable of the module - and state of other packages
       that module code sets - with every site that may mutate it (tools/scan/globals.go,
       regenerated into gen/Scan.v on every run): assignments and ++/--, append/copy/sort/
       delete/clear, directly or through an alias (local, parameter, method receiver, function
       result, field of a local structure; with the number of dereferences that separate a copy
       from the variable's memory), address taken, and every hand-over to code that is not
       followed: a method that is not declared in the module called on it (pointer receivers
       take its address: sync.Map.Store, sync.Once.Do, ...), a reference into it passed to a
       library function, an interface method or a function value, sent on a channel.
       A variable is benign when, after dropping the hand-overs to callees that only READ their
       operands (listed BY NAME below) and the sites in `init` functions, it has no site left,
       or exactly the sites it is classified with below.
   (2) The one classified mutation of visible consequence: primeFieldParamsMatch does
           bytes.Equal(append(a.BaseX, a.BaseY...), b.Base[1:])
       where a is a COPY of a namedPrimeCurves entry whose BaseX slice shares its backing array
       with the table: Go's append writes BaseY into the SPARE CAPACITY of that array (in place,
       when capacity allows).  Modelled literally with slices = (backing array, len).
   (3) The process state as a whole and an inspection as a PROGRAM that talks to it through
       requests; a write site that is not classified is the request RWrite. *)
From WI Require Import Lib.Base.
From Coq Require String Ascii.
From WI Require gen.Scan.
Open Scope N_scope.

(* ---------- (1) classification of globals ---------- *)
Inductive gstatus :=
| GSpareCapacityOnly      (* writes only beyond len of a shared slice whose result is compared and dropped: state machine below *)
| GInitIdempotent         (* lazily initialised table: every initialisation writes the same values *)
| GOnceGuard              (* the sync.Once that guards that initialisation *)
| GNilSliceAppend         (* a description value returned BY VALUE; callers append to the copy's slices, which are nil in
                             the variable (capacity 0, regenerated in gen/SharedValues.v): every append reallocates *)
| GProcessSetup.          (* state of another package set in main.main before anything is inspected *)

Definition global_class : list (string * list (string * string) * gstatus) := [
  ("internal/crypto/elliptic.namedPrimeCurves",
     [("internal/crypto/elliptic:primeFieldParamsMatch", "append-into")], GSpareCapacityOnly);
  ("internal/ssh1/des.feistelBox",
     [("internal/ssh1/des:initFeistelBox", "assign")], GInitIdempotent);
  ("internal/ssh1/des.feistelBoxOnce",
     [("internal/ssh1/des:*desCipher.generateSubkeys", "method:sync.Once.Do")], GOnceGuard);
  (* flow-insensitive: parsePKCS8PrivateKey appends to info.Attributes where info MAY hold the Attributes of a
     value returned by a parser that returns UnknownASN1Data on error (those branches are guarded by err == nil) *)
  ("internal/file.UnknownASN1Data",
     [("internal/file:parsePKCS8PrivateKey", "append-into")], GNilSliceAppend);
  (* PEMFile appends the block descriptions to info.Children where info.Children MAY be those of a block described
     as UnknownPEMData *)
  ("internal/file.UnknownPEMData",
     [("internal/file:PEMFile", "append-into")], GNilSliceAppend);
  ("lib:flag.Usage",
     [("cmd/decipher:main", "assign")], GProcessSetup)
]%string.

(* hand-overs to callees outside the module that only READ the operand in question - "arg:": the
   reference is an argument (comparison, search, formatting, wrapping of an error value, the data
   argument of a Write - io.Writer: "Write must not modify the slice data, even temporarily");
   "method:": the method is called ON the value (a comparison or a rendering of it).  A Write ON a
   package-level hash or buffer would be "method:io.Writer.Write" and is not listed. *)
Definition read_only_kinds : list string := [
  "arg:bytes.Equal"; "arg:bytes.HasPrefix"; "arg:bytes.Index";
  "arg:strings.Join";
  "arg:errors.Is"; "arg:fmt.Errorf"; "arg:log.Printf";
  "arg:encoding/asn1.ObjectIdentifier.Equal"; "method:encoding/asn1.ObjectIdentifier.String";
  "method:math/big.Int.Cmp";
  "method:time.Time.Unix";
  "arg:encoding/binary.bigEndian.Uint64";
  "arg:io.Writer.Write"; "arg:bufio.Writer.Write"
]%string.

Definition has_prefix (p s : string) : bool := String.prefix p s.
Definition has_suffix (p s : string) : bool :=
  String.eqb (String.substring (String.length s - String.length p) (String.length p) s) p
  && Nat.leb (String.length p) (String.length s).

Definition site_reads_only (s : string * string) : bool :=
  existsb (String.eqb (snd s)) read_only_kinds.

(* a site in a package's init function: runs once, before main *)
Definition site_in_init (s : string * string) : bool := has_suffix ":init"%string (fst s).

Definition mutating_sites (ws : list (string * string)) : list (string * string) :=
  filter (fun s => negb (site_reads_only s || site_in_init s)) ws.

Definition site_eqb (a b : string * string) : bool :=
  (String.eqb (fst a) (fst b) && String.eqb (snd a) (snd b))%bool.

Fixpoint sites_eqb (a b : list (string * string)) : bool :=
  match a, b with
  | [], [] => true
  | x :: a', y :: b' => site_eqb x y && sites_eqb a' b'
  | _, _ => false
  end.

Definition global_ok (g : string * bool * list (string * string)) : bool :=
  match g with
  | (name, _, writes) =>
      match mutating_sites writes with
      | [] => true                                          (* never written after initialisation *)
      | ws => existsb (fun c => match c with (n, cws, _) => String.eqb n name && sites_eqb cws ws end) global_class
      end
  end.

Definition globals_benign (gs : list (string * bool * list (string * string))) : bool :=
  forallb global_ok gs.

(* the variables of an inventory that have a mutating site outside their classification *)
Definition writable (gs : list (string * bool * list (string * string))) (name : string) : bool :=
  existsb (fun g => match g with (n, _, _) => String.eqb n name && negb (global_ok g) end) gs.

(* ---------- (2) slices with capacity and Go's append ---------- *)
Record gslice := { backing : bytes; slen : nat }.            (* cap = length backing *)
Definition visible (s : gslice) : bytes := take (slen s) (backing s).
Definition gcap (s : gslice) : nat := length (backing s).
Definition gslice_ok (s : gslice) : bool := Nat.leb (slen s) (gcap s).

(* append(s, ys...) on a slice whose backing array is shared: returns the new contents of the
   SHARED array (as seen through s) and the value of the resulting slice *)
Definition go_append (s : gslice) (ys : bytes) : gslice * bytes :=
  if Nat.leb (slen s + length ys) (gcap s)
  then ({| backing := take (slen s) (backing s) ++ ys ++ drop (slen s + length ys) (backing s);
           slen := slen s |}, visible s ++ ys)                (* in place: spare capacity overwritten *)
  else (s, visible s ++ ys).                                  (* reallocated: shared array untouched *)

Record centry := { ce_name : bytes; ce_basex : gslice; ce_basey : bytes }.
Definition gstate := list centry.

(* one uncompressed-base-point comparison against table entry k *)
Definition match_entry (e : centry) (tail : bytes) : centry * bool :=
  match go_append (ce_basex e) (ce_basey e) with
  | (bx', joined) => ({| ce_name := ce_name e; ce_basex := bx'; ce_basey := ce_basey e |}, bytes_eqb joined tail)
  end.

Fixpoint update_nth {A} (k : nat) (f : A -> A) (l : list A) : list A :=
  match k, l with
  | _, [] => []
  | O, x :: r => f x :: r
  | S k', x :: r => x :: update_nth k' f r
  end.

(* a request against the curve table: (table entry, bytes to compare) *)
Definition request := (nat * bytes)%type.

Definition do_request (st : gstate) (r : request) : gstate * option bool :=
  match nth_error st (fst r) with
  | None => (st, None)
  | Some e => let (e', b) := match_entry e (snd r) in (update_nth (fst r) (fun _ => e') st, Some b)
  end.

Fixpoint step (st : gstate) (rs : list request) : gstate * list (option bool) :=
  match rs with
  | [] => (st, [])
  | r :: rest =>
      let (st1, o) := do_request st r in
      let (st2, os) := step st1 rest in
      (st2, o :: os)
  end.

(* what other code can observe of the table *)
Definition view (st : gstate) : list (bytes * bytes * bytes) :=
  map (fun e => (ce_name e, visible (ce_basex e), ce_basey e)) st.
Definition state_ok (st : gstate) : bool := forallb (fun e => gslice_ok (ce_basex e)) st.

(* ---------- (3) the whole process state; an inspection as a program ---------- *)
(* ps_vars: every package-level variable that is only read (name -> value, abstractly as bytes);
   ps_curves: namedPrimeCurves; ps_shared: the slices of the shared description values;
   ps_once/ps_box: feistelBoxOnce and feistelBox (all zero until initialised). *)
Record pstate := {
  ps_vars   : list (string * bytes);
  ps_curves : gstate;
  ps_shared : list (string * gslice);
  ps_once   : bool;
  ps_box    : bytes
}.

Inductive prequest :=
| RRead (g : string)                       (* read a package-level variable *)
| RCurve (r : request)                     (* primeFieldParamsMatch: append into spare capacity, compare *)
| RSharedAppend (g : string) (ys : bytes)  (* append to the slice of a COPY of a shared description value *)
| RDes                                     (* generateSubkeys: feistelBoxOnce.Do(initFeistelBox), then the table is read *)
| RWrite (g : string) (v : bytes).         (* any other write site: package-level variable g := v *)

Inductive panswer :=
| AValue (v : option bytes)
| AMatch (b : option bool)
| AJoined (v : option bytes)
| ABox (t : bytes).

Fixpoint lookup {A} (k : string) (l : list (string * A)) : option A :=
  match l with
  | [] => None
  | (k', v) :: r => if String.eqb k k' then Some v else lookup k r
  end.

Fixpoint store {A} (k : string) (v : A) (l : list (string * A)) : list (string * A) :=
  match l with
  | [] => [(k, v)]
  | (k', v') :: r => if String.eqb k k' then (k, v) :: r else (k', v') :: store k v r
  end.

(* box: the table initFeistelBox computes (a constant of the program; a parameter here) *)
Definition do_prequest (box : bytes) (st : pstate) (r : prequest) : pstate * panswer :=
  match r with
  | RRead g => (st, AValue (lookup g (ps_vars st)))
  | RCurve q =>
      let (c', o) := do_request (ps_curves st) q in
      ({| ps_vars := ps_vars st; ps_curves := c'; ps_shared := ps_shared st; ps_once := ps_once st; ps_box := ps_box st |}, AMatch o)
  | RSharedAppend g ys =>
      match lookup g (ps_shared st) with
      | None => (st, AJoined None)
      | Some s =>
          let (s', joined) := go_append s ys in
          ({| ps_vars := ps_vars st; ps_curves := ps_curves st; ps_shared := store g s' (ps_shared st);
              ps_once := ps_once st; ps_box := ps_box st |}, AJoined (Some joined))
      end
  | RDes =>
      if ps_once st then (st, ABox (ps_box st))
      else ({| ps_vars := ps_vars st; ps_curves := ps_curves st; ps_shared := ps_shared st; ps_once := true; ps_box := box |}, ABox box)
  | RWrite g v =>
      ({| ps_vars := store g v (ps_vars st); ps_curves := ps_curves st; ps_shared := ps_shared st;
          ps_once := ps_once st; ps_box := ps_box st |}, AValue None)
  end.

(* describing one input: requests chosen adaptively from the answers so far, then a description *)
Inductive prog :=
| Done (description : bytes)
| Ask (r : prequest) (k : panswer -> prog).

Fixpoint run (box : bytes) (p : prog) (st : pstate) : pstate * bytes :=
  match p with
  | Done d => (st, d)
  | Ask r k => let (st', a) := do_prequest box st r in run box (k a) st'
  end.

(* the program respects an inventory: it writes (RWrite) only variables that have a mutating
   site outside their classification *)
Fixpoint respects (w : string -> bool) (p : prog) : Prop :=
  match p with
  | Done _ => True
  | Ask r k => (match r with RWrite g _ => w g = true | _ => True end) /\ forall a, respects w (k a)
  end.

(* the process after a history of inputs (describe: input -> its program) *)
Definition state_after (box : bytes) (describe : bytes -> prog) (h : list bytes) (init : pstate) : pstate :=
  fold_left (fun st x => fst (run box (describe x) st)) h init.
Definition description (box : bytes) (describe : bytes -> prog) (st : pstate) (x : bytes) : bytes :=
  snd (run box (describe x) st).

(* what an inspection can observe of the process state *)
Definition shared_view (l : list (string * gslice)) : list (string * bytes) :=
  map (fun e => (fst e, visible (snd e))) l.
Definition pview (st : pstate) : list (string * bytes) * list (bytes * bytes * bytes) * list (string * bytes) :=
  (ps_vars st, view (ps_curves st), shared_view (ps_shared st)).
Definition pstate_ok (box : bytes) (st : pstate) : bool :=
  state_ok (ps_curves st) && forallb (fun e => gslice_ok (snd e)) (ps_shared st)
  && (if ps_once st then bytes_eqb (ps_box st) box else true).

(* the shared description values of the running code: nil slices *)
Definition shared_nil (t : list (string * (nat * nat) * (nat * nat))) : bool :=
  forallb (fun r => match r with (_, (l1, c1), (l2, c2)) => Nat.eqb l1 0 && Nat.eqb c1 0 && Nat.eqb l2 0 && Nat.eqb c2 0 end) t.

(* the pre-repair shape of a "remember the last row" shortcut (seeded change): Inspect reads
   lastMatched, prefers that row when it claims the input, and records the row that matched.
   claims: the rows that claim the input, in table order (a row = its description) *)
Definition hinted_inspect (claims : list bytes) : prog :=
  Ask (RRead "internal/file.lastMatched"%string)
      (fun a =>
         let hint := match a with AValue (Some h) => h | _ => [] end in
         let chosen := if existsb (bytes_eqb hint) claims then hint else hd [] claims in
         Ask (RWrite "internal/file.lastMatched"%string chosen) (fun _ => Done chosen)).
