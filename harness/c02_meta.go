package main

// C02 — container metadata varied on its own: the cipher / KDF fields of the OpenSSH private key
// format (PROTOCOL.key; sshkey.c sshkey_private_to_blob2 for the authentication tag of the AEAD
// ciphers), the Encryption / Key-Derivation / Argon2-* header lines of PuTTY's PPK (PuTTY manual,
// appendix C), and key type labels that disagree with the type of the public key blob next to them.

import (
	"crypto/ed25519"
	"encoding/base64"
	"encoding/pem"
	"fmt"
	"os"
	"strings"

	"golang.org/x/crypto/ssh"
)

// sample runs f, takes the instances it registered out of the list that feeds the end-to-end and
// malformed streams (those multiply every instance) and sends every every-th through file.Inspect.
func (g *c02) sample(every int, f func()) {
	n := len(g.valid)
	f()
	added := append([]emitted{}, g.valid[n:]...)
	g.valid = g.valid[:n]
	for i, e := range added {
		if every > 0 && i%every == 0 {
			g.e2e(e)
		}
	}
}

// optional: the container is not one its own tools would write (a label contradicts the key next to
// it); a reader may refuse it, but what it does say has to be true of the key that is there
func optional(spec Sx) Sx { return append(append(SL{}, spec.(SL)...), I(1)) }

// ---------- OpenSSH private key: cipher, KDF, rounds, authentication tag ----------

// the ciphers of openssh cipher.c that sshkey.c accepts for a private key, with their tag length
var osshCiphers = []struct {
	name  string
	block int
	tag   int
}{
	{"3des-cbc", 8, 0}, {"aes128-cbc", 16, 0}, {"aes192-cbc", 16, 0}, {"aes256-cbc", 16, 0},
	{"aes128-ctr", 16, 0}, {"aes192-ctr", 16, 0}, {"aes256-ctr", 16, 0},
	{"aes128-gcm@openssh.com", 16, 16}, {"aes256-gcm@openssh.com", 16, 16}, {"chacha20-poly1305@openssh.com", 8, 16},
}

// osshTagLen: the authentication tag sshkey.c writes after the encrypted block
func osshTagLen(cipher string) int {
	for _, c := range osshCiphers {
		if c.name == cipher {
			return c.tag
		}
	}
	return 0
}

type sshPub struct {
	typ  string
	blob []byte
	spec func(meta []kv) Sx // what the key is, with the container's metadata
}

// sshPubs: one public key blob of every kind an OpenSSH / PuTTY container carries
func (g *c02) sshPubs() []sshPub {
	r := g.c.R
	k := genRSA(r, 1024+r.Intn(2048), 4)
	d := genDSA(r, 1024, 4)
	e := genEC(r, []int{256, 384, 521}[r.Intn(3)])
	ed := r.Bytes(32)
	return []sshPub{
		{typ: "ssh-rsa", blob: blobRSA(k), spec: func(m []kv) Sx { return specSx("RSA", k.N, "", "", m, nil) }},
		{typ: "ssh-dss", blob: blobDSA(d), spec: func(m []kv) Sx { return specSx("DSA", d.P, "", "", m, nil) }},
		{typ: "ecdsa-sha2-" + e.nid, blob: blobEC(e), spec: func(m []kv) Sx { return specSx("ECDSA", nil, "Curve", e.nist, m, nil) }},
		{typ: "ssh-ed25519", blob: blobEd25519(ed), spec: func(m []kv) Sx { return specSx("EdDSA", nil, "Curve", "Ed25519", m, nil) }},
	}
}

func (g *c02) osshMeta() {
	r := g.c.R
	// S3: keys written by ssh-keygen -Z <AEAD cipher> (OpenSSH 9.2; passphrase "secret")
	for _, f := range []struct {
		file, typ, alg, curve, cipher, rounds string
	}{
		{"k_chacha", "ssh-ed25519", "EdDSA", "Ed25519", "chacha20-poly1305@openssh.com", "7"},
		{"k_gcm", "ecdsa-sha2-nistp256", "ECDSA", "P-256", "aes256-gcm@openssh.com", "5"},
		{"k_gcm128", "ssh-ed25519", "EdDSA", "Ed25519", "aes128-gcm@openssh.com", "3"},
	} {
		b, err := fixturesFS.ReadFile("testdata/c02/" + f.file)
		if err != nil {
			fmt.Fprintln(os.Stderr, "c02: embedded fixture:", err)
			continue
		}
		if blk, _ := pem.Decode(b); blk != nil {
			g.sample(1, func() {
				g.ossh("corpus-S3-"+f.file, blk.Bytes, specSx(f.alg, nil, "Curve", f.curve,
					[]kv{{"Type", f.typ}, {"Cipher", f.cipher}, {"KDF", "bcrypt"}, {"KDF rounds", f.rounds}}, nil))
			})
		}
	}
	rounds := []uint32{1, 2, 16, 24, 255, 256, 65535, 65536, 1<<31 - 1, 1 << 31, 1<<32 - 2, 1<<32 - 1}
	salts := []int{16, 16, 0, 1, 15, 17, 32, 64, 255}
	reps := 1
	if g.c.Thorough() {
		reps = 12
	}
	n := 0
	g.sample(7, func() {
		for rep := 0; rep < reps; rep++ {
			pubs := g.sshPubs()
			for _, c := range osshCiphers {
				for j := 0; j < 3; j++ {
					n++
					p := pubs[n%len(pubs)]
					rd := rounds[n%len(rounds)]
					if n%5 == 0 {
						rd = uint32(r.U64())
					}
					opts := kdfOpts(r.Bytes(salts[n%len(salts)]), rd)
					priv := r.Bytes(c.block * (4 + r.Intn(40)))
					der := append(opensshPriv(c.name, "bcrypt", opts, p.blob, priv), r.Bytes(c.tag)...)
					g.ossh(fmt.Sprintf("meta-%s", c.name), der,
						p.spec([]kv{{"Type", p.typ}, {"Cipher", c.name}, {"KDF", "bcrypt"}, {"KDF rounds", fmt.Sprint(rd)}}))
				}
				// the tag is exactly as long as the cipher calls for: other lengths are not that format
				p := pubs[n%len(pubs)]
				for _, extra := range []int{1, 8, 15, 16, 17, 32} {
					if extra == c.tag {
						continue
					}
					der := append(opensshPriv(c.name, "bcrypt", kdfOpts(r.Bytes(16), 16), p.blob, r.Bytes(c.block*6)), r.Bytes(extra)...)
					g.ossh(fmt.Sprintf("meta-tag%d-%s", extra, c.name), der, noSpec)
				}
				if c.tag > 0 {
					g.ossh("meta-tag0-"+c.name, opensshPriv(c.name, "bcrypt", kdfOpts(r.Bytes(16), 16), p.blob, r.Bytes(c.block*6)), noSpec)
				}
			}
			// in the clear: cipher none, KDF none, no options, no tag
			for _, p := range pubs {
				g.ossh("meta-none", opensshPriv("none", "none", nil, p.blob, r.Bytes(8*(8+r.Intn(20)))),
					p.spec([]kv{{"Type", p.typ}, absent("Cipher"), absent("KDF"), absent("KDF rounds")}))
				g.ossh("meta-none-tag16", append(opensshPriv("none", "none", nil, p.blob, r.Bytes(64)), r.Bytes(16)...), noSpec)
			}
			// names OpenSSH does not know, other KDFs, options that are not bcrypt's: nothing is claimed
			p := pubs[3]
			for _, v := range [][2]string{{"twofish-cbc", "bcrypt"}, {"AES256-CTR", "bcrypt"}, {"NONE", "none"}, {"", "bcrypt"}, {"aes256-ctr", "none"},
				{"aes256-ctr", ""}, {"aes256-ctr", "pbkdf2"}, {"none", "bcrypt"}, {"aes256-gcm@openssh.com ", "bcrypt"}, {"chacha20-poly1305", "bcrypt"}} {
				g.ossh("meta-other-names", opensshPriv(v[0], v[1], kdfOpts(r.Bytes(16), 16), p.blob, r.Bytes(64)), noSpec)
				g.ossh("meta-other-names-tag", append(opensshPriv(v[0], v[1], kdfOpts(r.Bytes(16), 16), p.blob, r.Bytes(64)), r.Bytes(16)...), noSpec)
			}
		}
	})
}

// ---------- PuTTY PPK: Encryption, Key-Derivation, Argon2-* ----------

func (g *c02) ppkMetaFamily() {
	r := g.c.R
	bounds := []int{1, 2, 255, 256, 65535, 65536, 1<<31 - 1, 1 << 31, 1<<32 - 2, 1<<32 - 1}
	flavors := []string{"Argon2id", "Argon2i", "Argon2d"}
	comments := []string{"a  b   c", "key: value", "Comment: x", "Encryption: none", "schlüssel für 日本 🔑", "rsa-key-20240101", "#!/bin/sh", strings.Repeat("long comment ", 40) + "end", ""}
	ed448 := blobEd448(r.Bytes(57))
	reps := 1
	if g.c.Thorough() {
		reps = 10
	}
	n := 0
	g.sample(9, func() {
		for rep := 0; rep < reps; rep++ {
			pubs := append(g.sshPubs(), sshPub{typ: "ssh-ed448", blob: ed448, spec: func(m []kv) Sx { return specSx("EdDSA", nil, "Curve", "Ed448", m, nil) }})
			for _, fl := range flavors {
				for i := range bounds {
					n++
					p := pubs[n%len(pubs)]
					mem, passes, par := bounds[i], bounds[(i+3+n)%len(bounds)], bounds[(i+7+2*n)%len(bounds)]
					if n%4 == 0 {
						mem, passes, par = 8192, 13+r.Intn(30), 1 // what PuTTY writes by default
					}
					pc := comments[n%len(comments)]
					cm := kv{"Comment", pc}
					if pc == "" {
						cm = absent("Comment")
					}
					pm := ppkMeta{version: 3, typ: p.typ, encryption: "aes256-cbc", comment: pc, kdf: fl, mem: mem, passes: passes, par: par, salt: r.Bytes(16)}
					g.ppk("meta-v3-"+fl, ppkText(pm, p.blob, r.Bytes(16*(4+r.Intn(20))), r.Bytes(32)),
						p.spec([]kv{{"Type", p.typ}, cm, {"Encryption", "aes256-cbc"},
							{"KDF", fmt.Sprintf("%s (%d passes, %d KiB, parallelism: %d)", fl, passes, mem, par)}}))
				}
			}
			for i, pc := range comments {
				p := pubs[(i+rep)%len(pubs)]
				cm := kv{"Comment", pc}
				if pc == "" {
					cm = absent("Comment")
				}
				for _, ver := range []int{2, 3} {
					g.ppk(fmt.Sprintf("meta-v%d-none", ver), ppkText(ppkMeta{version: ver, typ: p.typ, encryption: "none", comment: pc}, p.blob, r.Bytes(40+r.Intn(80)), r.Bytes(map[int]int{2: 20, 3: 32}[ver])),
						p.spec([]kv{{"Type", p.typ}, cm, {"Encryption", "none"}, absent("KDF")}))
				}
				g.ppk("meta-v2-aes", ppkText(ppkMeta{version: 2, typ: p.typ, encryption: "aes256-cbc", comment: pc}, p.blob, r.Bytes(16*(4+r.Intn(20))), r.Bytes(20)),
					p.spec([]kv{{"Type", p.typ}, cm, {"Encryption", "aes256-cbc"}, absent("KDF")}))
			}
			// header values PuTTY never writes: nothing is claimed
			p := pubs[3]
			for _, v := range [][2]string{{"aes128-cbc", "Argon2id"}, {"AES256-CBC", "Argon2id"}, {"aes256-cbc", "argon2id"}, {"aes256-cbc", "Argon2x"}, {"aes256-cbc", "bcrypt"}, {"none", "Argon2id"}, {"aes256-cbc", ""}} {
				pm := ppkMeta{version: 3, typ: p.typ, encryption: v[0], comment: "c", kdf: v[1], mem: 8192, passes: 13, par: 1, salt: r.Bytes(16)}
				text := ppkText(pm, p.blob, r.Bytes(64), r.Bytes(32))
				if v[0] == "none" { // ppkText leaves the Argon2 lines out for an unencrypted key: put them in
					text = []byte(strings.Replace(string(text), "Private-Lines:", "Key-Derivation: Argon2id\nArgon2-Memory: 8192\nArgon2-Passes: 13\nArgon2-Parallelism: 1\nArgon2-Salt: 00112233445566778899aabbccddeeff\nPrivate-Lines:", 1))
				}
				g.ppk("meta-other-values", text, noSpec)
			}
			for _, v := range []string{"0", "4294967296", "18446744073709551616", "-1", "8192 ", "0x2000", "8192KiB", ""} {
				pm := ppkMeta{version: 3, typ: p.typ, encryption: "aes256-cbc", comment: "c", kdf: "Argon2id", mem: 424242, passes: 13, par: 1, salt: r.Bytes(16)}
				text := strings.Replace(string(ppkText(pm, p.blob, r.Bytes(64), r.Bytes(32))), "Argon2-Memory: 424242", "Argon2-Memory: "+v, 1)
				g.ppk("meta-memory-text", []byte(text), noSpec)
			}
		}
	})
}

// K2 (third party, putty-go ppk.InsecureParse): header values are trimmed, PuTTY keeps the line as it is
func (g *c02) ppkCommentBlanks() {
	r := g.c.R
	g.sample(0, func() {
		pubs := g.sshPubs()
		for i, pc := range []string{" leading blank", "trailing blank ", "  both ends \t ", "   "} {
			p := pubs[i%len(pubs)]
			g.ppk("comment-ws", ppkText(ppkMeta{version: 3, typ: p.typ, encryption: "none", comment: pc}, p.blob, r.Bytes(64), r.Bytes(32)),
				p.spec([]kv{{"Type", p.typ}, {"Comment", pc}, {"Encryption", "none"}}))
		}
	})
}

// ---------- the label next to a key and the key ----------

func (g *c02) labelMismatch() {
	r := g.c.R
	reps := 1
	if g.c.Thorough() {
		reps = 8
	}
	// not through file.Inspect: which reader a file with an unusual first word goes to is C07's
	g.sample(0, func() {
		for rep := 0; rep < reps; rep++ {
			pubs := g.sshPubs()
			labels := []string{"ssh-rsa", "ssh-dss", "ecdsa-sha2-nistp256", "ecdsa-sha2-nistp384", "ecdsa-sha2-nistp521", "ssh-ed25519", "ssh-ed448",
				"rsa-sha2-256", "ssh-rsa-cert-v01@openssh.com", "sk-ssh-ed25519@openssh.com"}
			for _, p := range pubs {
				for _, l := range labels {
					if l == p.typ {
						continue
					}
					comment := genComment(r, 1)
					cm := kv{"Comment", comment}
					if comment == "" {
						cm = absent("Comment")
					}
					// OpenSSH public key line "<label> <base64 blob> <comment>"
					g.sshline("label-"+l, sshPubLine(l, p.blob, comment), optional(p.spec([]kv{{"Type", p.typ}, cm})))
					// known_hosts line
					line := "host.example " + l + " " + base64.StdEncoding.EncodeToString(p.blob)
					if comment != "" {
						line += " " + comment
					}
					g.knownhosts("label-"+l, []byte(line), optional(p.spec([]kv{{"Hosts", "host.example"}, {"Type", p.typ}, cm})))
					// PPK header "PuTTY-User-Key-File-3: <label>"
					if l == "ssh-rsa" || l == "ssh-dss" || strings.HasPrefix(l, "ecdsa-") || l == "ssh-ed25519" || l == "ssh-ed448" {
						g.ppk("label-"+l, ppkText(ppkMeta{version: 3, typ: l, encryption: "none", comment: comment}, p.blob, r.Bytes(64), r.Bytes(32)),
							optional(p.spec([]kv{{"Type", p.typ}, cm, {"Encryption", "none"}})))
					}
				}
				// OpenSSH private key in the clear: the private section names another key type than the public blob
				for _, l := range []string{"ssh-rsa", "ssh-ed25519"} {
					if l != p.typ {
						g.ossh("label-inner-"+l, opensshPriv("none", "none", nil, p.blob, derCat(sshU32(9), sshU32(9), sshStr([]byte(l)), sshStr(r.Bytes(32)), sshStr([]byte("c")), []byte{1, 2, 3})), noSpec)
					}
				}
			}
			// an ECDSA blob whose own two curve names disagree ("ecdsa-sha2-nistp256" over "nistp384")
			e := genEC(r, 256)
			bad := derCat(sshStr([]byte("ecdsa-sha2-nistp256")), sshStr([]byte("nistp384")), sshStr(e.point))
			g.sshline("label-curve-in-blob", sshPubLine("ecdsa-sha2-nistp256", bad, "c"), noSpec)
			g.ppk("label-curve-in-blob", ppkText(ppkMeta{version: 3, typ: "ecdsa-sha2-nistp256", encryption: "none", comment: "c"}, bad, r.Bytes(40), r.Bytes(32)), noSpec)
		}
	})
}

// ---------- OpenSSH certificates (id_*-cert.pub): the stored type label is the certificate's ----------

func (g *c02) sshCerts() {
	r := g.c.R
	ca, err := ssh.NewSignerFromKey(ed25519.NewKeyFromSeed(r.Bytes(32)))
	if err != nil {
		return
	}
	for i, p := range g.sshPubs() {
		pk, err := ssh.ParsePublicKey(p.blob)
		if err != nil {
			continue
		}
		for j, ct := range []uint32{ssh.UserCert, ssh.HostCert} {
			cert := &ssh.Certificate{Key: pk, Serial: uint64(100*i + j), CertType: ct, KeyId: "key-" + p.typ,
				ValidPrincipals: []string{"root", "host.example"}, ValidAfter: 0, ValidBefore: ssh.CertTimeInfinity}
			if err := cert.SignCert(r, ca); err != nil {
				continue
			}
			comment := []string{"", "user@host"}[j]
			line := strings.TrimSuffix(string(ssh.MarshalAuthorizedKey(cert)), "\n")
			meta := SL{SL{S("Type"), S(cert.Type())}}
			if comment != "" {
				line += " " + comment
				meta = append(meta, SL{S("Comment"), S(comment)})
			} else {
				meta = append(meta, SL{S("Comment")})
			}
			g.sshline(fmt.Sprintf("cert-%s-%d", p.typ, j), []byte(line+"\n"), SL{I(7), meta})
		}
	}
}

// ---------- known_hosts: host pattern lists and markers ----------

// sshd(8) SSH_KNOWN_HOSTS FILE FORMAT: an optional marker (@cert-authority, @revoked), a comma-separated
// pattern list ('*' and '?' wildcards, '!' negation, [host]:port, or one hashed name), key type, key, comment
func (g *c02) hostPatterns() {
	r := g.c.R
	lists := []string{
		"host.example",
		"!bad.example,*.example",
		"h?st-??.example.org",
		"[2001:db8::1]:2222,[host.example]:22",
		"192.0.2.1,192.0.2.2,192.0.2.3,198.51.100.0,203.0.113.7,a,b,c,d,e,f,g",
		"xn--mnchen-3ya.example,münchen.example",
		"*",
		"|1|F1E1KeoE/eEWhi10WpGv4OdiO6Y=|3988QV0VE8wmZL7suNrYQLITLCg=",
		"UPPER.Example.ORG,host.example.",
	}
	g.sample(4, func() {
		pubs := g.sshPubs()
		for i, hosts := range lists {
			for j, marker := range []string{"", "@cert-authority ", "@revoked "} {
				p := pubs[(i+j)%len(pubs)]
				comment := genComment(r, 1)
				cm := kv{"Comment", comment}
				line := marker + hosts + " " + p.typ + " " + base64.StdEncoding.EncodeToString(p.blob)
				if comment == "" {
					cm = absent("Comment")
				} else {
					line += " " + comment
				}
				g.knownhosts(fmt.Sprintf("hosts-%d-m%d", i, j), []byte(line),
					p.spec([]kv{{"Hosts", strings.ReplaceAll(hosts, ",", ", ")}, {"Type", p.typ}, cm}))
			}
		}
	})
	// files of several lines: the same key under several names with different comments (or none), other
	// keys in between, in every rotation - each entry has to be described from its own line
	pubs := g.sshPubs()
	for i := range pubs {
		p, q := pubs[i], pubs[(i+1)%len(pubs)]
		type ent struct {
			p       sshPub
			hosts   string
			comment string
		}
		ents := []ent{{p, "first.example", "alpha"}, {q, "other.example,10.0.0.1", "between"}, {p, "second.example", ""},
			{p, "[third.example]:2222", "omega"}, {q, "other2.example", ""}}
		for rot := 0; rot < len(ents); rot++ {
			var lines [][]byte
			var specs []Sx
			for k := range ents {
				e := ents[(k+rot)%len(ents)]
				line := e.hosts + " " + e.p.typ + " " + base64.StdEncoding.EncodeToString(e.p.blob)
				cm := kv{"Comment", e.comment}
				if e.comment == "" {
					cm = absent("Comment")
				} else {
					line += " " + e.comment
				}
				lines = append(lines, []byte(line))
				specs = append(specs, e.p.spec([]kv{{"Hosts", strings.ReplaceAll(e.hosts, ",", ", ")}, {"Type", e.p.typ}, cm}))
			}
			g.khfile(fmt.Sprintf("repeat-%d", rot), lines, specs)
		}
	}
}
