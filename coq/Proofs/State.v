(* Proofs for C09. *)
From WI Require Import Lib.Base Model.State.
From WI Require gen.Scan.
From Coq Require Import Lia.

Lemma globals_benign_now : globals_benign gen.Scan.globals = true.
Proof. vm_compute. reflexivity. Qed.

Lemma take_length_le : forall {A} n (l : list A), (n <= length l)%nat -> length (take n l) = n.
Proof.
  induction n as [|n IH]; intros l H; [reflexivity|].
  destruct l as [|x l]; cbn [take length] in *; [lia|]. rewrite IH; lia.
Qed.

Lemma take_app_exact : forall {A} (a b : list A), take (length a) (a ++ b) = a.
Proof. induction a as [|x a IH]; intros b; cbn [take length app]; [reflexivity|]. now rewrite IH. Qed.

(* Go's append into spare capacity leaves the visible part of the shared slice unchanged *)
Lemma go_append_visible : forall s ys, gslice_ok s = true ->
  visible (fst (go_append s ys)) = visible s /\ snd (go_append s ys) = visible s ++ ys
  /\ gslice_ok (fst (go_append s ys)) = true.
Proof.
  intros s ys Hok. unfold gslice_ok, gcap in Hok. apply Nat.leb_le in Hok.
  unfold go_append, gcap. destruct (Nat.leb (slen s + length ys) (length (backing s))) eqn:E; cbn [fst snd].
  - apply Nat.leb_le in E. split; [|split; [reflexivity|]].
    + unfold visible. cbn [backing slen].
      pose proof (take_length_le (slen s) (backing s) Hok) as Hl.
      rewrite <- Hl at 1. apply take_app_exact.
    + unfold gslice_ok, gcap. cbn [backing slen]. apply Nat.leb_le.
      rewrite app_length. rewrite (take_length_le _ _ Hok). lia.
  - split; [reflexivity|split; [reflexivity|]]. unfold gslice_ok, gcap. now apply Nat.leb_le.
Qed.

Lemma match_entry_inv : forall e tail, gslice_ok (ce_basex e) = true ->
  let e' := fst (match_entry e tail) in
  ce_name e' = ce_name e /\ visible (ce_basex e') = visible (ce_basex e) /\ ce_basey e' = ce_basey e
  /\ gslice_ok (ce_basex e') = true
  /\ snd (match_entry e tail) = bytes_eqb (visible (ce_basex e) ++ ce_basey e) tail.
Proof.
  intros e tail Hok. unfold match_entry.
  destruct (go_append_visible (ce_basex e) (ce_basey e) Hok) as [Hv [Hs Hk]].
  destruct (go_append (ce_basex e) (ce_basey e)) as [bx' joined]. cbn [fst snd] in *.
  subst joined. repeat split; assumption.
Qed.

Lemma view_update_nth : forall st k e e', nth_error st k = Some e ->
  ce_name e' = ce_name e -> visible (ce_basex e') = visible (ce_basex e) -> ce_basey e' = ce_basey e ->
  view (update_nth k (fun _ => e') st) = view st.
Proof.
  induction st as [|x st IH]; intros k e e' Hn H1 H2 H3; destruct k; cbn in *; try discriminate.
  - inversion Hn; subst. now rewrite H1, H2, H3.
  - f_equal. eapply IH; eauto.
Qed.

Lemma state_ok_update_nth : forall st k e', state_ok st = true -> gslice_ok (ce_basex e') = true ->
  state_ok (update_nth k (fun _ => e') st) = true.
Proof.
  induction st as [|x st IH]; intros k e' Hs He; destruct k; cbn in *; try reflexivity.
  - apply andb_true_iff in Hs as [_ Hs]. now rewrite He, Hs.
  - apply andb_true_iff in Hs as [Hx Hs]. rewrite Hx. now apply IH.
Qed.

Lemma state_ok_nth : forall st k e, state_ok st = true -> nth_error st k = Some e -> gslice_ok (ce_basex e) = true.
Proof.
  induction st as [|x st IH]; intros k e Hs Hn; destruct k; cbn in *; try discriminate.
  - apply andb_true_iff in Hs as [Hx _]. now inversion Hn; subst.
  - apply andb_true_iff in Hs as [_ Hs]. eapply IH; eauto.
Qed.

(* the answer to a request depends only on the view *)
Definition answer (v : list (bytes * bytes * bytes)) (r : request) : option bool :=
  match nth_error v (fst r) with
  | None => None
  | Some (_, bx, by_) => Some (bytes_eqb (bx ++ by_) (snd r))
  end.

Lemma do_request_inv : forall st r, state_ok st = true ->
  view (fst (do_request st r)) = view st /\ state_ok (fst (do_request st r)) = true
  /\ snd (do_request st r) = answer (view st) r.
Proof.
  intros st r Hs. unfold do_request, answer.
  unfold view at 3. rewrite nth_error_map.
  destruct (nth_error st (fst r)) as [e|] eqn:En; cbn [option_map fst snd].
  - pose proof (state_ok_nth _ _ _ Hs En) as He.
    destruct (match_entry_inv e (snd r) He) as [H1 [H2 [H3 [H4 H5]]]].
    destruct (match_entry e (snd r)) as [e' b]. cbn [fst snd] in *.
    split; [eapply view_update_nth; eauto|]. split; [now apply state_ok_update_nth|]. now rewrite H5.
  - auto.
Qed.

Lemma step_inv : forall rs st, state_ok st = true ->
  view (fst (step st rs)) = view st /\ state_ok (fst (step st rs)) = true
  /\ snd (step st rs) = map (answer (view st)) rs.
Proof.
  induction rs as [|r rs IH]; intros st Hs; cbn [step map]; [auto|].
  destruct (do_request_inv st r Hs) as [Hv [Hk Ha]].
  destruct (do_request st r) as [st1 o]. cbn [fst snd] in *.
  destruct (IH st1 Hk) as [Hv2 [Hk2 Ha2]].
  destruct (step st1 rs) as [st2 os]. cbn [fst snd] in *.
  split; [congruence|]. split; [assumption|]. rewrite Ha, Ha2, Hv. reflexivity.
Qed.

(* the invariant, over every reachable state *)
Theorem history_invariant : forall init hist, state_ok init = true ->
  let st := fold_left (fun s rs => fst (step s rs)) hist init in
  view st = view init /\ state_ok st = true.
Proof.
  intros init hist. revert init. induction hist as [|rs hist IH]; intros init Hs; cbn [fold_left]; [auto|].
  destruct (step_inv rs init Hs) as [Hv [Hk _]].
  destruct (IH _ Hk) as [Hv2 Hk2]. split; [congruence|assumption].
Qed.

(* results do not depend on what was inspected before *)
Theorem history_independent : forall init hist rs, state_ok init = true ->
  snd (step (fold_left (fun s x => fst (step s x)) hist init) rs) = snd (step init rs).
Proof.
  intros init hist rs Hs.
  destruct (history_invariant init hist Hs) as [Hv Hk].
  destruct (step_inv rs _ Hk) as [_ [_ Ha]]. destruct (step_inv rs init Hs) as [_ [_ Hb]].
  rewrite Ha, Hb, Hv. reflexivity.
Qed.

(* non-vacuity: a table whose slice has spare capacity really is written to, invisibly *)
Example spare_capacity_written :
  let e := {| ce_name := [80]; ce_basex := {| backing := [1; 2; 0; 0]; slen := 2 |}; ce_basey := [7; 8] |} in
  state_ok [e] = true /\
  backing (ce_basex (hd e (fst (step [e] [(0%nat, [1; 2; 7; 8])])))) = [1; 2; 7; 8] /\
  snd (step [e] [(0%nat, [1; 2; 7; 8])]) = [Some true].
Proof. vm_compute. repeat split. Qed.

(* contrast: had the code appended to a slice and kept the LONGER slice in the table (visible
   part grows), results would depend on history *)
Definition bad_match (e : centry) (tail : bytes) : centry * bool :=
  let joined := visible (ce_basex e) ++ ce_basey e in
  ({| ce_name := ce_name e; ce_basex := {| backing := joined; slen := length joined |}; ce_basey := ce_basey e |},
   bytes_eqb joined tail).

Example visible_growth_would_break_it : exists e t,
  snd (bad_match e t) <> snd (bad_match (fst (bad_match e t)) t).
Proof.
  exists {| ce_name := []; ce_basex := {| backing := [1]; slen := 1 |}; ce_basey := [2] |}, [1; 2].
  vm_compute. discriminate.
Qed.
