#!/usr/bin/env python3
"""tools/keep_seed.py <seed-out-dir> <k> <id> <pkgdir> <run-regex> <props,comma>
Confirms a seeded change in a scratch worktree of /repo: the patch applies, the project builds,
the repository's tests pass with it, the demonstration FAILS with it and PASSES without it;
then stores it as /verif/seeded/<id>/ (patch.diff, demo, meta.json incl. what the checks say)."""
import sys, os, subprocess, tempfile, shutil, json
out, k, sid, pkgdir, regex, props = sys.argv[1:7]
env = dict(os.environ, GOFLAGS="-mod=mod", GOPROXY="off", GOSUMDB="off", GOTOOLCHAIN="local")
def sh(cmd, cwd=None, e=env):
    p = subprocess.run(cmd, cwd=cwd, env=e, shell=True, stdout=subprocess.PIPE, stderr=subprocess.STDOUT, text=True)
    return p.returncode, p.stdout
wt = tempfile.mkdtemp(prefix="seedkeep-", dir="/var/tmp"); os.rmdir(wt)
sh("git -C /repo worktree add --detach -q %s HEAD" % wt)
ran = []
try:
    demo = [f for f in os.listdir(out) if f.startswith("demo%s" % k) and f.endswith(".go")][0]
    dst = os.path.join(wt, pkgdir, "seed_" + demo if demo.endswith("_test.go") else demo)
    shutil.copy(os.path.join(out, demo), dst)
    cmd = "go test -vet=off -count=1 -run '%s' ./%s/" % (regex, pkgdir)
    rc0, o0 = sh(cmd, cwd=wt); ran.append({"cmd": cmd + "   (pristine)", "rc": rc0})
    rc, o = sh("git apply %s || git apply -3 %s || patch -p1 -F3 < %s" % ((os.path.join(out, "patch%s.diff" % k),)*3), cwd=wt); assert rc == 0, o
    rcb, ob = sh("go build ./... && go build -tags verif ./...", cwd=wt); ran.append({"cmd": "go build ./... (+ -tags verif)", "rc": rcb})
    rc1, o1 = sh(cmd, cwd=wt); ran.append({"cmd": cmd + "   (with patch)", "rc": rc1})
    os.remove(dst)
    rct, ot = sh("go test -vet=off -count=1 ./... 2>&1 | grep -v '^ok\\|no test files'", cwd=wt); ran.append({"cmd": "go test -vet=off -count=1 ./...  (with patch, unedited suite)", "failing_output": ot.strip()})
    ok = rc0 == 0 and rcb == 0 and rc1 != 0 and ot.strip() == ""
    print("pristine demo rc=%d, build rc=%d, patched demo rc=%d, suite failures=%r -> %s" % (rc0, rcb, rc1, ot.strip()[:200], "CONFIRMED" if ok else "NOT CONFIRMED"))
    if not ok:
        sys.exit(1)
finally:
    sh("git -C /repo worktree remove --force %s" % wt); shutil.rmtree(wt, ignore_errors=True)
V = os.path.dirname(os.path.dirname(os.path.abspath(__file__)))
d = os.path.join(V, "seeded", sid); os.makedirs(d, exist_ok=True)
shutil.copy(os.path.join(out, "patch%s.diff" % k), os.path.join(d, "patch.diff"))
shutil.copy(os.path.join(out, demo), os.path.join(d, demo))
meta = json.load(open(os.path.join(out, "meta%s.json" % k)))
checks = {}
for p in props.split(","):
    rc, o = sh("python3 %s/tools/try_seed.py %s %s --skip-tests --private" % (V, os.path.join(d, "patch.diff"), p))
    line = [l for l in o.splitlines() if l.startswith(p + " rc=")]
    checks[p] = line[0] if line else o[-300:]
    print(checks[p][:200])
json.dump({"id": sid, "breaks_property": meta.get("property"), "summary": meta.get("summary"),
           "needs_to_manifest": meta.get("needs_to_manifest"), "files_changed": meta.get("files_changed"),
           "demo": {"file": demo, "place_in": pkgdir, "run": cmd},
           "confirmed_by_me": ran, "checks_against_it": checks,
           "author_commands": meta.get("commands_run")}, open(os.path.join(d, "meta.json"), "w"), indent=1)
print("stored", d)
