(* The printed form of a generic ASN.1 dump (C13 end to end): Model/Der.v's dump sent through
   Model/Render.v's printInfo.  One line per element, in document order, indented by two blanks
   per nesting level below the "ASN.1 data" line. *)
From WI Require Import Lib.Base Lib.Info Model.Der Model.Render Proofs.Der Proofs.Render.
From Coq Require Import Lia.
Open Scope nat_scope.

(* document order of the elements with their nesting depth *)
Fixpoint tlv_depths (d : nat) (t : tlv) : list nat :=
  match t with
  | Prim _ _ _ => [d]
  | Cons _ _ ch => d :: flat_map (tlv_depths (S d)) ch
  end.

Fixpoint tlv_nodes (t : tlv) : nat :=
  match t with
  | Prim _ _ _ => 1
  | Cons _ _ ch => S (fold_right (fun c n => tlv_nodes c + n) 0 ch)
  end.
Definition forest_nodes (ts : list tlv) : nat := fold_right (fun c n => tlv_nodes c + n) 0 ts.

Lemma dump_indents : forall legacy t d n,
  indents_of (dump legacy t) (n + 2 * d) = map (fun k => n + 2 * k) (tlv_depths d t).
Proof.
  intros legacy. induction t as [c tag content|c tag ch IH] using tlv_ind2; intros d n; [reflexivity|].
  cbn [dump indents_of tlv_depths map app]. f_equal.
  rewrite flat_map_map.
  induction IH as [|x l Hx _ IHl]; [reflexivity|].
  cbn [flat_map]. rewrite map_app. f_equal; [|exact IHl].
  replace (n + 2 * d + 2) with (n + 2 * S d) by lia. apply Hx.
Qed.

Lemma dump_count_lines : forall legacy t, count_lines (dump legacy t) = tlv_nodes t.
Proof.
  intros legacy. induction t as [c tag content|c tag ch IH] using tlv_ind2; [reflexivity|].
  cbn [dump count_lines tlv_nodes length]. f_equal. cbn [plus].
  induction IH as [|x l Hx _ IHl]; [reflexivity|].
  cbn [map fold_right]. rewrite Hx, IHl. reflexivity.
Qed.

Lemma tlv_depths_length : forall t d, length (tlv_depths d t) = tlv_nodes t.
Proof.
  induction t as [c tag content|c tag ch IH] using tlv_ind2; intros d; [reflexivity|].
  cbn [tlv_depths tlv_nodes length]. f_equal.
  induction IH as [|x l Hx _ IHl]; [reflexivity|].
  cbn [flat_map fold_right]. rewrite app_length, Hx, IHl. reflexivity.
Qed.

(* the report of a dump: the tree printed by printInfo *)
Definition dump_report (legacy : bool) (ts : list tlv) : info := Info (bs "ASN.1 data") [] (map (dump legacy) ts).

Lemma dump_report_indents : forall legacy ts,
  indents_of (dump_report legacy ts) 0 = 0 :: map (fun k => 2 + 2 * k) (flat_map (tlv_depths 0) ts).
Proof.
  intros legacy ts. unfold dump_report. cbn [indents_of map app]. f_equal.
  rewrite flat_map_map.
  induction ts as [|t ts IH]; [reflexivity|].
  cbn [flat_map]. rewrite map_app, IH. f_equal.
  replace (0 + 2) with (2 + 2 * 0) by reflexivity. apply dump_indents.
Qed.

Lemma dump_report_count : forall legacy ts, count_lines (dump_report legacy ts) = S (forest_nodes ts).
Proof.
  intros legacy ts. unfold dump_report, forest_nodes. cbn [count_lines length plus]. f_equal.
  induction ts as [|t ts IH]; [reflexivity|].
  cbn [map fold_right]. rewrite dump_count_lines, IH. reflexivity.
Qed.

(* end to end: the bytes of a well-formed forest, through the parser, the dump and the printer *)
Lemma printed_dump_mirrors : forall ts der,
  forest_ok ts = true -> ts <> [] -> (forest_height ts <= max_depth)%N ->
  i_desc der = bs "unknown ASN.1 data" ->
  let i := asn1_file false der (encode_forest ts) in
  let ls := lines_of sanitize i 0 in
  print_info i 0 = flat_map (fun l => l ++ [10%N]) ls /\
  length ls = S (forest_nodes ts) /\
  nth 0 ls [] = bs "ASN.1 data" /\
  lines_indented (0 :: map (fun k => 2 + 2 * k) (flat_map (tlv_depths 0) ts)) ls = true.
Proof.
  intros ts der H1 H2 H3 Hder. cbv zeta.
  rewrite asn1_file_unrecognised by exact Hder.
  rewrite (describe_ok false _ ts) by (apply parse_raw_encode; assumption).
  fold (dump_report false ts).
  split; [apply print_is_lines|]. split; [rewrite lines_count; apply dump_report_count|].
  split; [vm_compute; reflexivity|].
  rewrite <- (dump_report_indents false). apply lines_are_indented.
Qed.

(* conversely, for arbitrary bytes: whatever is printed as "ASN.1 data" is the printed dump of the
   forest whose encoding is the input *)
Lemma printed_dump_of_input : forall data,
  bytes_ok data = true -> i_desc (describe false data) = bs "ASN.1 data" ->
  exists ts, encode_forest ts = data /\
    let ls := lines_of sanitize (describe false data) 0 in
    print_info (describe false data) 0 = flat_map (fun l => l ++ [10%N]) ls /\
    length ls = S (forest_nodes ts) /\
    lines_indented (0 :: map (fun k => 2 + 2 * k) (flat_map (tlv_depths 0) ts)) ls = true.
Proof.
  intros data Hok H. unfold describe in *.
  destruct (parse_raw false data) as [ts| |] eqn:P; try (vm_compute in H; discriminate).
  destruct (parse_raw_canonical data ts P Hok) as (E & _).
  exists ts. split; [exact E|]. cbv zeta. fold (dump_report false ts).
  split; [apply print_is_lines|]. split; [rewrite lines_count; apply dump_report_count|].
  rewrite <- (dump_report_indents false). apply lines_are_indented.
Qed.
