(* Proofs about the model of printInfo / sanitize (C20).
   No axioms; standard library only. *)
From WI Require Import Lib.Base Lib.Info Lib.Utf8 Model.Render.
From Coq Require Import List NArith Lia Bool.
From Coq Require Import ZifyN ZifyNat ZifyBool.
Import ListNotations.
Open Scope N_scope.
Ltac Zify.zify_post_hook ::= Z.div_mod_to_equations.

(* ------------------------------------------------------------------ *)
(* List helpers                                                        *)
(* ------------------------------------------------------------------ *)
Lemma flat_map_map : forall {A B C} (f : B -> list C) (g : A -> B) l,
  flat_map f (map g l) = flat_map (fun x => f (g x)) l.
Proof. induction l; cbn [map flat_map]; congruence. Qed.

Lemma flat_map_flat_map : forall {A B C} (f : B -> list C) (g : A -> list B) l,
  flat_map f (flat_map g l) = flat_map (fun x => flat_map f (g x)) l.
Proof.
  induction l; cbn [flat_map]; [reflexivity|].
  rewrite flat_map_app. congruence.
Qed.

Lemma flat_map_ext_Forall : forall {A B} (f g : A -> list B) l,
  Forall (fun x => f x = g x) l -> flat_map f l = flat_map g l.
Proof. induction 1; cbn [flat_map]; congruence. Qed.

Lemma flat_map_length_sum : forall {A B} (f : A -> list B) (g : A -> nat) l,
  Forall (fun x => length (f x) = g x) l ->
  length (flat_map f l) = fold_right (fun x n => g x + n)%nat 0%nat l.
Proof.
  induction 1; cbn [flat_map fold_right]; [reflexivity|].
  rewrite app_length. congruence.
Qed.

(* ------------------------------------------------------------------ *)
(* Layout, for any sanitiser                                           *)
(* ------------------------------------------------------------------ *)
Theorem print_is_lines : forall san i n,
  print_info_with san i n = flat_map (fun l => l ++ [10]) (lines_of san i n).
Proof.
  intros san. induction i as [d a c IH] using info_ind2. intros n.
  cbn [print_info_with lines_of flat_map].
  rewrite flat_map_app, flat_map_map, flat_map_flat_map.
  rewrite <- !app_assoc. do 3 f_equal.
  f_equal.
  - apply flat_map_ext_Forall. apply Forall_forall. intros nv _.
    unfold attr_line. rewrite <- !app_assoc. reflexivity.
  - apply flat_map_ext_Forall. eapply Forall_impl; [|exact IH].
    intros ch H. apply H.
Qed.

Theorem lines_count : forall san i n, length (lines_of san i n) = count_lines i.
Proof.
  intros san. induction i as [d a c IH] using info_ind2. intros n.
  cbn [lines_of count_lines length]. f_equal.
  rewrite app_length, map_length. f_equal.
  apply (flat_map_length_sum (fun ch => lines_of san ch (n + 2)) count_lines).
  eapply Forall_impl; [|exact IH]. intros ch H. apply H.
Qed.

Lemma split_acc_line : forall l cur rest, ~ In 10 l ->
  split_lines_acc cur (l ++ 10 :: rest) = (rev cur ++ l) :: split_lines_acc [] rest.
Proof.
  induction l as [|x l IH]; intros cur rest Hn.
  - cbn [app split_lines_acc]. rewrite N.eqb_refl, app_nil_r. reflexivity.
  - cbn [app split_lines_acc].
    destruct (x =? 10) eqn:E.
    + exfalso. apply Hn. left. apply N.eqb_eq in E. exact E.
    + rewrite IH by (intro H; apply Hn; right; exact H).
      cbn [rev]. rewrite <- app_assoc. reflexivity.
Qed.

Lemma split_lines_flat : forall ls, Forall (fun l => ~ In 10 l) ls ->
  split_lines (flat_map (fun l => l ++ [10]) ls) = ls.
Proof.
  unfold split_lines. induction 1 as [|l ls Hl _ IH]; [reflexivity|].
  cbn [flat_map]. rewrite <- app_assoc. cbn [app].
  rewrite split_acc_line by exact Hl. cbn [rev app]. congruence.
Qed.

(* all strings of a report satisfy P *)
Fixpoint info_all (P : bytes -> Prop) (i : info) : Prop :=
  match i with
  | Info d a c =>
      P d /\ Forall (fun nv => P (fst nv) /\ P (snd nv)) a /\
      (fix go (l : list info) : Prop :=
         match l with [] => True | x :: r => info_all P x /\ go r end) c
  end.

Lemma info_all_unfold : forall P d a c,
  info_all P (Info d a c) <->
  P d /\ Forall (fun nv => P (fst nv) /\ P (snd nv)) a /\ Forall (info_all P) c.
Proof.
  intros P d a c. cbn [info_all].
  assert (E : forall l, (fix go (l : list info) : Prop :=
         match l with [] => True | x :: r => info_all P x /\ go r end) l <-> Forall (info_all P) l).
  { induction l as [|x l IH]; split; intros H.
    - constructor.
    - exact I.
    - destruct H as [H1 H2]. constructor; [exact H1|apply IH; exact H2].
    - inversion H; subst. split; [assumption|apply IH; assumption]. }
  rewrite E. reflexivity.
Qed.

Lemma info_all_True : forall i, info_all (fun _ => True) i.
Proof.
  induction i as [d a c IH] using info_ind2. apply info_all_unfold.
  split; [exact I|]. split; [|exact IH].
  apply Forall_forall. intros; split; exact I.
Qed.

Lemma Forall_spaces : forall (Q : N -> Prop) n, Q 32 -> Forall Q (spaces n).
Proof. intros Q n H. unfold spaces. induction n; cbn [repeat]; constructor; assumption. Qed.

(* every byte of every line is a layout byte or comes from the sanitiser *)
Lemma lines_Forall : forall (P : bytes -> Prop) (Q : N -> Prop) san,
  Q 32 -> Q 58 -> (forall s, P s -> Forall Q (san s)) ->
  forall i n, info_all P i -> Forall (Forall Q) (lines_of san i n).
Proof.
  intros P Q san Q32 Q58 Hsan.
  induction i as [d a c IH] using info_ind2. intros n Hi.
  apply info_all_unfold in Hi. destruct Hi as [Hd [Ha Hc]].
  cbn [lines_of]. constructor.
  - apply Forall_app. split; [apply Forall_spaces; exact Q32|apply Hsan; exact Hd].
  - apply Forall_app. split.
    + apply Forall_forall. intros l Hl. apply in_map_iff in Hl.
      destruct Hl as [nv [E Hnv]]. subst l.
      rewrite Forall_forall in Ha. destruct (Ha nv Hnv) as [H1 H2].
      repeat (apply Forall_app; split); try (apply Hsan; assumption).
      * apply Forall_spaces; exact Q32.
      * repeat constructor; exact Q32.
      * repeat constructor; assumption.
    + apply Forall_forall. intros l Hl. apply in_flat_map in Hl.
      destruct Hl as [ch [Hch Hl]].
      rewrite Forall_forall in IH, Hc.
      specialize (IH ch Hch (n + 2)%nat (Hc ch Hch)).
      rewrite Forall_forall in IH. apply IH. exact Hl.
Qed.

Lemma lines_no_lf : forall (P : bytes -> Prop) san, (forall s, P s -> ~ In 10 (san s)) ->
  forall i n, info_all P i -> Forall (fun l => ~ In 10 l) (lines_of san i n).
Proof.
  intros P san Hsan i n Hi.
  assert (H : Forall (Forall (fun b => b <> 10)) (lines_of san i n)).
  { apply (lines_Forall P); try assumption; try discriminate.
    intros s Hs. apply Forall_forall. intros b Hb E. subst b. exact (Hsan s Hs Hb). }
  eapply Forall_impl; [|exact H].
  intros l Hl Hin. rewrite Forall_forall in Hl. exact (Hl 10 Hin eq_refl).
Qed.

Theorem split_print_rel : forall (P : bytes -> Prop) san, (forall s, P s -> ~ In 10 (san s)) ->
  forall i n, info_all P i -> split_lines (print_info_with san i n) = lines_of san i n.
Proof.
  intros P san Hsan i n Hi. rewrite print_is_lines.
  apply split_lines_flat. apply (lines_no_lf P); assumption.
Qed.

Theorem split_print : forall san, (forall s, ~ In 10 (san s)) ->
  forall i n, split_lines (print_info_with san i n) = lines_of san i n.
Proof.
  intros san Hsan i n. apply (split_print_rel (fun _ => True)).
  - intros s _. apply Hsan.
  - apply info_all_True.
Qed.

Lemma has_prefix_spaces_app : forall n l, has_prefix_spaces n (spaces n ++ l) = true.
Proof. induction n; intros l; cbn [has_prefix_spaces spaces repeat app]; [reflexivity|apply IHn]. Qed.

Lemma has_prefix_spaces_app2 : forall n l, has_prefix_spaces (n + 2) (spaces n ++ [32; 32] ++ l) = true.
Proof.
  induction n; intros l; cbn [has_prefix_spaces spaces repeat app Nat.add]; [reflexivity|apply IHn].
Qed.

Lemma lines_indented_app : forall a la b lb,
  lines_indented a la = true -> lines_indented b lb = true ->
  lines_indented (a ++ b) (la ++ lb) = true.
Proof.
  induction a as [|x a IH]; intros la b lb Ha Hb; destruct la as [|l la];
    cbn [lines_indented app] in *; try discriminate; [exact Hb|].
  apply andb_true_iff in Ha. destruct Ha as [H1 H2].
  rewrite H1. cbn [andb]. apply IH; assumption.
Qed.

Theorem lines_are_indented : forall san i n,
  lines_indented (indents_of i n) (lines_of san i n) = true.
Proof.
  intros san. induction i as [d a c IH] using info_ind2. intros n.
  cbn [indents_of lines_of lines_indented].
  rewrite has_prefix_spaces_app. cbn [andb].
  apply lines_indented_app.
  - clear IH. induction a as [|nv a IHa]; cbn [map lines_indented]; [reflexivity|].
    rewrite has_prefix_spaces_app2. exact IHa.
  - induction IH as [|ch c Hch _ IHc]; cbn [flat_map]; [reflexivity|].
    apply lines_indented_app; [apply Hch|exact IHc].
Qed.

(* ------------------------------------------------------------------ *)
(* DecodeRune: case analysis, done once                                *)
(* ------------------------------------------------------------------ *)
Definition cont (b : N) : Prop := 128 <= b <= 191.

Inductive dec_case (b0 : N) (r : bytes) : Prop :=
| DC1 : b0 < 128 -> decode_rune (b0 :: r) = (true, b0, 1%nat) -> dec_case b0 r
| DCbad : 128 <= b0 -> decode_rune (b0 :: r) = (false, 65533, 1%nat) -> dec_case b0 r
| DC2 b1 r' : r = b1 :: r' -> 194 <= b0 <= 223 -> cont b1 ->
    (forall t, decode_rune (b0 :: b1 :: t) = (true, (b0 - 192) * 64 + (b1 - 128), 2%nat)) ->
    dec_case b0 r
| DC3 b1 b2 r' : r = b1 :: b2 :: r' -> 224 <= b0 <= 239 -> cont b1 -> cont b2 ->
    (b0 = 224 -> 160 <= b1) -> (b0 = 237 -> b1 <= 159) ->
    (forall t, decode_rune (b0 :: b1 :: b2 :: t) =
               (true, (b0 - 224) * 4096 + (b1 - 128) * 64 + (b2 - 128), 3%nat)) ->
    dec_case b0 r
| DC4 b1 b2 b3 r' : r = b1 :: b2 :: b3 :: r' -> 240 <= b0 <= 244 -> cont b1 -> cont b2 -> cont b3 ->
    (b0 = 240 -> 144 <= b1) -> (b0 = 244 -> b1 <= 143) ->
    (forall t, decode_rune (b0 :: b1 :: b2 :: b3 :: t) =
               (true, (b0 - 240) * 262144 + (b1 - 128) * 4096 + (b2 - 128) * 64 + (b3 - 128), 4%nat)) ->
    dec_case b0 r.

Lemma decode_cases : forall b0 r, dec_case b0 r.
Proof.
  intros b0 r.
  destruct (b0 <? 128) eqn:E1.
  { apply DC1; [lia|]. unfold decode_rune. rewrite E1. reflexivity. }
  destruct (in_range 194 223 b0) eqn:E2.
  { destruct r as [|b1 r'].
    { apply DCbad; [lia|]. unfold decode_rune. rewrite E1, E2. reflexivity. }
    destruct (is_cont b1) eqn:E3.
    - eapply DC2; [reflexivity| unfold in_range in E2; lia
                  | unfold is_cont, in_range in E3; unfold cont; lia |].
      intros t. unfold decode_rune. rewrite E1, E2, E3. reflexivity.
    - apply DCbad; [lia|]. unfold decode_rune. rewrite E1, E2, E3. reflexivity. }
  destruct (in_range 224 239 b0) eqn:E3.
  { destruct r as [|b1 [|b2 r']];
      try (apply DCbad; [lia|]; unfold decode_rune; rewrite E1, E2, E3; reflexivity).
    destruct (in_range (if b0 =? 224 then 160 else 128) (if b0 =? 237 then 159 else 191) b1
              && is_cont b2) eqn:E4.
    - eapply DC3; [reflexivity|..]; unfold cont;
        try (unfold is_cont, in_range in *;
             destruct (b0 =? 224) eqn:?; destruct (b0 =? 237) eqn:?; lia).
      intros t. unfold decode_rune. cbv zeta. rewrite E1, E2, E3, E4. reflexivity.
    - apply DCbad; [lia|]. unfold decode_rune. cbv zeta. rewrite E1, E2, E3, E4. reflexivity. }
  destruct (in_range 240 244 b0) eqn:E4.
  { destruct r as [|b1 [|b2 [|b3 r']]];
      try (apply DCbad; [lia|]; unfold decode_rune; rewrite E1, E2, E3, E4; reflexivity).
    destruct (in_range (if b0 =? 240 then 144 else 128) (if b0 =? 244 then 143 else 191) b1
              && is_cont b2 && is_cont b3) eqn:E5.
    - eapply DC4; [reflexivity|..]; unfold cont;
        try (unfold is_cont, in_range in *;
             destruct (b0 =? 240) eqn:?; destruct (b0 =? 244) eqn:?; lia).
      intros t. unfold decode_rune. cbv zeta. rewrite E1, E2, E3, E4, E5. reflexivity.
    - apply DCbad; [lia|]. unfold decode_rune. cbv zeta. rewrite E1, E2, E3, E4, E5. reflexivity. }
  apply DCbad; [lia|]. unfold decode_rune. rewrite E1, E2, E3, E4. reflexivity.
Qed.

(* ------------------------------------------------------------------ *)
(* sanitize as a relation between input and output, token by token     *)
(* ------------------------------------------------------------------ *)
Definition pr (b : N) : Prop := 32 <= b < 127.      (* printable ASCII *)
Definition hi (b : N) : Prop := 128 <= b < 256.
Definition okb (b : N) : Prop := pr b \/ hi b.

Inductive san_rel : bytes -> bytes -> Prop :=
| SR_nil : san_rel [] []
| SR_x b0 r out : b0 < 256 -> san_rel r out -> san_rel (b0 :: r) (esc_x b0 ++ out)
| SR_u b1 r out : 128 <= b1 <= 159 -> san_rel r out -> san_rel (194 :: b1 :: r) (esc_u b1 ++ out)
| SR_bs r out : san_rel r out -> san_rel (92 :: r) (92 :: 92 :: out)
| SR_ascii b0 r out : pr b0 -> b0 <> 92 -> san_rel r out -> san_rel (b0 :: r) (b0 :: out)
| SR_multi b0 raw ru r out :
    Forall hi (b0 :: raw) -> 160 <= ru ->
    (forall t, decode_rune ((b0 :: raw) ++ t) = (true, ru, length (b0 :: raw))) ->
    san_rel r out -> san_rel ((b0 :: raw) ++ r) ((b0 :: raw) ++ out).

Lemma bytes_ok_cons : forall b l, bytes_ok (b :: l) = true <-> b < 256 /\ bytes_ok l = true.
Proof.
  intros b l. unfold bytes_ok. cbn [forallb]. rewrite andb_true_iff. unfold byte_ok.
  rewrite N.ltb_lt. reflexivity.
Qed.

Ltac split_ok :=
  repeat match goal with
         | H : bytes_ok (_ :: _) = true |- _ =>
             apply bytes_ok_cons in H; let H1 := fresh "Hlt" in destruct H as [H1 H]
         end.

Lemma sanitize_go_rel : forall fuel s, bytes_ok s = true -> (length s <= fuel)%nat ->
  san_rel s (sanitize_go fuel s).
Proof.
  induction fuel as [|fuel IH]; intros s Hok Hlen.
  { destruct s; [constructor|]. cbn [length] in Hlen. lia. }
  destruct s as [|b0 r]; [constructor|].
  cbn [sanitize_go].
  destruct (decode_cases b0 r) as [H1 E|H1 E|b1 r' -> H1 H2 E|b1 b2 r' -> H1 H2 H3 H4 H5 E
                                   |b1 b2 b3 r' -> H1 H2 H3 H4 H5 H6 E];
    try rewrite E; try rewrite (E r'); split_ok; cbn [length] in Hlen;
    cbn [take drop]; unfold sanitize_rune; cbn [negb].
  - (* ASCII *)
    destruct ((b0 <? 32) || (b0 =? 127)) eqn:C1.
    { apply SR_x; [lia|]. apply IH; [assumption|lia]. }
    destruct (in_range 128 159 b0) eqn:C2.
    { unfold in_range in C2. lia. }
    destruct (b0 =? 92) eqn:C3.
    { apply N.eqb_eq in C3. subst b0. apply SR_bs. apply IH; [assumption|lia]. }
    apply SR_ascii; [unfold pr; lia|lia|]. apply IH; [assumption|lia].
  - (* invalid byte *)
    cbn [flat_map]. rewrite app_nil_r.
    apply SR_x; [lia|]. apply IH; [assumption|lia].
  - (* two bytes *)
    unfold cont in *.
    destruct (((b0 - 192) * 64 + (b1 - 128) <? 32) || ((b0 - 192) * 64 + (b1 - 128) =? 127)) eqn:C1.
    { lia. }
    destruct (in_range 128 159 ((b0 - 192) * 64 + (b1 - 128))) eqn:C2.
    { unfold in_range in C2. assert (b0 = 194) by lia. subst b0.
      replace ((194 - 192) * 64 + (b1 - 128)) with b1 in * by lia.
      apply SR_u; [lia|]. apply IH; [assumption|lia]. }
    destruct ((b0 - 192) * 64 + (b1 - 128) =? 92) eqn:C3.
    { lia. }
    apply (SR_multi b0 [b1] ((b0 - 192) * 64 + (b1 - 128)) r').
    + repeat constructor; lia.
    + unfold in_range in C2. lia.
    + intros t. apply E.
    + apply IH; [assumption|lia].
  - (* three bytes *)
    unfold cont in *.
    set (ru := (b0 - 224) * 4096 + (b1 - 128) * 64 + (b2 - 128)) in *.
    assert (Hru : 2048 <= ru) by (unfold ru; lia).
    destruct ((ru <? 32) || (ru =? 127)) eqn:C1; [lia|].
    destruct (in_range 128 159 ru) eqn:C2; [unfold in_range in C2; lia|].
    destruct (ru =? 92) eqn:C3; [lia|].
    apply (SR_multi b0 [b1; b2] ru r').
    + repeat constructor; lia.
    + lia.
    + intros t. apply E.
    + apply IH; [assumption|lia].
  - (* four bytes *)
    unfold cont in *.
    set (ru := (b0 - 240) * 262144 + (b1 - 128) * 4096 + (b2 - 128) * 64 + (b3 - 128)) in *.
    assert (Hru : 65536 <= ru) by (unfold ru; lia).
    destruct ((ru <? 32) || (ru =? 127)) eqn:C1; [lia|].
    destruct (in_range 128 159 ru) eqn:C2; [unfold in_range in C2; lia|].
    destruct (ru =? 92) eqn:C3; [lia|].
    apply (SR_multi b0 [b1; b2; b3] ru r').
    + repeat constructor; lia.
    + lia.
    + intros t. apply E.
    + apply IH; [assumption|lia].
Qed.

Lemma sanitize_rel : forall s, bytes_ok s = true -> san_rel s (sanitize s).
Proof. intros s H. apply sanitize_go_rel; [exact H|lia]. Qed.

(* ------------------------------------------------------------------ *)
(* The sanitiser emits only printable ASCII and bytes >= 0x80          *)
(* ------------------------------------------------------------------ *)
Lemma hex_digit_pr : forall d, d < 16 -> pr (hex_digit false d).
Proof. intros d H. unfold pr, hex_digit. destruct (d <? 10) eqn:E; lia. Qed.

Lemma hex_byte_pr : forall b, b < 256 -> Forall pr (hex_byte false b).
Proof.
  intros b H. unfold hex_byte. repeat constructor; apply hex_digit_pr; lia.
Qed.

Lemma esc_x_pr : forall b, b < 256 -> Forall pr (esc_x b).
Proof.
  intros b H. unfold esc_x. apply Forall_app. split; [|apply hex_byte_pr; exact H].
  repeat constructor; unfold pr; lia.
Qed.

Lemma esc_u_pr : forall b, b < 256 -> Forall pr (esc_u b).
Proof.
  intros b H. unfold esc_u. apply Forall_app. split; [|apply hex_byte_pr; exact H].
  repeat constructor; unfold pr; lia.
Qed.

Lemma pr_okb : forall l, Forall pr l -> Forall okb l.
Proof. intros l H. eapply Forall_impl; [|exact H]. intros b Hb. left. exact Hb. Qed.

Lemma hi_okb : forall l, Forall hi l -> Forall okb l.
Proof. intros l H. eapply Forall_impl; [|exact H]. intros b Hb. right. exact Hb. Qed.

Lemma san_rel_okb : forall s out, san_rel s out -> Forall okb out.
Proof.
  induction 1.
  - constructor.
  - apply Forall_app. split; [apply pr_okb, esc_x_pr; assumption|assumption].
  - apply Forall_app. split; [apply pr_okb, esc_u_pr; lia|assumption].
  - constructor; [left; unfold pr; lia|]. constructor; [left; unfold pr; lia|assumption].
  - constructor; [left; assumption|assumption].
  - apply Forall_app. split; [apply hi_okb; assumption|assumption].
Qed.

Lemma sanitize_okb : forall s, bytes_ok s = true -> Forall okb (sanitize s).
Proof. intros s H. eapply san_rel_okb. apply sanitize_rel. exact H. Qed.

Theorem sanitize_no_c0 : forall s, bytes_ok s = true ->
  forall b, In b (sanitize s) -> is_c0_or_del b = false.
Proof.
  intros s Hs b Hb. pose proof (sanitize_okb s Hs) as H.
  rewrite Forall_forall in H. specialize (H b Hb).
  unfold okb, pr, hi in H. unfold is_c0_or_del. lia.
Qed.

Theorem sanitize_bytes_ok : forall s, bytes_ok s = true -> bytes_ok (sanitize s) = true.
Proof.
  intros s Hs. unfold bytes_ok. apply forallb_forall. intros b Hb.
  pose proof (sanitize_okb s Hs) as H.
  rewrite Forall_forall in H. specialize (H b Hb).
  unfold okb, pr, hi in H. unfold byte_ok. lia.
Qed.

Lemma sanitize_no_lf : forall s, bytes_ok s = true -> ~ In 10 (sanitize s).
Proof.
  intros s Hs Hin. pose proof (sanitize_no_c0 s Hs 10 Hin) as H. discriminate H.
Qed.

(* ------------------------------------------------------------------ *)
(* The property, assembled                                             *)
(* ------------------------------------------------------------------ *)
Definition info_ok : info -> Prop := info_all (fun s => bytes_ok s = true).

Theorem report_lines : forall i n, info_ok i ->
  split_lines (print_info i n) = lines_of sanitize i n.
Proof.
  intros i n Hi. unfold print_info.
  apply (split_print_rel (fun s => bytes_ok s = true)); [|exact Hi].
  exact sanitize_no_lf.
Qed.

Theorem report_line_count : forall i, info_ok i ->
  length (split_lines (print_info i 0)) = count_lines i.
Proof. intros i Hi. rewrite report_lines by exact Hi. apply lines_count. Qed.

Theorem report_indentation : forall i, info_ok i ->
  lines_indented (indents_of i 0) (split_lines (print_info i 0)) = true.
Proof. intros i Hi. rewrite report_lines by exact Hi. apply lines_are_indented. Qed.

Theorem report_no_c0_controls : forall i n b, info_ok i ->
  In b (print_info i n) -> is_c0_or_del b = true -> b = 10.
Proof.
  intros i n b Hi Hin Hc. unfold print_info in Hin. rewrite print_is_lines in Hin.
  apply in_flat_map in Hin. destruct Hin as [l [Hl Hb]].
  apply in_app_or in Hb. destruct Hb as [Hb|Hb].
  - exfalso.
    assert (H : Forall (Forall (fun b => is_c0_or_del b = false)) (lines_of sanitize i n)).
    { apply (lines_Forall (fun s => bytes_ok s = true)); try reflexivity; [|exact Hi].
      intros s Hs. apply Forall_forall. apply sanitize_no_c0. exact Hs. }
    rewrite Forall_forall in H. specialize (H l Hl).
    rewrite Forall_forall in H. specialize (H b Hb). congruence.
  - destruct Hb as [Hb|[]]. symmetry. exact Hb.
Qed.

Theorem raw_printing_refuted :
  exists i, length (split_lines (print_info_raw i 0)) <> count_lines i.
Proof. exists (Info [97; 10; 98] [] []). vm_compute. discriminate. Qed.

(* ------------------------------------------------------------------ *)
(* No C1 control, encoded or stray, in the sanitiser's output          *)
(* ------------------------------------------------------------------ *)
Definition clean (out : bytes) : Prop :=
  forall fuel k, existsb bad_rune (runes_from fuel k out) = false /\ stray_c1 fuel out = false.

Lemma clean_nil : clean [].
Proof. intros fuel k. destruct fuel; split; reflexivity. Qed.

Lemma clean_ascii : forall b out, pr b -> clean out -> clean (b :: out).
Proof.
  intros b out Hb Hc fuel k. destruct fuel as [|f]; [split; reflexivity|].
  cbn [runes_from stray_c1].
  assert (E : decode_rune (b :: out) = (true, b, 1%nat)).
  { unfold decode_rune. unfold pr in Hb. destruct (b <? 128) eqn:E1; [reflexivity|lia]. }
  rewrite E. cbn [drop existsb negb andb orb].
  destruct (Hc f (k + 1)%nat) as [H1 H2]. rewrite H1, H2.
  split; [|reflexivity].
  unfold bad_rune, in_range. unfold pr in Hb. cbn [andb]. lia.
Qed.

Lemma clean_ascii_app : forall l out, Forall pr l -> clean out -> clean (l ++ out).
Proof.
  induction 1; intros Hc; cbn [app]; [exact Hc|].
  apply clean_ascii; [assumption|]. apply IHForall. exact Hc.
Qed.

Lemma drop_app_length : forall {A} (l r : list A), drop (length l) (l ++ r) = r.
Proof. induction l; intros r; cbn [length drop app]; [reflexivity|apply IHl]. Qed.

Lemma clean_multi : forall b0 raw ru out,
  160 <= ru ->
  (forall t, decode_rune ((b0 :: raw) ++ t) = (true, ru, length (b0 :: raw))) ->
  clean out -> clean ((b0 :: raw) ++ out).
Proof.
  intros b0 raw ru out Hru E Hc fuel k. destruct fuel as [|f]; [split; reflexivity|].
  specialize (E out).
  pose proof (drop_app_length (b0 :: raw) out) as D.
  cbn [app] in E, D |- *. cbn [runes_from stray_c1].
  rewrite E, D. cbn [existsb negb andb orb].
  destruct (Hc f (k + length (b0 :: raw))%nat) as [H1 H2]. rewrite H1, H2.
  split; [|reflexivity].
  unfold bad_rune, in_range. cbn [andb]. lia.
Qed.

Lemma san_rel_clean : forall s out, san_rel s out -> clean out.
Proof.
  induction 1.
  - apply clean_nil.
  - apply clean_ascii_app; [apply esc_x_pr; assumption|assumption].
  - apply clean_ascii_app; [apply esc_u_pr; lia|assumption].
  - apply clean_ascii; [unfold pr; lia|]. apply clean_ascii; [unfold pr; lia|assumption].
  - apply clean_ascii; assumption.
  - eapply clean_multi; eassumption.
Qed.

Theorem sanitize_no_c1 : forall s, bytes_ok s = true ->
  existsb bad_rune (runes (sanitize s)) = false /\
  stray_c1 (length (sanitize s)) (sanitize s) = false.
Proof.
  intros s Hs. unfold runes.
  apply (san_rel_clean s). apply sanitize_rel. exact Hs.
Qed.

(* ------------------------------------------------------------------ *)
(* The escaping is reversible: an explicit left inverse                *)
(* ------------------------------------------------------------------ *)
Definition unhex (d : N) : N := if d <? 58 then d - 48 else d - 87.

Fixpoint unsan (l : bytes) : bytes :=
  match l with
  | [] => []
  | a :: t =>
      if a =? 92 then
        match t with
        | [] => []
        | b :: t1 =>
            if b =? 92 then 92 :: unsan t1
            else if b =? 120 then
              match t1 with
              | h :: lo :: t2 => (unhex h * 16 + unhex lo) :: unsan t2
              | _ => []
              end
            else
              match t1 with
              | _ :: _ :: h :: lo :: t2 => 194 :: (unhex h * 16 + unhex lo) :: unsan t2
              | _ => []
              end
        end
      else a :: unsan t
  end.

Lemma unsan_bs : forall t, unsan (92 :: 92 :: t) = 92 :: unsan t.
Proof. reflexivity. Qed.

Lemma unsan_x : forall h lo t, unsan (92 :: 120 :: h :: lo :: t) = (unhex h * 16 + unhex lo) :: unsan t.
Proof. reflexivity. Qed.

Lemma unsan_u : forall a b h lo t,
  unsan (92 :: 117 :: a :: b :: h :: lo :: t) = 194 :: (unhex h * 16 + unhex lo) :: unsan t.
Proof. reflexivity. Qed.

Lemma unsan_other : forall a t, a <> 92 -> unsan (a :: t) = a :: unsan t.
Proof.
  intros a t H. cbn [unsan]. destruct (a =? 92) eqn:E; [|reflexivity].
  apply N.eqb_eq in E. contradiction.
Qed.

Lemma unhex_hex : forall b, b < 256 ->
  unhex (hex_digit false (b / 16)) * 16 + unhex (hex_digit false (b mod 16)) = b.
Proof.
  intros b H. unfold unhex, hex_digit.
  destruct (b / 16 <? 10) eqn:E1; destruct (b mod 16 <? 10) eqn:E2;
    repeat match goal with |- context [if ?c then _ else _] => destruct c eqn:? end; lia.
Qed.

Lemma unsan_hi_app : forall raw out, Forall hi raw -> unsan (raw ++ out) = raw ++ unsan out.
Proof.
  induction 1 as [|b raw Hb _ IH]; cbn [app]; [reflexivity|].
  rewrite unsan_other by (unfold hi in Hb; lia). congruence.
Qed.

Lemma san_rel_unsan : forall s out, san_rel s out -> unsan out = s.
Proof.
  induction 1.
  - reflexivity.
  - unfold esc_x, hex_byte. cbn [app]. rewrite unsan_x, unhex_hex by assumption. congruence.
  - unfold esc_u, hex_byte. cbn [app]. rewrite unsan_u, unhex_hex by lia. congruence.
  - rewrite unsan_bs. congruence.
  - rewrite unsan_other by assumption. congruence.
  - rewrite unsan_hi_app by assumption. congruence.
Qed.

Theorem sanitize_left_inverse : forall s, bytes_ok s = true -> unsan (sanitize s) = s.
Proof. intros s H. apply san_rel_unsan. apply sanitize_rel. exact H. Qed.

Theorem sanitize_injective : forall a b, bytes_ok a = true -> bytes_ok b = true ->
  sanitize a = sanitize b -> a = b.
Proof.
  intros a b Ha Hb E.
  rewrite <- (sanitize_left_inverse a Ha), <- (sanitize_left_inverse b Hb), E. reflexivity.
Qed.

(* ------------------------------------------------------------------ *)
(* The spec checker's linear-time line splitter is split_lines          *)
(* ------------------------------------------------------------------ *)
Lemma split_lines_fast_acc_eq : forall s cur, split_lines_fast_acc cur s = split_lines_acc cur s.
Proof.
  induction s as [|c r IH]; intros cur; cbn [split_lines_fast_acc split_lines_acc].
  - destruct cur; [reflexivity|]. rewrite <- rev_alt. reflexivity.
  - destruct (c =? 10); rewrite IH; [rewrite <- rev_alt|]; reflexivity.
Qed.

Theorem split_lines_fast_eq : forall s, split_lines_fast s = split_lines s.
Proof. intros s. apply split_lines_fast_acc_eq. Qed.

(* ------------------------------------------------------------------ *)
(* Whole output: every rune is valid UTF-8 and no control character    *)
(* ------------------------------------------------------------------ *)
Definition good (out : bytes) : Prop := forall fuel, all_good_runes fuel out = true.

Lemma good_nil : good [].
Proof. intros fuel. destruct fuel; reflexivity. Qed.

Lemma good_ascii : forall b out, pr b \/ b = 10 -> good out -> good (b :: out).
Proof.
  intros b out Hb Hg fuel. destruct fuel as [|f]; [reflexivity|].
  cbn [all_good_runes].
  assert (E : decode_rune (b :: out) = (true, b, 1%nat)).
  { unfold decode_rune. unfold pr in Hb. destruct (b <? 128) eqn:E1; [reflexivity|lia]. }
  rewrite E. cbn [drop]. rewrite (Hg f).
  unfold good_vr, in_range. unfold pr in Hb. cbn [andb]. lia.
Qed.

Lemma good_ascii_app : forall l out, Forall (fun b => pr b \/ b = 10) l -> good out -> good (l ++ out).
Proof.
  induction 1; intros Hg; cbn [app]; [exact Hg|].
  apply good_ascii; [assumption|]. apply IHForall. exact Hg.
Qed.

Lemma good_pr_app : forall l out, Forall pr l -> good out -> good (l ++ out).
Proof.
  intros l out H. apply good_ascii_app. eapply Forall_impl; [|exact H]. intros; left; assumption.
Qed.

Lemma good_multi : forall b0 raw ru out,
  160 <= ru ->
  (forall t, decode_rune ((b0 :: raw) ++ t) = (true, ru, length (b0 :: raw))) ->
  good out -> good ((b0 :: raw) ++ out).
Proof.
  intros b0 raw ru out Hru E Hg fuel. destruct fuel as [|f]; [reflexivity|].
  specialize (E out).
  pose proof (drop_app_length (b0 :: raw) out) as D.
  cbn [app] in E, D |- *. cbn [all_good_runes].
  rewrite E, D. rewrite (Hg f).
  unfold good_vr, in_range. cbn [andb]. lia.
Qed.

Lemma san_rel_good_app : forall s out, san_rel s out -> forall rest, good rest -> good (out ++ rest).
Proof.
  induction 1; intros rest Hg.
  - exact Hg.
  - rewrite <- app_assoc. apply good_pr_app; [apply esc_x_pr; assumption|]. apply IHsan_rel; exact Hg.
  - rewrite <- app_assoc. apply good_pr_app; [apply esc_u_pr; lia|]. apply IHsan_rel; exact Hg.
  - cbn [app]. apply good_ascii; [left; unfold pr; lia|]. apply good_ascii; [left; unfold pr; lia|].
    apply IHsan_rel; exact Hg.
  - cbn [app]. apply good_ascii; [left; assumption|]. apply IHsan_rel; exact Hg.
  - rewrite <- app_assoc. eapply good_multi; [eassumption|eassumption|]. apply IHsan_rel; exact Hg.
Qed.

(* a piece of a line: whatever good output follows it, the whole is good *)
Definition gpiece (l : bytes) : Prop := forall rest, good rest -> good (l ++ rest).

Lemma gpiece_app : forall a b, gpiece a -> gpiece b -> gpiece (a ++ b).
Proof. intros a b Ha Hb rest Hg. rewrite <- app_assoc. apply Ha. apply Hb. exact Hg. Qed.

Lemma gpiece_pr : forall l, Forall pr l -> gpiece l.
Proof. intros l H rest Hg. apply good_pr_app; assumption. Qed.

Lemma gpiece_sanitize : forall s, bytes_ok s = true -> gpiece (sanitize s).
Proof. intros s Hs rest Hg. apply (san_rel_good_app s); [apply sanitize_rel; exact Hs|exact Hg]. Qed.

Lemma gpiece_spaces : forall n, gpiece (spaces n).
Proof. intros n. apply gpiece_pr. apply Forall_spaces. unfold pr; lia. Qed.

(* a property of every line of the report, from the two shapes a line has *)
Lemma lines_each : forall (P : bytes -> Prop) (L : bytes -> Prop) san,
  (forall n s, P s -> L (spaces n ++ san s)) ->
  (forall n a b, P a -> P b -> L (spaces n ++ [32; 32] ++ san a ++ [58; 32] ++ san b)) ->
  forall i n, info_all P i -> Forall L (lines_of san i n).
Proof.
  intros P L san Hd Hnv.
  induction i as [d a c IH] using info_ind2. intros n Hi.
  apply info_all_unfold in Hi. destruct Hi as [Hdd [Ha Hc]].
  cbn [lines_of]. constructor; [apply Hd; exact Hdd|].
  apply Forall_app. split.
  - apply Forall_forall. intros l Hl. apply in_map_iff in Hl.
    destruct Hl as [nv [E Hin]]. subst l.
    rewrite Forall_forall in Ha. destruct (Ha nv Hin) as [H1 H2]. apply Hnv; assumption.
  - apply Forall_forall. intros l Hl. apply in_flat_map in Hl.
    destruct Hl as [ch [Hch Hl]].
    rewrite Forall_forall in IH, Hc.
    specialize (IH ch Hch (n + 2)%nat (Hc ch Hch)).
    rewrite Forall_forall in IH. apply IH. exact Hl.
Qed.

Lemma lines_gpiece : forall i n, info_ok i -> Forall gpiece (lines_of sanitize i n).
Proof.
  intros i n Hi. apply (lines_each (fun s => bytes_ok s = true)); [| |exact Hi].
  - intros k s Hs. apply gpiece_app; [apply gpiece_spaces|apply gpiece_sanitize; exact Hs].
  - intros k a b Ha Hb.
    apply gpiece_app; [apply gpiece_spaces|].
    apply gpiece_app; [apply gpiece_pr; repeat constructor; unfold pr; lia|].
    apply gpiece_app; [apply gpiece_sanitize; exact Ha|].
    apply gpiece_app; [apply gpiece_pr; repeat constructor; unfold pr; lia|].
    apply gpiece_sanitize; exact Hb.
Qed.

Lemma good_lines : forall ls, Forall gpiece ls -> forall rest, good rest ->
  good (flat_map (fun l => l ++ [10]) ls ++ rest).
Proof.
  induction 1 as [|l ls Hl _ IH]; intros rest Hg; cbn [flat_map app]; [exact Hg|].
  rewrite <- !app_assoc. apply Hl. cbn [app]. apply good_ascii; [right; reflexivity|].
  apply IH. exact Hg.
Qed.

Theorem report_good : forall i n, info_ok i -> forall rest, good rest -> good (print_info i n ++ rest).
Proof.
  intros i n Hi rest Hg. unfold print_info. rewrite print_is_lines.
  apply good_lines; [apply lines_gpiece; exact Hi|exact Hg].
Qed.

Theorem report_all_good_runes : forall i n, info_ok i ->
  all_good_runes (length (print_info i n)) (print_info i n) = true.
Proof.
  intros i n Hi. pose proof (report_good i n Hi [] good_nil) as H.
  rewrite app_nil_r in H. apply H.
Qed.

(* what the checker's two scans report follows from it *)
Lemma all_good_no_bad : forall fuel s, all_good_runes fuel s = true ->
  has_bad_rune fuel s = false /\ stray_c1 fuel s = false.
Proof.
  induction fuel as [|f IH]; intros s H; [split; reflexivity|].
  destruct s as [|b s']; [split; reflexivity|].
  cbn [all_good_runes has_bad_rune stray_c1] in *.
  destruct (decode_rune (b :: s')) as [[v r] sz].
  apply andb_true_iff in H. destruct H as [Hv Hr].
  destruct (IH _ Hr) as [H1 H2]. rewrite H1, H2.
  unfold good_vr in Hv. apply andb_true_iff in Hv. destruct Hv as [Hv Hrange]. subst v.
  unfold bad_vr, in_range in *. cbn [negb andb orb]. split; [|reflexivity]. lia.
Qed.

(* ------------------------------------------------------------------ *)
(* Number of lines and depth of each line                              *)
(* ------------------------------------------------------------------ *)
Lemma size_is_count : forall i, size_of i = count_lines i.
Proof.
  induction i as [d a c IH] using info_ind2.
  cbn [size_of count_lines].
  assert (E : list_sum (map size_of c) =
              fold_right (fun ch n => (count_lines ch + n)%nat) 0%nat c).
  { induction IH as [|ch c' Hch _ IHc]; cbn [map list_sum fold_right]; [reflexivity|].
    rewrite Hch. f_equal. exact IHc. }
  rewrite E. reflexivity.
Qed.

Lemma map_flat_map : forall {A B C} (f : B -> C) (g : A -> list B) l,
  map f (flat_map g l) = flat_map (fun x => map f (g x)) l.
Proof. induction l; cbn [flat_map map]; [reflexivity|]. rewrite map_app, IHl. reflexivity. Qed.

Lemma indents_are_depths : forall i d,
  indents_of i (2 * d) = map (fun k => (2 * k)%nat) (depths_of i d).
Proof.
  induction i as [ds a c IH] using info_ind2. intros d.
  cbn [indents_of depths_of map]. f_equal.
  rewrite map_app, map_map, map_flat_map. f_equal.
  - apply map_ext. intros _. lia.
  - apply flat_map_ext_Forall. eapply Forall_impl; [|exact IH].
    intros ch H. cbv beta in *. rewrite <- H. f_equal. lia.
Qed.

Theorem report_whole_output : forall i, info_ok i ->
  all_good_runes (length (print_info i 0)) (print_info i 0) = true /\
  split_lines (print_info i 0) = lines_of sanitize i 0 /\
  Forall (fun l => ~ In 10 l) (lines_of sanitize i 0) /\
  length (lines_of sanitize i 0) = size_of i /\
  lines_indented (map (fun d => (2 * d)%nat) (depths_of i 0)) (lines_of sanitize i 0) = true.
Proof.
  intros i Hi. split; [apply report_all_good_runes; exact Hi|].
  split; [apply report_lines; exact Hi|].
  split; [apply (lines_no_lf (fun s => bytes_ok s = true)); [exact sanitize_no_lf|exact Hi]|].
  split; [rewrite size_is_count; apply lines_count|].
  rewrite <- (indents_are_depths i 0). apply lines_are_indented.
Qed.

(* ------------------------------------------------------------------ *)
(* Several files in one run (directory scan, several arguments)        *)
(* ------------------------------------------------------------------ *)
(* the lines of one file's report: its path and ": " in front of the first line *)
Definition file_report_lines (p : bytes) (i : info) : list bytes :=
  match lines_of sanitize i 0 with
  | l0 :: r => (p ++ [58; 32] ++ l0) :: r
  | [] => []
  end.

Lemma report_is_lines : forall p i,
  report p i = flat_map (fun l => l ++ [10]) (file_report_lines p i).
Proof.
  intros p [d a c]. unfold report, file_report_lines, print_info. rewrite print_is_lines.
  cbn [lines_of flat_map]. rewrite <- !app_assoc. reflexivity.
Qed.

Lemma report_lines_length : forall p i, length (file_report_lines p i) = size_of i.
Proof.
  intros p i. rewrite size_is_count, <- (lines_count sanitize i 0).
  unfold file_report_lines. destruct (lines_of sanitize i 0); reflexivity.
Qed.

Lemma report_all_is_lines : forall items,
  report_all items =
  flat_map (fun l => l ++ [10]) (flat_map (fun pi => file_report_lines (fst pi) (snd pi)) items).
Proof.
  intros items. unfold report_all. rewrite flat_map_flat_map.
  apply flat_map_ext_Forall. apply Forall_forall. intros pi _. apply report_is_lines.
Qed.

(* paths come from the command line and the directory listing, not from the inspected
   content: printable ASCII here *)
Definition scan_ok (items : list (bytes * info)) : Prop :=
  Forall (fun pi => Forall pr (fst pi) /\ info_ok (snd pi)) items.

Lemma pr_not_lf : forall l, Forall pr l -> ~ In 10 l.
Proof.
  intros l H Hin. rewrite Forall_forall in H. specialize (H 10 Hin). unfold pr in H. lia.
Qed.

Lemma report_lines_no_lf : forall p i, Forall pr p -> info_ok i ->
  Forall (fun l => ~ In 10 l) (file_report_lines p i).
Proof.
  intros p i Hp Hi.
  pose proof (lines_no_lf (fun s => bytes_ok s = true) sanitize sanitize_no_lf i 0%nat Hi) as H.
  unfold file_report_lines. destruct (lines_of sanitize i 0) as [|l0 r]; [constructor|].
  inversion H; subst. constructor; [|assumption].
  intros Hin. apply in_app_or in Hin. destruct Hin as [Hin|Hin]; [exact (pr_not_lf p Hp Hin)|].
  cbn [app] in Hin. destruct Hin as [E|[E|Hin]]; try discriminate. contradiction.
Qed.

Theorem scan_lines : forall items, scan_ok items ->
  split_lines (report_all items) = flat_map (fun pi => file_report_lines (fst pi) (snd pi)) items.
Proof.
  intros items Hok. rewrite report_all_is_lines. apply split_lines_flat.
  induction Hok as [|pi items [Hp Hi] _ IH]; cbn [flat_map]; [constructor|].
  apply Forall_app. split; [apply report_lines_no_lf; assumption|exact IH].
Qed.

Theorem scan_line_count : forall items, scan_ok items ->
  length (split_lines (report_all items)) = list_sum (map (fun pi => size_of (snd pi)) items).
Proof.
  intros items Hok. rewrite scan_lines by exact Hok. clear Hok.
  induction items as [|pi items IH]; cbn [flat_map map list_sum]; [reflexivity|].
  rewrite app_length, report_lines_length, IH. reflexivity.
Qed.

Lemma report_lines_gpiece : forall p i, Forall pr p -> info_ok i -> Forall gpiece (file_report_lines p i).
Proof.
  intros p i Hp Hi. pose proof (lines_gpiece i 0%nat Hi) as H.
  unfold file_report_lines. destruct (lines_of sanitize i 0) as [|l0 r]; [constructor|].
  inversion H; subst. constructor; [|assumption].
  apply gpiece_app; [apply gpiece_pr; exact Hp|].
  apply gpiece_app; [apply gpiece_pr; repeat constructor; unfold pr; lia|assumption].
Qed.

Theorem scan_all_good_runes : forall items, scan_ok items ->
  all_good_runes (length (report_all items)) (report_all items) = true.
Proof.
  intros items Hok.
  assert (G : good (report_all items ++ [])).
  { rewrite report_all_is_lines. apply good_lines; [|exact good_nil].
    induction Hok as [|pi items [Hp Hi] _ IH]; cbn [flat_map]; [constructor|].
    apply Forall_app. split; [apply report_lines_gpiece; assumption|exact IH]. }
  rewrite app_nil_r in G. apply G.
Qed.
