(* C17 — property theorems (placeholder until the model is built). *)
From WI Require Import Lib.Base Lib.Info Model.Uuid Proofs.Uuid.
Theorem C17_placeholder : True.
Proof. exact I. Qed.
Print Assumptions C17_placeholder.
