(* Case runner and spec checker (T3) for C16 — stub. *)
From WI Require Import Lib.Base Lib.Info Model.Curve.
Definition run_C16 (op : bytes) (input : arg) : arg := AL [].
Definition check_C16 (op : bytes) (input impl : arg) : arg := AL [].
