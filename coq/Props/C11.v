(* C11 — PGP identities and subkeys are listed only when cryptographically bound.
   Only statements; proofs are in Proofs/PgpEntity.v (and Proofs/PgpKey.v).

   [c] ranges over the code variants (the statements hold for the repaired and the original
   code), [P] over ALL behaviours of the library calls (hash functions, signature primitives,
   EC point decoding): nothing is assumed about them except in C11_bitflip_*. *)
From WI Require Import Lib.Base Lib.Info gen.PgpTables Model.PgpKey Model.PgpEntity Proofs.PgpKey Proofs.PgpEntity.
Open Scope N_scope.

(* every child of a PGP key description is an identity or a subkey of the entity that
   ReadEntity returned — nothing else is ever listed *)
Theorem C11_listed_children : forall c P private stream i,
  pgp_key c P private stream = Ok i ->
  exists e, read_entity c P (events_of c P stream) = Ok e /\
    forall child, In child (i_children i) ->
      (exists id, In id (e_ids e) /\ child = identity_info c (e_primary e) id) \/
      (exists sk, In sk (e_subkeys e) /\ child = subkey_info c (p_H P) sk).
Proof. exact children_are_bound_items. Qed.
Print Assumptions C11_listed_children.

(* every listed identity: its user-ID packet is followed (only signature packets in between) by a
   signature packet of certification type whose issuer is the displayed primary key, whose hash
   prefix equals the first two octets of the digest of EXACTLY key-hash-input || 0xB4 || len || user ID
   || signature trailer, and which the signature primitive accepted under the primary key *)
Theorem C11_identity_bound : forall c P evs e, read_entity c P evs = Ok e ->
  first_key evs = Some (e_primary e) /\ e_ids e <> [] /\
  forall i, In i (e_ids e) ->
    exists s, uid_followed_by evs (id_name i) s /\ s_core s = id_self i /\
      is_cert_type (sc_type (id_self i)) = true /\
      sc_issuer (id_self i) = Some (key_id (p_H P) (e_primary e)) /\
      p_avail P (sc_hash (id_self i)) = true /\
      sig_accepted c P (e_primary e) (uid_hash_input (e_primary e) (id_name i) ++ suffix (id_self i)) (id_self i).
Proof. exact identity_bound. Qed.
Print Assumptions C11_identity_bound.

(* every listed subkey: its packet is followed by a binding (or revocation) signature accepted
   under the primary key over EXACTLY key-hash-input(primary) || key-hash-input(subkey) || trailer,
   and, when that signature carries the sign flag, by an embedded primary-key-binding signature
   accepted under the SUBKEY over the same two keys *)
Theorem C11_subkey_bound : forall c P evs e, read_entity c P evs = Ok e ->
  forall sk, In sk (e_subkeys e) ->
    exists s, subkey_followed_by evs (sk_key sk) s /\ s_core s = sk_sig sk /\
      (sc_type (sk_sig sk) = pgp_sigtype_subkey_binding \/ sc_type (sk_sig sk) = pgp_sigtype_subkey_revocation) /\
      sig_accepted c P (e_primary e) (binding_hash_input (e_primary e) (sk_key sk) ++ suffix (sk_sig sk)) (sk_sig sk) /\
      (has_flag (sc_flags (sk_sig sk)) pgp_flag_sign = true ->
       exists x, s_emb s = Some x /\
         sig_accepted c P (sk_key sk) (binding_hash_input (e_primary e) (sk_key sk) ++ suffix x) x).
Proof. exact subkey_bound. Qed.
Print Assumptions C11_subkey_bound.

(* the signature whose usage and lifetime a subkey SHOWS (for a revoked subkey: the binding signature
   kept beside the revocation) is likewise a binding or revocation accepted under the primary key *)
Theorem C11_subkey_shown_bound : forall c P evs e, read_entity c P evs = Ok e ->
  forall sk, In sk (e_subkeys e) ->
    exists s, subkey_followed_by evs (sk_key sk) s /\ s_core s = sk_shown c sk /\
      (sc_type (sk_shown c sk) = pgp_sigtype_subkey_binding \/ sc_type (sk_shown c sk) = pgp_sigtype_subkey_revocation) /\
      sig_accepted c P (e_primary e) (binding_hash_input (e_primary e) (sk_key sk) ++ suffix (sk_shown c sk)) (sk_shown c sk).
Proof. exact subkey_shown_bound. Qed.
Print Assumptions C11_subkey_shown_bound.

(* the key material in those messages is the packet body as it appears in the input *)
Theorem C11_reserialise_exact : forall ecok body k rest, bytes_ok body = true ->
  parse_public_key fixed ecok body = Ok (k, rest) -> key_body k ++ rest = body.
Proof. intros ecok body k rest. apply parse_public_key_exact. reflexivity. Qed.
Print Assumptions C11_reserialise_exact.

(* unambiguous framing: equal messages mean equal key body, user ID, hashed area and header *)
Theorem C11_hash_input_injective : forall k u s k' u' s',
  lenN (key_body k) < 65536 -> lenN (key_body k') < 65536 ->
  lenN u < 4294967296 -> lenN u' < 4294967296 ->
  lenN (sc_hashed s) < 65536 -> lenN (sc_hashed s') < 65536 ->
  uid_hash_input k u ++ suffix s = uid_hash_input k' u' ++ suffix s' ->
  key_body k = key_body k' /\ u = u' /\ sc_hashed s = sc_hashed s' /\ sig_header s = sig_header s'.
Proof. exact uid_message_injective. Qed.
Print Assumptions C11_hash_input_injective.

Theorem C11_binding_input_injective : forall k sk s k' sk' s',
  lenN (key_body k) < 65536 -> lenN (key_body k') < 65536 ->
  lenN (key_body sk) < 65536 -> lenN (key_body sk') < 65536 ->
  lenN (sc_hashed s) < 65536 -> lenN (sc_hashed s') < 65536 ->
  binding_hash_input k sk ++ suffix s = binding_hash_input k' sk' ++ suffix s' ->
  key_body k = key_body k' /\ key_body sk = key_body sk' /\ sc_hashed s = sc_hashed s' /\ sig_header s = sig_header s'.
Proof. exact binding_message_injective. Qed.
Print Assumptions C11_binding_input_injective.

(* a certification can never be taken for a subkey binding or the other way round *)
Theorem C11_uid_vs_binding_disjoint : forall k u s k' sk' s',
  lenN (key_body k) < 65536 -> lenN (key_body k') < 65536 ->
  uid_hash_input k u ++ suffix s <> binding_hash_input k' sk' ++ suffix s'.
Proof. exact uid_vs_binding_disjoint. Qed.
Print Assumptions C11_uid_vs_binding_disjoint.

(* the length bounds hold for everything the parsers return *)
Theorem C11_parsed_lengths : forall c ecok body k rest fuel l s rest',
  bytes_ok body = true -> parse_public_key c ecok body = Ok (k, rest) ->
  bytes_ok l = true -> parse_sig_fuel fuel l = Ok (s, rest') ->
  lenN (key_body k) < 65536 /\ lenN (sc_hashed (s_core s)) < 65536.
Proof. exact parsed_lengths. Qed.
Print Assumptions C11_parsed_lengths.

(* The bit-flip formulation, RELATIVE TO the named cryptographic hypothesis
     flip_sensitive P k0 genuine := forall c msg s, sig_accepted c P k0 msg s -> genuine (sc_hash s) msg (sig_values s)
   "whatever the signature check accepts under the honest primary key k0 was signed by its holder",
   where the holder signed exactly the certifications [uids] and bindings [subs] of the unmodified
   key (genuine_of).  Then, whatever is done to the packets BEHIND the (unchanged) primary key — any
   number of changed bits in user IDs, subkeys, signatures, added or removed packets — an identity
   that is still listed is, in user ID, hashed area and signature header, bit for bit one of the
   original certified identities; likewise a listed subkey equals an original bound subkey in key
   body, hashed area and header.  With [strong = true] (the hypothesis then also says that only
   signature VALUES the holder produced verify: strong unforgeability, true of RSA PKCS#1 v1.5 and
   Ed25519, not of DSA / ECDSA where (r, -s) verifies too) the integers of the signature value are
   the original ones as well.  A changed bit in any of those regions of an item therefore makes the
   item disappear or the key be rejected.  Changes of the primary key itself: C11_bitflip_primary below. *)
Theorem C11_bitflip_identity : forall strong c P k0 uids subs evs e,
  flip_sensitive P k0 (genuine_of strong k0 uids subs) ->
  sane_key k0 -> Forall (fun x => lenN (su_uid x) < 4294967296 /\ sane_sig (su_sig x)) uids ->
  read_entity c P evs = Ok e ->
  e_primary e = k0 ->
  forall i, In i (e_ids e) -> lenN (id_name i) < 4294967296 -> sane_sig (id_self i) ->
  exists x, In x uids /\ id_name i = su_uid x /\
    sc_hashed (id_self i) = sc_hashed (su_sig x) /\ sig_header (id_self i) = sig_header (su_sig x) /\
    (strong = true -> sig_values (id_self i) = sig_values (su_sig x)).
Proof. exact bitflip_identity. Qed.
Print Assumptions C11_bitflip_identity.

Theorem C11_bitflip_subkey : forall strong c P k0 uids subs evs e,
  flip_sensitive P k0 (genuine_of strong k0 uids subs) ->
  sane_key k0 -> Forall (fun x => sane_key (ss_key x) /\ sane_sig (ss_sig x)) subs ->
  read_entity c P evs = Ok e ->
  e_primary e = k0 ->
  forall sk, In sk (e_subkeys e) -> sane_key (sk_key sk) -> sane_sig (sk_sig sk) ->
  exists x, In x subs /\ key_body (sk_key sk) = key_body (ss_key x) /\
    sc_hashed (sk_sig sk) = sc_hashed (ss_sig x) /\ sig_header (sk_sig sk) = sig_header (ss_sig x) /\
    (strong = true -> sig_values (sk_sig sk) = sig_values (ss_sig x)).
Proof. exact bitflip_subkey. Qed.
Print Assumptions C11_bitflip_subkey.

(* ---- the whole packet stream (every octet string, not only plain transferable keys) ---- *)

(* The model gives up on exactly one kind of packet: compressed data (8) with algorithm 2 and a
   well-formed zlib header.  Everything else - partial and indeterminate lengths, version-3 keys and
   signatures, packets of OpenPGP messages, user attributes, packets longer than their content -
   is inside the model, and C11_listed_children / C11_identity_bound / C11_subkey_bound quantify over it. *)
Theorem C11_modelled_domain : forall c P tag body complete,
  read_packet c P tag body complete = RUnmod ->
  tag = 8 /\ exists r, body = 2 :: r /\ zlib_header_ok r = true.
Proof. exact unmodelled_only_zlib. Qed.
Print Assumptions C11_modelled_domain.

(* for every octet string the reader accepts: each child of the description is an identity whose
   user-ID packet is followed by an accepted certification, or a subkey followed by an accepted
   binding - a user attribute, a version-3 key, a message packet is never listed *)
Theorem C11_stream_children_bound : forall c P private stream i,
  pgp_key c P private stream = Ok i ->
  exists e, read_entity c P (events_of c P stream) = Ok e /\
    first_key (events_of c P stream) = Some (e_primary e) /\
    forall child, In child (i_children i) ->
      (exists id s, In id (e_ids e) /\ child = identity_info c (e_primary e) id /\
         uid_followed_by (events_of c P stream) (id_name id) s /\ s_core s = id_self id /\
         is_cert_type (sc_type (id_self id)) = true /\
         sc_issuer (id_self id) = Some (key_id (p_H P) (e_primary e)) /\
         sig_accepted c P (e_primary e) (uid_hash_input (e_primary e) (id_name id) ++ suffix (id_self id)) (id_self id)) \/
      (exists sk s, In sk (e_subkeys e) /\ child = subkey_info c (p_H P) sk /\
         subkey_followed_by (events_of c P stream) (sk_key sk) s /\ s_core s = sk_sig sk /\
         sig_accepted c P (e_primary e) (binding_hash_input (e_primary e) (sk_key sk) ++ suffix (sk_sig sk)) (sk_sig sk)).
Proof. exact stream_children_bound. Qed.
Print Assumptions C11_stream_children_bound.

(* a packet of a type packet.Read does not know (marker, trust, private use, unassigned) in front of
   any stream leaves no trace in what ReadEntity sees (RFC 4880 5.8: "such a packet MUST be ignored") *)
Theorem C11_unknown_packet_skipped : forall c P tag body rest,
  known_tag tag = false -> tag < 64 -> lenN body < 192 ->
  events_of c P ((192 + tag) :: lenN body :: body ++ rest) = events_of c P rest.
Proof. exact unknown_packet_skipped. Qed.
Print Assumptions C11_unknown_packet_skipped.

(* ---- changes of the primary key itself ---- *)

(* Unconditionally: whenever packet.Read returns a key packet, the body that is hashed for it is,
   octet for octet, the beginning of the packet body in the input; and every message that is
   verified for an identity or a subkey begins with 0x99, the 2-octet length and that body of
   the PRIMARY key.  A change of the primary key body therefore changes every verified message. *)
Theorem C11_key_body_from_input : forall P tag body complete sub sec k, bytes_ok body = true ->
  read_packet fixed P tag body complete = RP (PKey sub sec k) -> exists tail, key_body k ++ tail = body.
Proof. exact key_packet_body_exact. Qed.
Print Assumptions C11_key_body_from_input.

Theorem C11_messages_begin_with_primary : forall k u sk s,
  uid_hash_input k u ++ suffix s =
    (153 :: be16 (lenN (key_body k)) ++ key_body k) ++ (180 :: be32 (lenN u) ++ u) ++ suffix s /\
  binding_hash_input k sk ++ suffix s =
    (153 :: be16 (lenN (key_body k)) ++ key_body k) ++ key_hash_input sk ++ suffix s.
Proof. intros. split; [apply uid_message_prefix | apply binding_message_prefix]. Qed.
Print Assumptions C11_messages_begin_with_primary.

(* Relative to the named hypothesis
     any_key_sensitive P genuine := forall c k msg s, sig_accepted c P k msg s -> genuine (sc_hash s) msg (sig_values s)
   (flip_sensitive for EVERY verification key k, not only the honest one: the statement is about the
   pair (key, message) - whatever key the check runs under, what it accepts is a message the holder
   of k0 signed).  For k = k0 this is unforgeability.  For k <> k0 it is no standard assumption, and
   it is false for a key the adversary makes himself (he can sign anything under his own key - and
   then HIS fingerprint is displayed, which the property allows); for a key obtained by flipping
   bits of k0 while the signatures stay as they are it says that the unchanged signature values
   do not happen to verify under the damaged key material: this is what the exhaustive single-bit
   sweep over the primary key body tests empirically.  Under it: an accepted entity has the
   ORIGINAL primary key body (so any change of it makes the key be rejected), because an identity
   or subkey that is still listed was signed over the CHANGED body, and the holder never signed that. *)
Theorem C11_bitflip_primary : forall strong c P k0 uids subs evs e,
  any_key_sensitive P (genuine_of strong k0 uids subs) ->
  sane_key k0 ->
  read_entity c P evs = Ok e -> sane_key (e_primary e) ->
  key_body (e_primary e) = key_body k0.
Proof. exact bitflip_primary. Qed.
Print Assumptions C11_bitflip_primary.

Theorem C11_changed_primary_rejected : forall strong c P k0 uids subs evs k1,
  any_key_sensitive P (genuine_of strong k0 uids subs) ->
  sane_key k0 -> sane_key k1 ->
  first_key evs = Some k1 -> key_body k1 <> key_body k0 ->
  forall e, read_entity c P evs <> Ok e.
Proof. exact changed_primary_rejected. Qed.
Print Assumptions C11_changed_primary_rejected.

(* and the listed items are original ones, without assuming that the primary key is unchanged *)
Theorem C11_bitflip_items_any_key : forall strong c P k0 uids subs evs e,
  any_key_sensitive P (genuine_of strong k0 uids subs) ->
  sane_key k0 -> sane_key (e_primary e) ->
  Forall (fun x => lenN (su_uid x) < 4294967296 /\ sane_sig (su_sig x)) uids ->
  Forall (fun x => sane_key (ss_key x) /\ sane_sig (ss_sig x)) subs ->
  read_entity c P evs = Ok e ->
  (forall i, In i (e_ids e) -> lenN (id_name i) < 4294967296 -> sane_sig (id_self i) ->
     exists x, In x uids /\ id_name i = su_uid x /\
       sc_hashed (id_self i) = sc_hashed (su_sig x) /\ sig_header (id_self i) = sig_header (su_sig x) /\
       (strong = true -> sig_values (id_self i) = sig_values (su_sig x))) /\
  (forall sk, In sk (e_subkeys e) -> sane_key (sk_key sk) -> sane_sig (sk_sig sk) ->
     exists x, In x subs /\ key_body (sk_key sk) = key_body (ss_key x) /\
       sc_hashed (sk_sig sk) = sc_hashed (ss_sig x) /\ sig_header (sk_sig sk) = sig_header (ss_sig x) /\
       (strong = true -> sig_values (sk_sig sk) = sig_values (ss_sig x))).
Proof. exact bitflip_items_any_key. Qed.
Print Assumptions C11_bitflip_items_any_key.

(* any_key_sensitive implies flip_sensitive for every key, and is satisfiable together with an accepted key *)
Theorem C11_any_key_sensitive_example :
  (forall P k0 genuine, any_key_sensitive P genuine -> flip_sensitive P k0 genuine) /\
  any_key_sensitive ex_strict (genuine_of false ex_key [mksu (bs "a") (s_core ex_sig)] []) /\
  is_ok (read_entity fixed ex_strict ex_evs) = true.
Proof. exact (conj any_key_sensitive_flip ex_any_key_sensitive). Qed.
Print Assumptions C11_any_key_sensitive_example.

(* the hypothesis is satisfiable together with an accepted key *)
Theorem C11_flip_sensitive_example :
  flip_sensitive ex_strict ex_key (genuine_of false ex_key [mksu (bs "a") (s_core ex_sig)] []) /\
  is_ok (read_entity fixed ex_strict ex_evs) = true.
Proof. exact ex_flip_sensitive. Qed.
Print Assumptions C11_flip_sensitive_example.

(* the fuel of the packet loop and of the (nested) signature parser is never exhausted: the result
   does not depend on it beyond the length of the input, and "fuel" is never the reported error *)
Theorem C11_fuel_sufficient :
  (forall f1 f2 c P l, (length l < f1)%nat -> (length l < f2)%nat -> events_fuel f1 c P l = events_fuel f2 c P l) /\
  (forall f1 f2 l, (length l < f1)%nat -> (length l < f2)%nat -> parse_sig_fuel f1 l = parse_sig_fuel f2 l) /\
  (forall l, parse_sig l <> Err "fuel").
Proof. exact (conj events_fuel_stable (conj parse_sig_fuel_stable parse_sig_no_fuel_err)). Qed.
Print Assumptions C11_fuel_sufficient.

(* the hypotheses are met by a concrete key, and the listing really depends on the primitive *)
Theorem C11_example : 
  (exists e, read_entity fixed ex_params ex_evs = Ok e /\ map id_name (e_ids e) = [bs "a"]) /\
  is_ok (read_entity fixed (mkparams (fun _ => repeat 0 20) (fun _ _ => Ok [1; 2; 3]) (fun _ => true)
                              (fun _ _ _ _ => Ok false) (fun _ _ => Ok true) (fun _ => Ok true)) ex_evs) = false.
Proof. split; [exact ex_entity_accepted | exact ex_entity_rejected]. Qed.
Print Assumptions C11_example.
