(* Model of cmd/decipher/main.go: main (flag handling, the loop over the arguments),
   inspectDirectory, inspectFile, inspectStdin, over a file-system tree.
   Executable definitions only, no proofs.

   What one report looks like (the description of a file's content) is the business of
   the other properties: it enters as the parameter [body_of path content], the text
   printInfo writes for the file.Info that file.Inspect returns for a file of that name
   and content.  [dispatch_body] instantiates it with the dispatcher model of C07. *)
From WI Require Import Lib.Base Lib.Info Lib.Strings Model.Render Model.Dispatch.
From WI Require gen.WalkConsts.
Open Scope N_scope.

(* main.go:119  const maxDepth = 1000   (regenerated from the source on every run) *)
Definition max_depth : Z := gen.WalkConsts.max_depth.
(* Linux: a path string of PATH_MAX (4096) bytes or more is refused with ENAMETOOLONG by
   stat/open/getdents, whatever it names *)
Definition path_max : nat := 4096.

(* ---------- file-system trees ---------- *)
(* A symbolic link is an entry with its RESOLVED target kind (what is found at the end of the
   chain of links, however long, relative or absolute, inside or outside the scanned tree):
   LinkFile/LinkDir/LinkNone: a regular file with the given content, a directory with the given
   listing, nothing (dangling); LinkOther: one of the remaining kinds [okind].  A hard link is
   just another Reg entry with the same content.  NoPerm is a regular file that the process may
   stat but not open (no read permission, process not root). *)
Inductive okind : Type :=
| OFifo            (* the chain of links ends at a FIFO *)
| OSock            (* at a socket *)
| OChar            (* at a character device (/dev/null, /dev/zero) *)
| OLoop            (* nowhere: the links form a loop, os.Stat fails with ELOOP *)
| ONoPerm.         (* at a regular file without read permission *)

Inductive node : Type :=
| Reg (name content : bytes)
| Dir (name : bytes) (children : list node)
| LinkFile (name content : bytes)
| LinkDir (name : bytes) (children : list node)
| LinkNone (name : bytes)
| Fifo (name : bytes)
| Sock (name : bytes)
| LinkOther (name : bytes) (target : okind)
| NoPerm (name : bytes).

Definition node_name (n : node) : bytes :=
  match n with
  | Reg a _ | Dir a _ | LinkFile a _ | LinkDir a _ | LinkNone a | Fifo a | Sock a
  | LinkOther a _ | NoPerm a => a
  end.

(* what os.Stat (which follows links) sees *)
Inductive skind : Type :=
| SReg (content : bytes) | SDir (children : list node) | SFifo | SSock | SMissing
| SChar | SNoPerm.

Definition stat (n : node) : skind :=
  match n with
  | Reg _ c | LinkFile _ c => SReg c
  | Dir _ ch | LinkDir _ ch => SDir ch
  | LinkNone _ | LinkOther _ OLoop => SMissing
  | Fifo _ | LinkOther _ OFifo => SFifo
  | Sock _ | LinkOther _ OSock => SSock
  | LinkOther _ OChar => SChar
  | NoPerm _ | LinkOther _ ONoPerm => SNoPerm
  end.

Definition too_long (p : bytes) : bool := Nat.leb path_max (length p).
Definition stat_at (p : bytes) (n : node) : skind := if too_long p then SMissing else stat n.

(* ---------- path/filepath.Clean and Join (Unix) ---------- *)
Fixpoint split_slash (l : bytes) : list bytes :=
  match l with
  | [] => [[]]
  | c :: r =>
      if c =? 47 then [] :: split_slash r
      else match split_slash r with
           | h :: t => (c :: h) :: t
           | [] => [[c]]
           end
  end.

Definition is_nilb (b : bytes) : bool := match b with [] => true | _ => false end.
Definition is_dot (b : bytes) : bool := bytes_eqb b [46].
Definition is_dotdot (b : bytes) : bool := bytes_eqb b [46; 46].

(* one path element against the stack of kept elements (innermost first) *)
Definition clean_step (rooted : bool) (stack : list bytes) (c : bytes) : list bytes :=
  if is_nilb c || is_dot c then stack
  else if is_dotdot c then
    match stack with
    | top :: below => if is_dotdot top then c :: stack else below
    | [] => if rooted then [] else [c]
    end
  else c :: stack.

Definition clean_comps (rooted : bool) (cs : list bytes) : list bytes :=
  rev (fold_left (clean_step rooted) cs []).

Definition is_rooted (p : bytes) : bool := match p with c :: _ => c =? 47 | [] => false end.

Definition render_path (rooted : bool) (cs : list bytes) : bytes :=
  if rooted then 47 :: join [47] cs
  else match cs with [] => [46] | _ => join [47] cs end.

Definition clean (p : bytes) : bytes :=
  match p with
  | [] => [46]
  | _ => render_path (is_rooted p) (clean_comps (is_rooted p) (split_slash p))
  end.

(* filepath.Join(f, name): empty elements are ignored, the rest joined by "/" and cleaned *)
Definition path_join (f name : bytes) : bytes :=
  match f, name with
  | [], [] => []
  | [], _ => clean name
  | _, [] => clean f
  | _, _ => clean (f ++ 47 :: name)
  end.

(* ---------- os.ReadDir: entries sorted by name, byte-wise (Go string order) ---------- *)
Fixpoint bytes_leb (a b : bytes) : bool :=
  match a, b with
  | [], _ => true
  | _ :: _, [] => false
  | x :: a', y :: b' => if x <? y then true else if y <? x then false else bytes_leb a' b'
  end.

Section SortBy.
  Context {A : Type}.
  Fixpoint insert_by (k : bytes) (v : A) (l : list (bytes * A)) : list (bytes * A) :=
    match l with
    | [] => [(k, v)]
    | (k', v') :: r => if bytes_leb k k' then (k, v) :: l else (k', v') :: insert_by k v r
    end.
  Fixpoint sort_by (l : list (bytes * A)) : list (bytes * A) :=
    match l with
    | [] => []
    | (k, v) :: r => insert_by k v (sort_by r)
    end.
End SortBy.

Definition keyed (l : list node) : list (bytes * node) := map (fun c => (node_name c, c)) l.
Definition read_dir (children : list node) : list node := map snd (sort_by (keyed children)).

(* ---------- observable events ---------- *)
Inductive event : Type :=
| Report (path content : bytes)   (* stdout: "path: " ++ the description of that content *)
| ReportEmpty (path : bytes)      (* stdout: "path: \n" (Inspect failed, the empty Info is printed) *)
| StdinReport (content : bytes)   (* stdout: the description alone *)
| VersionLine                     (* stdout: argv0 version *)
| LogLine (path : bytes)          (* stderr: a log line about this path *)
| Refusal (path : bytes)          (* stderr: "... is a directory. Specify -r ..." *)
| UsageText.                      (* stderr: flag error and/or usage *)

(* how the process ends *)
Inductive status : Type :=
| Exit (code : Z)
| Blocked (path : bytes)          (* os.Open on a FIFO without writer never returns *)
| Crashed (path : bytes).         (* nil dereference in file.Inspect(nil): Go exits with status 2 *)

(* a partial run: events so far and, if the process has ended, how *)
Definition res : Type := (list event * option status)%type.

Definition seq (a : res) (k : res) : res :=
  match a with
  | (e, None) => (e ++ fst k, snd k)
  | (e, Some s) => (e, Some s)
  end.

Fixpoint seq_all (l : list res) : res :=
  match l with
  | [] => ([], None)
  | a :: r => seq a (seq_all r)
  end.

(* The defects repaired in the repository, kept as switches so that the pre-repair code
   can still be evaluated (the _refuted theorems):
   q_nil_after_open  (F9)  inspectFile went on with a nil *os.File after a failed open;
   q_open_any        (F10) the walk handed every non-directory entry to inspectFile, which opens it;
   q_readdir_fatal   (F10b) a sub-directory that cannot be read ended the process (log.Fatalln). *)
Record quirks := mkq { q_nil_after_open : bool; q_open_any : bool; q_readdir_fatal : bool }.
Definition repaired : quirks := mkq false false false.
Definition pinned : quirks := mkq true true true.

Section Walk.
  Variable q : quirks.

  (* main.go inspectFile(filePath), given what the path names *)
  Definition inspect_file (p : bytes) (k : skind) : res :=
    match k with
    | SReg c => ([Report p c], None)                       (* open, Inspect, print *)
    | SFifo => ([], Some (Blocked p))                      (* os.Open blocks *)
    | SSock | SMissing | SNoPerm =>                        (* os.Open fails: ENXIO / ENOENT / ENAMETOOLONG / EACCES *)
        if q_nil_after_open q then ([LogLine p], Some (Crashed p)) else ([LogLine p], None)
    | SDir _ => ([LogLine p; ReportEmpty p], None)         (* open succeeds, ReadAll fails with EISDIR *)
    | SChar => ([ReportEmpty p], None)                     (* /dev/null: open succeeds, ReadAll returns no bytes, the
                                                              Info with the path alone is printed (a device that
                                                              delivers bytes is read up to the cap: not modelled) *)
    end.

  (* the else-branch of the loop in inspectDirectory: an entry whose DirEntry.IsDir() is false *)
  Definition other_entry (p : bytes) (k : skind) : res :=
    if q_open_any q then inspect_file p k
    else match k with
         | SReg c => inspect_file p (SReg c)
         | SNoPerm => inspect_file p SNoPerm               (* a regular file for os.Stat; os.Open fails *)
         | _ => ([LogLine p], None)                        (* os.Stat failed or the RESOLVED target is not a regular
                                                              file (FIFO, socket, device, directory behind a link,
                                                              dangling link, loop): skipped, never opened *)
         end.

  (* inspectDirectory(p, rem) once the listing is known; [subs] are the sorted entries,
     each as a function of the directory's path and remaining depth *)
  Definition walk_dir (subs : list (bytes * (bytes -> Z -> res))) (p : bytes) (rem : Z) : res :=
    if (rem <? 0)%Z then ([], None)
    else if too_long p then
      (if q_readdir_fatal q then ([LogLine p], Some (Exit 1)) else ([LogLine p], None))
    else seq_all (map (fun s => snd s p rem) subs).

  (* one iteration of the loop of inspectDirectory(f, rem) for entry n *)
  Fixpoint walk_entry (n : node) : bytes -> Z -> res :=
    match n with
    | Dir name ch =>
        let subs := sort_by (map (fun c => (node_name c, walk_entry c)) ch) in
        fun f rem => walk_dir subs (path_join f name) (rem - 1)%Z
    | _ => fun f _ => let p := path_join f (node_name n) in other_entry p (stat_at p n)
    end.

  Definition walk_top (ch : list node) (arg : bytes) : res :=
    walk_dir (sort_by (map (fun c => (node_name c, walk_entry c)) ch)) arg max_depth.
End Walk.

(* ---------- the flag package, for the two boolean flags of main ---------- *)
Definition parse_bool (s : bytes) : option bool :=   (* strconv.ParseBool *)
  if existsb (bytes_eqb s) [bs "1"; bs "t"; bs "T"; bs "TRUE"; bs "true"; bs "True"] then Some true
  else if existsb (bytes_eqb s) [bs "0"; bs "f"; bs "F"; bs "FALSE"; bs "false"; bs "False"] then Some false
  else None.

Fixpoint split_eq (s : bytes) : bytes * option bytes :=   (* at the first '=' *)
  match s with
  | [] => ([], None)
  | c :: r => if c =? 61 then ([], Some r)
              else match split_eq r with (n, v) => (c :: n, v) end
  end.

Inductive flagres : Type :=
| FOk (recursive version : bool) (rest : list bytes)
| FHelp                                   (* -h / -help: usage, exit 0 *)
| FError.                                 (* bad syntax, unknown flag, bad boolean: usage, exit 2 *)

(* flag.FlagSet.parseOne, repeated *)
Fixpoint parse_flags (r v : bool) (args : list bytes) : flagres :=
  match args with
  | [] => FOk r v []
  | s :: rest =>
      match s with
      | c0 :: c :: s' =>
          if negb (c0 =? 45) then FOk r v args                    (* first non-flag argument *)
          else if (c =? 45) && is_nilb s' then FOk r v rest       (* "--" ends the flags *)
          else
            let name := if c =? 45 then s' else c :: s' in
            match name with
            | [] => FError
            | n0 :: tl =>
                if (n0 =? 45) || (n0 =? 61) then FError           (* bad flag syntax *)
                else
                  let '(tl', value) := split_eq tl in
                  let nm := n0 :: tl' in
                  let setb (k : bool -> flagres) :=
                    match value with
                    | None => k true
                    | Some x => match parse_bool x with Some b => k b | None => FError end
                    end in
                  if bytes_eqb nm (bs "r") then setb (fun b => parse_flags b v rest)
                  else if bytes_eqb nm (bs "version") then setb (fun b => parse_flags r b rest)
                  else if bytes_eqb nm (bs "help") || bytes_eqb nm (bs "h") then FHelp
                  else FError
            end
      | _ => FOk r v args                                         (* "", "-", one byte: not a flag *)
      end
  end.

(* ---------- resolving an argument in the current directory ---------- *)
Fixpoint lookup_name (name : bytes) (l : list node) : option node :=
  match l with
  | [] => None
  | n :: r => if bytes_eqb (node_name n) name then Some n else lookup_name name r
  end.

Fixpoint resolve_in (cur : list node) (cs : list bytes) : skind :=
  match cs with
  | [] => SDir cur
  | c :: rest =>
      match lookup_name c cur with
      | None => SMissing
      | Some n =>
          match rest with
          | [] => stat n
          | _ => match stat n with SDir ch => resolve_in ch rest | _ => SMissing end
          end
      end
  end.

Definition real_comp (c : bytes) : bool := negb (is_nilb c || is_dot c).

(* os.Stat(arg) for a relative path without ".." elements: ""->ENOENT; "x/" and "x/."
   demand a directory (ENOTDIR otherwise) *)
Definition resolve (fs : list node) (arg : bytes) : skind :=
  match arg with
  | [] => SMissing
  | _ =>
      let raw := split_slash arg in
      let k := resolve_in fs (filter real_comp raw) in
      let must_dir := match rev raw with last :: _ :: _ => negb (real_comp last) | _ => false end in
      if too_long arg then SMissing
      else if must_dir then match k with SDir _ => k | _ => SMissing end else k
  end.

(* ---------- main ---------- *)
Section Main.
  Variable q : quirks.

  (* the loop over flag.Args() *)
  Fixpoint main_loop (fs : list node) (recursive : bool) (args : list bytes) : res :=
    match args with
    | [] => ([], None)
    | f :: rest =>
        match resolve fs f with
        | SMissing => ([LogLine f], Some (Exit 1))                       (* log.Fatalln(err) *)
        | SDir ch =>
            if recursive then seq (walk_top q ch f) (main_loop fs recursive rest)
            else ([Refusal f], Some (Exit 1))
        | k => seq (inspect_file q f k) (main_loop fs recursive rest)
        end
    end.

  Definition finish (r : res) : list event * status :=
    match r with (e, Some s) => (e, s) | (e, None) => (e, Exit 0) end.

  Definition main_run (fs : list node) (argv : list bytes) (stdin : bytes) : list event * status :=
    match parse_flags false false argv with
    | FError => ([UsageText], Exit 2)
    | FHelp => ([UsageText], Exit 0)
    | FOk recursive version rest =>
        if version then ([VersionLine], Exit 0)
        else
          let f := match rest with a :: _ => a | [] => [] end in     (* flag.Arg(0) *)
          if is_nilb f || bytes_eqb f [45] then ([StdinReport stdin], Exit 0)
          else finish (main_loop fs recursive rest)
    end.
End Main.

(* ---------- reading a stream: internal/file/info.go:42-43 ----------
   data, err := io.ReadAll(io.LimitReader(f, MaxReadSize))
   A stream (a pipe, a socket, a terminal, a regular file) is the list of the byte strings that
   the successive calls of f.Read return before the final (0, io.EOF): the chunks.  Where the
   chunks end is decided by the writer's write calls and pauses, the pipe buffer and the room
   ReadAll offers; a chunk may be empty (a Read that returns 0, nil: io.ReadAll goes on).
   io.LimitedReader.Read returns io.EOF without reading once N bytes have been delivered, and
   never asks for more than the remaining N (a longer chunk cannot be returned: what exceeds the
   remainder stays in the stream).  io.ReadAll appends what each Read returns until io.EOF. *)
Definition max_read_size : N := gen.WalkConsts.max_read_size.   (* info.go:28, regenerated *)

Fixpoint take_n (n : N) (l : bytes) : bytes :=
  match l with
  | [] => []
  | x :: r => if n =? 0 then [] else x :: take_n (n - 1) r
  end.

Fixpoint read_all (remaining : N) (chunks : list bytes) : bytes :=
  match chunks with
  | [] => []                                            (* f.Read: 0, io.EOF *)
  | c :: rest =>
      if remaining =? 0 then []                         (* LimitedReader: N <= 0 -> io.EOF *)
      else let got := take_n remaining c in
           got ++ read_all (remaining - N.of_nat (length got)) rest
  end.

(* main when standard input delivers the chunks: inspectStdin parses what Inspect has read *)
Definition main_run_stream (q : quirks) (fs : list node) (argv : list bytes) (chunks : list bytes)
    : list event * status :=
  main_run q fs argv (read_all max_read_size chunks).

(* NOT the code: a read loop that takes a Read which does not fill the room it was offered for
   the end of the input (true for regular files, false for pipes).  Kept only for the
   counter-example C10_stdin_short_read_refuted. *)
Fixpoint read_until_short (room : nat) (chunks : list bytes) : bytes :=
  match chunks with
  | [] => []
  | c :: rest => if Nat.ltb (length c) room then c else c ++ read_until_short room rest
  end.

(* the byte string cut into pieces of the given lengths (what is left over is the last piece) *)
Fixpoint cut_at (lens : list nat) (data : bytes) : list bytes :=
  match lens with
  | [] => match data with [] => [] | _ => [data] end
  | n :: rest => firstn n data :: cut_at rest (skipn n data)
  end.

(* ---------- descriptors a scan holds ----------
   main.go inspectDirectory: os.ReadDir(f) opens the directory, reads ALL its entries and closes
   it before the loop over the entries starts; an entry that is not a directory is stat'ed (no
   descriptor) and, if regular, opened by inspectFile, which closes it (defer in inspectFile)
   before it returns to the loop.  [peak_fds n]: the largest number of descriptors the scan of
   entry n has open at one time, beyond the constant of the process (standard streams, the
   run-time's poller). *)
Fixpoint peak_fds (n : node) : nat :=
  match n with
  | Dir _ ch => Nat.max 1 (fold_right (fun c m => Nat.max (peak_fds c) m) 0%nat ch)
  | Reg _ _ | LinkFile _ _ => 1%nat
  | _ => 0%nat
  end.

(* NOT the code: a loop that opens each file itself and defers the close to the end of the
   directory's scan (defer inside the loop): every regular file of a directory, and of all its
   ancestors, is still open while the rest is scanned.  (opened so far, peak) over the entries;
   kept only for the counter-example C10_descriptors_deferred_close_refuted. *)
Fixpoint peak_fds_deferred (n : node) : nat :=
  match n with
  | Dir _ ch =>
      snd (fold_left (fun (st : nat * nat) c =>
                        let (held, peak) := st in
                        match c with
                        | Dir _ _ => (held, Nat.max peak (held + peak_fds_deferred c))
                        | Reg _ _ | LinkFile _ _ => (S held, Nat.max peak (S held))
                        | _ => st
                        end) ch (0%nat, 1%nat))
  | Reg _ _ | LinkFile _ _ => 1%nat
  | _ => 0%nat
  end.

(* a directory of k regular files *)
Fixpoint wide_listing (k : nat) : list node :=
  match k with
  | O => []
  | S k' => Reg (N.of_nat k' :: nil) [] :: wide_listing k'
  end.

(* ---------- what is written to standard output ---------- *)
Section Out.
  Variable body_of : bytes -> bytes -> bytes.   (* path -> content -> printInfo(Inspect(file)) *)
  Variable argv0 : bytes.

  Definition stdin_path : bytes := bs "/dev/stdin".   (* os.Stdin.Name() *)

  Definition out_of (e : event) : bytes :=
    match e with
    | Report p c => p ++ [58; 32] ++ body_of p c
    | ReportEmpty p => p ++ [58; 32] ++ [10]
    | StdinReport c => body_of stdin_path c
    | VersionLine => argv0 ++ [32] ++ gen.WalkConsts.version ++ [10]
    | LogLine _ | Refusal _ | UsageText => []
    end.

  Definition stdout_of (es : list event) : bytes := flat_map out_of es.
End Out.

(* concatenation without deep recursion (the extracted [app] is not tail-recursive and one
   description can be megabytes long); used by the case runner; equal to [stdout_of]: Proofs.Walk.stdout_tr_eq *)
Definition cat_tr (l : list bytes) : bytes :=
  rev_append (fold_left (fun acc x => rev_append x acc) l []) [].
Definition out_of_tr (body : bytes -> bytes -> bytes) (argv0 : bytes) (e : event) : bytes :=
  match e with
  | Report p c => cat_tr [p; [58; 32]; body p c]
  | e => out_of body argv0 e
  end.
Definition stdout_tr (body : bytes -> bytes -> bytes) (argv0 : bytes) (es : list event) : bytes :=
  cat_tr (map (out_of_tr body argv0) es).

(* the description text, by the dispatcher model of C07 and the renderer of C20; an
   Inspect that panics is C01's subject and prints nothing here *)
Definition dispatch_body (sniff : bytes -> bytes -> bool) (parse : bytes -> bytes -> result info)
    (path content : bytes) : bytes :=
  match inspect sniff parse path content with
  | Ok i => print_info i 0
  | _ => []
  end.

(* ---------- the specification side: what a recursive scan must report ---------- *)
(* the tree with every listing sorted by name *)
Fixpoint sort_tree (n : node) : node :=
  match n with
  | Dir name ch => Dir name (map snd (sort_by (map (fun c => (node_name c, sort_tree c)) ch)))
  | LinkDir name ch => LinkDir name (map snd (sort_by (map (fun c => (node_name c, sort_tree c)) ch)))
  | _ => n
  end.
Definition sort_listing (ch : list node) : list node :=
  map snd (sort_by (map (fun c => (node_name c, sort_tree c)) ch)).

(* depth-first enumeration, in listing order, of the entries that are regular files
   (directly or through a link), with the path under which each is reported;
   links to directories are not followed *)
Fixpoint files_of (n : node) (f : bytes) : list (bytes * bytes) :=
  match n with
  | Reg name c | LinkFile name c => [(path_join f name, c)]
  | Dir name ch => flat_map (fun c => files_of c (path_join f name)) ch
  | _ => []
  end.
Definition files_in (ch : list node) (f : bytes) : list (bytes * bytes) :=
  flat_map (fun c => files_of c f) ch.

Definition dfs_sorted_regular_files (ch : list node) (d : bytes) : list (bytes * bytes) :=
  files_in (sort_listing ch) d.

(* number of directories between the scanned directory and the deepest entry *)
Fixpoint height (n : node) : nat :=
  match n with
  | Dir _ ch => S (fold_right (fun c m => Nat.max (height c) m) 0%nat ch)
  | _ => 0%nat
  end.
Definition height_in (ch : list node) : nat := fold_right (fun c m => Nat.max (height c) m) 0%nat ch.

(* every path handed to the operating system during a scan of listing ch under f is short enough *)
Fixpoint paths_ok (n : node) (f : bytes) : bool :=
  let p := path_join f (node_name n) in
  negb (too_long p) &&
  match n with
  | Dir _ ch => forallb (fun c => paths_ok c p) ch
  | _ => true
  end.
Definition paths_ok_in (ch : list node) (f : bytes) : bool :=
  negb (too_long f) && forallb (fun c => paths_ok c f) ch.

(* the events that write to standard output *)
Definition is_report (e : event) : bool :=
  match e with Report _ _ | ReportEmpty _ | StdinReport _ | VersionLine => true | _ => false end.
Definition reports (es : list event) : list event := filter is_report es.

(* an argument that is neither a flag nor the "-" of standard input *)
Definition plain_arg (a : bytes) : bool := match a with c :: _ => negb (c =? 45) | [] => false end.

(* names a directory entry can have: not empty, not "." or "..", no '/' and no NUL *)
Definition name_ok (a : bytes) : bool :=
  negb (is_nilb a) && negb (is_dot a) && negb (is_dotdot a)
  && forallb (fun b => negb (b =? 47) && negb (b =? 0)) a.

Fixpoint names_distinct (l : list bytes) : bool :=
  match l with
  | [] => true
  | a :: r => negb (existsb (bytes_eqb a) r) && names_distinct r
  end.

(* a tree that can exist: valid names, distinct within each directory *)
Fixpoint tree_ok (n : node) : bool :=
  name_ok (node_name n) &&
  match n with
  | Dir _ ch | LinkDir _ ch => names_distinct (map node_name ch) && forallb tree_ok ch
  | _ => true
  end.
Definition listing_ok (ch : list node) : bool :=
  names_distinct (map node_name ch) && forallb tree_ok ch.
