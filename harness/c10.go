package main

// C10 — recursive scans of the CLI.  Cases are directory trees materialised under c.Tmp
// plus an argument vector; the implementation's observation is what the real binary
// (c.Bin, built from the repository tree) printed on standard output, its exit status,
// whether it had to be killed after the timeout ("blocked") and whether the Go runtime
// printed a goroutine trace ("crashed").  The per-file oracle (what the binary prints for
// each regular file when it is the only argument) is recorded in the case input.

import (
	"bytes"
	"context"
	"crypto/ed25519"
	"crypto/x509"
	"encoding/base64"
	"encoding/pem"
	"fmt"
	"go/ast"
	"go/parser"
	"go/token"
	"net"
	"os"
	"os/exec"
	"path/filepath"
	"strconv"
	"strings"
	"sync"
	"sync/atomic"
	"syscall"
	"time"
	"unsafe"

	"github.com/edutko/decipher/internal/file"
	"golang.org/x/crypto/ssh"
)

func init() {
	gens["C10"] = genC10
	dumpers = append(dumpers, dumpC10)
}

// dumpC10 reads the constants of package main (which cannot be imported) from the source.
func dumpC10(out map[string]any) {
	src := filepath.Join(repoDir(), "cmd", "decipher", "main.go")
	fset := token.NewFileSet()
	f, err := parser.ParseFile(fset, src, nil, 0)
	if err != nil {
		panic(fmt.Sprintf("C10 dump: %v", err))
	}
	res := map[string]any{}
	for _, d := range f.Decls {
		gd, ok := d.(*ast.GenDecl)
		if !ok {
			continue
		}
		for _, s := range gd.Specs {
			vs, ok := s.(*ast.ValueSpec)
			if !ok {
				continue
			}
			for i, n := range vs.Names {
				if i >= len(vs.Values) {
					continue
				}
				lit, ok := vs.Values[i].(*ast.BasicLit)
				if !ok {
					continue
				}
				switch {
				case n.Name == "maxDepth" && gd.Tok == token.CONST && lit.Kind == token.INT:
					v, err := strconv.Atoi(lit.Value)
					if err == nil {
						res["max_depth"] = v
					}
				case n.Name == "Version" && gd.Tok == token.VAR && lit.Kind == token.STRING:
					v, err := strconv.Unquote(lit.Value)
					if err == nil {
						res["version"] = v
					}
				}
			}
		}
	}
	if _, ok := res["max_depth"]; !ok {
		panic("C10 dump: const maxDepth = <integer literal> not found in cmd/decipher/main.go")
	}
	if _, ok := res["version"]; !ok {
		panic("C10 dump: var Version = <string literal> not found in cmd/decipher/main.go")
	}
	// internal/file/info.go: the cap of the read loop, from the running code
	res["max_read_size"] = int64(file.MaxReadSize)
	out["walk_consts"] = res
}

// ---------- trees ----------

const (
	kReg = iota
	kDir
	kLinkFile
	kLinkDir
	kLinkNone
	kFifo
	kSock
	kLinkOther // a link whose resolved target is none of the above: see oFifo...
	kNoPerm    // a regular file without any permission bit (the run is made without root's privileges)
)

// resolved target kinds of kLinkOther
const (
	oFifo = iota
	oSock
	oChar
	oLoop
	oNoPerm
)

// fnode.how says how the entry is made; the model only sees what the entry resolves to.
//
//	links:  "" or "abs" absolute target outside the scanned tree; "rel" relative target (../../t/x);
//	        "chain" link -> absolute link -> relative link -> target; "sib:NAME" the target is the
//	        entry NAME of the same directory (relative target NAME);
//	        kLinkDir "up": target ".."; oLoop "self": the link names itself, "pair": a -> b -> a;
//	        oChar "null", "zero", "chain-null": /dev/null, /dev/zero, link -> link -> /dev/null
//	kReg:   "hard:NAME" a second name (hard link) of the regular file NAME of the same directory;
//	        "hardout" a second name of a file outside the scanned tree
type fnode struct {
	kind     int
	name     string
	content  []byte
	children []*fnode
	target   int
	how      string
}

func reg(name string, content []byte) *fnode { return &fnode{kind: kReg, name: name, content: content} }
func dir(name string, ch ...*fnode) *fnode   { return &fnode{kind: kDir, name: name, children: ch} }
func lfile(name string, content []byte) *fnode {
	return &fnode{kind: kLinkFile, name: name, content: content}
}
func ldir(name string, ch ...*fnode) *fnode { return &fnode{kind: kLinkDir, name: name, children: ch} }
func other(kind int, name string) *fnode    { return &fnode{kind: kind, name: name} }

func lother(name string, target int, how string) *fnode {
	return &fnode{kind: kLinkOther, name: name, target: target, how: how}
}
func (n *fnode) with(how string) *fnode { n.how = how; return n }

func (n *fnode) sx() Sx {
	var out SL
	switch n.kind {
	case kReg, kLinkFile:
		out = SL{I(n.kind), S(n.name), SB(n.content)}
	case kDir, kLinkDir:
		out = SL{I(n.kind), S(n.name), listSx(n.children)}
	case kLinkOther:
		out = SL{I(n.kind), S(n.name), I(n.target)}
	default:
		out = SL{I(n.kind), S(n.name)}
	}
	if n.how != "" {
		out = append(out, S(n.how))
	}
	return out
}

// hasKind reports whether the listing contains, at any depth, a node satisfying f.
func hasNode(l []*fnode, f func(*fnode) bool) bool {
	for _, n := range l {
		if n == nil {
			continue
		}
		if f(n) || hasNode(n.children, f) {
			return true
		}
	}
	return false
}

// an entry on which a scan that opens it would wait or read without end
func blockingCandidate(n *fnode) bool {
	return n.kind == kFifo || n.kind == kLinkOther && (n.target == oFifo || n.target == oChar)
}
func needsUnpriv(n *fnode) bool {
	return n.kind == kNoPerm || n.kind == kLinkOther && n.target == oNoPerm
}

func listSx(l []*fnode) Sx {
	out := SL{}
	for _, n := range l {
		out = append(out, n.sx())
	}
	return out
}

type wcase struct {
	kind      string
	tree      []*fnode // listing of the working directory
	argv      []string
	stdin     []byte
	stdinMode int  // see the dXxx constants
	pieces    []int // lengths of the pieces the writer writes (sum = len(stdin)); nil: all at once
	pauses    []int // milliseconds the writer sleeps before each piece
	lateClose int   // milliseconds between the last piece and the close
	limits    c10Limits // resource limits of the main run (the single-file runs of the oracle have none)
	fdrel     bool // tree must be created with directory-relative system calls (paths beyond PATH_MAX)
	waitsOn   bool // an argument names a FIFO: the run is expected to wait for a writer; short timeout
}

// how the bytes reach standard input
const (
	dNone     = 0 // /dev/null
	dExecPipe = 1 // os/exec's pipe: one writer goroutine copies the bytes as fast as the pipe takes them
	dFile     = 2 // a regular file opened for reading
	dPipe     = 3 // a pipe written piece by piece with pauses, closed lateClose ms after the last piece
	dSocket   = 4 // one end of a socketpair(AF_UNIX, SOCK_STREAM), written like dPipe
	dPty      = 5 // the slave side of a pseudo-terminal in canonical mode; end of input is ^D
)

type c10env struct {
	c       *Ctx
	root    string
	pubRoot string // world-searchable scratch directory with a copy of the binary, for runs without privileges ("" if none)
	pubBin  string
	mu      sync.Mutex
	cache   map[string][2]Sx // (path \x00 content) -> (stdout, exit)
	blocked int32
	seq     int32
}

// mkSocket makes a socket inode at p: bind under a short name (sun_path is limited to 108
// bytes), then move into place.
func mkSocket(p, tdir string, tn *int) error {
	*tn++
	short := filepath.Join(tdir, fmt.Sprintf("s%d", *tn))
	if len(short) > 100 {
		return syscall.Mknod(p, syscall.S_IFSOCK|0o644, 0)
	}
	ln, err := net.Listen("unix", short)
	if err != nil {
		return err
	}
	ln.(*net.UnixListener).SetUnlinkOnClose(false)
	ln.Close()
	return os.Rename(short, p)
}

// mkLink makes the symbolic link p (an entry of dirPath) lead to target in the way n.how says.
func mkLink(p, dirPath, tdir, target string, how string, tn *int) error {
	switch how {
	case "rel":
		rel, err := filepath.Rel(dirPath, target)
		if err != nil {
			return err
		}
		return os.Symlink(rel, p)
	case "chain":
		*tn++
		c1 := filepath.Join(tdir, fmt.Sprintf("c%da", *tn))
		c2 := filepath.Join(tdir, fmt.Sprintf("c%db", *tn))
		if err := os.Symlink(target, c2); err != nil {
			return err
		}
		if err := os.Symlink(filepath.Base(c2), c1); err != nil {
			return err
		}
		return os.Symlink(c1, p)
	}
	return os.Symlink(target, p)
}

// materialise creates the listing under dirPath; link targets go to tdir.
func (e *c10env) materialise(dirPath, tdir string, l []*fnode, tn *int) error {
	var later []*fnode // hard links to entries of the same directory: after their targets exist
	for _, n := range l {
		if n == nil {
			continue
		}
		p := filepath.Join(dirPath, n.name)
		// filepath.Join cleans; names here never contain separators or dots-only elements
		if strings.HasPrefix(n.how, "sib:") && n.kind != kReg {
			// a link to an entry of the same directory, by its bare name
			if err := os.Symlink(strings.TrimPrefix(n.how, "sib:"), p); err != nil {
				return err
			}
			continue
		}
		switch n.kind {
		case kReg:
			switch {
			case strings.HasPrefix(n.how, "hard:"):
				later = append(later, n)
			case n.how == "hardout":
				*tn++
				t := filepath.Join(tdir, fmt.Sprintf("h%d", *tn))
				if err := os.WriteFile(t, n.content, 0o644); err != nil {
					return err
				}
				if err := os.Link(t, p); err != nil {
					return err
				}
			default:
				if err := os.WriteFile(p, n.content, 0o644); err != nil {
					return err
				}
			}
		case kNoPerm:
			if err := os.WriteFile(p, []byte("1EC9414C-232A-6B00-B3C8-9E6BDECED846"), 0o644); err != nil {
				return err
			}
			if err := os.Chmod(p, 0); err != nil {
				return err
			}
		case kDir:
			if err := os.Mkdir(p, 0o755); err != nil {
				return err
			}
			if err := e.materialise(p, tdir, n.children, tn); err != nil {
				return err
			}
		case kLinkFile:
			*tn++
			t := filepath.Join(tdir, fmt.Sprintf("f%d", *tn))
			if err := os.WriteFile(t, n.content, 0o644); err != nil {
				return err
			}
			if err := mkLink(p, dirPath, tdir, t, n.how, tn); err != nil {
				return err
			}
		case kLinkDir:
			if n.how == "up" {
				if err := os.Symlink("..", p); err != nil {
					return err
				}
				break
			}
			*tn++
			t := filepath.Join(tdir, fmt.Sprintf("d%d", *tn))
			if err := os.Mkdir(t, 0o755); err != nil {
				return err
			}
			if err := e.materialise(t, tdir, n.children, tn); err != nil {
				return err
			}
			if err := mkLink(p, dirPath, tdir, t, n.how, tn); err != nil {
				return err
			}
		case kLinkNone:
			if err := mkLink(p, dirPath, tdir, filepath.Join(tdir, "missing"), n.how, tn); err != nil {
				return err
			}
		case kLinkOther:
			*tn++
			t := filepath.Join(tdir, fmt.Sprintf("o%d", *tn))
			how := n.how
			switch n.target {
			case oFifo:
				if err := syscall.Mkfifo(t, 0o644); err != nil {
					return err
				}
			case oSock:
				if err := mkSocket(t, tdir, tn); err != nil {
					return err
				}
			case oNoPerm:
				if err := os.WriteFile(t, []byte("1EC9414C-232A-6B00-B3C8-9E6BDECED846"), 0o644); err != nil {
					return err
				}
				if err := os.Chmod(t, 0); err != nil {
					return err
				}
			case oChar:
				t = "/dev/null"
				if how == "zero" {
					t = "/dev/zero"
				}
				if how == "chain-null" {
					how = "chain"
				} else {
					how = "abs"
				}
			case oLoop:
				if how == "pair" {
					// p -> t -> p
					if err := os.Symlink(p, t); err != nil {
						return err
					}
					how = "abs"
				} else {
					t, how = n.name, "abs" // the link names itself
				}
			}
			if err := mkLink(p, dirPath, tdir, t, how, tn); err != nil {
				return err
			}
		case kFifo:
			if err := syscall.Mkfifo(p, 0o644); err != nil {
				return err
			}
		case kSock:
			if err := mkSocket(p, tdir, tn); err != nil {
				return err
			}
		}
	}
	for _, n := range later {
		if err := os.Link(filepath.Join(dirPath, strings.TrimPrefix(n.how, "hard:")), filepath.Join(dirPath, n.name)); err != nil {
			return err
		}
	}
	return nil
}

// materialiseAt creates regular files and directories relative to an open directory, so that
// trees whose paths exceed PATH_MAX can exist.
func materialiseAt(fd int, l []*fnode) error {
	for _, n := range l {
		switch n.kind {
		case kReg:
			f, err := syscall.Openat(fd, n.name, syscall.O_WRONLY|syscall.O_CREAT|syscall.O_TRUNC, 0o644)
			if err != nil {
				return err
			}
			if _, err := syscall.Write(f, n.content); err != nil && len(n.content) > 0 {
				syscall.Close(f)
				return err
			}
			syscall.Close(f)
		case kDir:
			if err := syscall.Mkdirat(fd, n.name, 0o755); err != nil {
				return err
			}
			sub, err := syscall.Openat(fd, n.name, syscall.O_RDONLY|syscall.O_DIRECTORY, 0)
			if err != nil {
				return err
			}
			err = materialiseAt(sub, n.children)
			syscall.Close(sub)
			if err != nil {
				return err
			}
		default:
			return fmt.Errorf("materialiseAt: kind %d not supported", n.kind)
		}
	}
	return nil
}

const c10Argv0 = "decipher"

type runObs struct {
	stdout  []byte
	exit    int
	blocked bool
	crashed bool
}

func (o runObs) sx() Sx { return SL{SB(o.stdout), I(o.exit), Bool(o.blocked), Bool(o.crashed)} }

func (e *c10env) runBin(cwd string, argv []string, stdin []byte, stdinMode int) runObs {
	return e.run(&runSpec{cwd: cwd, argv: argv, stdin: stdin, mode: stdinMode})
}

type runSpec struct {
	cwd       string
	argv      []string
	stdin     []byte
	mode      int
	pieces    []int
	pauses    []int
	lateClose int
	deadline  time.Duration // 0: the default
	expected  bool          // blocking is the expected outcome (a FIFO named as an argument)
	unpriv    bool          // run as an unprivileged user (the harness is root)
	limits    c10Limits
	bin       string
}

// openPty returns the two sides of a new pseudo-terminal; the slave is put into canonical mode
// without echo, signals or any input/output translation, end of file is ^D.
func openPty() (master, slave *os.File, err error) {
	m, err := os.OpenFile("/dev/ptmx", os.O_RDWR|syscall.O_NOCTTY, 0)
	if err != nil {
		return nil, nil, err
	}
	ioctl := func(fd uintptr, req uintptr, arg unsafe.Pointer) error {
		if _, _, en := syscall.Syscall(syscall.SYS_IOCTL, fd, req, uintptr(arg)); en != 0 {
			return en
		}
		return nil
	}
	var n uint32
	var unlock int32
	if err := ioctl(m.Fd(), syscall.TIOCGPTN, unsafe.Pointer(&n)); err != nil {
		m.Close()
		return nil, nil, err
	}
	if err := ioctl(m.Fd(), syscall.TIOCSPTLCK, unsafe.Pointer(&unlock)); err != nil {
		m.Close()
		return nil, nil, err
	}
	sl, err := os.OpenFile(fmt.Sprintf("/dev/pts/%d", n), os.O_RDWR|syscall.O_NOCTTY, 0)
	if err != nil {
		m.Close()
		return nil, nil, err
	}
	var t syscall.Termios
	if err := ioctl(sl.Fd(), syscall.TCGETS, unsafe.Pointer(&t)); err == nil {
		t.Iflag, t.Oflag, t.Lflag = 0, 0, syscall.ICANON
		t.Cc[syscall.VEOF] = 4
		err = ioctl(sl.Fd(), syscall.TCSETS, unsafe.Pointer(&t))
	}
	if err != nil {
		m.Close()
		sl.Close()
		return nil, nil, err
	}
	return m, sl, nil
}

var ptyOnce sync.Once
var ptyOK bool

// ptyAvailable: a pseudo-terminal can be opened and carries a line and an end of file
func ptyAvailable() bool {
	ptyOnce.Do(func() {
		m, sl, err := openPty()
		if err != nil {
			return
		}
		defer m.Close()
		defer sl.Close()
		done := make(chan bool, 1)
		go func() {
			buf := make([]byte, 16)
			n, _ := sl.Read(buf)
			n2, _ := sl.Read(buf[n:])
			done <- n == 3 && n2 == 0
		}()
		m.Write([]byte("ab\n\x04"))
		select {
		case ok := <-done:
			ptyOK = ok
		case <-time.After(2 * time.Second):
		}
	})
	return ptyOK
}

// feed writes the bytes the way the case says and closes the writing side.
func (sp *runSpec) feed(w *os.File) {
	pieces := sp.pieces
	if pieces == nil {
		pieces = []int{len(sp.stdin)}
	}
	off := 0
	for i, n := range pieces {
		if i < len(sp.pauses) && sp.pauses[i] > 0 {
			time.Sleep(time.Duration(sp.pauses[i]) * time.Millisecond)
		}
		if off+n > len(sp.stdin) {
			n = len(sp.stdin) - off
		}
		if _, err := w.Write(sp.stdin[off : off+n]); err != nil {
			break // the reader has gone
		}
		off += n
	}
	if sp.mode == dPty {
		// end of input on a terminal: ^D at the beginning of a line (a first ^D ends an unfinished line)
		if len(sp.stdin) > 0 && sp.stdin[len(sp.stdin)-1] != '\n' {
			w.Write([]byte{4})
		}
		w.Write([]byte{4})
	}
	if sp.lateClose > 0 {
		time.Sleep(time.Duration(sp.lateClose) * time.Millisecond)
	}
	if sp.mode != dPty {
		w.Close()
	}
}

func (e *c10env) run(sp *runSpec) runObs {
	// generous: an ordinary run takes milliseconds; only a run that really blocks gets here,
	// even on a heavily loaded machine
	to := 30 * time.Second
	if atomic.LoadInt32(&e.blocked) >= 2 {
		to = 10 * time.Second // a blocking defect is established; do not spend 30 s on every further case
	}
	if sp.deadline > 0 {
		// the case holds an entry on which a careless scan waits (FIFO, link to a FIFO or to a
		// device) or names a FIFO as an argument: a hang is an outcome to report, soon
		to = sp.deadline
		if !sp.expected && atomic.LoadInt32(&e.blocked) >= 2 {
			to = sp.deadline / 2
		}
	}
	ctx, cancel := context.WithTimeout(context.Background(), to)
	defer cancel()
	bin := e.c.Bin
	if sp.bin != "" {
		bin = sp.bin
	}
	cmd := exec.CommandContext(ctx, bin)
	cmd.Args = append([]string{c10Argv0}, sp.argv...) // a fixed os.Args[0]: case inputs must not depend on the scratch directory
	if script := sp.limits.script(); script != "" {
		// lowered resource limits: set by the shell, which then becomes the tool (os.Args[0] is the
		// binary's path here: these cases print neither usage nor version)
		cmd = exec.CommandContext(ctx, "/bin/sh", append([]string{"-c", script + `exec "$0" "$@"`, bin}, sp.argv...)...)
	}
	cmd.Dir = sp.cwd
	cmd.Env = append(os.Environ(), "LC_ALL=en_US.UTF-8", "LANG=en_US.UTF-8")
	if sp.unpriv {
		cmd.SysProcAttr = &syscall.SysProcAttr{Credential: &syscall.Credential{Uid: 65534, Gid: 65534}}
	}
	var so, se bytes.Buffer
	cmd.Stdout = &so
	cmd.Stderr = &se
	var writer *os.File     // what feed writes to
	var closeAfter []*os.File // closed once the child has ended
	var childEnd *os.File   // closed in the parent once the child has started
	switch sp.mode {
	case dExecPipe:
		cmd.Stdin = bytes.NewReader(sp.stdin)
	case dFile:
		n := atomic.AddInt32(&e.seq, 1)
		p := filepath.Join(e.root, fmt.Sprintf("stdin-%d", n))
		_ = os.WriteFile(p, sp.stdin, 0o644)
		f, err := os.Open(p)
		if err == nil {
			defer f.Close()
			defer os.Remove(p)
			cmd.Stdin = f
		}
	case dPipe:
		r, w, err := os.Pipe()
		if err != nil {
			return runObs{exit: -3}
		}
		cmd.Stdin, childEnd, writer = r, r, w
	case dSocket:
		fds, err := syscall.Socketpair(syscall.AF_UNIX, syscall.SOCK_STREAM|syscall.SOCK_CLOEXEC, 0)
		if err != nil {
			return runObs{exit: -3}
		}
		r, w := os.NewFile(uintptr(fds[0]), "socket"), os.NewFile(uintptr(fds[1]), "socket")
		cmd.Stdin, childEnd, writer = r, r, w
	case dPty:
		m, sl, err := openPty()
		if err != nil {
			return runObs{exit: -3}
		}
		cmd.Stdin, childEnd, writer = sl, sl, m
		closeAfter = append(closeAfter, m)
	}
	cmd.WaitDelay = time.Second
	err := cmd.Start()
	if childEnd != nil {
		childEnd.Close()
	}
	if err == nil {
		if writer != nil {
			go sp.feed(writer)
		}
		err = cmd.Wait()
	} else if writer != nil {
		writer.Close()
	}
	for _, f := range closeAfter {
		f.Close()
	}
	o := runObs{stdout: so.Bytes()}
	if ctx.Err() == context.DeadlineExceeded {
		if !sp.expected {
			atomic.AddInt32(&e.blocked, 1)
		}
		o.blocked = true
		o.exit = -1
		return o
	}
	if err != nil {
		if ee, ok := err.(*exec.ExitError); ok {
			o.exit = ee.ExitCode()
		} else {
			o.exit = -2
		}
	}
	o.crashed = o.exit == 2 && bytes.Contains(se.Bytes(), []byte("\ngoroutine ")) && bytes.Contains(se.Bytes(), []byte("[running]:"))
	return o
}

// setupUnpriv prepares what runs without root's privileges need when the harness is root: a
// scratch directory every user can search and a copy of the binary in it.  Left empty when that
// is impossible (the cases with unreadable files are then not generated).
func (e *c10env) setupUnpriv() {
	if os.Geteuid() != 0 {
		return
	}
	d, err := os.MkdirTemp(os.TempDir(), "c10pub-")
	if err != nil {
		return
	}
	ok := false
	defer func() {
		if !ok {
			os.RemoveAll(d)
		}
	}()
	if os.Chmod(d, 0o755) != nil {
		return
	}
	b, err := os.ReadFile(e.c.Bin)
	if err != nil {
		return
	}
	bin := filepath.Join(d, "decipher")
	if os.WriteFile(bin, b, 0o755) != nil {
		return
	}
	probe := filepath.Join(d, "probe")
	if os.WriteFile(probe, []byte("1EC9414C-232A-6B00-B3C8-9E6BDECED846"), 0o644) != nil {
		return
	}
	secret := filepath.Join(d, "secret")
	if os.WriteFile(secret, []byte("1EC9414C-232A-6B00-B3C8-9E6BDECED846"), 0o644) != nil || os.Chmod(secret, 0) != nil {
		return
	}
	e.pubRoot, e.pubBin = d, bin
	o1 := e.run(&runSpec{cwd: d, argv: []string{"--", "probe"}, unpriv: true, bin: bin})
	o2 := e.run(&runSpec{cwd: d, argv: []string{"--", "secret"}, unpriv: true, bin: bin})
	// the unprivileged run reads the readable file and cannot read the other
	if o1.exit == 0 && bytes.HasPrefix(o1.stdout, []byte("probe: UUID")) && o2.exit == 0 && len(o2.stdout) == 0 {
		ok = true
	} else {
		e.pubRoot, e.pubBin = "", ""
	}
}

// single runs the binary on one path alone (the oracle of the property), cached by path and content.
func (e *c10env) single(cwd, path string, content []byte) Sx {
	key := path + "\x00" + string(content)
	e.mu.Lock()
	v, ok := e.cache[key]
	e.mu.Unlock()
	if !ok {
		o := e.runBin(cwd, []string{"--", path}, nil, 0)
		if path == "-" {
			// a lone "-" means standard input; the file of that name is inspected alone as "./-"
			o = e.runBin(cwd, []string{"--", "./-"}, nil, 0)
			if bytes.HasPrefix(o.stdout, []byte("./-: ")) {
				o.stdout = o.stdout[2:]
			}
		}
		ex := o.exit
		if o.blocked || o.crashed {
			ex = 99
		}
		v = [2]Sx{SB(append([]byte{}, o.stdout...)), I(ex)}
		e.mu.Lock()
		e.cache[key] = v
		e.mu.Unlock()
	}
	return SL{S(path), v[0], v[1]}
}

func lookupNode(l []*fnode, name string) *fnode {
	for _, n := range l {
		if n.name == name {
			return n
		}
	}
	return nil
}

// oracleFor lists, for one argument, every entry below it that names a regular file (directly or
// through a link) with the path Go's filepath.Join gives it, and records the single-file run.
func (e *c10env) oracleFor(cwd string, tree []*fnode, arg string, out *SL, seen map[string]bool) {
	if arg == "" || strings.Contains(arg, "..") && strings.Contains("/"+arg+"/", "/../") {
		return
	}
	cur := tree
	var node *fnode
	comps := []string{}
	for _, c := range strings.Split(arg, "/") {
		if c != "" && c != "." {
			comps = append(comps, c)
		}
	}
	for i, c := range comps {
		node = lookupNode(cur, c)
		if node == nil {
			return
		}
		if node.kind == kDir || node.kind == kLinkDir {
			cur = node.children
		} else if i != len(comps)-1 {
			return
		}
	}
	add := func(p string, content []byte) {
		if !seen[p] {
			seen[p] = true
			*out = append(*out, e.single(cwd, p, content))
		}
	}
	if node != nil && (node.kind == kReg || node.kind == kLinkFile) {
		add(arg, node.content)
		return
	}
	if node != nil && node.kind != kDir && node.kind != kLinkDir {
		return
	}
	var rec func(dirPath string, l []*fnode)
	rec = func(dirPath string, l []*fnode) {
		for _, n := range l {
			p := filepath.Join(dirPath, n.name)
			switch n.kind {
			case kReg, kLinkFile:
				add(p, n.content)
			case kDir:
				rec(p, n.children)
			}
		}
	}
	rec(arg, cur)
}

func (e *c10env) runCase(idx int, wc *wcase) (Sx, Sx, error) {
	base := filepath.Join(e.root, fmt.Sprintf("k%d", idx))
	unpriv := false
	if hasNode(wc.tree, needsUnpriv) && os.Geteuid() == 0 {
		// permission bits mean nothing to root: the scan itself runs as an unprivileged user
		if e.pubRoot == "" {
			return nil, nil, nil
		}
		unpriv = true
		base = filepath.Join(e.pubRoot, fmt.Sprintf("k%d", idx))
	}
	cwd := filepath.Join(base, "w")
	tdir := filepath.Join(base, "t")
	if err := os.MkdirAll(cwd, 0o755); err != nil {
		return nil, nil, err
	}
	if err := os.MkdirAll(tdir, 0o755); err != nil {
		return nil, nil, err
	}
	defer os.RemoveAll(base)
	if wc.fdrel {
		fd, err := syscall.Open(cwd, syscall.O_RDONLY|syscall.O_DIRECTORY, 0)
		if err != nil {
			return nil, nil, err
		}
		err = materialiseAt(fd, wc.tree)
		syscall.Close(fd)
		if err != nil {
			return nil, nil, fmt.Errorf("materialiseAt: %v", err)
		}
	} else {
		tn := 0
		if err := e.materialise(cwd, tdir, wc.tree, &tn); err != nil {
			return nil, nil, fmt.Errorf("materialise: %v", err)
		}
	}
	sp := &runSpec{cwd: cwd, argv: wc.argv, stdin: wc.stdin, mode: wc.stdinMode, pieces: wc.pieces, pauses: wc.pauses, limits: wc.limits,
		lateClose: wc.lateClose, unpriv: unpriv}
	if unpriv {
		sp.bin = e.pubBin
	}
	switch {
	case wc.waitsOn:
		sp.deadline, sp.expected = 6*time.Second, true
	case hasNode(wc.tree, blockingCandidate):
		sp.deadline = 12 * time.Second
	}
	obs := e.run(sp)
	oracle := SL{}
	seen := map[string]bool{}
	for _, a := range wc.argv {
		e.oracleFor(cwd, wc.tree, a, &oracle, seen)
	}
	{
		// the same bytes in a file with a name no pattern of the format table matches
		key := "\x00stdin\x00" + string(wc.stdin)
		e.mu.Lock()
		v, ok := e.cache[key]
		e.mu.Unlock()
		if !ok {
			nd := filepath.Join(base, "n")
			_ = os.MkdirAll(nd, 0o755)
			_ = os.WriteFile(filepath.Join(nd, "f"), wc.stdin, 0o644)
			o := e.runBin(nd, []string{"--", "f"}, nil, 0)
			body := o.stdout
			if bytes.HasPrefix(body, []byte("f: ")) {
				body = body[3:]
			}
			ex := o.exit
			if o.blocked || o.crashed {
				ex = 99
			}
			v = [2]Sx{SB(append([]byte("/dev/stdin: "), body...)), I(ex)}
			e.mu.Lock()
			e.cache[key] = v
			e.mu.Unlock()
		}
		oracle = append(oracle, SL{S("/dev/stdin"), v[0], v[1]})
	}
	args := SL{}
	for _, a := range wc.argv {
		args = append(args, S(a))
	}
	pieces, pauses := SL{}, SL{}
	for _, n := range wc.pieces {
		pieces = append(pieces, I(n))
	}
	for _, n := range wc.pauses {
		pauses = append(pauses, I(n))
	}
	delivery := SL{I(wc.stdinMode), pieces, pauses, I(wc.lateClose)}
	input := SL{S(c10Argv0), args, SB(wc.stdin), listSx(wc.tree), oracle, delivery}
	if wc.limits != (c10Limits{}) {
		input = append(input, SL{I(wc.limits.nofile), I(wc.limits.stackKB), I(wc.limits.vmemKB)})
	}
	return input, obs.sx(), nil
}

// ---------- generators ----------

var c10Names = []string{"a", "B", "_", "é", "-x", "a b", " lead", "~", "z", "A", "b", "aa", "a.pem", "Z", "0",
	"authorized_keys", "known_hosts", "x.der", "e", "éé", "a-", "a_", "aB", "-", "--", "-r", "\xff", "x=y",
	"a\nb", "-rf", "\xc3", "a\tb", c10LongName, "a.pub", "c.der", "t.jwt",
	"50%off.txt", "%s", "%d%%", "100%", "%!v(BADINDEX)", "a%20b"}

// a name of NAME_MAX bytes
var c10LongName = strings.Repeat("n", 250) + ".nnnn"

func c10Contents(r *Rng) [][]byte {
	pub, _, _ := ed25519.GenerateKey(r)
	sp, _ := ssh.NewPublicKey(pub)
	line := ssh.MarshalAuthorizedKey(sp)
	der, _ := x509.MarshalPKIXPublicKey(pub)
	pemb := pem.EncodeToMemory(&pem.Block{Type: "PUBLIC KEY", Bytes: der})
	return [][]byte{
		{},
		[]byte("hello\n"),
		[]byte("1EC9414C-232A-6B00-B3C8-9E6BDECED846"),
		{0x30, 0x03, 0x02, 0x01, 0x05},
		line,
		pemb,
		der,
		jwtWith(map[string]any{"sub": "alice"}, map[string]any{"alg": "none"}),
		[]byte("f47ac10b-58cc-4372-a567-0e02b2c3d479\n"),
		{0x00, 0xff, 0x0a, 0x0a},
		// formats that are found by content sniffers looking at the file size or at text around a block:
		// PEM preceded by other text (openssl -text / "Bag Attributes" output), base64 of DER
		append([]byte("Bag Attributes\n    friendlyName: example\nsubject=CN = x\n"), pemb...),
		[]byte(base64.StdEncoding.EncodeToString(der) + "\n"),
	}
}

type c10gen struct {
	r        *Rng
	contents [][]byte
	pool     [][]byte
}

func (g *c10gen) content() []byte {
	// the random trees draw from the basic contents and from the order-sensitive families (c10_order.go)
	if len(g.pool) > 0 && g.r.Intn(2) == 0 {
		return g.pool[g.r.Intn(len(g.pool))]
	}
	return g.contents[g.r.Intn(len(g.contents))]
}

func (g *c10gen) names(n int) []string {
	// n distinct names, in random (creation) order
	pool := append([]string{}, c10Names...)
	out := []string{}
	for i := 0; i < n && len(pool) > 0; i++ {
		k := g.r.Intn(len(pool))
		out = append(out, pool[k])
		pool = append(pool[:k], pool[k+1:]...)
	}
	return out
}

func (g *c10gen) randListing(depth, maxFan int) []*fnode {
	n := g.r.Intn(maxFan + 1)
	out := []*fnode{}
	for _, name := range g.names(n) {
		out = append(out, g.randNode(name, depth, maxFan))
	}
	return out
}

func (g *c10gen) randNode(name string, depth, maxFan int) *fnode {
	x := g.r.Intn(100)
	switch {
	case x < 42:
		return reg(name, g.content())
	case x < 68:
		if depth <= 0 {
			return dir(name)
		}
		return dir(name, g.randListing(depth-1, maxFan)...)
	case x < 75:
		return lfile(name, g.content()).with([]string{"", "rel", "chain"}[g.r.Intn(3)])
	case x < 82:
		return ldir(name, g.randListing(0, 2)...).with([]string{"", "rel", "chain"}[g.r.Intn(3)])
	case x < 86:
		return other(kLinkNone, name).with([]string{"", "rel", "chain"}[g.r.Intn(3)])
	case x < 90:
		return other(kFifo, name)
	case x < 93:
		return other(kSock, name)
	case x < 94:
		return reg(name, g.content()).with("hardout")
	default:
		// a link whose resolved target is a FIFO, a socket, a character device or a loop
		switch g.r.Intn(4) {
		case 0:
			return lother(name, oFifo, []string{"abs", "rel", "chain"}[g.r.Intn(3)])
		case 1:
			return lother(name, oSock, []string{"abs", "rel", "chain"}[g.r.Intn(3)])
		case 2:
			return lother(name, oChar, []string{"null", "zero", "chain-null"}[g.r.Intn(3)])
		default:
			return lother(name, oLoop, []string{"self", "pair"}[g.r.Intn(2)])
		}
	}
}

// chainNames returns name lengths (each <= 250) such that len(prefix) + sum(1+len) == total.
func chainNames(prefixLen, total int) []string {
	rest := total - prefixLen
	out := []string{}
	for rest > 0 {
		n := 250
		if rest-1 < n {
			n = rest - 1
		}
		if rest-1-n == 1 { // would leave room for "/" only
			n--
		}
		if n <= 0 {
			break
		}
		out = append(out, strings.Repeat("n", n))
		rest -= 1 + n
	}
	return out
}

// chain builds d/<names...> with leaf listing at the bottom and extra entries beside the first element.
func chain(names []string, bottom []*fnode) *fnode {
	if len(names) == 0 {
		return nil
	}
	cur := dir(names[len(names)-1], bottom...)
	for i := len(names) - 2; i >= 0; i-- {
		cur = dir(names[i], cur)
	}
	return cur
}

type c10Content struct {
	tag  string
	data []byte
	text bool // lines of printable characters: can be typed into a terminal
}

// c10StdinContents: one input of every kind the tool describes, and junk.
func c10StdinContents(r *Rng, basic [][]byte) []c10Content {
	when := time.Date(2024, 2, 29, 12, 0, 0, 0, time.UTC)
	cert := certWith(r, x509.KeyUsageDigitalSignature, nil, []string{"stdin.example.org"}, nil, when)
	cert2 := certWith(r, x509.KeyUsageCertSign, nil, []string{"xn--hllo-bpa.example.org"}, nil, when)
	certPEM := pem.EncodeToMemory(&pem.Block{Type: "CERTIFICATE", Bytes: cert})
	cert2PEM := pem.EncodeToMemory(&pem.Block{Type: "CERTIFICATE", Bytes: cert2})
	pubPEM := basic[5]
	bundle := append(append(append([]byte{}, certPEM...), pubPEM...), cert2PEM...)
	b64 := []byte(base64.StdEncoding.EncodeToString(cert))
	var b64lines []byte
	for i := 0; i < len(b64); i += 64 {
		j := i + 64
		if j > len(b64) {
			j = len(b64)
		}
		b64lines = append(append(b64lines, b64[i:j]...), '\n')
	}
	jwt := jwtWith(map[string]any{"sub": "alice", "name": "Zoë ☃", "iat": 1700000000}, map[string]any{"alg": "HS256", "typ": "JWT"})
	return []c10Content{
		{"pem-bundle", bundle, true},
		{"pem-cert", certPEM, true},
		{"der-cert", cert, false},
		{"base64", b64lines, true},
		{"jwt", jwt, true},
		{"jwt-nl", append(append([]byte{}, jwt...), '\n'), true},
		{"uuid", []byte("123e4567-e89b-12d3-a456-426614174000\n"), true},
		{"pgp-armor", armoredPGPKey(r, true), true},
		{"ssh-pub", basic[4], true},
		{"junk", r.Bytes(777), false},
		{"utf8-text", []byte("Grüße, мир — 世界 ☃ 𝄞\nnoch eine Zeile: äöü\n"), false},
		{"empty", []byte{}, true},
	}
}

// c10BigContents: inputs of about the given size whose description changes when any part of
// them is lost: PEM bundles of certificates, and bundles in which large blocks of an unknown
// type separate the certificates (few lines of output for many bytes of input).
func c10BigContents(r *Rng, kinds []c10Content, size int) []c10Content {
	certPEM := kinds[1].data
	var out []c10Content
	if size <= 100<<10 {
		var b []byte
		for len(b) < size {
			b = append(b, certPEM...)
		}
		out = append(out, c10Content{tag: fmt.Sprintf("certs-%dk", size>>10), data: b, text: true})
	}
	var b []byte
	for len(b) < size {
		b = append(b, certPEM...)
		b = append(b, pem.EncodeToMemory(&pem.Block{Type: "FILLER", Bytes: r.Bytes(20000 + r.Intn(30000))})...)
	}
	b = append(b, kinds[0].data...)
	out = append(out, c10Content{tag: fmt.Sprintf("mixed-%dk", size>>10), data: b, text: true})
	return out
}

// evenPieces cuts n bytes into pieces of the given size (the last one shorter).
func evenPieces(n, size int) []int {
	var out []int
	for n > 0 {
		k := size
		if k > n {
			k = n
		}
		out = append(out, k)
		n -= k
	}
	return out
}

// randomPieces cuts the content at up to k-1 places.  With nasty set, the places are chosen among
// those where a piece ends inside something: inside the first line, inside a base64 quantum
// (offset in its line not a multiple of 4), inside a multi-byte UTF-8 sequence, just before a
// line feed; otherwise anywhere.
func randomPieces(r *Rng, ct []byte, k int, nasty bool) []int {
	if len(ct) < 2 {
		return []int{len(ct)}
	}
	var cand []int
	if nasty {
		lineStart := 0
		for i := 1; i < len(ct); i++ {
			if ct[i-1] == '\n' {
				lineStart = i
			}
			switch {
			case ct[i]&0xC0 == 0x80, // between the bytes of a multi-byte sequence
				(i-lineStart)%4 != 0, // inside a base64 quantum
				ct[i] == '\n',
				lineStart == 0: // inside the first line ("-----BEGIN ...")
				cand = append(cand, i)
			}
		}
	}
	cuts := map[int]bool{}
	for i := 0; i < k-1; i++ {
		if len(cand) > 0 {
			cuts[cand[r.Intn(len(cand))]] = true
		} else {
			cuts[1+r.Intn(len(ct)-1)] = true
		}
	}
	var out []int
	prev := 0
	for i := 1; i < len(ct); i++ {
		if cuts[i] {
			out = append(out, i-prev)
			prev = i
		}
	}
	return append(out, len(ct)-prev)
}

func randomPauses(r *Rng, n, lo, hi int) []int {
	out := make([]int, n)
	for i := range out {
		out[i] = lo + r.Intn(hi-lo+1)
	}
	return out
}

func genC10(c *Ctx) {
	root := filepath.Join(c.Tmp, "c10")
	_ = os.MkdirAll(root, 0o755)
	defer os.RemoveAll(root)
	e := &c10env{c: c, root: root, cache: map[string][2]Sx{}}
	e.setupUnpriv()
	if e.pubRoot != "" {
		defer os.RemoveAll(e.pubRoot)
	}
	g := &c10gen{r: c.R}
	g.contents = c10Contents(c.R)
	g.pool = c10OrderContents(c)
	uuid := g.contents[2]
	hello := g.contents[1]
	der := g.contents[3]
	var cases []*wcase
	add := func(kind string, tree []*fnode, argv ...string) *wcase {
		wc := &wcase{kind: kind, tree: tree, argv: argv}
		cases = append(cases, wc)
		return wc
	}

	// ---- corpus: the witnesses of the known defects first ----
	// F9: dangling link under -r (nil dereference aborted the scan)
	add("walk:corpus-dangling", []*fnode{dir("d", reg("a", uuid), other(kLinkNone, "m"), reg("z", der))}, "-r", "d")
	// F10: FIFO in a scanned directory (open blocks)
	add("walk:corpus-fifo", []*fnode{dir("d", reg("a.der", der), other(kFifo, "b.fifo"), reg("c.der", der))}, "-r", "d")
	// socket: open fails with ENXIO, same path as F9
	add("walk:corpus-sock", []*fnode{dir("d", reg("a", uuid), other(kSock, "m"), reg("z", der))}, "-r", "d")
	// link to a directory under -r: not followed
	add("walk:corpus-linkdir", []*fnode{dir("d", reg("a", uuid), ldir("m", reg("inner", hello)), reg("z", der))}, "-r", "d")
	// directory without -r after a file argument; nonexistent path
	add("walk:corpus-refuse", []*fnode{reg("f", uuid), dir("d", reg("a", der)), reg("g", der)}, "f", "d", "g")
	add("walk:corpus-missing", []*fnode{reg("f", uuid), reg("g", der)}, "f", "nonexistent", "g")
	// F11: depth limit; 1000 directories below the argument are scanned, the 1001st is not
	for _, k := range []int{1000, 1001} {
		names := make([]string, k)
		for i := range names {
			names[i] = "a"
		}
		add(fmt.Sprintf("walk:deep%d", k), []*fnode{dir("d", chain(names, []*fnode{reg("f", uuid)}), reg("z", der))}, "-r", "d")
	}
	// F10b: a directory that cannot be read (path beyond PATH_MAX) ended the whole scan
	for _, total := range []int{4095, 4096, 4300} {
		names := chainNames(1, total)
		wc := add(fmt.Sprintf("walk:longdir%d", total), []*fnode{dir("d", reg("a", uuid), chain(names, []*fnode{reg("f", der)}), reg("z", der))}, "-r", "d")
		wc.fdrel = true
	}
	for _, total := range []int{4095, 4096} {
		names := chainNames(1, total)
		last := names[len(names)-1]
		var mid *fnode
		if len(names) > 1 {
			mid = chain(names[:len(names)-1], []*fnode{reg("0", hello), reg(last, uuid), reg("~", hello)})
		}
		wc := add(fmt.Sprintf("walk:longfile%d", total), []*fnode{dir("d", mid, reg("z", der))}, "-r", "d")
		wc.fdrel = true
	}

	// wide directories: more entries than any plausible read batch (ReadDir chunking must not
	// change the sorted order), created in shuffled order, with one sub-directory in the middle
	for _, n := range []int{300, 700} {
		if n > 300 && !c.Thorough() {
			continue
		}
		var ch []*fnode
		for i := 0; i < n; i++ {
			ch = append(ch, reg(fmt.Sprintf("f%05d.txt", i), hello))
		}
		ch = append(ch, dir("f00150.d", reg("x", uuid), reg("X", der)))
		for i := len(ch) - 1; i > 0; i-- {
			j := c.R.Intn(i + 1)
			ch[i], ch[j] = ch[j], ch[i]
		}
		add(fmt.Sprintf("walk:wide%d", n), []*fnode{dir("d", ch...)}, "-r", "d")
	}

	// ---- every entry kind at first / middle / last position, directly and one level down ----
	// (the listing always holds the regular files y, b, M (a UUID) and, for the entries that lead to
	// an entry of the same directory, the FIFO P.fifo, the socket Q.sock and the directory R.dir)
	type entryKind struct {
		tag  string
		sibs bool // needs the extra siblings
		mk   func(name string) *fnode
	}
	kinds := []entryKind{
		{"reg", false, func(n string) *fnode { return reg(n, uuid) }},
		{"empty", false, func(n string) *fnode { return reg(n, nil) }},
		{"dir", false, func(n string) *fnode { return dir(n, reg("in", hello), reg("In", der)) }},
		{"emptydir", false, func(n string) *fnode { return dir(n) }},
		{"linkfile", false, func(n string) *fnode { return lfile(n, uuid) }},
		{"linkdir", false, func(n string) *fnode { return ldir(n, reg("inner", hello)) }},
		{"linknone", false, func(n string) *fnode { return other(kLinkNone, n) }},
		{"fifo", false, func(n string) *fnode { return other(kFifo, n) }},
		{"sock", false, func(n string) *fnode { return other(kSock, n) }},
		// a second name of a regular file of the same directory / of a file outside the tree
		{"hardlink", false, func(n string) *fnode { return reg(n, uuid).with("hard:M") }},
		{"hardlink-out", false, func(n string) *fnode { return reg(n, der).with("hardout") }},
		// links to a regular file: relative target, through two more links, to an entry of the same directory
		{"linkfile-rel", false, func(n string) *fnode { return lfile(n, uuid).with("rel") }},
		{"linkfile-chain", false, func(n string) *fnode { return lfile(n, der).with("chain") }},
		{"linkfile-sib", false, func(n string) *fnode { return lfile(n, uuid).with("sib:M") }},
		// links to a directory (never followed by a scan)
		{"linkdir-rel", false, func(n string) *fnode { return ldir(n, reg("inner", hello)).with("rel") }},
		{"linkdir-chain", false, func(n string) *fnode { return ldir(n, reg("inner", hello)).with("chain") }},
		{"linkdir-up", false, func(n string) *fnode { return ldir(n).with("up") }},
		{"linkdir-sib", true, func(n string) *fnode { return ldir(n, reg("inner", hello)).with("sib:R.dir") }},
		// dangling
		{"linknone-rel", false, func(n string) *fnode { return other(kLinkNone, n).with("rel") }},
		{"linknone-chain", false, func(n string) *fnode { return other(kLinkNone, n).with("chain") }},
		// links to a FIFO: a scan that opens what the link leads to waits for ever
		{"linkfifo", false, func(n string) *fnode { return lother(n, oFifo, "abs") }},
		{"linkfifo-rel", false, func(n string) *fnode { return lother(n, oFifo, "rel") }},
		{"linkfifo-chain", false, func(n string) *fnode { return lother(n, oFifo, "chain") }},
		{"linkfifo-sib", true, func(n string) *fnode { return lother(n, oFifo, "sib:P.fifo") }},
		// links to a socket
		{"linksock", false, func(n string) *fnode { return lother(n, oSock, "abs") }},
		{"linksock-chain", false, func(n string) *fnode { return lother(n, oSock, "chain") }},
		{"linksock-sib", true, func(n string) *fnode { return lother(n, oSock, "sib:Q.sock") }},
		// links to character devices: /dev/null delivers nothing, /dev/zero never ends
		{"linknull", false, func(n string) *fnode { return lother(n, oChar, "null") }},
		{"linkzero", false, func(n string) *fnode { return lother(n, oChar, "zero") }},
		{"linknull-chain", false, func(n string) *fnode { return lother(n, oChar, "chain-null") }},
		// loops of links
		{"loop-self", false, func(n string) *fnode { return lother(n, oLoop, "self") }},
		{"loop-pair", false, func(n string) *fnode { return lother(n, oLoop, "pair") }},
		// no read permission (the scan runs without privileges)
		{"noperm", false, func(n string) *fnode { return other(kNoPerm, n) }},
		{"link-noperm", false, func(n string) *fnode { return lother(n, oNoPerm, "abs") }},
	}
	for _, k := range kinds {
		for _, pname := range []string{"0first", "mid", "~last"} {
			mkListing := func() []*fnode {
				l := []*fnode{reg("y", der), k.mk(pname), reg("b", hello), reg("M", uuid)}
				if k.sibs {
					l = append(l, other(kFifo, "P.fifo"), other(kSock, "Q.sock"), dir("R.dir", reg("inner", hello)))
				}
				return l
			}
			tag := fmt.Sprintf("walk:pos-%s", k.tag)
			add(tag, []*fnode{dir("d", mkListing()...)}, "-r", "d")
			add(tag+"-nested", []*fnode{dir("d", reg("z", der), dir("s", mkListing()...), reg("A", hello))}, "-r", "d")
		}
	}
	// the same entry kinds in the scanned directory itself and under unusual names, with
	// regular files on both sides
	nasty := []string{"a b", "a\nb", "-x", "--", "-r", "\xff\xfe", c10LongName, " ", "é", "a\tb", "*", "..."}
	for i, nm := range nasty {
		for j, k := range kinds {
			if (i+j)%5 != 0 && !c.Thorough() {
				continue
			}
			l := []*fnode{reg(" ", hello), k.mk(nm + "!"), reg("~~", uuid), reg("M", uuid)}
			if k.sibs {
				l = append(l, other(kFifo, "P.fifo"), other(kSock, "Q.sock"), dir("R.dir", reg("inner", hello)))
			}
			if len(nm)+1 > 255 {
				l[1].name = nm[:254] + "!"
			}
			add("walk:name-"+k.tag, l, "-r", ".")
		}
	}

	// ---- argument lists over one fixed working directory ----
	std := func() []*fnode {
		return []*fnode{
			reg("f1", uuid), reg("f2", der), reg("-x", hello), reg("-", hello),
			dir("d1", reg("b", der), dir("sub", reg("file", uuid), reg("B", hello)), reg("a", uuid), reg("_", hello), reg("é", der)),
			dir("d2", reg("k", uuid)), dir("empty"),
			lfile("lf", uuid), ldir("ld", reg("inner", hello), dir("s", reg("deep", der))), other(kLinkNone, "ln"),
			other(kSock, "sock"),
			lother("lnull", oChar, "null"), lother("lsock", oSock, "chain"), lother("loop", oLoop, "self"),
			reg("hard", uuid).with("hard:f1"), lfile("lchain", der).with("chain"), lfile("lrel", uuid).with("sib:f1"),
		}
	}
	argLists := [][]string{
		{"f1"}, {"f1", "f2"}, {"d1"}, {"-r", "d1"}, {"-r", "d1", "d2"}, {"-r", "f1", "d1", "f2"}, {"f1", "d1"}, {"d1", "f1"},
		{"nonexistent"}, {"f1", "nonexistent", "f2"}, {"-r", "d1", "nonexistent"}, {"-r", "nonexistent", "d1"},
		{}, {"-"}, {"-", "f1"}, {"", "f1"}, {"f1", "-"}, {"f1", ""}, {"-r"}, {"--"}, {"--", "-x"}, {"--", "-"}, {"-r", "--", "d1"},
		{"--r", "d1"}, {"-r=true", "d1"}, {"-r=false", "d1"}, {"-r=0", "d1"}, {"-r=T", "d1"}, {"-r=maybe", "d1"}, {"-r=", "d1"},
		{"-x"}, {"-h"}, {"-help"}, {"--help"}, {"--version"}, {"-version"}, {"-version=false", "f1"}, {"-r", "-version"},
		{"---r", "d1"}, {"-=", "d1"}, {"-r", "-r=false", "d1"}, {"-r=false", "-r", "d1"}, {"f1", "-r", "d1"},
		{"-r", "./d1"}, {"-r", "d1/"}, {"-r", "d1//"}, {"-r", "./d1/./sub"}, {"-r", "d1//sub/"}, {"-r", "."}, {"-r", "./"}, {"."},
		{"f1/"}, {"f1/."}, {"d1/sub/file"}, {"./f1"}, {"d1/./a"}, {"d1/sub"}, {"-r", "d1/sub", "d1"},
		{"-r", "ld"}, {"ld"}, {"-r", "ld/"}, {"ld/inner"}, {"lf"}, {"-r", "lf"}, {"ln"}, {"-r", "ln"}, {"f1", "ln", "f2"},
		{"sock"}, {"-r", "sock", "f1"}, {"-r", "empty"}, {"empty"}, {"-r", "d1", "d1"}, {"-r", "empty", "d2", "empty"},
		{"-r", "d1/nonexistent"}, {"f1/x"}, {"-r", "d2", "f1", "d1", "lf", "ld"},
		// links named as arguments: to /dev/null (opened: nothing to read), to a socket (cannot be opened),
		// to themselves (refused like a nonexistent path), chains and second names of regular files
		{"lnull"}, {"-r", "lnull", "f1"}, {"f1", "lnull", "f2"}, {"lsock"}, {"f1", "lsock", "f2"}, {"loop"}, {"f1", "loop", "f2"},
		{"-r", "loop", "d1"}, {"hard"}, {"f1", "hard"}, {"lchain"}, {"-r", "lchain", "f1"}, {"lrel", "f1"},
	}
	for _, a := range argLists {
		add("walk:args", std(), a...)
	}

	// a FIFO named explicitly: the run waits for a writer (like cat); everything before it is reported
	fifoStd := func() []*fnode { return append(std(), other(kFifo, "fifo")) }
	add("walk:fifo-arg", fifoStd(), "f1", "fifo", "f2").waitsOn = true
	add("walk:fifo-arg", fifoStd(), "-r", "d1", "fifo", "d2").waitsOn = true
	// ... or through a link, or a link to a link
	lfifoStd := func(how string) []*fnode { return append(std(), lother("lfifo", oFifo, how)) }
	add("walk:fifo-arg", lfifoStd("abs"), "f1", "lfifo", "f2").waitsOn = true
	add("walk:fifo-arg", lfifoStd("chain"), "-r", "d1", "lfifo", "d2").waitsOn = true

	// ---- standard input ----
	// every content kind, delivered the ways real producers deliver: as a regular file, through
	// os/exec's pipe, through a pipe written in 2..20 pieces with pauses of 1..50 ms (pieces ending
	// anywhere: inside a PEM line, a base64 quantum, a multi-byte sequence), through a pipe that is
	// closed late, through a socket pair, through a pseudo-terminal; named by no argument, "-", ""
	stdinArgv := [][]string{{}, {"-"}, {"-r", "-"}, {"", "f1"}, {"-", "f1"}, {"-r"}}
	nStdin := 0
	addStdin := func(tag string, ct []byte, mode int) *wcase {
		wc := add("stdin:"+tag, []*fnode{reg("f1", uuid)}, stdinArgv[nStdin%len(stdinArgv)]...)
		nStdin++
		wc.stdin = ct
		wc.stdinMode = mode
		if len(ct) > 32<<10 {
			// (what the model is told about large inputs: pieces of at most 32 KiB)
			wc.pieces = evenPieces(len(ct), 32<<10)
		}
		return wc
	}
	for i, ct := range g.contents {
		for mode := dExecPipe; mode <= dFile; mode++ {
			_ = i
			addStdin([]string{"", "pipe", "file"}[mode], ct, mode)
		}
	}
	add("stdin:devnull", []*fnode{reg("f1", uuid)})
	kindsOfContent := c10StdinContents(c.R, g.contents)
	nPer := 2
	if c.Thorough() {
		nPer = 12
	}
	for _, k := range kindsOfContent {
		ct := k.data
		addStdin("file-"+k.tag, ct, dFile)
		addStdin("pipe-"+k.tag, ct, dExecPipe)
		for i := 0; i < nPer; i++ {
			wc := addStdin("pieces-"+k.tag, ct, dPipe)
			wc.pieces = randomPieces(c.R, ct, 2+c.R.Intn(19), i%2 == 0)
			wc.pauses = randomPauses(c.R, len(wc.pieces), 1, 50)
		}
		wc := addStdin("lateclose-"+k.tag, ct, dPipe)
		wc.pieces, wc.pauses, wc.lateClose = []int{len(ct)}, []int{c.R.Intn(30)}, 150+c.R.Intn(250)
		wc = addStdin("socket-"+k.tag, ct, dSocket)
		wc.pieces = randomPieces(c.R, ct, 2+c.R.Intn(8), true)
		wc.pauses = randomPauses(c.R, len(wc.pieces), 1, 40)
		if k.text && ptyAvailable() {
			wc = addStdin("pty-"+k.tag, ct, dPty)
			wc.pieces = randomPieces(c.R, ct, 2+c.R.Intn(6), false)
			wc.pauses = randomPauses(c.R, len(wc.pieces), 1, 30)
		}
	}
	// inputs larger than the pipe buffer, with a slow and with a fast writer
	sizes := []int{64<<10 + 1, 300 << 10, 1 << 20}
	if c.Thorough() {
		sizes = append(sizes, 3<<20, 5<<20+77)
	}
	for _, size := range sizes {
		for _, big := range c10BigContents(c.R, kindsOfContent, size) {
			for _, mode := range []int{dPipe, dSocket} {
				if mode == dSocket && size != 1<<20 {
					continue
				}
				tag := []string{dPipe: "pipe", dSocket: "socket"}[mode]
				// fast: pieces of 64 KiB written back to back; slow: smaller pieces with pauses
				wc := addStdin(fmt.Sprintf("big-fast-%s-%s", tag, big.tag), big.data, mode)
				wc.pieces = evenPieces(len(big.data), 64<<10)
				wc = addStdin(fmt.Sprintf("big-slow-%s-%s", tag, big.tag), big.data, mode)
				wc.pieces = evenPieces(len(big.data), 7000+c.R.Intn(50000))
				wc.pauses = randomPauses(c.R, len(wc.pieces), 0, 4)
				wc.lateClose = c.R.Intn(100)
			}
			addStdin("big-file-"+big.tag, big.data, dFile)
			addStdin("big-execpipe-"+big.tag, big.data, dExecPipe)
		}
	}

	// ---- order-sensitive families: what one file leaves behind must not reach the next ----
	c10OrderCases(c, add)

	// ---- lowered resource limits: what a scan holds on to is bounded, whatever the tree's width and depth ----
	c10LimitCases(c, add)

	// ---- random trees ----
	nTrees := 260
	if c.Thorough() {
		nTrees = 6000
	}
	for i := 0; i < nTrees; i++ {
		depth := g.r.Intn(7)
		fan := g.r.Intn(6)
		listing := g.randListing(depth, fan)
		top := dir("root", listing...)
		switch g.r.Intn(10) {
		case 0:
			// the tree itself is the working directory
			add("walk:rand-dot", listing, "-r", ".")
		case 1:
			// several arguments picked from the listing, with or without -r
			argv := []string{}
			if g.r.Intn(3) > 0 {
				argv = append(argv, "-r")
			}
			argv = append(argv, "--")
			for _, n := range listing {
				// (not FIFOs: one named as an argument makes the run wait, see walk:fifo-arg)
				// (nor links to FIFOs; nor links to /dev/zero, which as an argument is read up to the cap)
				if g.r.Intn(2) == 0 && n.kind != kFifo && !(n.kind == kLinkOther && (n.target == oFifo || n.how == "zero")) {
					argv = append(argv, n.name)
				}
			}
			if len(argv) > 0 && argv[len(argv)-1] == "--" {
				argv = append(argv, "root-missing")
			}
			add("walk:rand-args", listing, argv...)
		case 2:
			add("walk:rand-decorated", []*fnode{top}, "-r", []string{"./root", "root/", "root//", "./root/."}[g.r.Intn(4)])
		default:
			add("walk:rand", []*fnode{top, reg("after", hello)}, "-r", "root", "after")
		}
	}
	// a few wide directories (sorting)
	nWide := 6
	if c.Thorough() {
		nWide = 60
	}
	for i := 0; i < nWide; i++ {
		listing := []*fnode{}
		for _, nm := range g.names(len(c10Names)) {
			if g.r.Intn(4) == 0 {
				listing = append(listing, dir(nm, reg("x", hello)))
			} else {
				listing = append(listing, reg(nm, g.content()))
			}
		}
		add("walk:wide", []*fnode{dir("w", listing...)}, "-r", "w")
	}
	// malformed argument vectors: random pieces
	pieces := []string{"-r", "--", "-", "", "f1", "d1", "-x", "-r=1", "-r=x", "nonexistent", "d1/", "./d1", "lf", "ld", "ln", "--r", "-version=0", "d2", "empty", "f2", "-h",
		"lnull", "loop", "hard", "lchain", "lsock"}
	nArgs := 60
	if c.Thorough() {
		nArgs = 1500
	}
	for i := 0; i < nArgs; i++ {
		n := g.r.Intn(5)
		argv := []string{}
		for k := 0; k < n; k++ {
			argv = append(argv, pieces[g.r.Intn(len(pieces))])
		}
		wc := add("walk:rand-argv", std(), argv...)
		wc.stdin = hello
		wc.stdinMode = 1
	}

	// ---- run (in parallel), emit in order ----
	type outc struct {
		in, impl Sx
		err      error
	}
	outs := make([]outc, len(cases))
	var wg sync.WaitGroup
	sem := make(chan struct{}, 8)
	for i := range cases {
		wg.Add(1)
		sem <- struct{}{}
		go func(i int) {
			defer wg.Done()
			defer func() { <-sem }()
			in, impl, err := e.runCase(i, cases[i])
			outs[i] = outc{in, impl, err}
		}(i)
	}
	wg.Wait()
	for i, o := range outs {
		if o.err != nil {
			fmt.Fprintf(os.Stderr, "C10: case %d (%s): %v\n", i, cases[i].kind, o.err)
			os.Exit(1)
		}
		if o.in == nil {
			continue // the case needs a run without privileges and none is possible here
		}
		c.Emit(cases[i].kind, o.in, o.impl)
	}
	if n := atomic.LoadInt32(&e.blocked); n > 0 {
		fmt.Fprintf(os.Stderr, "C10: %d run(s) had to be killed after the timeout\n", n)
	}
}
