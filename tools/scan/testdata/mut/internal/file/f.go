package file

func Use() {}
