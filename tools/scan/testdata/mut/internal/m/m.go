// Package m: one package-level variable per way of mutating package-level state.
package m

import (
	"bytes"
	"crypto/sha256"
	"hash"
	"math/big"
	"math/rand"
	"sort"
	"strings"
	"sync"
	"sync/atomic"
)

type T struct {
	n    int
	list []int
	m    map[string]int
	p    *T
}

var (
	vAssign     int
	vField      T
	vIndex      []int
	vMapWrite   = map[string]int{}
	vMapDelete  = map[string]int{}
	vIncDec     int
	vOpAssign   int
	vSyncMap    sync.Map
	vSyncMapDel sync.Map
	vPool       sync.Pool
	vOnce       sync.Once
	vMutex      sync.Mutex
	vAtomic     atomic.Int64
	vAtomicOld  int64
	vBuffer     bytes.Buffer
	vBuilder    strings.Builder
	vBig                  = new(big.Int)
	vHash       hash.Hash = sha256.New()
	vRand                 = rand.New(rand.NewSource(1))
	vAddr       int
	vSliceArg   = make([]int, 0, 8)
	vSpare      = make([]byte, 2, 8)
	vAlias      = []int{1, 2, 3}
	vParam      = []int{1, 2, 3}
	vRecv       T
	vRecvVal    = T{list: []int{1}}
	vResult     = []int{1}
	vStructCopy = T{list: []int{1}}
	vHeap       = []int{1}
	vClosure    int
	vSort       = []int{3, 1, 2}
	vCopy       = make([]int, 3)
	vClear      = map[int]int{}
	vChan       = []int{1}
	vFuncLit    int
	vHolder            = func() { vFuncLit++ }
	vInit              = map[string]int{}
	vIface      Setter = &impl{}
	vDeep              = T{p: &T{}}
	vRange             = []T{{}, {}}
	vReadOnly          = []byte("read only")
	vCopyOnly          = T{list: []int{1}}
	vElems             = []*T{{}}
)

type Setter interface{ Set(int) }
type impl struct{ v int }

func (i *impl) Set(v int) { i.v = v }

func init() { vInit["registered"] = 1 }

func (t *T) bump()          { t.n++ }
func (t T) setFirst()       { t.list[0] = 9 }
func (t T) localOnly()      { t.n = 3 }
func result() []int         { return vResult }
func write(p []int)         { p[0] = 7 }
func readOnly(p []byte) int { return len(p) + int(p[0]) }

func All(args []string) {
	vAssign = 1
	vField.n = 2
	vIndex[0] = 3
	vMapWrite["k"] = 1
	delete(vMapDelete, "k")
	vIncDec++
	vOpAssign += 2
	vSyncMap.Store("k", 1)
	vSyncMapDel.Range(func(k, v any) bool { vSyncMapDel.Delete(k); return true })
	vPool.Put(1)
	vOnce.Do(func() {})
	vMutex.Lock()
	vMutex.Unlock()
	vAtomic.Add(1)
	atomic.AddInt64(&vAtomicOld, 1)
	vBuffer.WriteString("x")
	vBuilder.WriteString("x")
	vBig.SetInt64(4)
	vHash.Write([]byte("x"))
	_ = vRand.Intn(4)
	p := &vAddr
	*p = 5
	sort.Ints(vSliceArg[:0])
	_ = append(vSpare, 1, 2, 3) // into spare capacity
	a := vAlias
	a[1] = 0
	write(vParam)
	vRecv.bump()
	vRecvVal.setFirst()
	result()[0] = 2
	c := vStructCopy
	c.list[0] = 5
	h := &T{}
	h.list = vHeap
	h.list[0] = 6
	func() { vClosure = 1 }()
	sort.Ints(vSort)
	copy(vCopy, []int{1})
	clear(vClear)
	ch := make(chan []int, 1)
	ch <- vChan
	vHolder()
	vIface.Set(3)
	d := vDeep
	d.p.n = 4
	for _, e := range vRange {
		e.n = 1 // a copy: NOT a write
	}
	for i := range vRange {
		vRange[i].n = 1
	}
	_ = readOnly(vReadOnly)
	_ = bytes.Equal(vReadOnly, []byte(args[0]))
	k := vCopyOnly
	k.n = 8          // a copy: NOT a write
	k.list = []int{} // rebinding the copy's field: NOT a write
	k.localOnly()
	for _, e := range vElems {
		e.n = 2 // through the pointer: a write
	}
}
