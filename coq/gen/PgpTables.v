(* GENERATED on every run by tools/gen_tables.py from /repo (do not edit). *)
From Coq Require Import List NArith ZArith.
Import ListNotations.
From WI Require Import Lib.Base.
Open Scope N_scope.
Definition pgp_algo_names : list (N * bytes) := [
  (1, [82; 83; 65]%N)  (* RSA *);
  (2, [82; 83; 65; 32; 40; 101; 110; 99; 114; 121; 112; 116; 32; 111; 110; 108; 121; 41]%N)  (* RSA (encrypt only) *);
  (3, [82; 83; 65; 32; 40; 115; 105; 103; 110; 32; 111; 110; 108; 121; 41]%N)  (* RSA (sign only) *);
  (16, [69; 108; 71; 97; 109; 97; 108]%N)  (* ElGamal *);
  (17, [68; 83; 65]%N)  (* DSA *);
  (18, [69; 67; 68; 72]%N)  (* ECDH *);
  (19, [69; 67; 68; 83; 65]%N)  (* ECDSA *);
  (22, [69; 100; 68; 83; 65]%N)  (* EdDSA *)
].
Definition pgp_oids : list (bytes * bytes) := [
  ([69; 100; 50; 53; 53; 49; 57]%N, [43; 6; 1; 4; 1; 218; 71; 15; 1]%N)  (* Ed25519 *);
  ([80; 45; 50; 53; 54]%N, [42; 134; 72; 206; 61; 3; 1; 7]%N)  (* P-256 *);
  ([80; 45; 51; 56; 52]%N, [43; 129; 4; 0; 34]%N)  (* P-384 *);
  ([80; 45; 53; 50; 49]%N, [43; 129; 4; 0; 35]%N)  (* P-521 *);
  ([88; 50; 53; 53; 49; 57]%N, [43; 6; 1; 4; 1; 151; 85; 1; 5; 1]%N)  (* X25519 *)
].
Definition pgp_hash_ids : list N := [1; 2; 3; 8; 9; 10; 11]%N.
Definition pgp_can_sign : list N := [1; 3; 17; 19; 22]%N.
Definition pgp_can_encrypt : list N := [1; 2; 16]%N.
Definition pgp_max_oid_len : N := 10.
Definition pgp_flag_authentication : N := 32.
Definition pgp_flag_certify : N := 1.
Definition pgp_flag_encrypt_communications : N := 4.
Definition pgp_flag_encrypt_storage : N := 8.
Definition pgp_flag_sign : N := 2.
Definition pgp_sigtype_generic_cert : N := 16.
Definition pgp_sigtype_key_revocation : N := 32.
Definition pgp_sigtype_positive_cert : N := 19.
Definition pgp_sigtype_primary_key_binding : N := 25.
Definition pgp_sigtype_subkey_binding : N := 24.
Definition pgp_sigtype_subkey_revocation : N := 40.
