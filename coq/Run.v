(* Entry points of the extracted driver: run the model / the spec checker of a property. *)
From WI Require Import Lib.Base.
From WI Require Run.C07 Run.C14 Run.C20.

Definition run (prop op : bytes) (input : arg) : arg :=
  if bytes_eqb prop (bs "C14") then Run.C14.run_C14 op input
  else if bytes_eqb prop (bs "C20") then Run.C20.run_C20 op input
  else if bytes_eqb prop (bs "C07") then Run.C07.run_C07 op input
  else AL [].

Definition check (prop op : bytes) (input impl : arg) : arg :=
  if bytes_eqb prop (bs "C14") then Run.C14.check_C14 op input impl
  else if bytes_eqb prop (bs "C20") then Run.C20.check_C20 op input impl
  else if bytes_eqb prop (bs "C07") then Run.C07.check_C07 op input impl
  else AL [].
