(* Proofs for C01. *)
From WI Require Import Lib.Base Lib.Info Model.Safety.
