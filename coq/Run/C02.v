(* Case runner and spec checker (T3) for C02. *)
From WI Require Import Lib.Base Lib.Info Lib.Strings Model.Keys.
From WI Require Model.KeysDer.
Open Scope N_scope.

(* ---------- decoding of case inputs ---------- *)
Definition opt_bytes (a : arg) : option bytes := match a with AL [AB b] => Some b | _ => None end.
Definition arcs_of (a : arg) : list N := map arg_N (arg_list a).
Definition inferred_of (a : arg) : result bytes :=
  match a with AL [AZ 0%Z; AB n] => Ok n | AL [AZ 2%Z] => Panic "oracle" | _ => Err "oracle" end.
(* for the ops that decode from the bytes: a curve matcher answer that was not recorded (the harness's own
   Unmarshal failed) must not be asked for - if the model asks, its observation differs from any the code makes *)
Definition inferred_strict (a : arg) : result bytes :=
  match a with AL [AZ 0%Z; AB n] => Ok n | _ => Panic "curve matcher: panic, or no recorded answer" end.
Definition ecparams_of (a : arg) : result ecparams :=
  match a with
  | AL [AZ 1%Z; arcs] => Ok (EcNamed (arcs_of arcs))
  | AL [AZ 2%Z; ft; pr; c2; inf] => Ok (EcExplicit (arcs_of ft) (opt_bytes pr) (opt_bytes c2) (inferred_of inf))
  | AL [AZ 3%Z] => Panic "oracle"
  | _ => Err "asn1"
  end.
Definition ssh_oracle_of (a : arg) : ssh_oracle :=
  mk_ssh_oracle (arg_bool (arg_nth 0 a)) (arg_bytes (arg_nth 1 a)).
Definition ppk_of (a : arg) : option ppk_parsed :=
  match a with
  | AL [AZ v; AB t; AB e; AB c; AB p; AB k; AZ m; AZ ps; AZ pl] => Some (mk_ppk v t e c p k m ps pl)
  | _ => None
  end.

Definition obs_info (r : result info) : arg := obs_result arg_of_info r.
Definition obs_attrs (r : result (list attr)) : arg := obs_result (fun a => arg_of_info (Info [] a [])) r.

Definition sign_mag (z : Z) : arg :=
  AL [AZ (if (z <? 0)%Z then 1 else 0)%Z; AB (be_min (Z.abs_N z)); AZ (Z.of_N (zbitlen z))].

(* big.Int.Bytes of a value set from b: b without its leading zero bytes *)
Fixpoint strip_zeros (b : bytes) : bytes :=
  match b with 0 :: r => strip_zeros r | _ => b end.
(* int(e.Int64()) as 8 bytes: the low 64 bits *)
Definition low8 (b : bytes) : bytes := let p := repeat 0 8 ++ b in drop (length p - 8) p.
Definition ssh1_key_arg (k : ssh1_key) : arg :=
  AL [AB (strip_zeros (s1_n_raw k)); AB (low8 (s1_e_raw k)); AB (s1_comment k);
      AB (strip_zeros (s1_d_raw k)); AB (strip_zeros (s1_q_raw k)); AB (strip_zeros (s1_p_raw k))].

Definition pubkey_of (kind : bytes) (a : arg) : pubkey :=
  let z := if arg_bool (arg_nth 1 a) then (- Z.of_N (be_to_N (arg_bytes (arg_nth 0 a))))%Z
           else Z.of_N (be_to_N (arg_bytes (arg_nth 0 a))) in
  if bytes_eqb kind (bs "rsa") then PkRsa z
  else if bytes_eqb kind (bs "dsa") then PkDsa z
  else if bytes_eqb kind (bs "ecdsa") then PkEcdsa (arg_bytes (arg_nth 0 a))
  else if bytes_eqb kind (bs "ecdh") then PkEcdh (opt_bytes (arg_nth 0 a))
  else if bytes_eqb kind (bs "ed25519") then PkEd25519
  else PkOther.

(* the code as it is now (after the repairs recorded in known_findings.json) *)
Definition fx : fixes := current.

Definition kh_line_of (a : arg) : known_hosts_line :=
  match a with
  | AL [AZ 0%Z] => KhBlank
  | AL [AZ 2%Z; AL hosts; AB blob; AB c] => KhEntry (map arg_bytes hosts) blob c
  | _ => KhError
  end.

Fixpoint run_op (depth : nat) (op : bytes) (input : arg) : arg :=
  let i0 := arg_nth 0 input in
  let i1 := arg_nth 1 input in
  if bytes_eqb op (bs "int") then
    let kind := arg_bytes i0 in
    let b := arg_bytes i1 in
    if bytes_eqb kind (bs "der") then obs_result sign_mag (der_int_dec b)
    else if bytes_eqb kind (bs "mpint") then obs_result sign_mag (Ok (mpint_dec b))
    else if bytes_eqb kind (bs "ssh1") then
      obs_result (fun x => AL [sign_mag (Z.of_N (fst x)); AZ (Z.of_nat (length (snd x)))]) (ssh1_read_mpint b)
    else AL []
  else if bytes_eqb op (bs "kdf") then
    obs_result (fun x => AL [AB (fst x); AZ (Z.of_N (snd x))])
      (parse_kdf_options (fx_kdf_opts fx) (arg_bytes i0) (arg_nat i1) (arg_nat (arg_nth 2 input)))
  else if bytes_eqb op (bs "ssh1") then
    let dec := fun _ : bytes => arg_bytes i1 in
    AL [match ssh1_parse_gen (fx_ssh1_cipher fx) dec (arg_bytes i0) with
        | Ok (S1Key k) => AL [AZ 0; ssh1_key_arg k]
        | Ok (S1Corrupted n e c) => AL [AZ 3; AL [AB (strip_zeros n); AB (low8 e); AB c]]
        | Err _ => AL [AZ 1]
        | Panic _ => AL [AZ 2]
        end;
        obs_info (ssh1_private_key fx dec (arg_bytes i0))]
  else if bytes_eqb op (bs "ossh") then
    obs_info (parse_openssh_private fx (ssh_oracle_of i1) (arg_bytes i0))
  else if bytes_eqb op (bs "sshblob") then
    obs_attrs (let* k := ssh_parse_public (ssh_oracle_of (arg_nth 2 input)) (arg_bytes i0) in
               Ok (ssh_public_attrs (fx_size fx) k (arg_bytes i1)))
  else if bytes_eqb op (bs "sshline") then
    obs_info (ssh_public_key_line (fx_size fx) (ssh_oracle_of (arg_nth 2 input))
                (match i1 with AL [AB blob; AB c] => Some (blob, c) | _ => None end))
  else if bytes_eqb op (bs "knownhosts") then
    obs_info (ssh_known_hosts_one (fx_size fx) (ssh_oracle_of (arg_nth 2 input)) (kh_line_of i1))
  else if bytes_eqb op (bs "khfile") then
    (* a known_hosts file of several lines: per line (library's split, library's verdict on the blob, expectation) *)
    obs_info (ssh_known_hosts_file (fx_size fx)
                (map (fun a => (ssh_oracle_of (arg_nth 1 a), kh_line_of (arg_nth 0 a))) (arg_list i1)))
  else if bytes_eqb op (bs "ppk") then obs_info (putty_ppk fx (ppk_of i1))
  (* the DER containers from the BYTES alone (Model/KeysDer.v): no answer of asn1.Unmarshal in the input;
     spkider / pkcs8der / ecparamsder / sec1der: i1 is the recorded answer of the curve matcher
     elliptic.CurveNameFromParameters (C16), used for explicit EC parameters only *)
  else if bytes_eqb op (bs "pkcs1pubder") then obs_info (KeysDer.parse_pkcs1_public_der (arg_bytes i0))
  else if bytes_eqb op (bs "pkcs1privder") then obs_info (KeysDer.parse_pkcs1_private_der (arg_bytes i0))
  else if bytes_eqb op (bs "dsaprivder") then obs_info (KeysDer.parse_dsa_private_der (arg_bytes i0))
  else if bytes_eqb op (bs "dsaparamsder") then obs_info (KeysDer.parse_dsa_parameters_der (arg_bytes i0))
  else if bytes_eqb op (bs "spkider") then obs_info (KeysDer.parse_pkix_der (inferred_strict i1) (arg_bytes i0))
  else if bytes_eqb op (bs "pkcs8der") then obs_info (KeysDer.parse_pkcs8_der (inferred_strict i1) (arg_bytes i0))
  else if bytes_eqb op (bs "ecparamsder") then obs_info (KeysDer.parse_ec_parameters_der (inferred_strict i1) (arg_bytes i0))
  else if bytes_eqb op (bs "sec1der") then obs_info (KeysDer.parse_sec1_der (inferred_strict i1) (arg_bytes i0))
  (* the DER writers the from-the-bytes theorems are about, against asn1.Marshal of the repository's structs *)
  else if bytes_eqb op (bs "derenc") then
    let k := arg_bytes i0 in
    let raw := match arg_list i1 with x :: _ => arg_bytes x | [] => [] end in
    let a := map (fun x => be_to_N (arg_bytes x)) (arg_list i1) in
    let z := fun i => nth i a 0 in
    AL [AZ 0%Z; AB (
      if bytes_eqb k (bs "pkcs1pub") then KeysDer.enc_pkcs1_public (z 0%nat) (z 1%nat)
      else if bytes_eqb k (bs "pkcs1priv") then
        KeysDer.enc_pkcs1_private (z 0%nat) (z 1%nat) (z 2%nat) (z 3%nat) (z 4%nat) (z 5%nat) (z 6%nat) (z 7%nat)
      else if bytes_eqb k (bs "dsaparams") then KeysDer.enc_dsa_parameters (z 0%nat) (z 1%nat) (z 2%nat)
      else if bytes_eqb k (bs "dsapriv") then KeysDer.enc_dsa_private (z 0%nat) (z 1%nat) (z 2%nat) (z 3%nat) (z 4%nat)
      else if bytes_eqb k (bs "spkirsa") then KeysDer.enc_spki_rsa (z 0%nat) (z 1%nat)
      else if bytes_eqb k (bs "spkidsa") then KeysDer.enc_spki_dsa (z 0%nat) (z 1%nat) (z 2%nat) (z 3%nat)
      else if bytes_eqb k (bs "pkcs8rsa") then
        KeysDer.enc_pkcs8_rsa (z 0%nat) (z 1%nat) (z 2%nat) (z 3%nat) (z 4%nat) (z 5%nat) (z 6%nat) (z 7%nat)
      else if bytes_eqb k (bs "pkcs8dsa") then KeysDer.enc_pkcs8_dsa (z 0%nat) (z 1%nat) (z 2%nat) (z 3%nat)
      else if bytes_eqb k (bs "ecnamed") then KeysDer.enc_oid (arcs_of (arg_nth 2 input))
      else if bytes_eqb k (bs "sec1named") then
        KeysDer.enc_sec1_named (arcs_of (arg_nth 2 input)) raw (arg_bytes (arg_nth 1 i1))
      else if bytes_eqb k (bs "spkiec") then KeysDer.enc_spki_ec_named (arcs_of (arg_nth 2 input)) raw
      else if bytes_eqb k (bs "pkcs8ec") then KeysDer.enc_pkcs8_ec_named (arcs_of (arg_nth 2 input)) raw
      else if bytes_eqb k (bs "spkied25519") then KeysDer.enc_spki_ed25519 raw
      else if bytes_eqb k (bs "pkcs8ed25519") then KeysDer.enc_pkcs8_ed25519 raw
      else [])]
  else if bytes_eqb op (bs "pkcs1pub") then obs_info (parse_pkcs1_public (opt_bytes i1))
  else if bytes_eqb op (bs "pkcs1priv") then obs_info (parse_pkcs1_private (opt_bytes i1))
  else if bytes_eqb op (bs "dsapriv") then obs_info (parse_dsa_private (opt_bytes i1))
  else if bytes_eqb op (bs "dsaparams") then obs_info (parse_dsa_parameters (opt_bytes i1))
  else if bytes_eqb op (bs "ecparams") then obs_info (parse_ec_parameters (ecparams_of i1))
  else if bytes_eqb op (bs "spki") then
    obs_info (match i1 with
              | AL [alg; d; r; e] =>
                  with_desc "PKIX public key" (pkix_attrs (arcs_of alg) (opt_bytes d) (opt_bytes r) (ecparams_of e))
              | _ => Err "asn1" end)
  else if bytes_eqb op (bs "certkey") then
    (* the same child through file.Inspect of the certificate as DER, PEM, keystore entry *)
    obs_info (match i1 with
              | AL [alg; d; r; e] => certificate_public_key (arcs_of alg) (opt_bytes d) (opt_bytes r) (ecparams_of e)
              | _ => Err "asn1" end)
  else if bytes_eqb op (bs "pgpkey") then
    obs_info (match arg_list i0 with
              | p :: subs => pgp_key_block (arg_bytes p) (map arg_bytes subs)
              | [] => Err "no key" end)
  else if bytes_eqb op (bs "certspki") then
    (* getCertificateInfo: the "Public key" child built from the certificate's SubjectPublicKeyInfo *)
    obs_info (match i1 with
              | AL [alg; d; r; e] =>
                  with_desc "Public key" (pkix_attrs (arcs_of alg) (opt_bytes d) (opt_bytes r) (ecparams_of e))
              | _ => Err "asn1" end)
  else if bytes_eqb op (bs "pkcs8") then
    obs_info (match i1 with
              | AL [alg; d; r; e] =>
                  with_desc "PKCS#8 private key" (pkcs8_attrs (arcs_of alg) (opt_bytes d) (opt_bytes r) (ecparams_of e))
              | _ => Err "asn1" end)
  else if bytes_eqb op (bs "sec1") then
    obs_info (match i1 with
              | AL [named; ft; pr; c2; inf] =>
                  with_desc "EC private key"
                    (ec_private_attrs (arcs_of named) (arcs_of ft) (opt_bytes pr) (opt_bytes c2) (inferred_of inf))
              | _ => Err "asn1" end)
  else if bytes_eqb op (bs "crypto") then
    obs_attrs (Ok (crypto_public_attrs (fx_size fx) (pubkey_of (arg_bytes i0) i1)))
  else if bytes_eqb op (bs "e2e") then
    (* the same key through file.Inspect with the container's framing: the description is the
       inner parser's; [ssh1] observes (key, description) and Inspect shows the description *)
    match depth with
    | O => AL []
    | S d =>
        let inner := run_op d (arg_bytes i0) i1 in
        let o := if bytes_eqb (arg_bytes i0) (bs "ssh1") then arg_nth 1 inner else inner in
        (* Inspect drops a failed parser's result: with no other candidate the report is empty *)
        match o with AL [AZ 1%Z] => AL [AZ 0%Z; arg_of_info empty_info] | _ => o end
    end
  else AL [].

Definition run_C02 (op : bytes) (input : arg) : arg := run_op 1 op input.

(* ================================================================== *)
(* The property, evaluated on what the implementation printed (T3).    *)
(* Independent of the model: it uses only the key the generator made   *)
(* (the last element of the input) and constants typed from the        *)
(* property text / FIPS 186 / RFC 8032 / RFC 7748 names.               *)
(*   spec = ()  |  (alg size curve meta forbidden)                     *)
(*   size  = () | (#magnitude)         -> "Size" must be its bit length *)
(*   curve = () | (#attr-name #token)  -> that attribute names the curve *)
(*   meta  = ((#name #value) | (#name) ...)  present verbatim / absent   *)
(*   forbidden = (#magnitude ...)  private components                    *)
(* ================================================================== *)

Fixpoint all_attrs (i : info) : list (bytes * bytes) :=
  match i with Info _ a c => a ++ flat_map all_attrs c end.
Fixpoint all_strings (i : info) : list bytes :=
  match i with Info d a c => d :: map snd a ++ flat_map all_strings c end.

Definition values_of (name : bytes) (l : list (bytes * bytes)) : list bytes :=
  map snd (filter (fun nv => bytes_eqb (fst nv) name) l).

(* bit length computed from the magnitude bytes alone: 8 * (bytes after the first non-zero one) + bits of it *)
Fixpoint spec_bits (b : bytes) : N :=
  match b with
  | [] => 0
  | x :: r => if x =? 0 then spec_bits r else N.of_nat (length r) * 8 + N.size x
  end.

Definition names_token (v tok : bytes) : bool :=
  bytes_eqb v tok || prefix_of (tok ++ [32]) v.

Fixpoint first_some {A} (f : A -> option string) (l : list A) : option string :=
  match l with
  | [] => None
  | x :: r => match f x with Some e => Some e | None => first_some f r end
  end.

Definition check_meta (attrs : list (bytes * bytes)) (m : arg) : option string :=
  match m with
  | AL [AB n; AB v] =>
      match values_of n attrs with
      | [x] => if bytes_eqb x v then None else Some "container metadata is not shown as stored"%string
      | [] => Some "stored container metadata is not shown"%string
      | _ => Some "container metadata shown more than once"%string
      end
  | AL [AB n] =>
      match values_of n attrs with
      | [] => None
      | _ => Some "metadata shown that the container does not store"%string
      end
  | _ => None
  end.

(* maximal runs of ASCII digits of a string *)
Fixpoint digit_runs (cur : bytes) (s : bytes) : list bytes :=
  match s with
  | [] => match cur with [] => [] | _ => [rev cur] end
  | c :: r => if (48 <=? c) && (c <=? 57) then digit_runs (c :: cur) r
              else match cur with [] => digit_runs [] r | _ => rev cur :: digit_runs [] r end
  end.
Definition dec_to_N (l : bytes) : N := fold_left (fun a d => a * 10 + (d - 48)) l 0.

(* a private component (given by its magnitude bytes, at least 8 of them) appears in some
   displayed string: raw, in hexadecimal of either case, or as a decimal number *)
(* base64 (RFC 4648 alphabet) of whole three-octet groups; inside the base64 text of a larger blob the
   magnitude starts at one of three alignments, so its groups from offset 0, 1 or 2 appear verbatim *)
Definition b64_char (v : N) : N :=
  if v <? 26 then 65 + v else if v <? 52 then 97 + (v - 26) else if v <? 62 then 48 + (v - 52)
  else if v =? 62 then 43 else 47.
Fixpoint b64_groups (l : bytes) : bytes :=
  match l with
  | a :: b :: c :: r =>
      let n := a * 65536 + b * 256 + c in
      b64_char (n / 262144) :: b64_char ((n / 4096) mod 64) :: b64_char ((n / 64) mod 64) :: b64_char (n mod 64) :: b64_groups r
  | _ => []
  end.
(* hexadecimal with a separator between the octets (aa:bb:cc, aa bb cc) *)
Definition hex_sep (upper : bool) (sep : N) (l : bytes) : bytes :=
  match l with [] => [] | x :: r => hex_byte upper x ++ flat_map (fun b => sep :: hex_byte upper b) r end.

Definition leaks (strs : list bytes) (mag : bytes) : bool :=
  if Nat.ltb (length mag) 8 then false else
  let forms := [mag; hex_of false mag; hex_of true mag;
                hex_sep false 58 mag; hex_sep true 58 mag; hex_sep false 32 mag; hex_sep true 32 mag;
                b64_groups mag; b64_groups (drop 1 mag); b64_groups (drop 2 mag)] in
  existsb (fun s => existsb (fun f => contains f s) forms
                    || existsb (fun run => Nat.leb 16 (length run) && (dec_to_N run =? be_to_N mag)) (digit_runs [] s)) strs.

Definition check_spec_strict (spec : arg) (obs : arg) : arg :=
  match spec with
  | AL [AB alg; size; curve; AL meta; AL forbidden] =>
      match obs with
      | AL [AZ 0%Z; ia] =>
          let i := info_of_arg ia in
          let attrs := all_attrs i in
          match values_of (bs "Algorithm") attrs with
          | [a] =>
              if negb (bytes_eqb a alg) then AS "wrong algorithm reported" else
              match (match size with
                     | AL [AZ fb] =>        (* an elliptic-curve key: a size, if shown, is the field size *)
                         match values_of (bs "Size") attrs with
                         | [] => None
                         | [s] => if bytes_eqb s (dec_of_Z fb ++ bs " bits") then None
                                  else Some "a size is reported that is not the size of the key's curve"%string
                         | _ => Some "size reported more than once"%string
                         end
                     | AL [AB mag] =>
                         match values_of (bs "Size") attrs with
                         | [s] => if bytes_eqb s (dec_of_N (spec_bits mag) ++ bs " bits") then None
                                  else Some "reported size is not the bit length of the key"%string
                         | [] => Some "no size reported"%string
                         | _ => Some "size reported more than once"%string
                         end
                     | _ => None end) with
              | Some e => AB (bytes_of_string e)
              | None =>
              match (match curve with
                     | AL [AB an; AB tok] =>
                         match values_of an attrs with
                         | [c] => if names_token c tok then None else Some "wrong curve reported"%string
                         | [] => Some "curve not reported"%string
                         | _ => Some "curve reported more than once"%string
                         end
                     | _ => None end) with
              | Some e => AB (bytes_of_string e)
              | None =>
              match first_some (check_meta attrs) meta with
              | Some e => AB (bytes_of_string e)
              | None =>
                  if existsb (fun f => leaks (all_strings i) (arg_bytes f)) forbidden
                  then AS "a private component is displayed" else AL []
              end end end
          | [] => AS "well-formed key: no algorithm reported"
          | _ => AS "algorithm reported more than once"
          end
      | AL [AZ 2%Z] => AS "panic while describing a key"
      | _ => AS "well-formed key is not described"
      end
  | _ =>
      (* no expectation about the content (malformed input): it must still not crash *)
      match obs with AL [AZ 2%Z] => AS "panic while describing a key" | _ => AL [] end
  end.

(* a sixth element 1: the container contradicts itself (a key type label that is not the type of the key next
   to it); a reader may refuse it, but whatever it reports has to be true of the key that is there *)
Definition check_spec (spec : arg) (obs : arg) : arg :=
  match spec with
  | AL [AZ 7%Z; AL meta] =>
      (* labels only (an OpenSSH certificate: the tool does not describe the certified key, but the type
         label and the comment it shows have to be the stored ones) *)
      match obs with
      | AL [AZ 0%Z; ia] =>
          match first_some (check_meta (all_attrs (info_of_arg ia))) meta with
          | Some e => AB (bytes_of_string e)
          | None => AL []
          end
      | AL [AZ 2%Z] => AS "panic while describing a key"
      | _ => AS "well-formed key is not described"
      end
  | AL [AB _; AL forbidden; AZ must_say] =>
      (* a private key under an algorithm the tool does not decode: no key facts are asked for.  The
         property's "recognised private key": the CONTAINER is recognised (PKCS#8 PrivateKeyInfo, SEC1) -
         then the report is that of a private key (must_say = 1) - and in any case none of the private
         octets is shown anywhere in the report tree (descriptions and attribute values at every depth) *)
      match obs with
      | AL [AZ 0%Z; ia] =>
          let i := info_of_arg ia in
          if existsb (fun f => leaks (all_strings i) (arg_bytes f)) forbidden
          then AS "a private component is displayed"
          else if negb (Z.eqb must_say 0) && negb (contains (bs "private key") (map to_lower_ascii (i_desc i)))
          then AS "a private key in a recognised container is not described as a private key"
          else AL []
      | AL [AZ 2%Z] => AS "panic while describing a key"
      | _ => if Z.eqb must_say 0 then AL [] else AS "a private key in a recognised container is not described"
      end
  | AL [a; b; c; d; e; AZ 1%Z] =>
      match obs with AL [AZ 1%Z] => AL [] | _ => check_spec_strict (AL [a; b; c; d; e]) obs end
  | _ => check_spec_strict spec obs
  end.

Definition last_arg (a : arg) : arg := last (arg_list a) (AL []).

(* explicit EC parameters: a panic inside elliptic.CurveNameFromParameters (empty base point, F5) is
   C16's finding, recorded by the harness in the oracle; it is not attributed to the key describers *)
Definition is_panic_obs (a : arg) : bool := match a with AL [AZ 2%Z] => true | _ => false end.
Definition ec_oracle_panics (e : arg) : bool :=
  match e with AL [AZ 2%Z; _; _; _; inf] => is_panic_obs inf | _ => false end.
Definition curve_matcher_panics (op : bytes) (oracle : arg) : bool :=
  if bytes_eqb op (bs "spkider") || bytes_eqb op (bs "pkcs8der") || bytes_eqb op (bs "ecparamsder") || bytes_eqb op (bs "sec1der")
  then is_panic_obs oracle
  else if bytes_eqb op (bs "ecparams") then ec_oracle_panics oracle
  else if bytes_eqb op (bs "pkcs1pubder") || bytes_eqb op (bs "pkcs1privder") || bytes_eqb op (bs "dsaprivder")
          || bytes_eqb op (bs "dsaparamsder") then false
  else if bytes_eqb op (bs "sec1") then match oracle with AL [_; _; _; _; inf] => is_panic_obs inf | _ => false end
  else match oracle with AL [_; _; _; e] => ec_oracle_panics e | _ => false end.

(* SSH1 private key file: the cipher type is the octet after the 33-octet magic
   "SSH PRIVATE KEY FILE FORMAT 1.1" LF NUL (ssh-1.2.x authfile.c; cipher.h: 0 none, 1 idea, 2 des,
   3 3des, 4 tss, 5 arcfour, 6 blowfish).  Whatever is said about encryption has to agree with it:
   the key is shown as encrypted iff the octet is not 0, and a cipher, if one is named, is that one. *)
Definition ssh1_cipher_names (c : N) : list bytes :=
  if c =? 1 then [bs "idea"] else if c =? 2 then [bs "des"] else if c =? 3 then [bs "3des"; bs "3-des"; bs "triple"]
  else if c =? 4 then [bs "tss"] else if c =? 5 then [bs "rc4"; bs "arcfour"] else if c =? 6 then [bs "blowfish"]
  else [dec_of_N c].
Definition check_ssh1_cipher (spec : arg) (data : bytes) (obs : arg) : arg :=
  match spec, obs with
  | AL (_ :: _), AL [AZ 0%Z; ia] =>
      let i := info_of_arg ia in
      let c := nth 33 data 0 in
      let says_encrypted := contains (bs "encrypted") (map to_lower_ascii (i_desc i)) in
      if negb (c =? 0) && negb says_encrypted then AS "an encrypted SSH1 key (cipher type not 0) is not shown as encrypted"
      else if (c =? 0) && says_encrypted then AS "an SSH1 key stored in the clear is shown as encrypted"
      else
        match values_of (bs "Cipher") (all_attrs i) with
        | [] => AL []
        | [v] =>
            let lv := map to_lower_ascii v in
            if c =? 0 then (if bytes_eqb lv (bs "none") then AL [] else AS "a cipher is shown for an SSH1 key stored in the clear")
            else if existsb (fun n => contains n lv) (ssh1_cipher_names c)
                    && negb ((c =? 2) && existsb (fun n => contains n lv) (ssh1_cipher_names 3))
                 then AL [] else AS "the cipher shown is not the one the SSH1 cipher type octet names"
        | _ => AS "cipher shown more than once"
        end
  | _, _ => AL []
  end.

Definition check_C02 (op : bytes) (input impl : arg) : arg :=
  if bytes_eqb op (bs "int") || bytes_eqb op (bs "crypto") || bytes_eqb op (bs "derenc") then AL []
  else if bytes_eqb op (bs "kdf") then
    match impl with AL [AZ 2%Z] => AS "parseKdfOptions panics" | _ => AL [] end
  else if bytes_eqb op (bs "ssh1") then
    match arg_nth 0 impl with
    | AL [AZ 2%Z] => AS "ssh1.ParsePrivateKey panics"
    | _ => match check_spec (last_arg input) (arg_nth 1 impl) with
           | AL [] => check_ssh1_cipher (last_arg input) (arg_bytes (arg_nth 0 input)) (arg_nth 1 impl)
           | v => v
           end
    end
  else if bytes_eqb op (bs "pgpkey") then
    (* one expectation per key: the primary key's own attributes, then each subkey child *)
    match impl with
    | AL [AZ 0%Z; ia] =>
        let i := info_of_arg ia in
        let keys := Info (i_desc i) (i_attrs i) [] :: i_children i in
        let specs := arg_list (arg_nth 1 input) in
        if negb (Nat.eqb (length keys) (length specs)) then AS "a key of the block is not described"
        else
          match filter (fun v => negb (arg_eqb v (AL [])))
                  (map (fun ks => check_spec (snd ks) (AL [AZ 0%Z; arg_of_info (fst ks)])) (combine keys specs)) with
          | v :: _ => v
          | [] => AL []
          end
    | _ => check_spec (arg_nth 0 (arg_nth 1 input)) impl
    end
  else if bytes_eqb op (bs "khfile") then
    (* every line of the file is a well-formed entry with its own expectation (hosts, key facts, comment):
       the k-th entry listed has to meet the k-th line's expectation *)
    match impl with
    | AL [AZ 0%Z; ia] =>
        let i := info_of_arg ia in
        let specs := map (arg_nth 2) (arg_list (arg_nth 1 input)) in
        if negb (Nat.eqb (length (i_children i)) (length specs)) then AS "an entry of the known_hosts file is not listed (or one is listed twice)"
        else
          match filter (fun v => negb (arg_eqb v (AL [])))
                  (map (fun ks => check_spec (snd ks) (AL [AZ 0%Z; arg_of_info (Info (i_desc i) [] [fst ks])])) (combine (i_children i) specs)) with
          | v :: _ => v
          | [] => AL []
          end
    | AL [AZ 2%Z] => AS "panic while describing a key"
    | _ => AS "well-formed known_hosts file is not described"
    end
  else if bytes_eqb op (bs "e2e") then
    match check_spec (last_arg (arg_nth 1 input)) impl with
    | AL [] => if bytes_eqb (arg_bytes (arg_nth 0 input)) (bs "ssh1")
               then check_ssh1_cipher (last_arg (arg_nth 1 input)) (arg_bytes (arg_nth 0 (arg_nth 1 input))) impl
               else AL []
    | v => v
    end
  else if curve_matcher_panics op (arg_nth 1 input) then AL []
  else check_spec (last_arg input) impl.
