(* Case runner and spec checker (T3) for C19 — stub. *)
From WI Require Import Lib.Base Lib.Info Model.Rpm.
Definition run_C19 (op : bytes) (input : arg) : arg := AL [].
Definition check_C19 (op : bytes) (input impl : arg) : arg := AL [].
