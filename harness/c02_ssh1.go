package main

// C02 — SSH1 private key files with every cipher type byte.
// The file format (ssh-1.2.x / OpenSSH authfile.c, "SSH PRIVATE KEY FILE FORMAT 1.1"): the cipher type
// byte, four reserved bytes, the public half (bit count, modulus, exponent, comment) in the clear,
// then the private half (two check bytes written twice, d, q^-1 mod p, q, p, zero padding to a
// multiple of eight octets) encrypted with the cipher the type byte names: 0 none, 1 IDEA, 2 DES,
// 3 3DES, 4 TSS, 5 RC4, 6 Blowfish (cipher.h of ssh-1.2.x); the other numbers were never assigned.
// Whatever the cipher, what a reader without the passphrase can and must say is the same: an RSA
// key of the stored modulus' size with the stored comment, encrypted iff the type byte is not 0.

import (
	"bytes"
	"crypto/cipher"
	"crypto/des"
	"crypto/md5"
	"crypto/rc4"
	"fmt"
	"os"
	"strings"

	"github.com/edutko/decipher/internal/ssh1"
)

func ssh1Public(c byte, k rsaKey, comment []byte) []byte {
	out := []byte("SSH PRIVATE KEY FILE FORMAT 1.1\n\x00")
	out = append(out, c, 0, 0, 0, 0)
	out = append(out, sshU32(uint32(k.N.BitLen()))...)
	out = append(out, ssh1MPI(k.N)...)
	out = append(out, ssh1MPI(k.E)...)
	return append(out, sshStr(comment)...)
}

// ssh1Plain: the private half as it is before encryption, padded with zero octets to whole blocks
func ssh1Plain(k rsaKey, check [2]byte) []byte {
	p := ssh1Private(k, check, 0)
	for len(p)%8 != 0 {
		p = append(p, 0)
	}
	return p
}

func desCBC(encrypt bool, key, data []byte) []byte {
	b, err := des.NewCipher(key)
	if err != nil {
		panic(err)
	}
	out := make([]byte, len(data))
	iv := make([]byte, 8)
	if encrypt {
		cipher.NewCBCEncrypter(b, iv).CryptBlocks(out, data)
	} else {
		cipher.NewCBCDecrypter(b, iv).CryptBlocks(out, data)
	}
	return out
}

// ssh 1.x "3des": three independent CBC passes over the whole buffer (encrypt with K1, decrypt with
// K2, encrypt with K3), all IVs zero; K1 K2 = MD5(passphrase), K3 = K1
func ssh1Enc3DES(plain, pass []byte) []byte {
	h := md5.Sum(pass)
	return desCBC(true, h[:8], desCBC(false, h[8:16], desCBC(true, h[:8], plain)))
}

// ssh 1.x "des": CBC, zero IV, key = the first eight octets of MD5(passphrase)
func ssh1EncDES(plain, pass []byte) []byte {
	h := md5.Sum(pass)
	return desCBC(true, h[:8], plain)
}

// ssh 1.x "arcfour": key = MD5(passphrase)
func ssh1EncRC4(plain, pass []byte) []byte {
	h := md5.Sum(pass)
	c, err := rc4.NewCipher(h[:])
	if err != nil {
		panic(err)
	}
	out := make([]byte, len(plain))
	c.XORKeyStream(out, plain)
	return out
}

// ssh1EncryptedPart: the private half under cipher c. For the ciphers the Go library cannot compute
// (IDEA, TSS, Blowfish with ssh's word order, unassigned numbers) random octets of the same length:
// without the passphrase they cannot be told from a ciphertext.
func ssh1EncryptedPart(r *Rng, c byte, plain, pass []byte) []byte {
	switch c {
	case 0:
		return plain
	case 2:
		return ssh1EncDES(plain, pass)
	case 3:
		ct := ssh1Enc3DES(plain, pass)
		if back := ssh1.VerifDecrypt(ct, pass); !bytes.Equal(back, plain) {
			fmt.Fprintln(os.Stderr, "c02: the harness's 3DES writer and the repository's reader disagree")
		}
		return ct
	case 5:
		return ssh1EncRC4(plain, pass)
	}
	return r.Bytes(len(plain))
}

// ssh1ExactFill shortens d until the private half is a whole number of blocks without padding
func ssh1ExactFill(r *Rng, k rsaKey) rsaKey {
	l := len(ssh1Private(k, [2]byte{0, 0}, 0))
	if l%8 != 0 {
		k.D = randBits(r, k.D.BitLen()-8*(l%8), 4)
	}
	return k
}

var ssh1Comments = []func(r *Rng) []byte{
	func(r *Rng) []byte { return nil },
	func(r *Rng) []byte { return []byte(" leading blank") },
	func(r *Rng) []byte { return []byte("trailing blank ") },
	func(r *Rng) []byte { return []byte("  both ends \t ") },
	func(r *Rng) []byte { return []byte("   ") },
	func(r *Rng) []byte { // long
		var sb strings.Builder
		for n := 300 + r.Intn(1200); sb.Len() < n; {
			sb.WriteString(genComment(r, 6))
			sb.WriteByte(' ')
		}
		return []byte(sb.String())
	},
	func(r *Rng) []byte { return []byte("schlüssel für 日本 🔑 ключ") },
	func(r *Rng) []byte { return []byte("cl\xe9 priv\xe9e de Fran\xe7ois") }, // ISO 8859-1, as ssh-keygen of 1996 wrote it
	func(r *Rng) []byte { return []byte(genComment(r, 4)) },
	func(r *Rng) []byte { return []byte("user@host") },
	func(r *Rng) []byte { return []byte("(encrypted) Cipher: none") },
}

func (g *c02) ssh1Spec(k rsaKey, comment []byte, forbidden [][]byte) Sx {
	m := []kv{{"Comment", string(comment)}}
	if len(comment) == 0 {
		m = []kv{absent("Comment")}
	}
	return specSx("RSA", k.N, "", "", m, forbidden)
}

// ssh1Keep: the case on its own; every keep-th instance also goes through file.Inspect
func (g *c02) ssh1Keep(tag string, data []byte, spec Sx, e2e bool) {
	n := len(g.valid)
	g.ssh1(tag, data, spec)
	if len(g.valid) > n {
		e := g.valid[len(g.valid)-1]
		g.valid = g.valid[:n] // not multiplied by the malformed stream: rsaEverywhere's instances are
		if e2e {
			g.e2e(e)
		}
	}
}

// ssh1FindPass looks for a passphrase "<prefix><n>" for which hit(ciphertext) holds
func ssh1FindPass(prefix string, hint int, enc func(pass []byte) []byte, hit func(ct []byte) bool) ([]byte, bool) {
	try := func(n int) ([]byte, bool) {
		p := []byte(fmt.Sprintf("%s%d", prefix, n))
		return p, hit(enc(p))
	}
	if p, ok := try(hint); ok {
		return p, true
	}
	for n := 0; n < 1<<20; n++ {
		if p, ok := try(n); ok {
			fmt.Fprintf(os.Stderr, "c02: passphrase hint for %q is %d\n", prefix, n)
			return p, true
		}
	}
	return nil, false
}

func abab(b []byte) bool { return len(b) >= 4 && b[0] == b[2] && b[1] == b[3] }

// ssh1Corpus: well-formed encrypted keys, written with real passphrases, that the code as found did
// not describe or described as stored in the clear (findings C02-S1, C02-S2)
func (g *c02) ssh1Corpus() {
	sub := NewRng(0xC0255A1) // the same key under every VERIF_SEED
	k := genRSA(sub, 1031, 4)
	comment := []byte("c02 witness")
	plain := ssh1Plain(k, [2]byte{0x5a, 0xc3})
	priv := rsaPrivates(k)
	spec := g.ssh1Spec(k, comment, priv)
	first := plain[:8]
	// S1a: DES, a passphrase under which the ciphertext starts with a repeated octet pair
	if p, ok := ssh1FindPass("des-", 80466, func(p []byte) []byte { return ssh1EncDES(first, p) }, abab); ok {
		g.ssh1Keep("corpus-S1-des", append(ssh1Public(2, k, comment), ssh1EncDES(plain, p)...), spec, true)
	}
	// S1b: 3DES, a passphrase under which the trial decryption with the empty passphrase passes the check octets
	if p, ok := ssh1FindPass("3des-", 65444, func(p []byte) []byte { return ssh1Enc3DES(first, p) },
		func(ct []byte) bool { return abab(ssh1.VerifDecrypt(ct, nil)) }); ok {
		g.ssh1Keep("corpus-S1-3des", append(ssh1Public(3, k, comment), ssh1Enc3DES(plain, p)...), spec, true)
	}
	// S1c: RC4
	if p, ok := ssh1FindPass("rc4-", 89224, func(p []byte) []byte { return ssh1EncRC4(first, p) }, abab); ok {
		g.ssh1Keep("corpus-S1-rc4", append(ssh1Public(5, k, comment), ssh1EncRC4(plain, p)...), spec, true)
	}
	// S2: 3DES under the empty passphrase is still 3DES
	g.ssh1Keep("corpus-S2-3des-empty-passphrase", append(ssh1Public(3, k, comment), ssh1Enc3DES(plain, nil)...), spec, true)
}

func (g *c02) ssh1Ciphers() {
	r := g.c.R
	lengths := []int{768, 1024, 1029, 1030, 1031, 1032, 1033, 2047}
	if g.c.Thorough() {
		lengths = []int{512, 513, 767, 768, 1023, 1024, 1025, 1026, 1027, 1028, 1029, 1030, 1031, 1032, 1033, 1034, 1035, 1036, 1037, 2047, 2048, 3072, 4095, 4096}
	}
	nc := 0
	comment := func() []byte { nc++; return ssh1Comments[nc%len(ssh1Comments)](r) }
	check := func() [2]byte { return [2]byte{byte(r.U64()), byte(r.U64())} }

	// ---- every cipher type byte ----
	for c := 0; c < 256; c++ {
		k := genRSA(r, lengths[c%len(lengths)], 4)
		if c%2 == 1 {
			k = ssh1ExactFill(r, k)
		}
		cm := comment()
		pass := [][]byte{nil, []byte("pass phrase")}[(c/7)%2]
		part := ssh1EncryptedPart(r, byte(c), ssh1Plain(k, check()), pass)
		g.ssh1Keep(fmt.Sprintf("cipher-%d", c), append(ssh1Public(byte(c), k, cm), part...), g.ssh1Spec(k, cm, rsaPrivates(k)), c%16 == 1)
	}

	// ---- the assigned ciphers x modulus lengths x padding 0 / 1..7 x empty / non-empty passphrase ----
	names := []string{"none", "idea", "des", "3des", "tss", "rc4", "blowfish"}
	for _, l := range lengths {
		for exact := 0; exact < 2; exact++ {
			k := genRSA(r, l, r.Intn(5))
			if exact == 1 {
				k = ssh1ExactFill(r, k)
			}
			priv := rsaPrivates(k)
			for c, name := range names {
				passes := [][]byte{nil, []byte(genComment(r, 3) + "x")}
				if c == 0 || c == 1 || c == 4 || c == 6 {
					passes = passes[1:] // no passphrase enters the octets written
				}
				for pi, pass := range passes {
					cm := comment()
					part := ssh1EncryptedPart(r, byte(c), ssh1Plain(k, check()), pass)
					tag := fmt.Sprintf("%s-%d-pad%d-pass%d", name, l, len(part)-len(ssh1Private(k, [2]byte{}, 0)), len(passes)-1-pi)
					g.ssh1Keep(tag, append(ssh1Public(byte(c), k, cm), part...), g.ssh1Spec(k, cm, priv), r.Intn(8) == 0)
				}
			}
		}
	}

	// ---- ciphertexts that look like something to a reader that does not decrypt ----
	for _, c := range []byte{1, 2, 3, 4, 5, 6, 7, 0x80, 0xff} {
		k := ssh1ExactFill(r, genRSA(r, 1024+r.Intn(16), 4))
		n := len(ssh1Plain(k, check()))
		ch := check()
		looks := map[string][]byte{
			"pair":   append([]byte{ch[0], ch[1], ch[0], ch[1]}, r.Bytes(n-4)...),             // passes the check octets, then noise
			"zeros":  make([]byte, n),                                                         // passes them and reads as four zero-bit integers
			"plain":  ssh1Plain(k, ch),                                                        // reads as an unencrypted private half
			"ffbits": append([]byte{ch[0], ch[1], ch[0], ch[1], 0xff, 0xff}, r.Bytes(n-6)...), // 65535-bit count
		}
		for _, name := range []string{"pair", "zeros", "plain", "ffbits"} {
			part := looks[name]
			if c == 3 { // what the trial decryption with the empty passphrase turns into that
				part = ssh1Enc3DES(part, nil)
			}
			cm := comment()
			g.ssh1Keep(fmt.Sprintf("looks-%s-cipher-%d", name, c), append(ssh1Public(c, k, cm), part...), g.ssh1Spec(k, cm, rsaPrivates(k)), name == "pair")
		}
	}
}
