(* Proofs for C15. *)
From WI Require Import Lib.Base Lib.Info Model.Dn.
