(* C08 — resource use is bounded by input size.
   Only statements; proofs are in Proofs/Cost.v.  The models (Model/Cost.v) log every modelled
   allocation: Make sz rem = make([]T, k) of sz bytes requested when rem input bytes were left,
   Grow sz = growth of a buffer driven by bytes that actually arrived (io.ReadAll, append). *)
From WI Require Import Lib.Base Lib.Info Model.Base64 Model.Cost Model.CostPgp Model.CostArmorVariant Proofs.Cost Proofs.CostPgp Proofs.CostArmor Proofs.CostArmorVariant.
Open Scope N_scope.

(* ---- at most the first 128 MB of any input are read, also of an endless one ---- *)
Theorem C08_read_cap : forall s : stream, (length (read_input s) <= N.to_nat max_read_size)%nat.
Proof. exact read_cap. Qed.
Print Assumptions C08_read_cap.

(* T1: the cap regenerated from the running code (file.MaxReadSize) is the property's 128 MB *)
Theorem C08_read_cap_is_128MB : max_read_size = 128000000.
Proof. vm_compute. reflexivity. Qed.
Print Assumptions C08_read_cap_is_128MB.

Theorem C08_read_endless : forall f, length (read_input (mkstream f None)) = N.to_nat max_read_size.
Proof. exact read_input_endless. Qed.
Print Assumptions C08_read_endless.

Theorem C08_read_finite : forall data, read_input (stream_of data) = firstn (N.to_nat max_read_size) data.
Proof. exact read_input_finite. Qed.
Print Assumptions C08_read_finite.

(* ---- length, count and size fields are never trusted to size an allocation ----
   every allocation made from a length is backed by the bytes that remain, or is at most 8 KiB *)
Theorem C08_lengths_not_trusted_ssh1 : forall data plain sz rem,
  In (Make sz rem) (snd (ssh1_parse data plain)) -> sz <= rem \/ sz <= 8192.
Proof.
  intros data plain sz rem H. destruct (ssh1_parse_spec data plain) as [_ O].
  unfold log_ok in O. rewrite Forall_forall in O. exact (O _ H).
Qed.
Print Assumptions C08_lengths_not_trusted_ssh1.

(* the 16-bit bit count of an MPI: at most 8 KiB whatever follows *)
Theorem C08_lengths_not_trusted_pgp_mpi : forall r a,
  bytes_ok r = true -> In a (snd (pgp_read_mpi r)) -> alloc_sz a <= 8192.
Proof. intros r a B H. destruct (pgp_mpi_spec r B) as [_ [_ P]]. exact (P a H). Qed.
Print Assumptions C08_lengths_not_trusted_pgp_mpi.

Example C08_pgp_mpi_example :
  bytes_ok [255; 255; 1; 2; 3] = true /\ cost_of (pgp_read_mpi [255; 255; 1; 2; 3]) = 8194.
Proof. vm_compute. split; reflexivity. Qed.

(* packet bodies (old/new/partial/indeterminate lengths): the only made-from-length requests of
   the packet loop are fixed-size buffers; bodies are read with io.ReadAll (Grow entries) *)
Theorem C08_lengths_not_trusted_pgp_bodies : forall data sz rem,
  In (Make sz rem) (snd (pgp_opaque_all data)) -> sz <= rem \/ sz <= 8192.
Proof. exact pgp_opaque_makes_const. Qed.
Print Assumptions C08_lengths_not_trusted_pgp_bodies.

(* DER: ParseRaw allocates nothing from a length field; Bytes/FullBytes are slices of the input *)
Theorem C08_der_no_allocation_from_lengths : forall data a,
  In a (snd (der_parse_raw data)) -> exists s, a = Grow s.
Proof. exact der_parse_grow_only. Qed.
Print Assumptions C08_der_no_allocation_from_lengths.

(* ---- allocation is linear in the input, per modelled component; constants from the proofs ---- *)
Theorem C08_alloc_linear_read : forall n, read_input_cost n <= 7 * n + 512.
Proof. exact read_input_cost_bound. Qed.
Print Assumptions C08_alloc_linear_read.

Theorem C08_alloc_linear_ssh1 : forall data plain,
  cost_of (ssh1_parse data plain) <= 10 * lenN data + 600.
Proof. intros. destruct (ssh1_parse_spec data plain) as [H _]. exact H. Qed.
Print Assumptions C08_alloc_linear_ssh1.

Theorem C08_alloc_linear_pgp_packets : forall data,
  cost_of (pgp_opaque_all data) <= 520 * lenN data + 1548.
Proof. intros. destruct (pgp_opaque_spec data) as [H _]. exact H. Qed.
Print Assumptions C08_alloc_linear_pgp_packets.

(* the packet loop does not look inside a packet: whatever the tag - a compressed data packet
   (tag 8) included - a body is a copy of the bytes present in the input for that packet and is
   never inflated: the bodies of all packets together, plus one octet per packet, fit the input.
   (The typed reader openpgp.ReadEntity, not modelled here, parses tag 8 into a decompressor that
   it never reads; that it stays so is checked by measurement on key blocks that carry compressed
   packets of 16-96 MiB content.) *)
Theorem C08_pgp_packet_bodies_within_input : forall data,
  bodies_len (fst (fst (pgp_opaque_all data))) + lenN (fst (fst (pgp_opaque_all data))) <= lenN data.
Proof. exact pgp_opaque_bodies. Qed.
Print Assumptions C08_pgp_packet_bodies_within_input.

Example C08_pgp_compressed_packet_opaque :
  fst (pgp_opaque_all [200; 8; 1; 1; 2; 0; 253; 255; 104; 105]) = ([(8, [1; 1; 2; 0; 253; 255; 104; 105])], false).
Proof. exact pgp_compressed_opaque. Qed.

Theorem C08_alloc_linear_der : forall data, cost_of (der_parse_raw data) <= 232 * lenN data.
Proof. intros. destruct (der_parse_spec data) as [H _]. exact H. Qed.
Print Assumptions C08_alloc_linear_der.

Theorem C08_alloc_linear_base64 : forall data, cost_of (b64_decode_any data) <= lenN data.
Proof. intros. destruct (b64_spec data) as [H _]. exact H. Qed.
Print Assumptions C08_alloc_linear_base64.

(* Full statement (DESIGN 4/C08):
     forall lib name data, ~ known_C08 name data ->
       cost_of (inspect_cost lib name data) <= K * length data + C
   Proved here for every modelled component of the repository's own code, with K = 520 and
   C = 8194 yielded by the proofs, together with "no request trusts a length field".
   The typed OpenPGP packet parsers and ReadEntity are covered by the four theorems above
   (C08_alloc_linear_pgp_typed / _entity: 2400 n + 650000; C08_lengths_not_trusted_pgp_typed /
   _entity: backed or at most 65547).
   The armor reader (armor.Decode + io.ReadAll of the body) is covered by C08_alloc_linear_armor /
   C08_lengths_not_trusted_armor below (106 n + 2580, no request made from a length at all) and is
   among the components of C08_alloc_linear_with_armor (the statement of this theorem over
   component_log_all); C08_alloc_linear_modelled joins all of them under 2400 n + 650000.
   Still missing for the full statement: (a) library
   interiors: crypto/x509, encoding/asn1 below ParseRaw, encoding/json, encoding/pem,
   encoding/base64's stream decoder, x/crypto/ssh, putty-go, jks-go, go-rpm past the guard,
   math/big and the signature verification (crypto/rsa, crypto/dsa, crypto/ecdsa, ed25519),
   compress/flate: measured per case against 1024*n + 1 MiB and the growth clause, not modelled;
   (b) the packet types the entity reader ignores (encrypted session keys, one-pass signatures,
   compressed, encrypted and literal data) and elliptic-curve key material (elliptic.Unmarshal). *)
Theorem C08_alloc_linear_partial : forall comp data aux l,
  bytes_ok data = true -> in_repo comp = true -> component_log comp data aux = Some l ->
  log_cost l <= 520 * lenN data + 8194 /\
  (forall sz rem, In (Make sz rem) l -> sz <= rem \/ sz <= 8192).
Proof.
  intros comp data aux l B R H. destruct (alloc_linear comp data aux l B R H) as [H1 H2].
  split; [exact H1|]. intros sz rem I. unfold log_ok in H2. rewrite Forall_forall in H2. exact (H2 _ I).
Qed.
Print Assumptions C08_alloc_linear_partial.

Example C08_alloc_linear_nonvacuous :
  let data := ssh1_header ++ [0; 0;0;0;0; 0;0;0;0] ++ [0;8;200] ++ [0;2;3] ++ [0;0;0;2;104;105] ++ [1;2;1;2] ++ [0;1;1; 0;1;1; 0;1;1; 0;1;1] in
  bytes_ok data = true /\ in_repo (bs "ssh1") = true /\
  exists l, component_log (bs "ssh1") data [] = Some l /\ log_cost l = 55 /\ is_ok (fst (ssh1_parse data [])) = true.
Proof. exact alloc_linear_example. Qed.

(* ---- the armor reader (internal/openpgp/armor: Decode, then io.ReadAll(block.Body)); model
   armor_decode in Model/CostPgp.v: the line reader over the 100-octet bufio buffer, the search for a
   BEGIN line over any number of false starts, the header map with the continuation value buffer
   (bytes.Buffer lastValue, repair C08-A1), lineReader, the base64 stream decoder, CRC-24.
   Proofs/CostArmor.v: amortised analysis of the value buffer with the potential 2 * capacity, for
   any sequence of long and short header lines (armor_headers_spec holds in every state of the loop). ---- *)

(* modelled allocation is linear in the input, for every input; K = 106 (header loop: key, value and
   first piece are copies of the line, 96 per new map key, value buffer at most 3 * consumed + 64 and
   paid twice), C = 196 (bufio) + 1872 (base64 decoder) + 512 (io.ReadAll) *)
Theorem C08_alloc_linear_armor : forall data,
  bytes_ok data = true -> cost_of (armor_decode data) <= 106 * lenN data + 2580.
Proof. intros data _. exact (armor_alloc_linear data). Qed.
Print Assumptions C08_alloc_linear_armor.

(* every made-from-length request in its log is backed or at most 8 KiB ... *)
Theorem C08_lengths_not_trusted_armor : forall data sz rem,
  bytes_ok data = true -> In (Make sz rem) (snd (armor_decode data)) -> sz <= rem \/ sz <= 8192.
Proof. intros data sz rem _. exact (armor_lengths_not_trusted data sz rem). Qed.
Print Assumptions C08_lengths_not_trusted_armor.

(* ... because there is none: every entry is the growth of a buffer by octets that arrived *)
Theorem C08_armor_no_allocation_from_lengths : forall data a,
  In a (snd (armor_decode data)) -> exists s, a = Grow s.
Proof. exact armor_grow_only. Qed.
Print Assumptions C08_armor_no_allocation_from_lengths.

Example C08_armor_nonvacuous :
  let data := bs "-----BEGIN PGP MESSAGE-----" ++ [10] ++ bs "Version: 1" ++ [10; 10] ++ bs "aGk=" ++ [10] ++
              bs "=Um4c" ++ [10] ++ bs "-----END PGP MESSAGE-----" ++ [10] in
  bytes_ok data = true /\ fst (armor_decode data) = Ok 2 /\ cost_of (armor_decode data) = 3007.
Proof. exact armor_decode_nonvacuous. Qed.

(* C08_alloc_linear_partial with the armor reader among the components (component_log_all is
   component_log extended by "armor", "pgptyped", "pgpread"; in_repo_armor = in_repo or "armor") *)
Theorem C08_alloc_linear_with_armor : forall comp data aux l,
  bytes_ok data = true -> in_repo_armor comp = true -> component_log_all comp data aux = Some l ->
  log_cost l <= 520 * lenN data + 8194 /\
  (forall sz rem, In (Make sz rem) l -> sz <= rem \/ sz <= 8192).
Proof. exact alloc_linear_armor_in. Qed.
Print Assumptions C08_alloc_linear_with_armor.

Example C08_alloc_linear_with_armor_nonvacuous :
  in_repo_armor (bs "armor") = true /\ in_repo_armor (bs "der") = true /\ in_repo_armor (bs "jks") = false /\
  exists l, component_log_all (bs "armor") (bs "-----BEGIN PGP X-----") [] = Some l /\ log_cost l = 449.
Proof. exact alloc_linear_armor_example. Qed.

(* all modelled components of the repository's own code at once (in_repo_all = in_repo_armor or
   "pgptyped" or "pgpread"; aux carries the oracle answers of the typed parsers) *)
Theorem C08_alloc_linear_modelled : forall comp data aux l,
  bytes_ok data = true -> in_repo_all comp = true -> component_log_all comp data aux = Some l ->
  log_cost l <= 2400 * lenN data + 650000 /\
  (forall sz rem, In (Make sz rem) l -> sz <= rem \/ sz <= 65547).
Proof. exact alloc_linear_all_in. Qed.
Print Assumptions C08_alloc_linear_modelled.

(* ---- the typed OpenPGP packet parsers (packet.Read / Reader.Next over public keys v3 and v4,
   private keys, signatures v3 and v4 with both subpacket areas and an embedded signature, user IDs,
   user attributes; unknown tags skipped) and openpgp.ReadEntity (addUserID, addSubkey, the
   accumulation of identities, signatures, subkeys, revocations), Model/CostPgp.v.  The readers the
   parsers read through (spanReader, partialLengthReader, the bufio.Reader of peekVersion) are
   modelled call by call.  Parameters of the statements: whether RIPEMD-160 is linked in, the primary
   KeyId and the results of the signature verifications (library calls). ---- *)

(* every allocation made from a length or count field is backed by the octets still in reach of the
   reader, or is at most 65547 octets (the hashed and unhashed subpacket areas are sized from a
   16-bit field before they are read) *)
Theorem C08_lengths_not_trusted_pgp_typed : forall o data sz rem,
  bytes_ok data = true -> In (Make sz rem) (snd (pgp_typed_all o data)) -> sz <= rem \/ sz <= 65547.
Proof. intros o data sz rem B H. destruct (pgp_typed_all_spec o data B) as [_ O]. exact (okc_in _ _ _ _ O H). Qed.
Print Assumptions C08_lengths_not_trusted_pgp_typed.

Theorem C08_lengths_not_trusted_pgp_entity : forall o kid ov data sz rem,
  bytes_ok data = true -> In (Make sz rem) (snd (pgp_read_entity o kid ov data)) -> sz <= rem \/ sz <= 65547.
Proof. intros o kid ov data sz rem B H. destruct (pgp_read_entity_spec o kid ov data B) as [_ O]. exact (okc_in _ _ _ _ O H). Qed.
Print Assumptions C08_lengths_not_trusted_pgp_entity.

(* modelled allocation is linear in the input; constants from the proofs (the 4 KiB bufio.Reader of
   peekVersion per signature or key packet and the 1 KiB buffer of consumeAll, which since repair F40
   runs for every packet that is not handed out as a stream, set the rate) *)
Theorem C08_alloc_linear_pgp_typed : forall o data, bytes_ok data = true ->
  cost_of (pgp_typed_all o data) <= 2400 * lenN data + 320000.
Proof. intros o data B. destruct (pgp_typed_all_spec o data B) as [H _]. exact H. Qed.
Print Assumptions C08_alloc_linear_pgp_typed.

Theorem C08_alloc_linear_pgp_entity : forall o kid ov data, bytes_ok data = true ->
  cost_of (pgp_read_entity o kid ov data) <= 2400 * lenN data + 650000.
Proof. intros o kid ov data B. destruct (pgp_read_entity_spec o kid ov data B) as [H _]. exact H. Qed.
Print Assumptions C08_alloc_linear_pgp_entity.

Example C08_pgp_typed_nonvacuous :
  (* a user ID packet "ab" and a marker packet: one typed packet, the unknown tag skipped, cost of the
     two io.ReadAll buffers, the string and the two consumeAll buffers *)
  let data := [205; 2; 97; 98; 202; 1; 80] in
  bytes_ok data = true /\ fst (pgp_typed_all false data) = ([TUid [97; 98]], TEnd) /\
  cost_of (pgp_typed_all false data) = 2646.
Proof. vm_compute. repeat split; reflexivity. Qed.

(* ---- recursion depth of the ASN.1 dump: at most half the input length and at most the
   nesting limit maxDepth of the repaired ParseRaw (regenerated constant) (stack bound) ---- *)
Theorem C08_der_depth : forall data items l,
  der_parse_raw data = (Ok items, l) ->
  (2 * raws_depth items <= length data)%nat /\ N.of_nat (raws_depth items) <= der_max_depth.
Proof. exact der_depth. Qed.
Print Assumptions C08_der_depth.

(* ---- refutations ---- *)
(* F4 (repaired by 4d736f1): the SSH1 reader before the repair asked for 2.5 GB on a 50-byte file;
   the repaired reader allocates 17 bytes on the same file *)
Theorem C08_ssh1_before_repair_refuted :
  exists data, lenN data = 50 /\ 2583691264 <= cost_of (ssh1_parse_gen false data []) /\
               cost_of (ssh1_parse data []) = 17.
Proof.
  exists ssh1_f4_witness. destruct ssh1_prefix_refuted as [H1 H2]. split; [exact H1|]. split; [exact H2|exact ssh1_f4_repaired].
Qed.
Print Assumptions C08_ssh1_before_repair_refuted.

(* F25: the third-party JKS and RPM readers size allocations from length and count fields:
   more than 2^30 bytes for inputs below 8 KiB (JKS: known finding; RPM: guarded in the repository) *)
Theorem C08_jks_refuted : exists data,
  lenN data < 8192 /\ 1073741824 < cost_of (jks_parse data) /\ log_trusting (snd (jks_parse data)) = true.
Proof. exists jks_witness. exact jks_refuted. Qed.
Print Assumptions C08_jks_refuted.

(* go-rpm as it is.  Since the repair of F25 in the repository (rpmCheckIndex in
   internal/file/rpm.go) RPMFile no longer hands such input to the library: see the next theorem. *)
Theorem C08_rpm_refuted : exists data,
  lenN data < 8192 /\ 1073741824 < cost_of (rpm_parse data) /\ log_trusting (snd (rpm_parse data)) = true.
Proof. exists rpm_witness. exact rpm_refuted. Qed.
Print Assumptions C08_rpm_refuted.

(* the same witness through file.RPMFile (pre-validation, then the library): refused, nothing allocated *)
Theorem C08_rpm_witness_refused_by_guard :
  rpm_check_index rpm_witness = false /\ cost_of (rpm_file rpm_witness) = 0 /\
  log_trusting (snd (rpm_file rpm_witness)) = false.
Proof. exact rpm_witness_guarded. Qed.
Print Assumptions C08_rpm_witness_refused_by_guard.

(* ---- WHAT-IF variants of the armor header loop (Model/CostArmorVariant.v) - not repository code.
   armor_headers_v HvRepaired is the repository's loop (first theorem); the two others differ from it
   in one statement each and allocate beyond every linear bound, on inputs on which the repository's
   loop stays below 106 n + 128. ---- *)
Theorem C08_armor_variant_repaired_is_model : forall f cont curlen hs r,
  armor_headers_v HvRepaired f cont curlen hs r = armor_headers f cont curlen hs r.
Proof. exact armor_headers_v_repaired. Qed.
Print Assumptions C08_armor_variant_repaired_is_model.

(* the loop before repair C08-A1 (p.Header[lastKey] += string(line) per piece of a long line):
   one header line of 100 (k + 1) octets costs at least 50 k^2 *)
Theorem C08_armor_before_repair_refuted : forall K C, exists r,
  bytes_ok r = true /\
  K * lenN r + C < cost_of (armor_headers_v HvPreRepair (S (length r)) false 0 (mk_hs [] 0) r) /\
  cost_of (armor_headers (S (length r)) false 0 (mk_hs [] 0) r) <= 106 * lenN r + 128.
Proof. exact pre_repair_superlinear. Qed.
Print Assumptions C08_armor_before_repair_refuted.

(* the repaired loop without lastValue.Reset() between header lines: k consecutive long lines (154
   octets each) cost at least 75 k^2 *)
Theorem C08_armor_without_reset_refuted : forall K C, exists r,
  bytes_ok r = true /\
  K * lenN r + C < cost_of (armor_headers_v HvNoReset (S (length r)) false 0 (mk_hs [] 0) r) /\
  cost_of (armor_headers (S (length r)) false 0 (mk_hs [] 0) r) <= 106 * lenN r + 128.
Proof. exact no_reset_superlinear. Qed.
Print Assumptions C08_armor_without_reset_refuted.

(* computed, through the BEGIN line: twice the input, 3.98 and 3.79 times the allocation *)
Example C08_armor_before_repair_witness :
  cost_of (armor_open_v HvPreRepair (w_pre 100)) = 515349 /\
  cost_of (armor_open_v HvPreRepair (w_pre 201)) = 2050246 /\
  cost_of (armor_open_v HvRepaired (w_pre 100)) = 16578 /\
  cost_of (armor_open_v HvRepaired (w_pre 201)) = 48789.
Proof. exact pre_repair_witness. Qed.
