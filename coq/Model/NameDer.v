(* Model for C03, the Name SEQUENCEs of a certificate: from the OCTETS of a Name to the text the tool
   prints for it.  Replaces the oracle [o_name] of Model/CertDer.v.

   Two readers see the octets of a name, and both are modelled here:
   (1) crypto/x509 parser.go parseName (110-160) / parseASN1String (60-108), on cryptobyte: decides whether the
       certificate is ACCEPTED at all.  RDNSequence = SEQUENCE OF SET OF SEQUENCE { OID, value }; the value
       must be a primitive universal T61String(20) / PrintableString(19) / UTF8String(12) / BMPString(30) /
       IA5String(22) / NumericString(18) whose content is valid for its type, anything else is
       "unsupported string type"; an empty SET is accepted; octets after the value inside the
       AttributeTypeAndValue are ignored; high-tag-number identifiers are refused by cryptobyte.
   (2) internal/names/x500.go FromRawDN (13-19) on cert.RawSubject / cert.RawIssuer (the element as it stands
       in the certificate: identifier 0x30, DER length, content): parseRawDN (32-53) =
       encoding/asn1.Unmarshal into []relativeDistinguishedNameSET (asn1.go parseField 678, parseSequenceOf 620:
       a SEQUENCE whose elements are all universal constructed SETs, whose elements are all universal
       constructed SEQUENCEs, each holding a primitive universal OBJECT IDENTIFIER (parseObjectIdentifier 257)
       and then ANY element (asn1.RawValue, kept with its octets), further elements ignored; nothing may
       follow the name), then attributeValue (55-66): the six string types are decoded by
       asn1.Unmarshal into a Go string (parsePrintableString 408 with '*' and '&' allowed, parseNumericString
       389, parseIA5String 458, parseT61String 473 = the octets as they are, parseUTF8String 481,
       parseBMPString 492 = UTF-16BE, one trailing 0000 stripped, through utf16.Decode and string([]rune)),
       any other value stays DER and is printed '#'hex.  Any failure: the text is the hex of the whole
       input.  The attributes of a multi-valued RDN keep their encoded order.  The rendering of the decoded
       RDNSequence (FromRDNSequence) is C15's model [Model.Dn.render_dn].
   Executable definitions only, no proofs. *)
From WI Require Import Lib.Base Lib.Info Lib.Utf8 Model.Cert Model.CertDer.
From WI Require Model.Der Model.Dn.
Open Scope N_scope.

(* ---------- the string types, as both libraries decode them ---------- *)
(* UTF-16 code units of big-endian octet pairs *)
Fixpoint units (c : bytes) : list N :=
  match c with
  | h :: l :: r => (256 * h + l) :: units r
  | _ => []
  end.
(* unicode/utf16.Decode (utf16.go:116-144): surrogate pairs combined, a lone surrogate is U+FFFD *)
Fixpoint utf16_decode (us : list N) : list N :=
  match us with
  | [] => []
  | r :: rest =>
      if (r <? 55296) || (57344 <=? r) then r :: utf16_decode rest
      else if r <? 56320 then
        match rest with
        | r2 :: rest2 =>
            if (56320 <=? r2) && (r2 <? 57344)
            then ((r - 55296) * 1024 + (r2 - 56320) + 65536) :: utf16_decode rest2
            else 65533 :: utf16_decode rest
        | [] => [65533]
        end
      else 65533 :: utf16_decode rest
  end.
(* "Strip terminator if present": one trailing 0x0000 unit *)
Definition strip_terminator (us : list N) : list N :=
  match rev us with
  | 0 :: r => rev r
  | _ => us
  end.
(* parseBMPString (asn1.go:492) = the BMPString case of parseASN1String (parser.go:76) *)
Definition bmp_string (c : bytes) : option bytes :=
  if Nat.even (length c) then Some (flat_map encode_rune (utf16_decode (strip_terminator (units c)))) else None.

Definition ia5_octet (b : N) : bool := b <? 128.

(* the Go string of a string value, by universal tag number; None: not one of the six types, or the
   content is not valid for its type.  encoding/asn1 (parseField into a string) and crypto/x509
   (parseASN1String) agree on all six. *)
Definition string_value (tag : N) (c : bytes) : option bytes :=
  if tag =? 19 then (if forallb Der.is_printable c then Some c else None)
  else if tag =? 18 then (if forallb Der.is_numeric c then Some c else None)
  else if tag =? 22 then (if forallb ia5_octet c then Some c else None)
  else if tag =? 20 then Some c
  else if tag =? 12 then (if Der.utf8_valid c then Some c else None)
  else if tag =? 30 then bmp_string c
  else None.
Definition is_string_tag (tag : N) : bool :=
  (tag =? 19) || (tag =? 18) || (tag =? 22) || (tag =? 20) || (tag =? 12) || (tag =? 30).

(* ---------- (1) crypto/x509 parseName on the content of the Name SEQUENCE ---------- *)
(* the inner loop (parser.go:125-152): the AttributeTypeAndValues of one SET.  The value's identifier
   octet is compared with the six tag constants, so a constructed or non-universal value is unsupported. *)
Fixpoint x509_atvs (fuel : nat) (s : bytes) : option (list (oid * bytes)) :=
  match s with
  | [] => Some []
  | _ => match fuel with
         | O => None
         | S f =>
             olet (atav, r) := cb_read 48 s in
             olet (oc, a1) := cb_read 6 atav in
             olet o := cb_oid oc in
             olet (t, v, _) := cb_any a1 in
             olet str := string_value t v in
             olet rest := x509_atvs f r in
             Some ((o, str) :: rest)
         end
  end.
(* the outer loop (parser.go:118-156): one SET per RDN *)
Fixpoint x509_rdns (fuel : nat) (s : bytes) : option (list (list (oid * bytes))) :=
  match s with
  | [] => Some []
  | _ => match fuel with
         | O => None
         | S f =>
             olet (set, r) := cb_read 49 s in
             olet atvs := x509_atvs (length set) set in
             olet rest := x509_rdns f r in
             Some (atvs :: rest)
         end
  end.
Definition x509_parse_name (content : bytes) : option (list (list (oid * bytes))) :=
  x509_rdns (length content) content.

(* ---------- (2) encoding/asn1 as parseRawDN uses it ---------- *)
(* parseSequenceOf (asn1.go:620) for an element type that is a SET (17) or a SEQUENCE (16): every element
   universal, constructed, with that tag number; the contents of the elements *)
Fixpoint seq_of (tag : N) (fuel : nat) (s : bytes) : option (list bytes) :=
  match s with
  | [] => Some []
  | _ => match fuel with
         | O => None
         | S f =>
             match Der.parse_element s with
             | Ok (h, c, r) =>
                 if (Der.h_class h =? 0) && Der.h_comp h && (Der.h_tag h =? tag)
                 then olet rest := seq_of tag f r in Some (c :: rest)
                 else None
             | _ => None
             end
         end
  end.

(* attributeValue (x500.go:55-66) on the RawValue of header [h], content [c] and octets [full] *)
Definition attribute_value (h : Der.hdr) (c full : bytes) : option Dn.govalue :=
  if (Der.h_class h =? 0) && negb (Der.h_comp h) && is_string_tag (Der.h_tag h)
  then olet s := string_value (Der.h_tag h) c in Some (Dn.GStr s)
  else Some (Dn.GOther [] full).

(* the struct attributeTypeAndValue { Type ObjectIdentifier; Value RawValue } from the content of its
   SEQUENCE (parseField's struct case, asn1.go:941-961: field after field, extra octets at the end allowed) *)
Definition asn1_atv (c : bytes) : option Dn.atv :=
  match Der.parse_element c with
  | Ok (h, oc, r) =>
      if (Der.h_class h =? 0) && negb (Der.h_comp h) && (Der.h_tag h =? 6) then
        olet o := Der.dec_oid_legacy oc in
        match Der.parse_element r with
        | Ok (hv, vc, r2) =>
            olet v := attribute_value hv vc (firstn (length r - length r2) r) in Some (o, v)
        | _ => None
        end
      else None
  | _ => None
  end.

Fixpoint map_opt {A B} (f : A -> option B) (l : list A) : option (list B) :=
  match l with
  | [] => Some []
  | x :: r => olet y := f x in olet ys := map_opt f r in Some (y :: ys)
  end.

Definition asn1_rdn (set : bytes) : option (list Dn.atv) :=
  olet items := seq_of 16 (length set) set in map_opt asn1_atv items.

(* parseRawDN (x500.go:32-53) on the octets handed to FromRawDN *)
Definition asn1_parse_dn (dn : bytes) : option (list (list Dn.atv)) :=
  match Der.parse_element dn with
  | Ok (h, c, []) =>
      if (Der.h_class h =? 0) && Der.h_comp h && (Der.h_tag h =? 16) then
        olet sets := seq_of 17 (length c) c in map_opt asn1_rdn sets
      else None
  | _ => None
  end.

(* names.FromRawDN (x500.go:13-19) on octets *)
Definition from_raw_dn_der (dn : bytes) : bytes := Dn.from_raw_dn dn (asn1_parse_dn dn).

(* ---------- the replacement of o_name ---------- *)
(* cert.RawSubject / cert.RawIssuer: the Name element as it stands in the certificate.  cryptobyte accepts
   DER lengths only, so the octets are determined by the content. *)
Definition raw_name (content : bytes) : bytes :=
  Der.enc_hdr 0 true 16 (N.of_nat (length content)) ++ content.

(* content of a Name SEQUENCE -> the text the tool prints; None: crypto/x509 refuses the certificate *)
Definition name_text (content : bytes) : option bytes :=
  match x509_parse_name content with
  | Some _ => Some (from_raw_dn_der (raw_name content))
  | None => None
  end.

(* the oracles of the octet-level certificate model with the names answered from the octets *)
Definition with_names (o : oracles) : oracles :=
  {| o_name := name_text; o_spki := o_spki o; o_sig := o_sig o; o_uri := o_uri o; o_ext := o_ext o;
     o_negative_serial := o_negative_serial o |}.
