(* Case runner and spec checker (T3) for C10 — stub. *)
From WI Require Import Lib.Base Lib.Info Model.Walk.
Definition run_C10 (op : bytes) (input : arg) : arg := AL [].
Definition check_C10 (op : bytes) (input impl : arg) : arg := AL [].
