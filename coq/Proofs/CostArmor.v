(* Proofs for C08, third part: the armor reader (Model/CostPgp.v armor_decode; Go:
   internal/openpgp/armor/armor.go Decode + io.ReadAll of the body) allocates linearly in its input,
   for every input, and sizes nothing from a field of the input.

   The header loop is the interesting part.  A header line longer than the 100-octet bufio buffer
   arrives in pieces; since repair C08-A1 the pieces are collected in one bytes.Buffer (lastValue)
   that is Reset, not re-allocated, between header lines, and the map entry is written once when the
   line is complete.  The analysis is amortised with the potential 2 * cap(lastValue):
     - a piece of a line pays for itself (the final string copy is charged to the octets of the
       logical line, carried in [curlen]);
     - every growth of the buffer is paid by the rise of the potential (buffer_grow_pot);
     - the capacity never exceeds three times the octets consumed so far plus 64,
   so a run of consecutive long lines costs the sum of their lengths, not the sum of the squares. *)
From WI Require Import Lib.Base Lib.Info Model.Base64 Model.Cost Model.CostPgp Proofs.Cost Proofs.CostPgp.
From Coq Require Import ZifyN ZifyNat ZifyBool Lia.
Open Scope N_scope.

(* ------------------------------------------------------------------------------------- *)
(* logs that hold no request made from a length                                           *)
(* ------------------------------------------------------------------------------------- *)
Definition is_grow (a : alloc) : Prop := match a with Grow _ => True | Make _ _ => False end.
Definition grow_only (l : log) : Prop := Forall is_grow l.

Lemma grow_only_nil : grow_only []. Proof. constructor. Qed.
Lemma grow_only_app : forall l1 l2, grow_only l1 -> grow_only l2 -> grow_only (l1 ++ l2).
Proof. intros. apply Forall_app. tauto. Qed.
Lemma grow_only_cons : forall s l, grow_only l -> grow_only (Grow s :: l).
Proof. intros. constructor; [exact I|assumption]. Qed.
Lemma grow_only_readall : forall m, grow_only (readall_log m).
Proof.
  intros m. apply Forall_forall. intros a H. destruct (readall_log_grow _ _ H) as [s ->]. exact I.
Qed.
Lemma grow_only_no_make : forall l sz rem, grow_only l -> ~ In (Make sz rem) l.
Proof. intros l sz rem G H. unfold grow_only in G. rewrite Forall_forall in G. exact (G _ H). Qed.
Lemma grow_only_ok : forall l, grow_only l -> log_ok l.
Proof.
  intros l G. unfold grow_only, log_ok in *. eapply Forall_impl; [|exact G].
  intros [s r|s]; cbn; tauto.
Qed.

Ltac grow_tac :=
  unfold grow_only in *;
  repeat match goal with
  | |- Forall _ [] => apply Forall_nil
  | |- Forall _ (Grow _ :: _) => apply Forall_cons; [exact I|]
  | |- Forall _ (_ ++ _) => apply Forall_app; split
  | |- Forall _ (if ?b then _ else _) => destruct b
  | H : Forall _ ?l |- Forall _ ?l => exact H
  | |- Forall _ (readall_log _) => apply grow_only_readall
  end.

(* the monad's plumbing *)
Lemma fst_logged : forall A l0 (k : cres A), fst (logged l0 k) = fst k.
Proof. intros A l0 [b l]. reflexivity. Qed.
Lemma snd_logged : forall A l0 (k : cres A), snd (logged l0 k) = l0 ++ snd k.
Proof. intros A l0 [b l]. reflexivity. Qed.
Lemma fst_tick : forall A a (k : cres A), fst (tick a k) = fst k.
Proof. intros A a [b l]. reflexivity. Qed.
Lemma snd_tick : forall A a (k : cres A), snd (tick a k) = a :: snd k.
Proof. intros A a [b l]. reflexivity. Qed.

(* ------------------------------------------------------------------------------------- *)
(* bytes.Buffer growth: paid by the potential 2 * capacity                                *)
(* ------------------------------------------------------------------------------------- *)
Lemma buffer_grow_pot : forall cap n,
  log_cost (snd (buffer_grow cap n)) + 2 * cap <= 2 * fst (buffer_grow cap n) /\
  cap <= fst (buffer_grow cap n) /\
  fst (buffer_grow cap n) <= N.max cap (3 * n + 64) /\
  grow_only (snd (buffer_grow cap n)).
Proof.
  intros cap n. unfold buffer_grow. destruct (N.leb_spec n cap) as [L|L]; cbn [fst snd log_cost alloc_sz].
  - repeat split; try lia. apply grow_only_nil.
  - repeat split; try lia. apply grow_only_cons, grow_only_nil.
Qed.

(* ------------------------------------------------------------------------------------- *)
(* the header loop                                                                        *)
(* ------------------------------------------------------------------------------------- *)
(* octets left to the caller: what follows the header block, nothing after an error *)
Definition hdr_left (res : result (bool * bytes * hstate)) : N :=
  match res with Ok (_, rest, _) => lenN rest | _ => 0 end.

(* rate of the header loop: key, value and first piece of a value are copies of the line, a new map
   key costs sizeof_map_entry = 96 and its line holds at least one octet *)
Definition KH : N := 100.

(* For ANY state of the loop - inside a long line (cont, curlen octets of its value collected) or
   between lines, whatever the capacity the value buffer has reached - the allocation from here on
   plus the potential is bounded by the octets consumed from here on: D. *)
Lemma armor_headers_spec : forall f cont curlen hs r,
  let m := armor_headers f cont curlen hs r in
  let c := if cont then curlen else 0 in
  hdr_left (fst m) <= lenN r /\
  log_cost (snd m) + 2 * hs_cap hs
    <= KH * (lenN r - hdr_left (fst m)) + c + 2 * N.max (hs_cap hs) (3 * (c + (lenN r - hdr_left (fst m))) + 64) /\
  grow_only (snd m).
Proof.
  unfold KH.
  induction f as [|f IH]; intros cont curlen hs r; cbn zeta.
  { cbn [armor_headers rfail fst snd hdr_left log_cost]. split; [lia|]. split; [lia|apply grow_only_nil]. }
  cbn [armor_headers].
  destruct (read_line r) as [[[line pre] rest]|] eqn:RL.
  2:{ cbn [rfail fst snd hdr_left log_cost]. split; [lia|]. split; [lia|apply grow_only_nil]. }
  destruct (read_line_spec _ _ _ _ RL) as [L1 [L2 _]].
  destruct cont.
  - (* a further piece of a long line *)
    pose proof (buffer_grow_pot (hs_cap hs) (curlen + lenN line)) as BG.
    destruct (buffer_grow (hs_cap hs) (curlen + lenN line)) as [cap' lg]. cbn [fst snd] in BG.
    destruct BG as [B1 [B2 [B3 B4]]].
    rewrite fst_logged, snd_logged.
    specialize (IH pre (curlen + lenN line) (mk_hs (hs_keys hs) cap') rest). cbn zeta in IH. cbn [hs_cap] in IH.
    destruct IH as [I1 [I2 I3]].
    set (m := armor_headers f pre (curlen + lenN line) (mk_hs (hs_keys hs) cap') rest) in *.
    split; [lia|]. split.
    + rewrite !log_cost_app.
      assert (E : log_cost (if pre then [] else [Grow (curlen + lenN line)]) + (if pre then curlen + lenN line else 0) = curlen + lenN line)
        by (destruct pre; cbn [log_cost alloc_sz]; lia).
      clearbody m. clear RL. destruct pre; cbn [log_cost alloc_sz] in *; lia.
    + grow_tac.
  - (* a new line *)
    destruct (trim_space line) as [|t0 t'] eqn:T.
    { cbn [rret fst snd hdr_left log_cost]. split; [lia|]. split; [lia|apply grow_only_nil]. }
    pose proof (trim_space_len line) as TL. rewrite T in TL. set (t := t0 :: t') in *.
    assert (T1 : 1 <= lenN t) by (unfold t; rewrite lenN_cons; lia).
    destruct (index_colon t 0) as [i|].
    2:{ cbn [rret fst snd hdr_left log_cost]. split; [lia|]. split; [lia|apply grow_only_nil]. }
    pose proof (lenN_take_le (N.to_nat i) t) as KL.
    pose proof (lenN_drop_le _ (N.to_nat (i + 2)) t) as VL.
    set (key := take (N.to_nat i) t) in *. set (val := drop (N.to_nat (i + 2)) t) in *.
    pose proof (buffer_grow_pot (hs_cap hs) (lenN val)) as BG.
    destruct (buffer_grow (hs_cap hs) (lenN val)) as [cap' lg]. cbn [fst snd] in BG.
    destruct BG as [B1 [B2 [B3 B4]]].
    rewrite fst_logged, snd_logged.
    cbn zeta.
    match goal with |- context [armor_headers f pre ?a ?b rest] =>
      specialize (IH pre a b rest); cbn zeta in IH; cbn [hs_cap] in IH;
      set (m := armor_headers f pre a b rest) in * end.
    destruct IH as [I1 [I2 I3]].
    clearbody m. clear RL T. clearbody key val. clearbody t.
    split; [lia|]. split.
    + rewrite !log_cost_app. cbn [log_cost alloc_sz].
      match goal with |- context [log_cost (if ?b then _ else _)] => destruct b end;
        cbn [log_cost alloc_sz]; unfold sizeof_map_entry;
      destruct pre; lia.
    + cbn [app]. grow_tac.
Qed.

(* the header block of one armor, from its first line: linear in the octets it consumes *)
Lemma armor_headers_block : forall f r,
  let m := armor_headers f false 0 (mk_hs [] 0) r in
  hdr_left (fst m) <= lenN r /\
  log_cost (snd m) <= 106 * (lenN r - hdr_left (fst m)) + 128 /\
  grow_only (snd m).
Proof.
  intros f r. pose proof (armor_headers_spec f false 0 (mk_hs [] 0) r) as H. cbn zeta in *. cbn [hs_cap] in H.
  unfold KH in H. destruct H as [H1 [H2 H3]]. split; [exact H1|]. split; [lia|exact H3].
Qed.

(* ------------------------------------------------------------------------------------- *)
(* Decode: the search for a BEGIN line, over any number of false starts                   *)
(* ------------------------------------------------------------------------------------- *)
Definition find_left (res : result bytes) : N := match res with Ok b => lenN b | _ => 0 end.

Lemma prefix_len_nat : forall (t : bytes) (k : nat), Nat.ltb k (length t) = true -> N.of_nat k < lenN t.
Proof. intros t k H. apply Nat.ltb_lt in H. rewrite lenN_length. lia. Qed.

Lemma armor_find_spec : forall f ig r,
  let m := armor_find f ig r in
  find_left (fst m) <= lenN r /\
  log_cost (snd m) + 106 * find_left (fst m) <= 106 * lenN r /\
  grow_only (snd m).
Proof.
  induction f as [|f IH]; intros ig r; cbn zeta.
  { cbn [armor_find rfail fst snd find_left log_cost]. split; [lia|]. split; [lia|apply grow_only_nil]. }
  cbn [armor_find].
  destruct (read_line r) as [[[line pre] rest]|] eqn:RL.
  2:{ cbn [rfail fst snd find_left log_cost]. split; [lia|]. split; [lia|apply grow_only_nil]. }
  destruct (read_line_spec _ _ _ _ RL) as [L1 [L2 _]].
  destruct (pre || ig).
  { destruct (IH pre rest) as [I1 [I2 I3]]. cbn zeta in *. split; [lia|]. split; [lia|exact I3]. }
  destruct (Nat.ltb (length armor_start + 5) (length (trim_space line)) && prefix_of armor_start (trim_space line)) eqn:BG.
  2:{ destruct (IH false rest) as [I1 [I2 I3]]. cbn zeta in *. split; [lia|]. split; [lia|exact I3]. }
  apply Bool.andb_true_iff in BG. destruct BG as [BG _]. apply prefix_len_nat in BG.
  assert (AS : length armor_start = 11%nat) by (vm_compute; reflexivity). rewrite AS in BG.
  pose proof (trim_space_len line) as TL. set (t := trim_space line) in *.
  rewrite !fst_tick, !snd_tick.
  destruct (armor_headers_block (S (length rest)) rest) as [H1 [H2 H3]]. cbn zeta in *.
  destruct (armor_headers (S (length rest)) false 0 (mk_hs [] 0) rest) as [[[[isbody rest'] hs']|e|e] lh];
    cbn [fst snd hdr_left] in *; cbn [rbind].
  - destruct isbody.
    + cbn [rret fst snd find_left log_cost alloc_sz]. rewrite app_nil_r. unfold sizeof_block.
      split; [lia|]. split; [lia|]. grow_tac.
    + destruct (IH false rest') as [I1 [I2 I3]]. cbn zeta in *.
      destruct (armor_find f false rest') as [b lf]. cbn [fst snd] in *.
      cbn [log_cost alloc_sz]. rewrite log_cost_app. unfold sizeof_block.
      split; [lia|]. split; [lia|]. grow_tac.
  - cbn [fst snd find_left log_cost alloc_sz]. unfold sizeof_block.
    split; [lia|]. split; [lia|]. grow_tac.
  - cbn [fst snd find_left log_cost alloc_sz]. unfold sizeof_block.
    split; [lia|]. split; [lia|]. grow_tac.
Qed.

(* ------------------------------------------------------------------------------------- *)
(* the body: base64 characters collected line by line, then decoded                       *)
(* ------------------------------------------------------------------------------------- *)
Lemma lenN_filter_le : forall (p : N -> bool) (l : bytes), lenN (filter p l) <= lenN l.
Proof.
  intros p l. induction l as [|x l IH]; cbn [filter]; [lia|].
  destruct (p x); rewrite !lenN_cons; lia.
Qed.

Lemma armor_body_len : forall f acc r chars crc,
  armor_body f acc r = Ok (chars, crc) -> lenN chars <= lenN acc + lenN r.
Proof.
  induction f as [|f IH]; intros acc r chars crc H; cbn [armor_body] in H; [discriminate|].
  destruct (read_line r) as [[[line pre] rest]|] eqn:RL.
  2:{ inversion H; subst. lia. }
  destruct (read_line_spec _ _ _ _ RL) as [L1 [L2 _]].
  destruct pre; [discriminate|].
  destruct (prefix_of armor_end line). { inversion H; subst. lia. }
  destruct (Nat.eqb (length line) 5 && (nth 0 line 0 =? 61)).
  - destruct (crc_line (drop 1 line)) as [[c|]|]; [| |discriminate].
    + destruct (read_line rest) as [[[l2 p2] r2]|]; [|discriminate].
      destruct (prefix_of armor_end l2); [|discriminate]. inversion H; subst. lia.
    + apply IH in H. lia.
  - destruct (Nat.ltb 96 (length line)); [discriminate|].
    apply IH in H. rewrite lenN_app in H. pose proof (lenN_filter_le (fun c => negb (c =? 13)) line). lia.
Qed.

Lemma q3_len : forall a b c d, lenN (q3 a b c d) = 3.
Proof. intros. unfold q3. cbn zeta. rewrite !lenN_cons, lenN_nil. reflexivity. Qed.
Lemma q2_len : forall a b c, lenN (q2 a b c) <= 3.
Proof. intros. unfold q2. pose proof (lenN_take_le 2 (q3 a b c 0)). rewrite q3_len in H. exact H. Qed.
Lemma q1_len : forall a b, lenN (q1 a b) <= 3.
Proof. intros. unfold q1. pose proof (lenN_take_le 1 (q3 a b 0 0)). rewrite q3_len in H. exact H. Qed.

(* the decoder yields at most three octets per four characters (here: no more than it was given) *)
Lemma core_len : forall f u p t d, core f u p t = Some d -> lenN d <= lenN t.
Proof.
  induction f as [|f IH]; intros u p t d H; [discriminate|].
  destruct t as [|a [|b [|c [|e r]]]]; cbn [core] in H.
  - inversion H; subst. lia.
  - discriminate.
  - destruct p; [discriminate|]. destruct (b64val u a); [|discriminate]. destruct (b64val u b); [|discriminate].
    inversion H; subst. pose proof (q1_len n n0). rewrite !lenN_cons.
    unfold q1, q3 in *. cbn zeta in *. cbn [take] in *. rewrite !lenN_cons, lenN_nil in *. lia.
  - destruct p; [discriminate|]. destruct (b64val u a); [|discriminate]. destruct (b64val u b); [|discriminate].
    destruct (b64val u c); [|discriminate].
    inversion H; subst. rewrite !lenN_cons.
    unfold q2, q3. cbn zeta. cbn [take]. rewrite !lenN_cons, lenN_nil. lia.
  - rewrite !lenN_cons.
    destruct (b64val u a); [|discriminate]. destruct (b64val u b); [|discriminate].
    destruct (b64val u c).
    + destruct (b64val u e).
      * destruct (core f u p r) as [rest|] eqn:C; [|discriminate]. inversion H; subst.
        apply IH in C. rewrite ?lenN_app, ?q3_len, ?lenN_cons. lia.
      * destruct (p && (e =? 61)); [|discriminate]. destruct r; [|discriminate]. inversion H; subst.
        pose proof (q2_len n n0 n1) as Q. unfold q2, q3 in *. cbn zeta in *. cbn [take] in *. rewrite ?lenN_cons, ?lenN_nil in *. lia.
    + destruct (p && (c =? 61) && (e =? 61)); [|discriminate]. destruct r; [|discriminate]. inversion H; subst.
      pose proof (q1_len n n0) as Q. unfold q1, q3 in *. cbn zeta in *. cbn [take] in *. rewrite ?lenN_cons, ?lenN_nil in *. lia.
Qed.

(* ------------------------------------------------------------------------------------- *)
(* armor.Decode + io.ReadAll(block.Body)                                                  *)
(* ------------------------------------------------------------------------------------- *)
(* K = 106: the header loop's rate (100) plus three times two for the value buffer's capacity;
   C = 196 (bufio) + 1872 (base64 decoder) + 512 (io.ReadAll's first buffer).  The base64 body costs
   7 per octet (io.ReadAll's growth), below the header rate. *)
Theorem armor_decode_spec : forall data,
  cost_of (armor_decode data) <= 106 * lenN data + 2580 /\ grow_only (snd (armor_decode data)).
Proof.
  intros data. unfold armor_decode, cost_of. rewrite snd_tick.
  destruct (armor_find_spec (S (length data)) false data) as [F1 [F2 F3]]. cbn zeta in *.
  destruct (armor_find (S (length data)) false data) as [[body|e|e] lf]; cbn [fst snd find_left] in *; cbn [rbind].
  2,3: (cbn [snd log_cost alloc_sz]; split; [lia|grow_tac]).
  match goal with |- context [let '(b, l2) := ?k in _] => set (K := k) end.
  assert (KS : log_cost (snd K) <= 7 * lenN body + 2384 /\ grow_only (snd K)).
  { subst K. rewrite snd_tick. unfold sizeof_b64_decoder.
    destruct (armor_body (S (length body)) [] body) as [[chars crc]|e|e] eqn:AB.
    2,3: (cbn [rfail rpanic snd log_cost alloc_sz]; split; [lia|grow_tac]).
    apply armor_body_len in AB. rewrite lenN_nil in AB.
    destruct (core (S (length chars)) false true chars) as [d|] eqn:CO.
    - apply core_len in CO. rewrite snd_logged.
      pose proof (readall_log_cost (lenN d)) as RA.
      assert (Z : forall (x : cres N), x = rret (lenN d) \/ x = rfail "armor invalid" -> snd x = [])
        by (intros x [-> | ->]; reflexivity).
      match goal with |- context [readall_log (lenN d) ++ snd ?x] => assert (ZX : snd x = []) end.
      { apply Z. destruct crc as [c|]; [destruct (c =? _)|]; tauto. }
      rewrite ZX, app_nil_r. cbn [log_cost alloc_sz]. split; [lia|grow_tac].
    - rewrite snd_logged. cbn [rfail snd]. rewrite app_nil_r.
      pose proof (readall_log_cost (lenN chars / 4 * 3)) as RA.
      assert (DV : lenN chars / 4 * 3 <= lenN chars).
      { pose proof (N.div_mod (lenN chars) 4 ltac:(lia)). lia. }
      cbn [log_cost alloc_sz]. split; [lia|grow_tac]. }
  destruct KS as [K1 K2]. destruct K as [b l2]. cbn [snd] in *.
  cbn [log_cost alloc_sz]. rewrite log_cost_app. split; [lia|grow_tac].
Qed.

Theorem armor_alloc_linear : forall data, cost_of (armor_decode data) <= 106 * lenN data + 2580.
Proof. intros. exact (proj1 (armor_decode_spec data)). Qed.

(* no request of the armor reader is made from a field of the input *)
Theorem armor_grow_only : forall data a, In a (snd (armor_decode data)) -> exists s, a = Grow s.
Proof.
  intros data a H. pose proof (proj2 (armor_decode_spec data)) as G. unfold grow_only in G.
  rewrite Forall_forall in G. specialize (G _ H). destruct a as [s r|s]; [contradiction|now exists s].
Qed.

Theorem armor_lengths_not_trusted : forall data sz rem,
  In (Make sz rem) (snd (armor_decode data)) -> sz <= rem \/ sz <= 8192.
Proof. intros data sz rem H. destruct (armor_grow_only _ _ H) as [s E]. discriminate. Qed.

Example armor_decode_nonvacuous :
  (* a BEGIN line, one header, the blank line, "aGk=" ("hi"), its checksum line and the END line:
     accepted, two octets decoded *)
  let data := bs "-----BEGIN PGP MESSAGE-----" ++ [10] ++ bs "Version: 1" ++ [10; 10] ++ bs "aGk=" ++ [10] ++
              bs "=Um4c" ++ [10] ++ bs "-----END PGP MESSAGE-----" ++ [10] in
  bytes_ok data = true /\ fst (armor_decode data) = Ok 2 /\ cost_of (armor_decode data) = 3007.
Proof. vm_compute. repeat split; reflexivity. Qed.

(* ------------------------------------------------------------------------------------- *)
(* the components by name, armor included                                                 *)
(* ------------------------------------------------------------------------------------- *)
Lemma bytes_eqb_true : forall a b, bytes_eqb a b = true -> a = b.
Proof.
  induction a as [|x a IH]; intros [|y b] H; cbn [bytes_eqb] in H; try discriminate; [reflexivity|].
  apply Bool.andb_true_iff in H. destruct H as [H1 H2]. apply N.eqb_eq in H1. apply IH in H2. now subst.
Qed.

Definition in_repo_armor (comp : bytes) : bool := in_repo comp || bytes_eqb comp (bs "armor").

Lemma in_repo_log_all : forall comp data aux, in_repo comp = true ->
  component_log_all comp data aux = component_log comp data aux.
Proof.
  intros comp data aux R. unfold component_log_all.
  unfold in_repo in R.
  repeat match type of R with
  | (_ || _) = true => apply Bool.orb_true_iff in R; destruct R as [R|R]
  end; apply bytes_eqb_true in R; subst comp; reflexivity.
Qed.

(* the statement of alloc_linear (Proofs/Cost.v) with the armor reader among the components *)
Theorem alloc_linear_armor : forall comp data aux l,
  bytes_ok data = true -> in_repo_armor comp = true -> component_log_all comp data aux = Some l ->
  log_cost l <= 520 * lenN data + 8194 /\ log_ok l.
Proof.
  intros comp data aux l B R H. unfold in_repo_armor in R. apply Bool.orb_true_iff in R. destruct R as [R|R].
  - rewrite (in_repo_log_all _ _ _ R) in H. exact (alloc_linear comp data aux l B R H).
  - unfold component_log_all in H. rewrite R in H. inversion H; subst l.
    destruct (armor_decode_spec data) as [A1 A2]. unfold cost_of in A1. split; [lia|apply grow_only_ok; exact A2].
Qed.

(* every modelled component of the repository's own code, the typed OpenPGP parsers and ReadEntity
   included: one rate, one constant, one bound for requests made from a length *)
Definition in_repo_all (comp : bytes) : bool :=
  in_repo_armor comp || bytes_eqb comp (bs "pgptyped") || bytes_eqb comp (bs "pgpread").

Theorem alloc_linear_all : forall comp data aux l,
  bytes_ok data = true -> in_repo_all comp = true -> component_log_all comp data aux = Some l ->
  log_cost l <= 2400 * lenN data + 650000 /\ log_okc area_max l.
Proof.
  intros comp data aux l B R H. unfold in_repo_all in R.
  apply Bool.orb_true_iff in R. destruct R as [R|R]; [apply Bool.orb_true_iff in R; destruct R as [R|R]|].
  - destruct (alloc_linear_armor comp data aux l B R H) as [A1 A2]. split; [lia|apply log_ok_okc; exact A2].
  - apply bytes_eqb_true in R. subst comp.
    assert (E : component_log_all (bs "pgptyped") data aux = Some (snd (pgp_typed_all (aux_ripemd aux) data))) by reflexivity.
    rewrite E in H. inversion H; subst l.
    destruct (pgp_typed_all_spec (aux_ripemd aux) data B) as [P1 P2]. unfold cost_of in P1.
    split; [|exact P2]. revert P1. unfold KK, t_read_fail_const. lia.
  - apply bytes_eqb_true in R. subst comp.
    assert (E : component_log_all (bs "pgpread") data aux =
                Some (snd (pgp_read_entity (aux_ripemd aux) (aux_keyid aux) (aux_verify aux) data))) by reflexivity.
    rewrite E in H. inversion H; subst l.
    destruct (pgp_read_entity_spec (aux_ripemd aux) (aux_keyid aux) (aux_verify aux) data B) as [P1 P2]. unfold cost_of in P1.
    split; [|exact P2]. revert P1. unfold KK, entity_const. lia.
Qed.

(* the two statements in the form of Props/C08.v *)
Theorem alloc_linear_armor_in : forall comp data aux l,
  bytes_ok data = true -> in_repo_armor comp = true -> component_log_all comp data aux = Some l ->
  log_cost l <= 520 * lenN data + 8194 /\
  (forall sz rem, In (Make sz rem) l -> sz <= rem \/ sz <= 8192).
Proof.
  intros comp data aux l B R H. destruct (alloc_linear_armor comp data aux l B R H) as [H1 H2].
  split; [exact H1|]. intros sz rem I. unfold log_ok in H2. rewrite Forall_forall in H2. exact (H2 _ I).
Qed.

Theorem alloc_linear_all_in : forall comp data aux l,
  bytes_ok data = true -> in_repo_all comp = true -> component_log_all comp data aux = Some l ->
  log_cost l <= 2400 * lenN data + 650000 /\
  (forall sz rem, In (Make sz rem) l -> sz <= rem \/ sz <= 65547).
Proof.
  intros comp data aux l B R H. destruct (alloc_linear_all comp data aux l B R H) as [H1 H2].
  split; [exact H1|]. intros sz rem I. exact (okc_in _ _ _ _ H2 I).
Qed.

Example alloc_linear_armor_example :
  in_repo_armor (bs "armor") = true /\ in_repo_armor (bs "der") = true /\ in_repo_armor (bs "jks") = false /\
  exists l, component_log_all (bs "armor") (bs "-----BEGIN PGP X-----") [] = Some l /\ log_cost l = 449.
Proof. vm_compute. repeat split; try reflexivity. eexists. split; reflexivity. Qed.
