(* C15 — distinguished names are rendered unambiguously (RFC 4514).
   Only statements; proofs are in Proofs/Dn.v.

   Model/Dn.v  : render_dn (names.FromRDNSequence), from_raw_dn (names.FromRawDN), escape_gen
                 (escapeRDNAttrValue), attr_name (x500AttrTypeFromOID over the regenerated table).
   Lib/Rfc4514 : parse_dn / parse_rdns / parse_value — the RFC 4514 reader (the specification).

   A name is a list of RDNs in certificate order, each a list of (OID, value); a value is a
   Go string or a non-string Go value known by its DER encoding.
     name_ok  : every OID has at least two arcs (every DER-decoded OID has); every string value is
                valid UTF-8 (valid_utf8 = Go's utf8.ValidString: PrintableString, IA5String and
                UTF8String contents are); every non-string value has a DER encoding
                (marshal v <> []: excludes only a Go nil, which FromRawDN no longer produces
                since repair F31e; see C15_nil_value_unreadable).
     patv_of  : what the reader must return for one attribute: (displayed type, PStr s | PHex der).
     akey     : the attribute itself: (OID, PStr s | PHex der). *)
From WI Require Import Lib.Base Lib.Info Lib.Utf8 Lib.Rfc4514 Model.Dn Proofs.Dn.
Open Scope N_scope.

(* T1: the regenerated name table is usable by an RFC 4514 reader: every display name is a
   descr (ALPHA followed by ALPHA / DIGIT / HYPHEN) and no two entries share a name *)
Theorem C15_name_table_ok : name_table_ok x500_names = true.
Proof. exact x500_names_ok. Qed.
Print Assumptions C15_name_table_ok.

(* the displayed attribute type determines the OID, for ALL OIDs (in the table or dotted) *)
Theorem C15_names_injective : forall o1 o2 : oid, attr_name o1 = attr_name o2 -> o1 = o2.
Proof. exact attr_name_inj. Qed.
Print Assumptions C15_names_injective.

(* before repair F31 the table had two rows named ldapUrl *)
Theorem C15_names_injective_refuted :
  exists o1 o2 : oid, o1 <> o2 /\ attr_name_in ldap_rows_before o1 = attr_name_in ldap_rows_before o2.
Proof. exact names_injective_refuted_before. Qed.
Print Assumptions C15_names_injective_refuted.

(* escapeRDNAttrValue on a valid string is the per-code-point escaping [esc_cps]:
   `\00` for NUL, `\c` for comma, plus, double quote, backslash, angle brackets and semicolon always, for a space that is first or last, for a
   '#' that is first; everything else unchanged (k == len(s)-1 is a byte-index test, but the
   only rune it is applied to has width 1) *)
Theorem C15_escape_by_code_point : forall nul cps, Forall scalar cps ->
  escape_gen nul (utf8 cps) = esc_cps nul true cps.
Proof. exact escape_utf8. Qed.
Print Assumptions C15_escape_by_code_point.

(* the reader's state after the escaped text of any sequence of code points, in first or
   non-first position, followed by the end of the text or a separator: one token per code
   point ([toks]: a pair for every escaped one — leading space, leading '#', trailing space
   included — the character itself otherwise) and nothing of the remainder consumed *)
Theorem C15_reader_after_escape : forall cps, Forall scalar cps -> forall first rest,
  sep_or_end rest = true ->
  lex_value (esc_cps true first cps ++ rest) = Some (toks first cps, rest).
Proof. exact lex_esc. Qed.
Print Assumptions C15_reader_after_escape.

(* one value: whatever follows (end, ',' or '+'), the reader gets the string back and stops
   exactly at the separator: a value cannot forge, merge or hide components *)
Theorem C15_value_roundtrip : forall s rest, valid_utf8 s = true -> sep_or_end rest = true ->
  parse_value (escape_gen true s ++ rest) = Some (PStr s, rest).
Proof. exact value_roundtrip. Qed.
Print Assumptions C15_value_roundtrip.

(* valid_utf8 is exactly "the UTF-8 encoding of a sequence of Unicode scalar values" *)
Theorem C15_valid_utf8_iff : forall s,
  valid_utf8 s = true <-> exists cps, Forall scalar cps /\ s = utf8 cps.
Proof.
  intro s. split; [apply valid_utf8_scalars|]. intros (cps & H & ->). now apply scalars_valid_utf8.
Qed.
Print Assumptions C15_valid_utf8_iff.

(* THE PROPERTY: the text of a name parses back into exactly the sequence of its attribute
   types and values, most specific (last RDN) first *)
Theorem C15_roundtrip : forall rdns, name_ok rdns ->
  parse_dn (render_dn rdns) = Some (map patv_of (concat (rev rdns))).
Proof. exact roundtrip. Qed.
Print Assumptions C15_roundtrip.

(* ... and with the RDN boundaries: the attributes of a multi-valued RDN stay together
   (after repair F31d; empty RDNs print nothing) *)
Theorem C15_roundtrip_rdns : forall rdns, name_ok rdns ->
  parse_rdns (render_dn rdns) = Some (map (map patv_of) (filter nonempty (rev rdns))).
Proof. exact roundtrip_rdns. Qed.
Print Assumptions C15_roundtrip_rdns.

(* the same for what file.Inspect prints as Subject / Issuer: FromRawDN on a name the library
   decoded as [rdns] *)
Theorem C15_certificate_names : forall dn rdns, name_ok rdns ->
  parse_dn (from_raw_dn dn (Some rdns)) = Some (map patv_of (concat (rev rdns))).
Proof. exact from_raw_dn_roundtrip. Qed.
Print Assumptions C15_certificate_names.

(* no forgery, merging or hiding: as many components are read as the name has attributes *)
Theorem C15_no_forgery : forall rdns, name_ok rdns ->
  exists l, parse_dn (render_dn rdns) = Some l /\ length l = length (concat rdns).
Proof. exact no_forgery. Qed.
Print Assumptions C15_no_forgery.

(* unambiguous: two names with the same text have the same RDNs, the same OIDs and the same
   values (uses C15_names_injective) *)
Theorem C15_unambiguous : forall r1 r2, name_ok r1 -> name_ok r2 -> render_dn r1 = render_dn r2 ->
  map (map akey) (filter nonempty (rev r1)) = map (map akey) (filter nonempty (rev r2)).
Proof. exact unambiguous. Qed.
Print Assumptions C15_unambiguous.

(* INTEGER values always satisfy the hypothesis on values *)
Theorem C15_integer_values_ok : forall z, value_ok (GInt z).
Proof. exact int_value_ok. Qed.
Print Assumptions C15_integer_values_ok.

(* the hypotheses are met by a name with every special character, a leading space followed by #, a
   trailing space, NUL, LF, multi-byte characters, an empty value, a lone '#', a lone space,
   an empty RDN, multi-valued RDNs, an INTEGER and an OCTET STRING; its text is as expected *)
Example C15_tricky_name_ok : name_ok tricky_name.
Proof. exact tricky_name_ok. Qed.
Example C15_tricky_name_text :
  render_dn tricky_name =
    bs "0.9.2342.19200300.100.1.25=\#+O=\ +2.999.3=#0401ff,CN=\ #\,\+\""\\\<\>\;=\00" ++ [10; 195; 169; 240; 159; 152; 128]
    ++ bs "\ +tagLocation=#0202ff7f+1.2.840.113549.1.9.1=,C=ZZ".
Proof. exact tricky_name_text. Qed.

(* ---- the code before the repairs refutes the property (witnesses kept in the corpus) ---- *)
(* F31c: NUL written raw: the text is not an RFC 4514 string *)
Theorem C15_nul_refuted :
  exists rdns, name_ok rdns /\ parse_dn (render_dn_gen original x500_names rdns) = None.
Proof. exact nul_refuted_before. Qed.
Print Assumptions C15_nul_refuted.

(* F31d: multi-valued RDN joined by ',': two different names, one text *)
Theorem C15_multivalued_refuted :
  exists r1 r2, name_ok r1 /\ name_ok r2 /\
    render_dn_gen (mkvariant true false true) x500_names r1 = render_dn_gen (mkvariant true false true) x500_names r2 /\
    map (map akey) (filter nonempty (rev r1)) <> map (map akey) (filter nonempty (rev r2)).
Proof. exact multivalued_refuted_before. Qed.
Print Assumptions C15_multivalued_refuted.

(* F31b: INTEGER 5 printed like the string %!s(int64=5) *)
Theorem C15_nonstring_refuted :
  exists a b, akey a <> akey b /\
    render_dn_gen (mkvariant true true false) x500_names [[a]] = render_dn_gen (mkvariant true true false) x500_names [[b]].
Proof. exact nonstring_refuted_before. Qed.
Print Assumptions C15_nonstring_refuted.

(* the case name_ok excludes: FromRDNSequence called directly with a nil value (before repair
   F31e FromRawDN produced it for types encoding/asn1 does not decode) prints a bare '#' *)
Theorem C15_nil_value_unreadable : parse_dn (render_dn [[(cn, GNil)]]) = None.
Proof. exact nil_value_unreadable. Qed.
Print Assumptions C15_nil_value_unreadable.

(* positions next to multi-byte characters (instances of C15_escape_by_code_point): e-acute
   then space; space, U+1F600, space; combining acute then '#'; '#' then combining acute;
   euro sign then two spaces *)
Example C15_multibyte_positions :
  escape_gen true (utf8 [233; 32]) = utf8 [233; 92; 32] /\
  escape_gen true (utf8 [32; 128512; 32]) = utf8 [92; 32; 128512; 92; 32] /\
  escape_gen true (utf8 [769; 35]) = utf8 [769; 35] /\
  escape_gen true (utf8 [35; 769]) = utf8 [92; 35; 769] /\
  escape_gen true (utf8 [8364; 32; 32]) = utf8 [8364; 32; 92; 32].
Proof. exact multibyte_positions. Qed.

(* ---- the two names of one certificate (model of getCertificateInfo, internal/file/der.go:82
   and :87: cert_names = two independent calls of FromRawDN) ----
   THE PROPERTY AT PAIR LEVEL: for ALL subjects s and issuers i, however related (equal, the
   same RDNs in another order, regrouped, other string types, ...), the Subject text reads back
   as s and the Issuer text reads back as i (reads_as n = the non-empty RDNs of n, most specific
   first, as displayed type and value) *)
Theorem C15_certificate_pair : forall ds di s i, name_ok s -> name_ok i ->
  parse_rdns (fst (cert_names (ds, Some s) (di, Some i))) = reads_as s /\
  parse_rdns (snd (cert_names (ds, Some s) (di, Some i))) = reads_as i.
Proof. exact cert_names_roundtrip. Qed.
Print Assumptions C15_certificate_pair.

(* the Issuer line repeats the Subject line only when issuer and subject are the same name *)
Theorem C15_certificate_pair_same_text : forall ds di s i, name_ok s -> name_ok i ->
  fst (cert_names (ds, Some s) (di, Some i)) = snd (cert_names (ds, Some s) (di, Some i)) ->
  map (map akey) (filter nonempty (rev s)) = map (map akey) (filter nonempty (rev i)).
Proof. exact cert_names_same_text. Qed.
Print Assumptions C15_certificate_pair_same_text.

(* every certificate of a PEM bundle / Java keystore (carrier_names: PEMFile, parseJKSEntry) *)
Theorem C15_carrier_pairs : forall certs : list (decoded_name * decoded_name),
  Forall (fun c => name_ok (snd (fst c)) /\ name_ok (snd (snd c))) certs ->
  map (fun t => (parse_rdns (fst t), parse_rdns (snd t)))
      (carrier_names (map (fun c => (as_raw (fst c), as_raw (snd c))) certs))
  = map (fun c => (reads_as (snd (fst c)), reads_as (snd (snd c)))) certs.
Proof. exact carrier_names_roundtrip. Qed.
Print Assumptions C15_carrier_pairs.

(* related names meet the hypotheses and are shown differently: RDNs in another order; two RDNs
   against one multi-valued RDN *)
Example C15_related_names_ok : name_ok acme_subject /\ name_ok acme_issuer /\ name_ok two_rdns /\ name_ok one_rdn.
Proof. exact related_names_ok. Qed.
Example C15_related_names_text :
  cert_names ([], Some acme_subject) ([], Some acme_issuer)
    = (bs "CN=Acme CA,O=Acme\, Inc.,C=US", bs "CN=Acme CA,C=US,O=Acme\, Inc.") /\
  cert_names ([], Some two_rdns) ([], Some one_rdn) = (bs "O=a\+b,CN=x", bs "CN=x+O=a\+b").
Proof. exact related_names_text. Qed.

(* ---- several names rendered in one process (render_all: the loop of a caller over
   names.FromRDNSequence; render_all_raw: over names.FromRawDN) ----
   rendering a list of names is the map of rendering one name: nothing is carried over *)
Theorem C15_render_all_is_map : forall ns, render_all ns = map render_dn ns.
Proof. exact render_all_map. Qed.
Print Assumptions C15_render_all_is_map.

Theorem C15_render_all_raw_is_map : forall ns,
  render_all_raw ns = map (fun n => from_raw_dn (fst n) (snd n)) ns.
Proof. exact render_all_raw_map. Qed.
Print Assumptions C15_render_all_raw_is_map.

(* independent of repetition: a name occurring twice, with anything before, between and after,
   is shown with its own text at both places *)
Theorem C15_render_all_repeat : forall pre mid post n,
  nth_error (render_all (pre ++ n :: mid ++ n :: post)) (length pre) = Some (render_dn n) /\
  nth_error (render_all (pre ++ n :: mid ++ n :: post)) (length pre + 1 + length mid) = Some (render_dn n).
Proof. exact render_all_repeat. Qed.
Print Assumptions C15_render_all_repeat.

(* independent of order: in two different sequences, at whatever position, the same text *)
Theorem C15_render_all_position : forall pre post pre' post' n,
  nth_error (render_all (pre ++ n :: post)) (length pre) = Some (render_dn n) /\
  nth_error (render_all (pre' ++ n :: post')) (length pre') = Some (render_dn n).
Proof. exact render_all_position. Qed.
Print Assumptions C15_render_all_position.

Theorem C15_render_all_permutation : forall ns ms,
  Permutation.Permutation ns ms -> Permutation.Permutation (render_all ns) (render_all ms).
Proof. exact render_all_perm. Qed.
Print Assumptions C15_render_all_permutation.

(* THE PROPERTY for a sequence: every text reads back as its own name *)
Theorem C15_sequence_roundtrip : forall ns, Forall name_ok ns ->
  map parse_rdns (render_all ns) = map reads_as ns.
Proof. exact render_all_roundtrip. Qed.
Print Assumptions C15_sequence_roundtrip.

Theorem C15_sequence_roundtrip_raw : forall ns : list decoded_name, Forall (fun n => name_ok (snd n)) ns ->
  map parse_rdns (render_all_raw (map as_raw ns)) = map (fun n => reads_as (snd n)) ns.
Proof. exact render_all_raw_roundtrip. Qed.
Print Assumptions C15_sequence_roundtrip_raw.

(* attributes that collide under the key "dotted OID followed by the value": serialNumber=0123
   and uniqueMember=123, one after the other, both orders, and in one RDN *)
Example C15_colliding_names_text :
  render_all [[[serial_0123]]; [[member_123]]; [[serial_0123]]; [[member_123; serial_0123]]]
  = [bs "serialNumber=0123"; bs "uniqueMember=123"; bs "serialNumber=0123"; bs "uniqueMember=123+serialNumber=0123"].
Proof. exact colliding_names_text. Qed.
