#!/bin/bash
# tools/mk_builder_wt.sh Cxx: isolated worktrees for a builder: /var/tmp/wt/verif-Cxx (branch wt-Cxx of /verif, with the
# build outputs copied so that nothing has to be rebuilt) and /var/tmp/wt/repo-Cxx (branch wt-Cxx of /repo)
set -e
C=$1
mkdir -p /var/tmp/wt
git -C /verif worktree add -q -B wt-$C /var/tmp/wt/verif-$C HEAD
git -C /repo worktree add -q -B wt-$C /var/tmp/wt/repo-$C HEAD
rsync -a --exclude .git --exclude replay --exclude .lock --exclude seeded /verif/ /var/tmp/wt/verif-$C/
echo "/var/tmp/wt/verif-$C /var/tmp/wt/repo-$C"
