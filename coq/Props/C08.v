(* C08 — property theorems (placeholder until the model is built). *)
From WI Require Import Lib.Base Lib.Info Model.Cost Proofs.Cost.
Theorem C08_placeholder : True.
Proof. exact I. Qed.
Print Assumptions C08_placeholder.
