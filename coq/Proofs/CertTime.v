(* Proofs for C03, calendar part: the date attribute is the UTC calendar day of the instant.
   (Separate file: the exhaustive check of one 400-year cycle takes ~15 s.)
   No axioms; standard library only. *)
From WI Require Import Lib.Base Lib.Info Lib.Time Model.Cert.
From Coq Require Import List NArith ZArith Lia Bool.
From Coq Require Import ZifyN ZifyNat ZifyBool.
Import ListNotations.
Open Scope N_scope.

(* ================================================================== *)
(* H. dates: the day shown is the UTC calendar day of the instant      *)
(* ================================================================== *)
Open Scope Z_scope.

Definition shift_years (k : Z) (ymd : Z * Z * Z) : Z * Z * Z :=
  match ymd with (y, m, d) => (y + 400 * k, m, d) end.

(* the Gregorian calendar repeats every 146097 days = 400 years *)
Lemma civil_of_days_period : forall z k,
  civil_of_days (z + 146097 * k) = shift_years k (civil_of_days z).
Proof.
  intros z k. unfold civil_of_days, shift_years.
  replace (z + 146097 * k + 719468) with (z + 719468 + k * 146097) by ring.
  rewrite Z.div_add by lia.
  replace (z + 719468 + k * 146097 - ((z + 719468) / 146097 + k) * 146097)
    with (z + 719468 - (z + 719468) / 146097 * 146097) by ring.
  set (doe := z + 719468 - (z + 719468) / 146097 * 146097).
  set (yoe := (doe - doe / 1460 + doe / 36524 - doe / 146096) / 365).
  set (doy := doe - (365 * yoe + yoe / 4 - yoe / 100)).
  set (mp := (5 * doy + 2) / 153).
  destruct (mp <? 10); destruct (_ <=? 2); f_equal; f_equal. all: ring.
Qed.

Lemma days_of_civil_period : forall y m d k,
  days_of_civil (y + 400 * k) m d = days_of_civil y m d + 146097 * k.
Proof.
  intros y m d k. unfold days_of_civil.
  destruct (m <=? 2).
  - replace (y + 400 * k - 1) with (y - 1 + k * 400) by ring.
    rewrite Z.div_add by lia. set (e := (y - 1) / 400).
    replace (y - 1 + k * 400 - (e + k) * 400) with (y - 1 - e * 400) by ring. ring.
  - replace (y + 400 * k) with (y + k * 400) by ring.
    rewrite Z.div_add by lia. set (e := y / 400).
    replace (y + k * 400 - (e + k) * 400) with (y - e * 400) by ring. ring.
Qed.

Fixpoint zrange (n : nat) (start : Z) : list Z :=
  match n with
  | O => []
  | S k => start :: zrange k (start + 1)
  end.
Lemma in_zrange : forall n s r, s <= r < s + Z.of_nat n -> In r (zrange n s).
Proof.
  induction n as [|k IH]; intros s r H; [lia|].
  cbn [zrange]. destruct (Z.eq_dec r s) as [->|Hne]; [left; reflexivity|].
  right. apply IH. lia.
Qed.
Definition one_cycle : list Z := zrange (Z.to_nat 146097) 0.
Lemma in_one_cycle : forall r, 0 <= r < 146097 -> In r one_cycle.
Proof. intros r H. apply in_zrange. lia. Qed.

Definition civil_day_ok (z : Z) : bool :=
  match civil_of_days z with
  | (y, m, d) => (days_of_civil y m d =? z) && (1 <=? m) && (m <=? 12) && (1 <=? d) && (d <=? 31)
  end.

(* finite part: one whole 400-year cycle, day by day *)
Lemma civil_cycle_check : forallb civil_day_ok one_cycle = true.
Proof. vm_cast_no_check (@eq_refl bool true). Qed.

Lemma civil_day_ok_shift : forall r q, civil_day_ok r = true -> civil_day_ok (r + 146097 * q) = true.
Proof.
  intros r q A. unfold civil_day_ok in *.
  rewrite civil_of_days_period. destruct (civil_of_days r) as [[y m] d]. cbn [shift_years].
  rewrite days_of_civil_period.
  destruct (days_of_civil y m d =? r) eqn:E; [|discriminate].
  apply Z.eqb_eq in E. rewrite E, Z.eqb_refl. exact A.
Qed.

Theorem civil_day_ok_all : forall z, civil_day_ok z = true.
Proof.
  intro z.
  assert (Hz : z = z mod 146097 + 146097 * (z / 146097)) by (pose proof (Z.div_mod z 146097); lia).
  rewrite Hz. apply civil_day_ok_shift.
  pose proof civil_cycle_check as A. rewrite forallb_forall in A.
  apply A. apply in_one_cycle. apply Z.mod_pos_bound. lia.
Qed.

Theorem days_of_civil_of_days : forall z,
  match civil_of_days z with (y, m, d) => days_of_civil y m d = z /\ 1 <= m <= 12 /\ 1 <= d <= 31 end.
Proof.
  intro z. pose proof (civil_day_ok_all z) as H. unfold civil_day_ok in H.
  destruct (civil_of_days z) as [[y m] d].
  repeat (apply andb_true_iff in H; destruct H as [H ?]).
  apply Z.eqb_eq in H. repeat split; try (apply Z.leb_le; assumption). exact H.
Qed.

(* the date attribute: YYYY-MM-DD of the civil day containing the instant, in UTC *)
Theorem date_string_spec : forall sec,
  match civil_of_days (sec / 86400) with
  | (y, m, d) =>
      date_string sec = dec_w 4 y ++ [45%N] ++ dec_w 2 m ++ [45%N] ++ dec_w 2 d
      /\ days_of_civil y m d = sec / 86400            (* the day that contains the instant *)
      /\ 1 <= m <= 12 /\ 1 <= d <= 31
  end.
Proof.
  intro sec. pose proof (days_of_civil_of_days (sec / 86400)) as H.
  unfold date_string, civil_of_unix, fmt_date. rewrite Z.add_0_r.
  destruct (civil_of_days (sec / 86400)) as [[y m] d]. cbn [c_year c_month c_day]. tauto.
Qed.

(* two instants get the same text iff ... at least: same UTC day gives the same text *)
Lemma date_string_same_day : forall a b, a / 86400 = b / 86400 -> date_string a = date_string b.
Proof. intros a b H. unfold date_string, civil_of_unix. rewrite !Z.add_0_r, H. reflexivity. Qed.

Open Scope N_scope.

