(* The single extraction command.  Directives in effect: exactly those of ExtrOcamlBasic. *)
Require Extraction.
From Coq Require Import ExtrOcamlBasic.
From WI Require Import Run.
Extraction Language OCaml.
Extraction "model.ml" Run.run Run.check.
