(* Proofs for C03 (X.509 certificate fields are reported faithfully).
   No axioms; standard library only. *)
From WI Require Import Lib.Base Lib.Info Lib.Time Model.Cert Proofs.CertTime.
From WI Require gen.CertTables.
From Coq Require Import List NArith ZArith Lia Bool Permutation.
From Coq Require Import ZifyN ZifyNat ZifyBool.
Import ListNotations.
Open Scope N_scope.

(* ================================================================== *)
(* A. small helpers                                                    *)
(* ================================================================== *)
Lemma bytes_eqb_refl : forall a, bytes_eqb a a = true.
Proof. induction a; cbn; [reflexivity|]. rewrite N.eqb_refl. exact IHa. Qed.

Lemma bytes_eqb_eq : forall a b, bytes_eqb a b = true <-> a = b.
Proof.
  induction a as [|x a IH]; destruct b as [|y b]; cbn; split; intro H; try reflexivity; try discriminate.
  - apply andb_true_iff in H. destruct H as [H1 H2]. apply N.eqb_eq in H1. apply IH in H2. congruence.
  - inversion H; subst. rewrite N.eqb_refl. apply bytes_eqb_refl.
Qed.

Lemma list_eqb_N_eq : forall a b : list N, list_eqb N.eqb a b = true <-> a = b.
Proof.
  induction a as [|x a IH]; destruct b as [|y b]; cbn; split; intro H; try reflexivity; try discriminate.
  - apply andb_true_iff in H. destruct H as [H1 H2]. apply N.eqb_eq in H1. apply IH in H2. congruence.
  - inversion H; subst. rewrite N.eqb_refl. apply IH. reflexivity.
Qed.

Lemma oid_eqb_eq : forall a b, oid_eqb a b = true <-> a = b.
Proof. exact list_eqb_N_eq. Qed.

(* ================================================================== *)
(* B. decimal printing is injective: a parser reads the number back    *)
(* ================================================================== *)
Definition is_digit (c : N) : bool := (48 <=? c) && (c <=? 57).

(* value of a digit string, most significant first *)
Fixpoint dec_value (l : bytes) : N :=
  match l with
  | [] => 0
  | c :: r => (c - 48) * 10 ^ N.of_nat (length r) + dec_value r
  end.

Definition parse_dec (l : bytes) : option N :=
  match l with
  | [] => None
  | _ => if forallb is_digit l then Some (dec_value l) else None
  end.

Lemma dec_digits_fuel_spec : forall fuel n acc,
  n < 2 ^ N.of_nat fuel -> (0 < fuel)%nat ->
  dec_value (dec_digits_fuel fuel n acc) = n * 10 ^ N.of_nat (length acc) + dec_value acc
  /\ (forallb is_digit acc = true -> forallb is_digit (dec_digits_fuel fuel n acc) = true)
  /\ dec_digits_fuel fuel n acc <> [].
Proof.
  induction fuel as [|f IH]; intros n acc Hn Hf; [lia|].
  cbn [dec_digits_fuel].
  assert (Hr : n mod 10 < 10) by (apply N.mod_lt; lia).
  assert (Hq : n = 10 * (n / 10) + n mod 10) by (apply N.div_mod; lia).
  destruct (n / 10 =? 0) eqn:E.
  - apply N.eqb_eq in E. repeat split.
    + cbn [dec_value]. replace (48 + n mod 10 - 48) with (n mod 10) by lia. rewrite E in Hq. lia.
    + intro Ha. cbn [forallb]. rewrite Ha. unfold is_digit.
      replace (48 <=? 48 + n mod 10) with true by (symmetry; apply N.leb_le; lia).
      replace (48 + n mod 10 <=? 57) with true by (symmetry; apply N.leb_le; lia). reflexivity.
    + discriminate.
  - apply N.eqb_neq in E.
    destruct f as [|f'].
    + (* fuel 1: n < 2, so n / 10 = 0 *) exfalso. cbn in Hn. assert (n / 10 = 0) by (apply N.div_small; lia). lia.
    + assert (Hq2 : n / 10 < 2 ^ N.of_nat (S f')).
      { rewrite Nnat.Nat2N.inj_succ in Hn. rewrite N.pow_succ_r' in Hn.
        apply N.div_lt_upper_bound; lia. }
      destruct (IH (n / 10) ((48 + n mod 10) :: acc) Hq2 ltac:(lia)) as [H1 [H2 H3]].
      repeat split.
      * rewrite H1. cbn [dec_value length].
        replace (48 + n mod 10 - 48) with (n mod 10) by lia.
        rewrite Nnat.Nat2N.inj_succ, N.pow_succ_r'. lia.
      * intro Ha. apply H2. cbn [forallb]. rewrite Ha. unfold is_digit.
        replace (48 <=? 48 + n mod 10) with true by (symmetry; apply N.leb_le; lia).
        replace (48 + n mod 10 <=? 57) with true by (symmetry; apply N.leb_le; lia). reflexivity.
      * exact H3.
Qed.

Lemma dec_of_N_fuel_ok : forall n, n < 2 ^ N.of_nat (S (N.to_nat (N.size n))).
Proof.
  intro n. rewrite Nnat.Nat2N.inj_succ, Nnat.N2Nat.id, N.pow_succ_r'.
  pose proof (N.size_gt n). lia.
Qed.

Lemma dec_of_N_value : forall n, dec_value (dec_of_N n) = n.
Proof.
  intro n. unfold dec_of_N.
  destruct (dec_digits_fuel_spec (S (N.to_nat (N.size n))) n [] (dec_of_N_fuel_ok n) ltac:(lia)) as [H _].
  rewrite H. cbn. lia.
Qed.

Lemma dec_of_N_digits : forall n, forallb is_digit (dec_of_N n) = true.
Proof.
  intro n. unfold dec_of_N.
  destruct (dec_digits_fuel_spec (S (N.to_nat (N.size n))) n [] (dec_of_N_fuel_ok n) ltac:(lia)) as [_ [H _]].
  apply H. reflexivity.
Qed.

Lemma dec_of_N_nonempty : forall n, dec_of_N n <> [].
Proof.
  intro n. unfold dec_of_N.
  destruct (dec_digits_fuel_spec (S (N.to_nat (N.size n))) n [] (dec_of_N_fuel_ok n) ltac:(lia)) as [_ [_ H]].
  exact H.
Qed.

Theorem parse_dec_of_N : forall n, parse_dec (dec_of_N n) = Some n.
Proof.
  intro n. unfold parse_dec.
  pose proof (dec_of_N_nonempty n) as Hne.
  destruct (dec_of_N n) eqn:E; [congruence|].
  rewrite <- E, dec_of_N_digits, dec_of_N_value. reflexivity.
Qed.

Lemma dec_of_N_inj : forall a b, dec_of_N a = dec_of_N b -> a = b.
Proof.
  intros a b H. pose proof (parse_dec_of_N a) as Ha. rewrite H, parse_dec_of_N in Ha. congruence.
Qed.

Lemma dec_of_Z_of_N : forall n, dec_of_Z (Z.of_N n) = dec_of_N n.
Proof. destruct n; reflexivity. Qed.

(* ================================================================== *)
(* C. lower-case hex is injective on byte strings                      *)
(* ================================================================== *)
Definition unhex_digit (c : N) : N := if c <? 58 then c - 48 else c - 87.
Fixpoint unhex (l : bytes) : bytes :=
  match l with
  | h :: lo :: r => (unhex_digit h * 16 + unhex_digit lo) :: unhex r
  | _ => []
  end.

Definition all_bytes : list N := map N.of_nat (seq 0 256).

Lemma in_all_bytes : forall b, b < 256 -> In b all_bytes.
Proof.
  intros b H. unfold all_bytes. apply in_map_iff. exists (N.to_nat b). split; [lia|].
  apply in_seq. lia.
Qed.

Lemma unhex_hex_byte_all :
  forallb (fun b => bytes_eqb (unhex (hex_byte false b)) [b]) all_bytes = true.
Proof. vm_compute. reflexivity. Qed.

Lemma unhex_hex_byte : forall b r, b < 256 -> unhex (hex_byte false b ++ r) = b :: unhex r.
Proof.
  intros b r H. pose proof unhex_hex_byte_all as A. rewrite forallb_forall in A.
  specialize (A b (in_all_bytes b H)). apply bytes_eqb_eq in A.
  unfold hex_byte in *. cbn [app unhex] in *. f_equal. congruence.
Qed.

Lemma bytes_ok_cons : forall b l, bytes_ok (b :: l) = true <-> b < 256 /\ bytes_ok l = true.
Proof.
  intros. unfold bytes_ok. cbn [forallb]. rewrite andb_true_iff. unfold byte_ok. rewrite N.ltb_lt. tauto.
Qed.

Theorem unhex_hex_of : forall l, bytes_ok l = true -> unhex (hex_of false l) = l.
Proof.
  induction l as [|b l IH]; intro H; [reflexivity|].
  apply bytes_ok_cons in H. destruct H as [Hb Hl].
  unfold hex_of. cbn [flat_map]. rewrite unhex_hex_byte by exact Hb. f_equal. apply IH. exact Hl.
Qed.

Lemma hex_of_nonempty : forall b l, hex_of false (b :: l) <> [].
Proof. intros. unfold hex_of, hex_byte. cbn. discriminate. Qed.

(* ================================================================== *)
(* D. ", "-joined lists can be split again                             *)
(* ================================================================== *)
(* a token is clean when the two-byte separator ", " does not occur in it *)
Fixpoint no_sep (t : bytes) : bool :=
  match t with
  | c :: r => match r with
              | d :: _ => negb ((c =? 44) && (d =? 32)) && no_sep r
              | [] => true
              end
  | [] => true
  end.
Definition token_ok (t : bytes) : bool := match t with [] => false | _ => no_sep t end.

Fixpoint split_sep (cur : bytes) (l : bytes) : list bytes :=
  match l with
  | [] => [rev cur]
  | c :: r => match r with
              | d :: r' => if (c =? 44) && (d =? 32) then rev cur :: split_sep [] r'
                           else split_sep (c :: cur) r
              | [] => split_sep (c :: cur) r
              end
  end.
(* an empty text stands for the empty list *)
Definition split_list (v : bytes) : list bytes := match v with [] => [] | _ => split_sep [] v end.

Lemma split_sep_cons2 : forall cur c d r,
  split_sep cur (c :: d :: r) =
  if (c =? 44) && (d =? 32) then rev cur :: split_sep [] r else split_sep (c :: cur) (d :: r).
Proof. reflexivity. Qed.

Lemma split_sep_last : forall t cur, no_sep t = true -> split_sep cur t = [rev cur ++ t].
Proof.
  induction t as [|c t IH]; intros cur H.
  - cbn. rewrite app_nil_r. reflexivity.
  - destruct t as [|d t'].
    + reflexivity.
    + cbn [no_sep] in H. apply andb_true_iff in H. destruct H as [H1 H2].
      rewrite split_sep_cons2. apply negb_true_iff in H1. rewrite H1.
      rewrite IH by exact H2. cbn [rev]. rewrite <- app_assoc. reflexivity.
Qed.

Lemma split_sep_token : forall t cur rest, no_sep t = true ->
  split_sep cur (t ++ 44 :: 32 :: rest) = (rev cur ++ t) :: split_sep [] rest.
Proof.
  induction t as [|c t IH]; intros cur rest H.
  - cbn. rewrite app_nil_r. reflexivity.
  - destruct t as [|d t'].
    + cbn [app]. rewrite split_sep_cons2.
      replace ((c =? 44) && (44 =? 32)) with false by (rewrite andb_false_r; reflexivity).
      rewrite split_sep_cons2. reflexivity.
    + cbn [no_sep] in H. apply andb_true_iff in H. destruct H as [H1 H2].
      apply negb_true_iff in H1.
      change ((c :: d :: t') ++ 44 :: 32 :: rest) with (c :: d :: (t' ++ 44 :: 32 :: rest)).
      rewrite split_sep_cons2. rewrite H1.
      change (d :: t' ++ 44 :: 32 :: rest) with ((d :: t') ++ 44 :: 32 :: rest).
      rewrite IH by exact H2. cbn [rev]. rewrite <- app_assoc. reflexivity.
Qed.

Lemma split_sep_join : forall ts t, forallb no_sep (t :: ts) = true ->
  split_sep [] (join [44; 32] (t :: ts)) = t :: ts.
Proof.
  induction ts as [|t2 ts IH]; intros t H.
  - cbn [join]. cbn [forallb] in H. apply andb_true_iff in H. rewrite split_sep_last by tauto. reflexivity.
  - cbn [forallb] in H. apply andb_true_iff in H. destruct H as [H1 H2].
    change (join [44; 32] (t :: t2 :: ts)) with (t ++ 44 :: 32 :: join [44; 32] (t2 :: ts)).
    rewrite split_sep_token by exact H1. cbn [rev app]. f_equal. apply IH. exact H2.
Qed.

Lemma token_ok_no_sep : forall t, token_ok t = true -> no_sep t = true.
Proof. destruct t; cbn; [discriminate|tauto]. Qed.

Lemma join_nonempty : forall t ts, token_ok t = true -> join [44; 32] (t :: ts) <> [].
Proof.
  intros t ts H. destruct t as [|c t]; [discriminate|].
  destruct ts; cbn; discriminate.
Qed.

Theorem split_list_join : forall ts, forallb token_ok ts = true ->
  split_list (comma_join ts) = ts.
Proof.
  intros ts H. unfold comma_join. destruct ts as [|t ts]; [reflexivity|].
  unfold split_list.
  assert (Ht : token_ok t = true) by (cbn [forallb] in H; apply andb_true_iff in H; tauto).
  pose proof (join_nonempty t ts Ht) as Hne.
  destruct (join [44; 32] (t :: ts)) eqn:E; [congruence|]. rewrite <- E.
  apply split_sep_join.
  rewrite forallb_forall in *. intros x Hx. apply token_ok_no_sep. apply H. exact Hx.
Qed.

(* ================================================================== *)
(* D2. the SANs list (joinNames): items may be quoted                  *)
(* ================================================================== *)
(* after an opening quote: up to the closing quote, a backslash taking the next octet literally *)
Fixpoint read_quoted (acc : bytes) (l : bytes) : option (bytes * bytes) :=
  match l with
  | [] => None
  | c :: r => if c =? 34 then Some (rev acc, r)
              else if c =? 92 then match r with d :: r' => read_quoted (d :: acc) r' | [] => None end
              else read_quoted (c :: acc) r
  end.
(* an unquoted item: up to the next ", " (Some rest) or the end (None) *)
Fixpoint read_plain (cur : bytes) (l : bytes) : bytes * option bytes :=
  match l with
  | [] => (rev cur, None)
  | c :: r => match r with
              | d :: r' => if (c =? 44) && (d =? 32) then (rev cur, Some r') else read_plain (c :: cur) r
              | [] => read_plain (c :: cur) r
              end
  end.
Fixpoint parse_name_list (fuel : nat) (l : bytes) : option (list bytes) :=
  match fuel with
  | O => None
  | S f =>
      match l with
      | [] => None
      | c :: r =>
          if c =? 34 then
            match read_quoted [] r with
            | Some (t, []) => Some [t]
            | Some (t, x :: y :: rest) =>
                if (x =? 44) && (y =? 32) then option_map (cons t) (parse_name_list f rest) else None
            | _ => None
            end
          else
            match read_plain [] l with
            | (t, None) => Some [t]
            | (t, Some rest) => option_map (cons t) (parse_name_list f rest)
            end
      end
  end.
(* an empty text stands for the empty list *)
Definition read_name_list (v : bytes) : list bytes :=
  match v with
  | [] => []
  | _ => match parse_name_list (S (length v)) v with Some l => l | None => [] end
  end.

Lemma read_quoted_esc : forall t acc rest,
  read_quoted acc (flat_map esc1 t ++ 34 :: rest) = Some (rev acc ++ t, rest).
Proof.
  induction t as [|c t IH]; intros acc rest.
  - cbn. rewrite app_nil_r. reflexivity.
  - cbn [flat_map]. unfold esc1 at 1. destruct ((c =? 34) || (c =? 92)) eqn:E.
    + cbn [app read_quoted N.eqb Pos.eqb]. rewrite IH. cbn [rev]. rewrite <- app_assoc. reflexivity.
    + apply orb_false_iff in E as [E1 E2]. cbn [app read_quoted]. rewrite E1, E2.
      rewrite IH. cbn [rev]. rewrite <- app_assoc. reflexivity.
Qed.

Lemma read_plain_cons2 : forall cur c d r,
  read_plain cur (c :: d :: r) =
  if (c =? 44) && (d =? 32) then (rev cur, Some r) else read_plain (c :: cur) (d :: r).
Proof. reflexivity. Qed.

Lemma read_plain_last : forall t cur, no_sep t = true -> read_plain cur t = (rev cur ++ t, None).
Proof.
  induction t as [|c t IH]; intros cur H.
  - cbn. rewrite app_nil_r. reflexivity.
  - destruct t as [|d t'].
    + reflexivity.
    + cbn [no_sep] in H. apply andb_true_iff in H. destruct H as [H1 H2].
      rewrite read_plain_cons2. apply negb_true_iff in H1. rewrite H1.
      rewrite IH by exact H2. cbn [rev]. rewrite <- app_assoc. reflexivity.
Qed.

Lemma read_plain_token : forall t cur rest, no_sep t = true ->
  read_plain cur (t ++ 44 :: 32 :: rest) = (rev cur ++ t, Some rest).
Proof.
  induction t as [|c t IH]; intros cur rest H.
  - cbn. rewrite app_nil_r. reflexivity.
  - destruct t as [|d t'].
    + cbn [app]. rewrite read_plain_cons2.
      replace ((c =? 44) && (44 =? 32)) with false by (rewrite andb_false_r; reflexivity).
      rewrite read_plain_cons2. reflexivity.
    + cbn [no_sep] in H. apply andb_true_iff in H. destruct H as [H1 H2].
      apply negb_true_iff in H1.
      change ((c :: d :: t') ++ 44 :: 32 :: rest) with (c :: d :: (t' ++ 44 :: 32 :: rest)).
      rewrite read_plain_cons2. rewrite H1.
      change (d :: t' ++ 44 :: 32 :: rest) with ((d :: t') ++ 44 :: 32 :: rest).
      rewrite IH by exact H2. cbn [rev]. rewrite <- app_assoc. reflexivity.
Qed.

Lemma has_sep_no_sep : forall t, has_sep t = negb (no_sep t).
Proof.
  induction t as [|c t IH]; [reflexivity|]. destruct t as [|d t']; [reflexivity|].
  change (has_sep (c :: d :: t')) with (((c =? 44) && (d =? 32)) || has_sep (d :: t')).
  change (no_sep (c :: d :: t')) with (negb ((c =? 44) && (d =? 32)) && no_sep (d :: t')).
  rewrite IH. rewrite negb_andb, negb_involutive. reflexivity.
Qed.

(* an item is written as it is when it is not empty, does not begin with a quote and is free of ", " *)
Definition plain (t : bytes) : bool := match t with [] => false | c :: _ => negb (c =? 34) && no_sep t end.
Lemma name_show_plain : forall t, plain t = true -> name_show t = t.
Proof.
  intros [|c t] H; [discriminate|]. cbn [plain] in H. apply andb_true_iff in H as [H1 H2].
  unfold name_show. rewrite has_sep_no_sep, H2. apply negb_true_iff in H1. rewrite H1. reflexivity.
Qed.
Lemma name_show_quoted : forall t, plain t = false -> name_show t = 34 :: flat_map esc1 t ++ [34].
Proof.
  intros [|c t] H; [reflexivity|]. cbn [plain] in H. unfold name_show. rewrite has_sep_no_sep.
  destruct (c =? 34); [reflexivity|]. cbn [negb andb] in H. rewrite H. reflexivity.
Qed.

Lemma join2 : forall a b r, join [44; 32] (a :: b :: r) = a ++ 44 :: 32 :: join [44; 32] (b :: r).
Proof. reflexivity. Qed.

Lemma parse_name_list_join : forall ts t fuel,
  Nat.lt (length (join [44; 32] (map name_show (t :: ts)))) fuel ->
  parse_name_list fuel (join [44; 32] (map name_show (t :: ts))) = Some (t :: ts).
Proof.
  induction ts as [|t2 ts IH]; intros t fuel Hf.
  - cbn [map join] in *. destruct fuel as [|f]; [lia|].
    destruct (plain t) eqn:P.
    + rewrite name_show_plain by exact P. destruct t as [|c t']; [discriminate|].
      cbn [plain] in P. apply andb_true_iff in P as [P1 P2]. apply negb_true_iff in P1.
      cbn [parse_name_list]. rewrite P1. rewrite read_plain_last by exact P2. reflexivity.
    + rewrite name_show_quoted by exact P. cbn [parse_name_list N.eqb Pos.eqb].
      rewrite read_quoted_esc. reflexivity.
  - cbn [map] in *. rewrite join2 in *. destruct fuel as [|f]; [lia|].
    assert (Hf2 : Nat.lt (length (join [44; 32] (name_show t2 :: map name_show ts))) f).
    { rewrite app_length in Hf. cbn [length] in Hf. unfold Nat.lt in *. lia. }
    destruct (plain t) eqn:P.
    + rewrite name_show_plain by exact P. destruct t as [|c t']; [discriminate|].
      cbn [plain] in P. apply andb_true_iff in P as [P1 P2]. apply negb_true_iff in P1.
      cbn [app parse_name_list]. rewrite P1.
      change (c :: t' ++ 44 :: 32 :: join [44; 32] (name_show t2 :: map name_show ts))
        with ((c :: t') ++ 44 :: 32 :: join [44; 32] (name_show t2 :: map name_show ts)).
      rewrite read_plain_token by exact P2. cbn [rev app].
      rewrite IH by exact Hf2. reflexivity.
    + rewrite name_show_quoted by exact P. cbn [app parse_name_list N.eqb Pos.eqb].
      rewrite <- app_assoc. cbn [app]. rewrite read_quoted_esc. cbn [rev app N.eqb Pos.eqb andb].
      rewrite IH by exact Hf2. reflexivity.
Qed.

Lemma name_show_nonempty : forall t, name_show t <> [].
Proof.
  intros t. destruct (plain t) eqn:P.
  - rewrite name_show_plain by exact P. destruct t; [discriminate P|discriminate].
  - rewrite name_show_quoted by exact P. discriminate.
Qed.

(* the SANs attribute reads back as the list of names, whatever octets the names contain *)
Theorem read_name_list_join : forall ts, read_name_list (names_join ts) = ts.
Proof.
  intros [|t ts]; [reflexivity|]. unfold names_join, comma_join, read_name_list.
  destruct (join [44; 32] (map name_show (t :: ts))) as [|x v] eqn:E.
  - exfalso. cbn [map] in E. destruct ts as [|t2 ts].
    + cbn [map join] in E. apply (name_show_nonempty t E).
    + cbn [map] in E. rewrite join2 in E. apply app_eq_nil in E as [E _]. apply (name_show_nonempty t E).
  - rewrite <- E. rewrite parse_name_list_join by lia. reflexivity.
Qed.

(* ================================================================== *)
(* E. key usages                                                       *)
(* ================================================================== *)
(* generic: for ANY table whose k-th entry has the value 2^(i+k), the loop of x509KeyUsages
   yields the names of the set bits, in bit order *)
Fixpoint names_at_bits (i : N) (t : list (N * bytes)) (ku : N) : list bytes :=
  match t with
  | [] => []
  | e :: r => (if N.testbit ku i then [snd e] else []) ++ names_at_bits (i + 1) r ku
  end.
Fixpoint bit_ordered (i : N) (t : list (N * bytes)) : bool :=
  match t with
  | [] => true
  | e :: r => (fst e =? 2 ^ i) && bit_ordered (i + 1) r
  end.

Lemma land_pow2_eqb : forall ku i, (N.land ku (2 ^ i) =? 2 ^ i) = N.testbit ku i.
Proof.
  intros ku i. destruct (N.testbit ku i) eqn:E.
  - apply N.eqb_eq. apply N.bits_inj. intro j.
    rewrite N.land_spec, N.pow2_bits_eqb.
    destruct (i =? j) eqn:Eij.
    + apply N.eqb_eq in Eij. subst j. rewrite E. reflexivity.
    + apply andb_false_r.
  - apply N.eqb_neq. intro H.
    assert (Hb : N.testbit (N.land ku (2 ^ i)) i = N.testbit (2 ^ i) i) by (rewrite H; reflexivity).
    rewrite N.land_spec, N.pow2_bits_true, E in Hb. discriminate.
Qed.

Theorem usages_of_bit_ordered : forall t i ku, bit_ordered i t = true ->
  usages_of t ku = names_at_bits i t ku.
Proof.
  unfold usages_of. induction t as [|e t IH]; intros i ku H; [reflexivity|].
  cbn [bit_ordered] in H. apply andb_true_iff in H. destruct H as [H1 H2]. apply N.eqb_eq in H1.
  cbn [filter names_at_bits]. rewrite H1, land_pow2_eqb.
  destruct (N.testbit ku i); cbn [map app]; rewrite (IH (i + 1)) by exact H2; reflexivity.
Qed.

(* instance (T1): the table dumped from the running code is in bit order *)
Lemma key_usage_table_bit_ordered : bit_ordered 0 gen.CertTables.key_usage_table = true.
Proof. vm_compute. reflexivity. Qed.

Theorem key_usages_spec : forall ku,
  key_usages ku = names_at_bits 0 gen.CertTables.key_usage_table ku.
Proof. intro. apply usages_of_bit_ordered. exact key_usage_table_bit_ordered. Qed.

(* the nine names of RFC 5280 4.2.1.3 as this tool labels them, bit 0 first *)
Definition usage_labels : list bytes := [
  bs "digitalSignature"; bs "contentCommitment"; bs "keyEncipherment"; bs "dataEncipherment";
  bs "keyAgreement"; bs "certSign"; bs "cRLSign"; bs "encipherOnly"; bs "decipherOnly"].

(* names selected by a list of bits *)
Fixpoint select_names (names : list bytes) (bits : list bool) : list bytes :=
  match names, bits with
  | n :: nr, b :: br => (if b then [n] else []) ++ select_names nr br
  | _, _ => []
  end.

Definition bits_of_mask (m : N) : list bool := map (N.testbit m) [0; 1; 2; 3; 4; 5; 6; 7; 8].

Fixpoint list_bytes_eqb (a b : list bytes) : bool :=
  match a, b with
  | [], [] => true
  | x :: a', y :: b' => bytes_eqb x y && list_bytes_eqb a' b'
  | _, _ => false
  end.
Lemma list_bytes_eqb_eq : forall a b, list_bytes_eqb a b = true -> a = b.
Proof.
  induction a as [|x a IH]; destruct b as [|y b]; cbn; intro H; try reflexivity; try discriminate.
  apply andb_true_iff in H. destruct H as [H1 H2]. apply bytes_eqb_eq in H1. apply IH in H2. congruence.
Qed.

Definition masks_512 : list N := map N.of_nat (seq 0 512).
Lemma in_masks_512 : forall m, m < 512 -> In m masks_512.
Proof.
  intros m H. unfold masks_512. apply in_map_iff. exists (N.to_nat m). split; [lia|]. apply in_seq. lia.
Qed.

(* finite sweep: all 512 masks, against the literal labels *)
Lemma key_usages_sweep_check :
  forallb (fun m => list_bytes_eqb (key_usages m) (select_names usage_labels (bits_of_mask m))) masks_512 = true.
Proof. vm_compute. reflexivity. Qed.

Theorem key_usages_sweep : forall m, m < 512 ->
  key_usages m = select_names usage_labels (bits_of_mask m).
Proof.
  intros m H. pose proof key_usages_sweep_check as A. rewrite forallb_forall in A.
  apply list_bytes_eqb_eq. apply A. apply in_masks_512. exact H.
Qed.

(* bits above 8 never add a name *)
Theorem key_usages_high_bits : forall ku, key_usages ku = key_usages (ku mod 512).
Proof.
  intro ku. rewrite !key_usages_spec.
  change 512 with (2 ^ 9).
  cbv [names_at_bits gen.CertTables.key_usage_table].
  repeat (rewrite (N.mod_pow2_bits_low ku 9) by (cbn; lia)). reflexivity.
Qed.

(* from the encoded BIT STRING: only its first nine bits matter, and they select the labels *)
Lemma ku_mask_from_firstn : forall bits i, ku_mask_from i bits = ku_mask_from i (firstn (9 - i) bits).
Proof.
  induction bits as [|b r IH]; intro i.
  - rewrite firstn_nil. reflexivity.
  - cbn [ku_mask_from]. destruct (Nat.ltb i 9) eqn:E.
    + apply Nat.ltb_lt in E. replace (9 - i)%nat with (S (9 - S i)) by lia.
      cbn [firstn ku_mask_from]. replace (Nat.ltb i 9) with true by (symmetry; apply Nat.ltb_lt; lia).
      rewrite (IH (S i)). reflexivity.
    + apply Nat.ltb_ge in E. replace (9 - i)%nat with 0%nat by lia. reflexivity.
Qed.

Lemma select_names_firstn : forall names bits,
  select_names names bits = select_names names (firstn (length names) bits).
Proof.
  induction names as [|n nr IH]; intros bits; [destruct bits; reflexivity|].
  destruct bits as [|b br]; [reflexivity|]. cbn [length firstn select_names]. rewrite (IH br). reflexivity.
Qed.

Fixpoint all_bool_lists (n : nat) : list (list bool) :=
  match n with
  | O => [[]]
  | S k => [] :: flat_map (fun l => [true :: l; false :: l]) (all_bool_lists k)
  end.
Lemma in_all_bool_lists : forall n l, (length l <= n)%nat -> In l (all_bool_lists n).
Proof.
  induction n as [|k IH]; intros l H.
  - destruct l; [left; reflexivity|cbn in H; lia].
  - destruct l as [|b l]; [left; reflexivity|]. right.
    apply in_flat_map. exists l. split; [apply IH; cbn in H; lia|].
    destruct b; [left|right; left]; reflexivity.
Qed.

Lemma key_usages_of_bits_check :
  forallb (fun bits => list_bytes_eqb (key_usages (ku_mask bits)) (select_names usage_labels bits))
          (all_bool_lists 9) = true.
Proof. vm_compute. reflexivity. Qed.

Theorem key_usages_of_bits : forall bits,
  key_usages (ku_mask bits) = select_names usage_labels bits.
Proof.
  intro bits. unfold ku_mask. rewrite ku_mask_from_firstn, (select_names_firstn usage_labels bits).
  change (9 - 0)%nat with 9%nat. change (length usage_labels) with 9%nat.
  pose proof key_usages_of_bits_check as A. rewrite forallb_forall in A.
  apply list_bytes_eqb_eq. apply (A (firstn 9 bits)). apply in_all_bool_lists. apply firstn_le_length.
Qed.

(* ================================================================== *)
(* F. extended key usages                                              *)
(* ================================================================== *)
Definition eku_known (o : oid) : bool := match eku_id o with Some _ => true | None => false end.
(* what is shown for one encoded KeyPurposeId: its name when the library knows it, else the dotted OID *)
Definition eku_text (o : oid) : bytes :=
  match eku_id o with Some id => eku_name id | None => dotted o end.

Lemma x509_ekus_spec : forall l,
  x509_ekus (known_ekus l) (unknown_ekus l) =
  map eku_text (filter eku_known l) ++ map eku_text (filter (fun o => negb (eku_known o)) l).
Proof.
  intro l. unfold x509_ekus. f_equal.
  - induction l as [|o l IH]; [reflexivity|].
    unfold known_ekus in *. cbn [flat_map filter]. unfold eku_known, eku_text at 1.
    destruct (eku_id o) eqn:E; cbn [app map]; [|exact IH].
    unfold eku_text. rewrite E. f_equal. exact IH.
  - induction l as [|o l IH]; [reflexivity|].
    unfold unknown_ekus in *. cbn [filter]. unfold eku_known.
    destruct (eku_id o) eqn:E; cbn [negb map]; [exact IH|].
    unfold eku_text at 1. rewrite E. f_equal. exact IH.
Qed.

Lemma partition_perm : forall {A} (p : A -> bool) l,
  Permutation l (filter p l ++ filter (fun x => negb (p x)) l).
Proof.
  induction l as [|x l IH]; [constructor|].
  cbn [filter]. destruct (p x); cbn [negb app].
  - constructor. exact IH.
  - apply Permutation_cons_app. exact IH.
Qed.

(* nothing dropped, nothing added: the shown list is a rearrangement (known first) of the encoded one *)
Theorem ekus_shown_perm : forall l,
  Permutation (map eku_text l) (x509_ekus (known_ekus l) (unknown_ekus l)).
Proof.
  intro l. rewrite x509_ekus_spec, <- map_app. apply Permutation_map. apply partition_perm.
Qed.

(* T1 instance: every row of the regenerated table is shown by its name, and the names are clean tokens *)
Lemma eku_table_names :
  forallb (fun row => match row with (_, o, n) => bytes_eqb (eku_text o) n && token_ok n end)
          gen.CertTables.eku_table = true.
Proof. vm_compute. reflexivity. Qed.

(* the usages of RFC 5280 4.2.1.12 and the vendor ones, literally *)
Definition eku_labels : list (oid * bytes) := [
  ([2; 5; 29; 37; 0], bs "any");
  ([1; 3; 6; 1; 5; 5; 7; 3; 1], bs "serverAuth"); ([1; 3; 6; 1; 5; 5; 7; 3; 2], bs "clientAuth");
  ([1; 3; 6; 1; 5; 5; 7; 3; 3], bs "codeSigning"); ([1; 3; 6; 1; 5; 5; 7; 3; 4], bs "emailProtection");
  ([1; 3; 6; 1; 5; 5; 7; 3; 5], bs "ipsecEndSystem"); ([1; 3; 6; 1; 5; 5; 7; 3; 6], bs "ipsecTunnel");
  ([1; 3; 6; 1; 5; 5; 7; 3; 7], bs "ipsecUser"); ([1; 3; 6; 1; 5; 5; 7; 3; 8], bs "timeStamping");
  ([1; 3; 6; 1; 5; 5; 7; 3; 9], bs "OCSPSigning");
  ([1; 3; 6; 1; 4; 1; 311; 10; 3; 3], bs "microsoftServerGatedCrypto");
  ([2; 16; 840; 1; 113730; 4; 1], bs "netscapeServerGatedCrypto");
  ([1; 3; 6; 1; 4; 1; 311; 2; 1; 22], bs "microsoftCommercialCodeSigning");
  ([1; 3; 6; 1; 4; 1; 311; 61; 1; 1], bs "microsoftKernelCodeSigning")].

Lemma eku_labels_shown :
  forallb (fun p => bytes_eqb (eku_text (fst p)) (snd p)) eku_labels = true.
Proof. vm_compute. reflexivity. Qed.

Theorem eku_label_shown : forall o n, In (o, n) eku_labels -> eku_text o = n.
Proof.
  intros o n H. pose proof eku_labels_shown as A. rewrite forallb_forall in A.
  apply bytes_eqb_eq. exact (A (o, n) H).
Qed.

Theorem eku_unknown_dotted : forall o, eku_known o = false -> eku_text o = dotted o.
Proof. intros o H. unfold eku_known, eku_text in *. destruct (eku_id o); [discriminate|reflexivity]. Qed.

(* dotted OIDs are clean tokens *)
Lemma no_sep_no44 : forall t, forallb (fun c => negb (c =? 44)) t = true -> no_sep t = true.
Proof.
  induction t as [|c t IH]; intro H; [reflexivity|].
  cbn [forallb] in H. apply andb_true_iff in H. destruct H as [H1 H2].
  destruct t as [|d t']; [reflexivity|]. cbn [no_sep].
  apply negb_true_iff in H1. rewrite H1. cbn. apply IH. exact H2.
Qed.

Lemma forallb_app_intro : forall {A} (p : A -> bool) a b,
  forallb p a = true -> forallb p b = true -> forallb p (a ++ b) = true.
Proof. intros. rewrite forallb_app. rewrite H, H0. reflexivity. Qed.

Lemma digits_no44 : forall l, forallb is_digit l = true -> forallb (fun c => negb (c =? 44)) l = true.
Proof.
  intros l H. rewrite forallb_forall in *. intros c Hc. specialize (H c Hc).
  unfold is_digit in H. apply andb_true_iff in H. destruct H as [H1 H2].
  apply N.leb_le in H1. apply negb_true_iff. apply N.eqb_neq. lia.
Qed.

Lemma join_dot_no44 : forall ls, Forall (fun l => forallb (fun c => negb (c =? 44)) l = true) ls ->
  forallb (fun c => negb (c =? 44)) (join [46] ls) = true.
Proof.
  induction 1 as [|l ls Hl Hls IH]; [reflexivity|].
  destruct ls as [|l2 ls']; [exact Hl|].
  change (join [46] (l :: l2 :: ls')) with (l ++ [46] ++ join [46] (l2 :: ls')).
  apply forallb_app_intro; [exact Hl|]. apply forallb_app_intro; [reflexivity|exact IH].
Qed.

Lemma dotted_token_ok : forall o, o <> [] -> token_ok (dotted o) = true.
Proof.
  intros o Ho. unfold dotted.
  assert (Hn : no_sep (join [46] (map dec_of_N o)) = true).
  { apply no_sep_no44. apply join_dot_no44. apply Forall_forall. intros l Hl.
    apply in_map_iff in Hl. destruct Hl as [n [Hn _]]. subst l. apply digits_no44. apply dec_of_N_digits. }
  unfold token_ok. destruct (join [46] (map dec_of_N o)) eqn:E; [|exact Hn].
  exfalso. destruct o as [|a o']; [congruence|].
  cbn [map] in E. pose proof (dec_of_N_nonempty a) as Ha.
  destruct (dec_of_N a) eqn:Ea; [congruence|].
  destruct (map dec_of_N o'); cbn in E; discriminate.
Qed.

Lemma eku_name_in_token : forall t o id,
  forallb (fun row => match row with (_, _, n) => token_ok n end) t = true ->
  eku_id_in t o = Some id -> token_ok (eku_name_in t id) = true.
Proof.
  induction t as [|[[i0 o0] n0] t IH]; intros o id Hall Hf; [discriminate|].
  cbn [forallb] in Hall. apply andb_true_iff in Hall. destruct Hall as [H0 Hall].
  cbn [eku_id_in] in Hf. cbn [eku_name_in].
  destruct (id =? i0) eqn:Ei; [exact H0|].
  destruct (oid_eqb o o0).
  - inversion Hf; subst. rewrite N.eqb_refl in Ei. discriminate.
  - eapply IH; eassumption.
Qed.

Lemma eku_table_tokens :
  forallb (fun row => match row with (_, _, n) => token_ok n end) gen.CertTables.eku_table = true.
Proof. vm_compute. reflexivity. Qed.

Lemma eku_text_token_ok : forall o, o <> [] -> token_ok (eku_text o) = true.
Proof.
  intros o Ho. unfold eku_text. destruct (eku_id o) as [id|] eqn:E; [|apply dotted_token_ok; exact Ho].
  unfold eku_id, eku_name in *. eapply eku_name_in_token; [exact eku_table_tokens|exact E].
Qed.

(* ================================================================== *)
(* G. subject alternative names                                        *)
(* ================================================================== *)
Definition gn_tag (g : general_name) : N := match g with GN t _ => t end.
Definition gn_data (g : general_name) : bytes := match g with GN _ d => d end.
(* the four kinds the tool reports: rfc822Name [1], dNSName [2], URI [6], iPAddress [7] *)
Definition san_reported (g : general_name) : bool :=
  (gn_tag g =? 2) || (gn_tag g =? 7) || (gn_tag g =? 6) || (gn_tag g =? 1).
(* the text of one name: its characters; for an address, dotted-quad (4 octets) or IPv6 text (16 octets) *)
Definition san_text (g : general_name) : bytes :=
  if gn_tag g =? 7 then san_ip_string (gn_data g) else gn_data g.

Definition of_kind (t : N) (l : list general_name) : list general_name := filter (fun g => gn_tag g =? t) l.

Lemma sans_of_tag_spec : forall t l, sans_of_tag t l = map gn_data (of_kind t l).
Proof.
  intros t l. unfold sans_of_tag, of_kind. induction l as [|[t' d] l IH]; [reflexivity|].
  cbn [flat_map filter gn_tag]. destruct (t' =? t); cbn [app map gn_data]; rewrite IH; reflexivity.
Qed.

(* grouped by kind: DNS, IP, URI, email; within a kind in encoded order *)
Definition sans_grouped (l : list general_name) : list general_name :=
  of_kind 2 l ++ of_kind 7 l ++ of_kind 6 l ++ of_kind 1 l.

Lemma map_san_text_kind : forall t l, t <> 7 -> map san_text (of_kind t l) = map gn_data (of_kind t l).
Proof.
  intros t l Ht. unfold of_kind. induction l as [|g l IH]; [reflexivity|].
  cbn [filter]. destruct (gn_tag g =? t) eqn:E; [|exact IH].
  cbn [map]. rewrite IH. f_equal. unfold san_text. apply N.eqb_eq in E.
  replace (gn_tag g =? 7) with false by (symmetry; apply N.eqb_neq; lia). reflexivity.
Qed.

Lemma map_san_text_ip : forall l, map san_text (of_kind 7 l) = map san_ip_string (map gn_data (of_kind 7 l)).
Proof.
  intro l. unfold of_kind. induction l as [|g l IH]; [reflexivity|].
  cbn [filter]. destruct (gn_tag g =? 7) eqn:E; [|exact IH].
  cbn [map]. rewrite IH. f_equal. unfold san_text. rewrite E. reflexivity.
Qed.

Theorem san_strings_spec : forall c, e_version c = 3 ->
  san_strings current (x509_spec c) = map san_text (sans_grouped (opt_list (e_sans c))).
Proof.
  intros c Hv. unfold san_strings, x509_spec, sans_grouped. cbn [f_dns f_ips f_uris f_emails v_ip16 current].
  rewrite Hv. cbn [N.eqb Pos.eqb].
  rewrite !sans_of_tag_spec, !map_app, map_san_text_ip.
  rewrite !map_san_text_kind by lia. reflexivity.
Qed.

Lemma sans_grouped_perm : forall l, Permutation (filter san_reported l) (sans_grouped l).
Proof.
  unfold sans_grouped, of_kind. induction l as [|g l IH]; [constructor|].
  cbn [filter]. unfold san_reported at 1.
  destruct (gn_tag g =? 2) eqn:E2; [|destruct (gn_tag g =? 7) eqn:E7; [|destruct (gn_tag g =? 6) eqn:E6; [|destruct (gn_tag g =? 1) eqn:E1]]];
    cbn [orb].
  - apply N.eqb_eq in E2.
    replace (gn_tag g =? 7) with false by (symmetry; apply N.eqb_neq; lia).
    replace (gn_tag g =? 6) with false by (symmetry; apply N.eqb_neq; lia).
    replace (gn_tag g =? 1) with false by (symmetry; apply N.eqb_neq; lia).
    cbn [app]. constructor. exact IH.
  - apply N.eqb_eq in E7.
    replace (gn_tag g =? 6) with false by (symmetry; apply N.eqb_neq; lia).
    replace (gn_tag g =? 1) with false by (symmetry; apply N.eqb_neq; lia).
    apply Permutation_cons_app. exact IH.
  - apply N.eqb_eq in E6.
    replace (gn_tag g =? 1) with false by (symmetry; apply N.eqb_neq; lia).
    rewrite app_assoc. rewrite app_assoc in IH. cbn [app]. apply Permutation_cons_app. exact IH.
  - apply N.eqb_eq in E1.
    rewrite app_assoc, (app_assoc _ (filter _ l) (g :: _)).
    rewrite app_assoc, (app_assoc _ (filter _ l) (filter _ l)) in IH.
    apply Permutation_cons_app. exact IH.
  - exact IH.
Qed.

(* every reported-kind name appears, and every string shown is the text of such an encoded name *)
Theorem sans_shown_perm : forall c, e_version c = 3 ->
  Permutation (map san_text (filter san_reported (opt_list (e_sans c)))) (san_strings current (x509_spec c)).
Proof.
  intros c Hv. rewrite san_strings_spec by exact Hv. apply Permutation_map. apply sans_grouped_perm.
Qed.

(* dotted-quad text of four octets can be read back *)
Lemma ipv4_string_4 : forall a b c d, ipv4_string [a; b; c; d] =
  dec_of_N a ++ [46] ++ dec_of_N b ++ [46] ++ dec_of_N c ++ [46] ++ dec_of_N d.
Proof. reflexivity. Qed.

(* ================================================================== *)
(* I. the attribute list, from the encoded content alone               *)
(* ================================================================== *)
Definition nonempty {A} (l : list A) : bool := match l with [] => false | _ => true end.
Definition is_some {A} (o : option A) : bool := match o with Some _ => true | None => false end.

(* the shape of getCertificateInfo's attribute list: eight fixed entries, four optional ones *)
Definition attrs_of (p_ski p_aki p_pl p_san : bool)
    (serial subj ski iss aki nb na ku eku pl san sig : bytes) : list (bytes * bytes) :=
  [(bs "Serial", serial); (bs "Subject", subj)] ++
  (if p_ski then [(bs "Subject key id", ski)] else []) ++
  [(bs "Issuer", iss)] ++
  (if p_aki then [(bs "Authority key id", aki)] else []) ++
  [(bs "Not before", nb); (bs "Not after", na); (bs "Key usage", ku); (bs "Extended key usage", eku)] ++
  (if p_pl then [(bs "Max path length", pl)] else []) ++
  (if p_san then [(bs "SANs", san)] else []) ++
  [(bs "Signature algorithm", sig)].

Lemma describe_attrs : forall v f,
  i_attrs (describe_gen v f) =
  attrs_of (nonempty (f_ski f)) (nonempty (f_aki f)) (show_path_len v f) (nonempty (san_strings v f))
    (dec_of_Z (f_serial f)) (f_subject f) (hex_of false (f_ski f)) (f_issuer f) (hex_of false (f_aki f))
    (date_string (f_not_before f)) (date_string (f_not_after f))
    (comma_join (key_usages (f_key_usage f)))
    (comma_join (x509_ekus (f_ext_key_usage f) (f_unknown_eku f)))
    (dec_of_Z (f_max_path_len f)) (if v_quote v then names_join (san_strings v f) else comma_join (san_strings v f))
    (cert_signature_algorithm v f).
Proof.
  intros v f. unfold describe_gen, attrs_of. cbn [i_attrs].
  destruct (f_ski f); destruct (f_aki f); destruct (show_path_len v f); destruct (san_strings v f); reflexivity.
Qed.

(* well-formedness of the encoded content, as far as the theorems need it (RFC 5280):
   version 1..3 and extensions only in version 3; key identifiers non-empty octet strings;
   pathLenConstraint >= 0; a signature algorithm known to the library is not the value 0;
   OIDs have at least one arc.  (Nothing is asked of the subject alternative names: joinNames quotes
   a name that is empty, begins with a quote or contains the separator.) *)
Definition no_extensions (c : enc_cert) : bool :=
  negb (is_some (e_basic c)) && negb (is_some (e_key_usage c)) && negb (is_some (e_ekus c)) &&
  negb (is_some (e_sans c)) && negb (is_some (e_ski c)) && negb (is_some (e_aki c)).

Definition key_id_ok (o : option bytes) : bool :=
  match o with Some k => nonempty k && bytes_ok k | None => true end.

Definition enc_ok (c : enc_cert) : bool :=
  (1 <=? e_version c) && (e_version c <=? 3) &&
  ((e_version c =? 3) || no_extensions c) &&
  key_id_ok (e_ski c) && key_id_ok (e_aki c) &&
  match e_basic c with Some (_, Some n) => (0 <=? n)%Z | _ => true end &&
  match e_sig c with SigKnown id => negb (id =? 0) | SigUnknown o => nonempty o end &&
  forallb (fun o : oid => nonempty o) (opt_list (e_ekus c)).

Definition ekus_grouped (l : list oid) : list oid :=
  filter eku_known l ++ filter (fun o => negb (eku_known o)) l.

(* what must be shown, computed from the encoded content *)
Definition expected_desc (c : enc_cert) : bytes :=
  bs "x.509v" ++ dec_of_N (e_version c) ++
  match e_basic c with
  | Some (true, _) => bs " CA"
  | Some (false, _) => bs " end-entity"
  | None => []
  end ++ bs " certificate".

Definition expected_usages (c : enc_cert) : list bytes :=
  match e_key_usage c with Some bits => select_names usage_labels bits | None => [] end.
Definition expected_ekus (c : enc_cert) : list bytes := map eku_text (ekus_grouped (opt_list (e_ekus c))).
Definition expected_path_len (c : enc_cert) : option Z :=
  match e_basic c with Some (true, Some n) => Some n | _ => None end.
Definition expected_sans (c : enc_cert) : list bytes := map san_text (sans_grouped (opt_list (e_sans c))).
Definition expected_sigalg (c : enc_cert) : bytes :=
  match e_sig c with SigKnown id => sigalg_string id | SigUnknown o => dotted o end.

Definition expected_attrs (c : enc_cert) : list (bytes * bytes) :=
  attrs_of (is_some (e_ski c)) (is_some (e_aki c)) (is_some (expected_path_len c)) (nonempty (expected_sans c))
    (dec_of_N (e_serial c)) (e_subject c) (hex_of false (opt_bytes (e_ski c))) (e_issuer c)
    (hex_of false (opt_bytes (e_aki c)))
    (date_string (e_not_before c)) (date_string (e_not_after c))
    (comma_join (expected_usages c)) (comma_join (expected_ekus c))
    (match expected_path_len c with Some n => dec_of_Z n | None => [] end)
    (names_join (expected_sans c)) (expected_sigalg c).

Definition expected_info (c : enc_cert) : info :=
  Info (expected_desc c) (expected_attrs c) [Info (bs "Public key") (pkix_public_key_attributes (e_spki c)) []].

(* when the version is not 3, a well-formed content has no extensions *)
Lemma enc_ok_ext : forall c, enc_ok c = true ->
  e_version c = 3 \/ (e_version c <> 3 /\ e_basic c = None /\ e_key_usage c = None /\ e_ekus c = None /\
                      e_sans c = None /\ e_ski c = None /\ e_aki c = None).
Proof.
  intros c H. unfold enc_ok in H. repeat (apply andb_true_iff in H; destruct H as [H ?]).
  destruct (e_version c =? 3) eqn:V; [left; apply N.eqb_eq; exact V|right].
  apply N.eqb_neq in V. cbn [orb] in *.
  match goal with H : no_extensions c = true |- _ => unfold no_extensions in H;
    repeat (apply andb_true_iff in H; destruct H as [H ?]) end.
  repeat match goal with H : negb (is_some ?o) = true |- _ => destruct o; [discriminate H|clear H] end.
  repeat split; try reflexivity. exact V.
Qed.

Ltac enc_split H :=
  unfold enc_ok in H; repeat (apply andb_true_iff in H; destruct H as [H ?]).

Theorem describe_expected : forall c, enc_ok c = true ->
  describe (x509_spec c) = expected_info c.
Proof.
  intros c Hok. pose proof (enc_ok_ext c Hok) as Hext.
  unfold describe, expected_info.
  assert (Hd : description (x509_spec c) = expected_desc c).
  { unfold description, expected_desc, x509_spec. cbn [f_version f_bc_valid f_is_ca].
    rewrite dec_of_Z_of_N.
    destruct Hext as [V|[V [B _]]].
    - rewrite V. cbn [N.eqb Pos.eqb]. destruct (e_basic c) as [[[|] ?]|]; reflexivity.
    - rewrite B. destruct (e_version c =? 3); reflexivity. }
  assert (Ha : i_attrs (describe_gen current (x509_spec c)) = expected_attrs c).
  { rewrite describe_attrs. cbn [v_quote current]. unfold expected_attrs.
    assert (Hski : f_ski (x509_spec c) = opt_bytes (e_ski c)).
    { unfold x509_spec. cbn [f_ski]. destruct Hext as [V|[V [_ [_ [_ [_ [S _]]]]]]];
        [rewrite V; reflexivity|rewrite S; destruct (e_version c =? 3); reflexivity]. }
    assert (Haki : f_aki (x509_spec c) = opt_bytes (e_aki c)).
    { unfold x509_spec. cbn [f_aki]. destruct Hext as [V|[V [_ [_ [_ [_ [_ S]]]]]]];
        [rewrite V; reflexivity|rewrite S; destruct (e_version c =? 3); reflexivity]. }
    assert (Hsan : san_strings current (x509_spec c) = expected_sans c).
    { destruct Hext as [V|[V [_ [_ [_ [S _]]]]]]; [apply san_strings_spec; exact V|].
      unfold expected_sans, san_strings, x509_spec. cbn [f_dns f_ips f_uris f_emails].
      rewrite S. destruct (e_version c =? 3); reflexivity. }
    assert (Hku : key_usages (f_key_usage (x509_spec c)) = expected_usages c).
    { unfold expected_usages, x509_spec. cbn [f_key_usage].
      destruct Hext as [V|[V [_ [K _]]]].
      - rewrite V. cbn [N.eqb Pos.eqb]. destruct (e_key_usage c); [apply key_usages_of_bits|reflexivity].
      - rewrite K. destruct (e_version c =? 3); reflexivity. }
    assert (Heku : x509_ekus (f_ext_key_usage (x509_spec c)) (f_unknown_eku (x509_spec c)) = expected_ekus c).
    { unfold expected_ekus, ekus_grouped, x509_spec. cbn [f_ext_key_usage f_unknown_eku].
      destruct Hext as [V|[V [_ [_ [E _]]]]].
      - rewrite V. cbn [N.eqb Pos.eqb]. rewrite x509_ekus_spec, map_app. reflexivity.
      - rewrite E. destruct (e_version c =? 3); reflexivity. }
    assert (Hpl : show_path_len current (x509_spec c) = is_some (expected_path_len c)
                  /\ (show_path_len current (x509_spec c) = true ->
                      dec_of_Z (f_max_path_len (x509_spec c)) =
                      match expected_path_len c with Some n => dec_of_Z n | None => [] end)).
    { unfold show_path_len, expected_path_len, x509_spec.
      cbn [f_bc_valid f_is_ca f_max_path_len f_max_path_len_zero v_pathlen current].
      destruct Hext as [V|[V [B _]]].
      - rewrite V. cbn [N.eqb Pos.eqb].
        destruct (e_basic c) as [[ca [n|]]|] eqn:B; cbn [andb].
        + enc_split Hok. rewrite B in *. destruct ca; cbn [andb is_some].
          * assert (Hn : (0 <= n)%Z) by (apply Z.leb_le; assumption).
            destruct (0 <? n)%Z eqn:E1; cbn [orb]; [split; reflexivity|].
            apply Z.ltb_ge in E1. assert (n = 0%Z) by lia. subst n. cbn. split; reflexivity.
          * split; [reflexivity|discriminate].
        + destruct ca; cbn; split; try reflexivity; discriminate.
        + cbn. split; [reflexivity|discriminate].
      - rewrite B. destruct (e_version c =? 3); cbn; (split; [reflexivity|discriminate]). }
    assert (Hsig : cert_signature_algorithm current (x509_spec c) = expected_sigalg c).
    { unfold cert_signature_algorithm, expected_sigalg, x509_spec. cbn [f_sigalg f_sig_oid v_sigoid current andb].
      enc_split Hok. destruct (e_sig c) as [id|o].
      - match goal with H : negb (id =? 0) = true |- _ => apply negb_true_iff in H; rewrite H end. reflexivity.
      - reflexivity. }
    destruct Hpl as [Hpl1 Hpl2].
    rewrite Hski, Haki, Hsan, Hku, Heku, Hsig, Hpl1.
    assert (Hs1 : nonempty (opt_bytes (e_ski c)) = is_some (e_ski c)).
    { enc_split Hok. destruct (e_ski c) as [k|]; [|reflexivity].
      match goal with H : key_id_ok (Some k) = true |- _ => cbn in H; apply andb_true_iff in H; destruct H as [H _]; exact H end. }
    assert (Hs2 : nonempty (opt_bytes (e_aki c)) = is_some (e_aki c)).
    { enc_split Hok. destruct (e_aki c) as [k|]; [|reflexivity].
      match goal with H : key_id_ok (Some k) = true |- _ => cbn in H; apply andb_true_iff in H; destruct H as [H _]; exact H end. }
    rewrite Hs1, Hs2.
    unfold x509_spec at 1 2 3 4 5. cbn [f_serial f_subject f_issuer f_not_before f_not_after].
    rewrite dec_of_Z_of_N.
    destruct (is_some (expected_path_len c)) eqn:P.
    - rewrite Hpl2 by exact Hpl1. reflexivity.
    - unfold attrs_of. reflexivity. }
  unfold describe_gen in *. cbn [i_attrs] in Ha. rewrite Ha.
  fold (description (x509_spec c)). rewrite Hd.
  unfold x509_spec at 1. cbn [f_spki]. reflexivity.
Qed.

(* ================================================================== *)
(* J. reading the report back                                          *)
(* ================================================================== *)
Fixpoint attr (n : bytes) (l : list (bytes * bytes)) : option bytes :=
  match l with
  | [] => None
  | (k, v) :: r => if bytes_eqb k n then Some v else attr n r
  end.

Fixpoint nodupb (l : list bytes) : bool :=
  match l with
  | [] => true
  | x :: r => negb (existsb (bytes_eqb x) r) && nodupb r
  end.
Lemma nodupb_sound : forall l, nodupb l = true -> NoDup l.
Proof.
  induction l as [|x r IH]; intro H; [constructor|].
  cbn [nodupb] in H. apply andb_true_iff in H. destruct H as [H1 H2]. constructor; [|apply IH; exact H2].
  intro Hin. apply negb_true_iff in H1. assert (existsb (bytes_eqb x) r = true); [|congruence].
  apply existsb_exists. exists x. split; [exact Hin|apply bytes_eqb_refl].
Qed.

Section lookups.
  Variables (p1 p2 p3 p4 : bool) (v1 v2 v3 v4 v5 v6 v7 v8 v9 v10 v11 v12 : bytes).
  Let A := attrs_of p1 p2 p3 p4 v1 v2 v3 v4 v5 v6 v7 v8 v9 v10 v11 v12.
  Lemma attr_serial : attr (bs "Serial") A = Some v1.
  Proof. unfold A. destruct p1, p2, p3, p4; reflexivity. Qed.
  Lemma attr_subject : attr (bs "Subject") A = Some v2.
  Proof. unfold A. destruct p1, p2, p3, p4; reflexivity. Qed.
  Lemma attr_ski : attr (bs "Subject key id") A = if p1 then Some v3 else None.
  Proof. unfold A. destruct p1, p2, p3, p4; reflexivity. Qed.
  Lemma attr_issuer : attr (bs "Issuer") A = Some v4.
  Proof. unfold A. destruct p1, p2, p3, p4; reflexivity. Qed.
  Lemma attr_aki : attr (bs "Authority key id") A = if p2 then Some v5 else None.
  Proof. unfold A. destruct p1, p2, p3, p4; reflexivity. Qed.
  Lemma attr_nb : attr (bs "Not before") A = Some v6.
  Proof. unfold A. destruct p1, p2, p3, p4; reflexivity. Qed.
  Lemma attr_na : attr (bs "Not after") A = Some v7.
  Proof. unfold A. destruct p1, p2, p3, p4; reflexivity. Qed.
  Lemma attr_ku : attr (bs "Key usage") A = Some v8.
  Proof. unfold A. destruct p1, p2, p3, p4; reflexivity. Qed.
  Lemma attr_eku : attr (bs "Extended key usage") A = Some v9.
  Proof. unfold A. destruct p1, p2, p3, p4; reflexivity. Qed.
  Lemma attr_pl : attr (bs "Max path length") A = if p3 then Some v10 else None.
  Proof. unfold A. destruct p1, p2, p3, p4; reflexivity. Qed.
  Lemma attr_san : attr (bs "SANs") A = if p4 then Some v11 else None.
  Proof. unfold A. destruct p1, p2, p3, p4; reflexivity. Qed.
  Lemma attr_sig : attr (bs "Signature algorithm") A = Some v12.
  Proof. unfold A. destruct p1, p2, p3, p4; reflexivity. Qed.
  (* no attribute name occurs twice *)
  Lemma attrs_names_nodup : NoDup (map fst A).
  Proof. unfold A. destruct p1, p2, p3, p4; apply nodupb_sound; vm_compute; reflexivity. Qed.
End lookups.

(* leading digits *)
Fixpoint span_digits (l : bytes) : bytes * bytes :=
  match l with
  | c :: r => if is_digit c then (let (a, b) := span_digits r in (c :: a, b)) else ([], l)
  | [] => ([], [])
  end.
Lemma span_digits_app : forall ds c rest, forallb is_digit ds = true -> is_digit c = false ->
  span_digits (ds ++ c :: rest) = (ds, c :: rest).
Proof.
  induction ds as [|d ds IH]; intros c rest H Hc.
  - cbn. rewrite Hc. reflexivity.
  - cbn [forallb] in H. apply andb_true_iff in H. destruct H as [H1 H2].
    cbn [app span_digits]. rewrite H1, IH by assumption. reflexivity.
Qed.

Definition parse_desc (d : bytes) : option (N * option bool) :=
  if prefix_of (bs "x.509v") d then
    let (ds, rest) := span_digits (drop 6 d) in
    match parse_dec ds with
    | Some v =>
        if bytes_eqb rest (bs " certificate") then Some (v, None)
        else if bytes_eqb rest (bs " CA certificate") then Some (v, Some true)
        else if bytes_eqb rest (bs " end-entity certificate") then Some (v, Some false)
        else None
    | None => None
    end
  else None.

Lemma prefix_of_app : forall p x, prefix_of p (p ++ x) = true.
Proof. induction p; intro x; cbn; [reflexivity|]. rewrite N.eqb_refl. apply IHp. Qed.
Lemma drop_app_length : forall {A} (l r : list A), drop (length l) (l ++ r) = r.
Proof. induction l; intro r; cbn; [destruct r; reflexivity|apply IHl]. Qed.

Lemma parse_desc_expected : forall c,
  parse_desc (expected_desc c) = Some (e_version c, option_map fst (e_basic c)).
Proof.
  intro c. unfold parse_desc, expected_desc.
  rewrite prefix_of_app. change 6%nat with (length (bs "x.509v")). rewrite drop_app_length.
  destruct (e_basic c) as [[[|] ?]|]; cbn [option_map fst].
  - change (bs " CA" ++ bs " certificate") with (32 :: (bs "CA certificate")).
    rewrite span_digits_app; [|apply dec_of_N_digits|reflexivity]. rewrite parse_dec_of_N. reflexivity.
  - change (bs " end-entity" ++ bs " certificate") with (32 :: (bs "end-entity certificate")).
    rewrite span_digits_app; [|apply dec_of_N_digits|reflexivity]. rewrite parse_dec_of_N. reflexivity.
  - change ([] ++ bs " certificate") with (32 :: (bs "certificate")).
    rewrite span_digits_app; [|apply dec_of_N_digits|reflexivity]. rewrite parse_dec_of_N. reflexivity.
Qed.

(* the report, read back into a record *)
Record view := {
  w_version : N;
  w_role : option bool;                 (* Some true: CA; Some false: end-entity; None: not stated *)
  w_serial : N;
  w_subject : bytes;
  w_issuer : bytes;
  w_ski : option bytes;
  w_aki : option bytes;
  w_not_before : bytes;                 (* YYYY-MM-DD, characterised by date_string_spec *)
  w_not_after : bytes;
  w_key_usages : list bytes;
  w_ekus : list bytes;
  w_path_len : option N;
  w_sans : list bytes;
  w_sigalg : bytes;
  w_key : list (bytes * bytes)
}.

Definition read_list (o : option bytes) : list bytes := match o with Some t => split_list t | None => [] end.
Definition read_name_list_opt (o : option bytes) : list bytes := match o with Some t => read_name_list t | None => [] end.

Definition read_back (i : info) : option view :=
  match i with
  | Info d a [Info kd ka []] =>
      if bytes_eqb kd (bs "Public key") then
        match parse_desc d, attr (bs "Serial") a, attr (bs "Subject") a, attr (bs "Issuer") a,
              attr (bs "Not before") a, attr (bs "Not after") a, attr (bs "Signature algorithm") a with
        | Some (v, role), Some ser, Some sub, Some iss, Some nb, Some na, Some sg =>
            match parse_dec ser,
                  match attr (bs "Max path length") a with
                  | None => Some None
                  | Some t => option_map Some (parse_dec t)
                  end with
            | Some sn, Some pl =>
                Some {| w_version := v; w_role := role; w_serial := sn; w_subject := sub; w_issuer := iss;
                        w_ski := option_map unhex (attr (bs "Subject key id") a);
                        w_aki := option_map unhex (attr (bs "Authority key id") a);
                        w_not_before := nb; w_not_after := na;
                        w_key_usages := read_list (attr (bs "Key usage") a);
                        w_ekus := read_list (attr (bs "Extended key usage") a);
                        w_path_len := pl;
                        w_sans := read_name_list_opt (attr (bs "SANs") a);
                        w_sigalg := sg; w_key := ka |}
            | _, _ => None
            end
        | _, _, _, _, _, _, _ => None
        end
      else None
  | _ => None
  end.

(* what the encoded content says, field by field *)
Definition canonical_view (c : enc_cert) : view :=
  {| w_version := e_version c;
     w_role := option_map fst (e_basic c);
     w_serial := e_serial c;
     w_subject := e_subject c;
     w_issuer := e_issuer c;
     w_ski := e_ski c;
     w_aki := e_aki c;
     w_not_before := date_string (e_not_before c);
     w_not_after := date_string (e_not_after c);
     w_key_usages := expected_usages c;           (* labels of the set bits 0..8, in bit order *)
     w_ekus := expected_ekus c;                   (* name or dotted OID of every KeyPurposeId, known ones first *)
     w_path_len := option_map Z.to_N (expected_path_len c);
     w_sans := expected_sans c;                   (* text of every DNS / IP / URI / email name, grouped in this order *)
     w_sigalg := expected_sigalg c;
     w_key := pkix_public_key_attributes (e_spki c) |}.

Lemma usage_labels_tokens : forallb token_ok usage_labels = true.
Proof. vm_compute. reflexivity. Qed.

Lemma select_names_tokens : forall names bits, forallb token_ok names = true ->
  forallb token_ok (select_names names bits) = true.
Proof.
  induction names as [|n nr IH]; intros bits H; [destruct bits; reflexivity|].
  destruct bits as [|b br]; [reflexivity|].
  cbn [forallb] in H. apply andb_true_iff in H. destruct H as [H1 H2].
  cbn [select_names]. rewrite forallb_app, (IH br H2). destruct b; cbn [forallb]; [rewrite H1|]; reflexivity.
Qed.

Lemma forallb_filter : forall {A} (p q : A -> bool) l, forallb p l = true -> forallb p (filter q l) = true.
Proof.
  intros A p q l H. rewrite forallb_forall in *. intros x Hx. apply filter_In in Hx. apply H. tauto.
Qed.

Lemma expected_tokens : forall c, enc_ok c = true ->
  forallb token_ok (expected_usages c) = true /\
  forallb token_ok (expected_ekus c) = true.
Proof.
  intros c Hok. enc_split Hok. repeat split.
  - unfold expected_usages. destruct (e_key_usage c); [|reflexivity].
    apply select_names_tokens. exact usage_labels_tokens.
  - unfold expected_ekus, ekus_grouped. rewrite forallb_forall. intros t Ht.
    apply in_map_iff in Ht. destruct Ht as [o [Ho Hin]]. subst t. apply eku_text_token_ok.
    assert (Hin' : In o (opt_list (e_ekus c))).
    { apply in_app_or in Hin. destruct Hin as [Hin|Hin]; apply filter_In in Hin; tauto. }
    match goal with H : forallb (fun o : oid => nonempty o) _ = true |- _ =>
      rewrite forallb_forall in H; specialize (H o Hin') end.
    destruct o; [discriminate|discriminate].
Qed.

Lemma read_list_join : forall ts, forallb token_ok ts = true -> read_list (Some (comma_join ts)) = ts.
Proof. intros. cbn [read_list]. apply split_list_join. assumption. Qed.

Lemma key_id_roundtrip : forall o, key_id_ok o = true ->
  option_map unhex (if is_some o then Some (hex_of false (opt_bytes o)) else None) = o.
Proof.
  intros o H. destruct o as [k|]; [|reflexivity]. cbn [is_some option_map opt_bytes]. f_equal.
  apply unhex_hex_of. cbn in H. apply andb_true_iff in H. tauto.
Qed.

Theorem read_back_expected : forall c, enc_ok c = true ->
  read_back (expected_info c) = Some (canonical_view c).
Proof.
  intros c Hok. destruct (expected_tokens c Hok) as [Tku Teku].
  unfold read_back, expected_info, expected_attrs.
  rewrite bytes_eqb_refl, parse_desc_expected.
  rewrite attr_serial, attr_subject, attr_issuer, attr_nb, attr_na, attr_sig, attr_pl, attr_ski, attr_aki,
          attr_ku, attr_eku, attr_san.
  rewrite parse_dec_of_N.
  assert (Hpl : (if is_some (expected_path_len c)
                 then Some match expected_path_len c with Some n => dec_of_Z n | None => [] end else None) =
                match expected_path_len c with Some n => Some (dec_of_N (Z.to_N n)) | None => None end).
  { unfold expected_path_len. destruct (e_basic c) as [[[|] [n|]]|] eqn:B; try reflexivity.
    cbn [is_some]. f_equal. enc_split Hok. rewrite B in *.
    assert (Hn : (0 <= n)%Z) by (apply Z.leb_le; assumption).
    rewrite <- dec_of_Z_of_N. rewrite Z2N.id by exact Hn. reflexivity. }
  rewrite Hpl.
  assert (Hski : option_map unhex (if is_some (e_ski c) then Some (hex_of false (opt_bytes (e_ski c))) else None) = e_ski c).
  { enc_split Hok. destruct (e_ski c) as [k|]; [|reflexivity]. cbn [is_some option_map opt_bytes]. f_equal.
    apply unhex_hex_of.
    match goal with H : key_id_ok (Some k) = true |- _ => cbn in H; apply andb_true_iff in H; tauto end. }
  assert (Haki : option_map unhex (if is_some (e_aki c) then Some (hex_of false (opt_bytes (e_aki c))) else None) = e_aki c).
  { enc_split Hok. destruct (e_aki c) as [k|]; [|reflexivity]. cbn [is_some option_map opt_bytes]. f_equal.
    apply unhex_hex_of.
    match goal with H : key_id_ok (Some k) = true |- _ => cbn in H; apply andb_true_iff in H; tauto end. }
  rewrite Hski, Haki, !read_list_join by assumption.
  assert (Hsan : read_name_list_opt (if nonempty (expected_sans c) then Some (names_join (expected_sans c)) else None) = expected_sans c).
  { destruct (expected_sans c) eqn:E; [reflexivity|]. cbn [nonempty read_name_list_opt]. apply read_name_list_join. }
  rewrite Hsan.
  unfold canonical_view.
  destruct (expected_path_len c) as [n|]; cbn [option_map]; [rewrite parse_dec_of_N|]; reflexivity.
Qed.

Theorem faithful : forall c, enc_ok c = true ->
  read_back (describe (x509_spec c)) = Some (canonical_view c).
Proof. intros c H. rewrite describe_expected by exact H. apply read_back_expected. exact H. Qed.

(* ================================================================== *)
(* K. corollaries, each about one field                                *)
(* ================================================================== *)
Definition shown (c : enc_cert) : list (bytes * bytes) := i_attrs (describe (x509_spec c)).

Lemma shown_expected : forall c, enc_ok c = true -> shown c = expected_attrs c.
Proof. intros c H. unfold shown. rewrite describe_expected by exact H. reflexivity. Qed.

Theorem path_len_shown_iff : forall c v, enc_ok c = true ->
  (attr (bs "Max path length") (shown c) = Some v <->
   exists n, e_basic c = Some (true, Some n) /\ v = dec_of_Z n).
Proof.
  intros c v H. rewrite shown_expected by exact H. unfold expected_attrs. rewrite attr_pl.
  unfold expected_path_len. split.
  - intro G. destruct (e_basic c) as [[[|] [n|]]|]; cbn [is_some] in G; try discriminate G.
    inversion G. exists n. split; reflexivity.
  - intros [n [G1 G2]]. rewrite G1. cbn [is_some]. subst v. reflexivity.
Qed.

Theorem path_len_absent : forall c, enc_ok c = true ->
  (forall n, e_basic c <> Some (true, Some n)) -> attr (bs "Max path length") (shown c) = None.
Proof.
  intros c H Hn. destruct (attr (bs "Max path length") (shown c)) as [v|] eqn:E; [|reflexivity].
  apply path_len_shown_iff in E; [|exact H]. destruct E as [n [E _]]. elim (Hn n E).
Qed.

Theorem role_shown : forall c, enc_ok c = true ->
  i_desc (describe (x509_spec c)) = expected_desc c.
Proof. intros c H. rewrite describe_expected by exact H. reflexivity. Qed.

Theorem serial_shown : forall c, enc_ok c = true ->
  attr (bs "Serial") (shown c) = Some (dec_of_N (e_serial c)).
Proof. intros c H. rewrite shown_expected by exact H. unfold expected_attrs. apply attr_serial. Qed.

Theorem key_ids_shown : forall c, enc_ok c = true ->
  option_map unhex (attr (bs "Subject key id") (shown c)) = e_ski c /\
  option_map unhex (attr (bs "Authority key id") (shown c)) = e_aki c.
Proof.
  intros c H. rewrite shown_expected by exact H. unfold expected_attrs. rewrite attr_ski, attr_aki.
  enc_split H. split; apply key_id_roundtrip; assumption.
Qed.

Theorem dates_shown : forall c, enc_ok c = true ->
  attr (bs "Not before") (shown c) = Some (date_string (e_not_before c)) /\
  attr (bs "Not after") (shown c) = Some (date_string (e_not_after c)).
Proof.
  intros c H. rewrite shown_expected by exact H. unfold expected_attrs. split; [apply attr_nb|apply attr_na].
Qed.

Theorem key_usage_shown : forall c, enc_ok c = true ->
  attr (bs "Key usage") (shown c) = Some (comma_join (expected_usages c)) /\
  split_list (comma_join (expected_usages c)) = expected_usages c.
Proof.
  intros c H. rewrite shown_expected by exact H. unfold expected_attrs. split; [apply attr_ku|].
  apply split_list_join. apply (expected_tokens c H).
Qed.

Theorem eku_shown : forall c, enc_ok c = true ->
  attr (bs "Extended key usage") (shown c) = Some (comma_join (expected_ekus c)) /\
  split_list (comma_join (expected_ekus c)) = expected_ekus c /\
  Permutation (map eku_text (opt_list (e_ekus c))) (expected_ekus c).
Proof.
  intros c H. rewrite shown_expected by exact H. unfold expected_attrs. split; [apply attr_eku|]. split.
  - apply split_list_join. apply (expected_tokens c H).
  - unfold expected_ekus, ekus_grouped. apply Permutation_map. apply partition_perm.
Qed.

Theorem sans_shown : forall c, enc_ok c = true ->
  attr (bs "SANs") (shown c) = (if nonempty (expected_sans c) then Some (names_join (expected_sans c)) else None) /\
  read_name_list (names_join (expected_sans c)) = expected_sans c /\
  Permutation (map san_text (filter san_reported (opt_list (e_sans c)))) (expected_sans c).
Proof.
  intros c H. rewrite shown_expected by exact H. unfold expected_attrs. split; [apply attr_san|]. split.
  - apply read_name_list_join.
  - unfold expected_sans. apply Permutation_map. apply sans_grouped_perm.
Qed.

(* every name of a reported kind is present in the list shown; every item shown is such a name *)
Theorem san_present : forall c g, enc_ok c = true ->
  In g (opt_list (e_sans c)) -> san_reported g = true -> In (san_text g) (expected_sans c).
Proof.
  intros c g H Hin Hr. destruct (sans_shown c H) as [_ [_ P]].
  eapply Permutation_in; [exact P|]. apply in_map. apply filter_In. tauto.
Qed.
Theorem san_has_source : forall c t, enc_ok c = true -> In t (expected_sans c) ->
  exists g, In g (opt_list (e_sans c)) /\ san_reported g = true /\ t = san_text g.
Proof.
  intros c t H Hin. destruct (sans_shown c H) as [_ [_ P]].
  apply (Permutation_in _ (Permutation_sym P)) in Hin. apply in_map_iff in Hin.
  destruct Hin as [g [Hg Hin]]. apply filter_In in Hin. exists g. intuition.
Qed.
Theorem eku_present : forall c o, enc_ok c = true -> In o (opt_list (e_ekus c)) -> In (eku_text o) (expected_ekus c).
Proof.
  intros c o H Hin. destruct (eku_shown c H) as [_ [_ P]]. eapply Permutation_in; [exact P|]. apply in_map. exact Hin.
Qed.
Theorem eku_has_source : forall c t, enc_ok c = true -> In t (expected_ekus c) ->
  exists o, In o (opt_list (e_ekus c)) /\ t = eku_text o.
Proof.
  intros c t H Hin. destruct (eku_shown c H) as [_ [_ P]].
  apply (Permutation_in _ (Permutation_sym P)) in Hin. apply in_map_iff in Hin.
  destruct Hin as [o [Ho Hin]]. exists o. intuition.
Qed.
(* a usage label is shown iff its bit is set *)
Lemma in_select_names : forall names bits t,
  In t (select_names names bits) <-> exists i, nth_error names i = Some t /\ nth_error bits i = Some true.
Proof.
  induction names as [|n nr IH]; intros bits t.
  - destruct bits; cbn; split; [tauto| |tauto|]; intros [i [H _]]; destruct i; discriminate.
  - destruct bits as [|b br]; [cbn; split; [tauto|intros [i [_ H]]; destruct i; discriminate]|].
    cbn [select_names]. rewrite in_app_iff, IH. split.
    + intros [H|[i [H1 H2]]].
      * destruct b; [|destruct H]. destruct H as [H|[]]. subst. exists 0%nat. split; reflexivity.
      * exists (S i). split; assumption.
    + intros [[|i] [H1 H2]]; cbn in H1, H2.
      * inversion H1; inversion H2; subst. left. left. reflexivity.
      * right. exists i. split; assumption.
Qed.

(* nothing invented: every attribute shown is one of the twelve, each guarded by its source *)
Definition attr_source (c : enc_cert) (n v : bytes) : Prop :=
  (n = bs "Serial" /\ v = dec_of_N (e_serial c)) \/
  (n = bs "Subject" /\ v = e_subject c) \/
  (n = bs "Subject key id" /\ exists k, e_ski c = Some k /\ v = hex_of false k) \/
  (n = bs "Issuer" /\ v = e_issuer c) \/
  (n = bs "Authority key id" /\ exists k, e_aki c = Some k /\ v = hex_of false k) \/
  (n = bs "Not before" /\ v = date_string (e_not_before c)) \/
  (n = bs "Not after" /\ v = date_string (e_not_after c)) \/
  (n = bs "Key usage" /\ v = comma_join (expected_usages c)) \/
  (n = bs "Extended key usage" /\ v = comma_join (expected_ekus c)) \/
  (n = bs "Max path length" /\ exists k, e_basic c = Some (true, Some k) /\ v = dec_of_Z k) \/
  (n = bs "SANs" /\ expected_sans c <> [] /\ v = names_join (expected_sans c)) \/
  (n = bs "Signature algorithm" /\ v = expected_sigalg c).

Theorem nothing_invented : forall c n v, enc_ok c = true -> In (n, v) (shown c) -> attr_source c n v.
Proof.
  intros c n v H Hin. rewrite shown_expected in Hin by exact H.
  unfold expected_attrs, attrs_of in Hin. unfold attr_source.
  repeat (apply in_app_or in Hin; destruct Hin as [Hin|Hin]);
    repeat match goal with
           | H : In _ (if ?b then _ else _) |- _ => destruct b eqn:?; [|destruct H]
           | H : In _ [] |- _ => destruct H
           | H : In _ (_ :: _) |- _ => destruct H as [H|H]; [inversion H; subst; clear H|]
           end.
  - tauto.
  - tauto.
  - destruct (e_ski c) as [k|]; [|discriminate]. right; right; left. split; [reflexivity|]. exists k. split; reflexivity.
  - tauto.
  - destruct (e_aki c) as [k|]; [|discriminate]. do 4 right; left. split; [reflexivity|]. exists k. split; reflexivity.
  - tauto.
  - tauto.
  - tauto.
  - tauto.
  - unfold expected_path_len in *. destruct (e_basic c) as [[[|] [k|]]|]; try discriminate.
    do 9 right; left. split; [reflexivity|]. exists k. split; reflexivity.
  - do 10 right; left. split; [reflexivity|]. split; [|reflexivity].
    destruct (expected_sans c); [discriminate|discriminate].
  - tauto.
Qed.

Theorem names_unique : forall c, enc_ok c = true -> NoDup (map fst (shown c)).
Proof. intros c H. rewrite shown_expected by exact H. apply attrs_names_nodup. Qed.

(* ================================================================== *)
(* L. the pre-repair code refutes the property (witnesses by computation) *)
(* ================================================================== *)
Definition witness_base : enc_cert :=
  {| e_version := 3; e_serial := 77; e_subject := bs "CN=leaf.example"; e_issuer := bs "CN=Example CA";
     e_not_before := 1704067200; e_not_after := 1735689600; e_spki := SBare [1; 3; 101; 112];
     e_basic := None; e_key_usage := None; e_ekus := None; e_sans := None; e_ski := None; e_aki := None;
     e_sig := SigKnown 16 |}.

(* F12: a CA certificate whose basic constraints carry no pathLenConstraint *)
Definition witness_F12 : enc_cert :=
  {| e_version := 3; e_serial := 77; e_subject := bs "CN=leaf.example"; e_issuer := bs "CN=Example CA";
     e_not_before := 1704067200; e_not_after := 1735689600; e_spki := SBare [1; 3; 101; 112];
     e_basic := Some (true, None); e_key_usage := None; e_ekus := None; e_sans := None; e_ski := None; e_aki := None;
     e_sig := SigKnown 16 |}.

Theorem pre_F12_refuted : exists c, enc_ok c = true /\ (forall n, e_basic c <> Some (true, Some n)) /\
  attr (bs "Max path length") (i_attrs (describe_gen pre_F12 (x509_spec c))) = Some (bs "-1").
Proof.
  exists witness_F12. split; [vm_compute; reflexivity|]. split; [intros n H; discriminate|].
  vm_compute. reflexivity.
Qed.

(* the same certificate under the repaired code *)
Example F12_repaired : attr (bs "Max path length") (shown witness_F12) = None.
Proof. vm_compute. reflexivity. Qed.

(* two different unknown signature algorithms were reported alike ("0") *)
Definition witness_sig (o : oid) : enc_cert :=
  {| e_version := 3; e_serial := 77; e_subject := bs "CN=leaf.example"; e_issuer := bs "CN=Example CA";
     e_not_before := 1704067200; e_not_after := 1735689600; e_spki := SBare [1; 3; 101; 112];
     e_basic := None; e_key_usage := None; e_ekus := None; e_sans := None; e_ski := None; e_aki := None;
     e_sig := SigUnknown o |}.

Theorem pre_sigoid_refuted : exists c1 c2, enc_ok c1 = true /\ enc_ok c2 = true /\ e_sig c1 <> e_sig c2 /\
  describe_gen pre_sigoid (x509_spec c1) = describe_gen pre_sigoid (x509_spec c2) /\
  attr (bs "Signature algorithm") (i_attrs (describe_gen pre_sigoid (x509_spec c1))) = Some (bs "0").
Proof.
  exists (witness_sig [1; 2; 840; 113549; 1; 1; 2]), (witness_sig [1; 2; 156; 10197; 1; 501]).
  repeat split; try (vm_compute; reflexivity). intro H; discriminate.
Qed.

(* a 16-octet IPv4-mapped address and the 4-octet address were reported alike *)
Definition witness_ip (ip : bytes) : enc_cert :=
  {| e_version := 3; e_serial := 77; e_subject := bs "CN=leaf.example"; e_issuer := bs "CN=Example CA";
     e_not_before := 1704067200; e_not_after := 1735689600; e_spki := SBare [1; 3; 101; 112];
     e_basic := None; e_key_usage := None; e_ekus := None; e_sans := Some [GN 7 ip]; e_ski := None; e_aki := None;
     e_sig := SigKnown 16 |}.

Theorem pre_ip16_refuted : exists c1 c2, enc_ok c1 = true /\ enc_ok c2 = true /\ e_sans c1 <> e_sans c2 /\
  describe_gen pre_ip16 (x509_spec c1) = describe_gen pre_ip16 (x509_spec c2).
Proof.
  exists (witness_ip [0; 0; 0; 0; 0; 0; 0; 0; 0; 0; 255; 255; 192; 0; 2; 1]), (witness_ip [192; 0; 2; 1]).
  repeat split; try (vm_compute; reflexivity). intro H; discriminate.
Qed.

(* under the repaired code the two are told apart *)
Example ip16_repaired :
  attr (bs "SANs") (shown (witness_ip [0; 0; 0; 0; 0; 0; 0; 0; 0; 0; 255; 255; 192; 0; 2; 1])) = Some (bs "::ffff:192.0.2.1") /\
  attr (bs "SANs") (shown (witness_ip [192; 0; 2; 1])) = Some (bs "192.0.2.1").
Proof. split; vm_compute; reflexivity. Qed.

(* the list separator was not escaped: a single name containing ", " read like two names, and a
   certificate inside RFC 5280's profile (an rfc822Name is a Mailbox, RFC 2821 4.1.2, whose local part may
   be a quoted string containing ", ") was reported with a name that is not encoded *)
Definition witness_dns (l : list general_name) : enc_cert :=
  {| e_version := 3; e_serial := 77; e_subject := bs "CN=leaf.example"; e_issuer := bs "CN=Example CA";
     e_not_before := 1704067200; e_not_after := 1735689600; e_spki := SBare [1; 3; 101; 112];
     e_basic := None; e_key_usage := None; e_ekus := None; e_sans := Some l; e_ski := None; e_aki := None;
     e_sig := SigKnown 16 |}.

Theorem pre_quote_refuted : exists c1 c2, enc_ok c1 = true /\ enc_ok c2 = true /\ e_sans c1 <> e_sans c2 /\
  describe_gen pre_quote (x509_spec c1) = describe_gen pre_quote (x509_spec c2).
Proof.
  exists (witness_dns [GN 2 (bs "a.example, b.example")]), (witness_dns [GN 2 (bs "a.example"); GN 2 (bs "b.example")]).
  repeat split; try (vm_compute; reflexivity). intro H; discriminate.
Qed.

Definition witness_separator : enc_cert :=
  witness_dns [GN 1 ([34] ++ bs "a, evil.example, b" ++ [34] ++ bs "@x.example")].

Theorem pre_quote_invents_name : exists c v, enc_ok c = true /\
  attr (bs "SANs") (i_attrs (describe_gen pre_quote (x509_spec c))) = Some v /\
  In (bs "evil.example") (split_list v) /\
  ~ In (bs "evil.example") (map san_text (opt_list (e_sans c))).
Proof.
  exists witness_separator. eexists. split; [vm_compute; reflexivity|]. split; [vm_compute; reflexivity|].
  split.
  - right. left. reflexivity.
  - cbn. intros [H|[]]. discriminate H.
Qed.

(* under the repaired code the two lists are told apart and the odd name reads back as itself *)
Example quote_repaired :
  attr (bs "SANs") (shown (witness_dns [GN 2 (bs "a.example, b.example")])) = Some ([34] ++ bs "a.example, b.example" ++ [34]) /\
  attr (bs "SANs") (shown (witness_dns [GN 2 (bs "a.example"); GN 2 (bs "b.example")])) = Some (bs "a.example, b.example") /\
  option_map read_name_list (attr (bs "SANs") (shown witness_separator)) =
  Some [[34] ++ bs "a, evil.example, b" ++ [34] ++ bs "@x.example"].
Proof. repeat split; vm_compute; reflexivity. Qed.

(* ================================================================== *)
(* M. the hypotheses are met by non-trivial contents                   *)
(* ================================================================== *)
Definition example_full : enc_cert :=
  {| e_version := 3; e_serial := 2 ^ 159 + 12345; e_subject := bs "CN=leaf.example,O=Example\, Inc."; e_issuer := bs "CN=Example CA";
     e_not_before := 2524607999; e_not_after := 2524608000; e_spki := SEc [1; 2; 840; 10045; 3; 1; 7];
     e_basic := Some (true, Some 0%Z);
     e_key_usage := Some [true; false; false; false; false; true; true];
     e_ekus := Some [[1; 2; 3; 4]; [1; 3; 6; 1; 5; 5; 7; 3; 1]; [2; 999; 1]; [2; 5; 29; 37; 0]];
     e_sans := Some [GN 7 [0; 0; 0; 0; 0; 0; 0; 0; 0; 0; 255; 255; 192; 0; 2; 1]; GN 2 (bs "a.example");
                     GN 0 [1; 2; 3]; GN 7 [32; 1; 13; 184; 0; 0; 0; 0; 0; 1; 0; 0; 0; 0; 0; 1];
                     GN 1 (bs "x@a.example"); GN 6 (bs "https://a.example/p?q=1#f"); GN 7 [192; 0; 2; 1]];
     e_ski := Some [3; 222; 80; 53]; e_aki := Some [10; 188];
     e_sig := SigUnknown [1; 2; 156; 10197; 1; 501] |}.

Example example_full_ok : enc_ok example_full = true.
Proof. vm_compute. reflexivity. Qed.

Example example_full_shown : shown example_full = [
  (bs "Serial", bs "730750818665451459101842416358141509827966283833");
  (bs "Subject", bs "CN=leaf.example,O=Example\, Inc.");
  (bs "Subject key id", bs "03de5035");
  (bs "Issuer", bs "CN=Example CA");
  (bs "Authority key id", bs "0abc");
  (bs "Not before", bs "2049-12-31");
  (bs "Not after", bs "2050-01-01");
  (bs "Key usage", bs "digitalSignature, certSign, cRLSign");
  (bs "Extended key usage", bs "serverAuth, any, 1.2.3.4, 2.999.1");
  (bs "Max path length", bs "0");
  (bs "SANs", bs "a.example, ::ffff:192.0.2.1, 2001:db8::1:0:0:1, 192.0.2.1, https://a.example/p?q=1#f, x@a.example");
  (bs "Signature algorithm", bs "1.2.156.10197.1.501")].
Proof. vm_compute. reflexivity. Qed.

Example example_v1_ok : enc_ok {| e_version := 1; e_serial := 1; e_subject := []; e_issuer := [];
     e_not_before := 0; e_not_after := 0; e_spki := SRsa [128; 0; 1]; e_basic := None; e_key_usage := None;
     e_ekus := None; e_sans := None; e_ski := None; e_aki := None; e_sig := SigKnown 4 |} = true.
Proof. vm_compute. reflexivity. Qed.

(* ================================================================== *)
(* N. presentations and the public-key child                           *)
(* ================================================================== *)
Theorem present_single : forall i, present_pem [i] = Ok i.
Proof. reflexivity. Qed.

Theorem present_bundle : forall i j r,
  present_pem (i :: j :: r) = Ok (Info (bs "multiple PEM blocks") [] (i :: j :: r)).
Proof. reflexivity. Qed.

Theorem present_keystore : forall extras certs, length extras = length certs ->
  map i_children (i_children (present_jks extras certs)) = map (fun c => [c]) certs.
Proof.
  unfold present_jks. cbn [i_children].
  induction extras as [|[a ms] er IH]; destruct certs as [|c cr]; intro H; try discriminate; [reflexivity|].
  cbn [jks_entries map jks_entry i_children]. f_equal. apply IH. cbn in H. congruence.
Qed.

(* "Size: n bits": n is the bit length of the encoded modulus *)
Lemma be_to_N_acc_spec : forall l acc, be_to_N_acc acc l = acc * 256 ^ N.of_nat (length l) + be_to_N l.
Proof.
  unfold be_to_N. induction l as [|b l IH]; intro acc.
  - cbn. lia.
  - cbn [be_to_N_acc length]. rewrite IH, (IH (0 * 256 + b)).
    rewrite Nnat.Nat2N.inj_succ, N.pow_succ_r'. lia.
Qed.

Lemma be_to_N_bound : forall l, bytes_ok l = true -> be_to_N l < 256 ^ N.of_nat (length l).
Proof.
  induction l as [|b l IH]; intro H.
  - cbn. lia.
  - apply bytes_ok_cons in H. destruct H as [Hb Hl]. specialize (IH Hl).
    unfold be_to_N in *. cbn [be_to_N_acc length]. rewrite be_to_N_acc_spec.
    rewrite Nnat.Nat2N.inj_succ, N.pow_succ_r'. unfold be_to_N. nia.
Qed.

Lemma be_to_N_strip : forall l, be_to_N (strip_zeros l) = be_to_N l.
Proof.
  induction l as [|b l IH]; [reflexivity|].
  cbn [strip_zeros]. destruct b; [|reflexivity]. rewrite IH. reflexivity.
Qed.

Theorem bitlen_be_size : forall l, bytes_ok l = true -> bitlen_be l = N.size (be_to_N l).
Proof.
  intros l H. unfold bitlen_be. rewrite <- (be_to_N_strip l).
  assert (Hs : bytes_ok (strip_zeros l) = true).
  { induction l as [|b l IH]; [reflexivity|]. cbn [strip_zeros].
    apply bytes_ok_cons in H. destruct H as [Hb Hl]. destruct b; [apply IH; exact Hl|].
    apply bytes_ok_cons. split; assumption. }
  assert (Hh : match strip_zeros l with [] => True | h :: _ => h <> 0 end).
  { clear. induction l as [|b l IH]; [exact I|]. cbn [strip_zeros]. destruct b; [exact IH|discriminate]. }
  destruct (strip_zeros l) as [|h r]; [reflexivity|].
  apply bytes_ok_cons in Hs. destruct Hs as [Hh256 Hr].
  pose proof (be_to_N_bound r Hr) as Hb.
  unfold be_to_N in *. cbn [be_to_N_acc]. rewrite be_to_N_acc_spec. fold (be_to_N r) in *.
  set (k := N.of_nat (length r)) in *. set (x := be_to_N_acc 0 r) in *.
  replace (0 * 256 + h) with h by lia.
  assert (H256 : 256 ^ k = 2 ^ (8 * k)) by (rewrite N.pow_mul_r; reflexivity).
  rewrite H256 in *.
  assert (Hpos : 0 < h) by lia.
  pose proof (N.log2_spec h Hpos) as [L1 L2].
  assert (Hn : h * 2 ^ (8 * k) + x <> 0) by (assert (0 < 2 ^ (8 * k)) by (apply N.neq_0_lt_0, N.pow_nonzero; lia); nia).
  rewrite !N.size_log2 by assumption. f_equal.
  assert (Hl : N.log2 (h * 2 ^ (8 * k) + x) = N.log2 h + 8 * k).
  { apply N.log2_unique; [lia|].
    rewrite N.pow_succ_r', N.pow_add_r. rewrite N.pow_succ_r' in L2.
    assert (Hp : 0 < 2 ^ (8 * k)) by (apply N.neq_0_lt_0, N.pow_nonzero; lia).
    set (a := 2 ^ N.log2 h) in *. set (p := 2 ^ (8 * k)) in *.
    assert (M1 : a * p <= h * p) by (apply N.mul_le_mono_r; exact L1).
    assert (M2 : (h + 1) * p <= 2 * a * p) by (apply N.mul_le_mono_r; lia).
    change (be_to_N r) with x in Hb. clearbody a p x. split; lia. }
  change (be_to_N r) with x. rewrite Hl. lia.
Qed.
