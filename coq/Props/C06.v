(* C06 — multi-entry containers list every entry, in order, as if inspected alone.
   Only statements; proofs are in Proofs/Containers.v and Proofs/ContainersSsh.v.

   Library behaviour enters as quantified parameters (never axioms); the correspondence
   check samples each stated hypothesis on every case:
     lib       one chunk of an SSH file -> the attributes built from what ssh.ParseAuthorizedKey /
               ssh.ParseKnownHosts returns (lib_accepts e: the line is accepted, with or without a CR at its end)
     enc, dec  the PEM armor of a block and encoding/pem.Decode (dec (enc b ++ rest) = Some (b, rest))
     describe  parsePEMBlock;  cert_info parseCertificate;  enc_name EncryptionAlgorithm().Name
     secret    java.UnmarshalReader on a SealedObject (secret_ok: consumes exactly the blob) *)
From WI Require Import Lib.Base Lib.Info Lib.Strings Lib.Time Model.Containers Proofs.Containers.
From WI Require Import Model.ContainersSsh Proofs.ContainersSsh.
From WI Require Model.Base64 Model.Dispatch.
Open Scope N_scope.

(* ---------------- authorized_keys / known_hosts ---------------- *)

(* For ALL layouts — any sequence of entry lines, blank lines (nothing but white-space runes in the sense of
   unicode.IsSpace: TAB, VT, FF, CR, SPACE, U+0085, U+00A0, U+1680, U+2000..U+200A, U+2028, U+2029, U+202F,
   U+205F, U+3000; or such white space up to a CR and anything after it) and comment lines (optional white
   space of that kind, '#', any text: NUL bytes, CRs, any length), LF or CRLF line endings, and 0, 1, 2, ... line
   endings after the last line — the report is "SSH authorized_keys" with exactly one child per entry,
   in input order, child i carrying the attributes of entry i.  layout_ok: an entry line starts with a
   visible character other than '#' and contains no LF/CR; a comment's text contains no LF. *)
Theorem C06_authorized_keys : forall lib its le trail,
  layout_ok its = true ->
  (forall e, In e (entries_of its) -> lib_accepts lib e) ->
  authorized_keys lib (render its le trail) =
    Ok (Info (bs "SSH authorized_keys") [] (map (ssh_child lib) (entries_of its))).
Proof. exact authorized_keys_layout. Qed.
Print Assumptions C06_authorized_keys.

(* same shape; an entry line carries markers, (hashed) host lists, key and comment, all inside lib *)
Theorem C06_known_hosts : forall lib its le trail,
  layout_ok its = true ->
  (forall e, In e (entries_of its) -> lib_accepts lib e) ->
  known_hosts lib (render its le trail) =
    Ok (Info (bs "SSH known_hosts") [] (map (ssh_child lib) (entries_of its))).
Proof. exact known_hosts_layout. Qed.
Print Assumptions C06_known_hosts.

(* the hypotheses are met by a realistic file (comment, key, blank lines of ASCII and of Unicode white space (NBSP,
   U+3000), commented-out key, a comment after U+2003 and a TAB with NUL and CR in its text, key, a line
   that is blank up to its CR, empty line) *)
Theorem C06_ssh_example : layout_ok example_layout = true /\
  (forall e, In e (entries_of example_layout) -> lib_accepts toy_lib e) /\
  entries_of example_layout = [toy_k1; toy_k2].
Proof. exact example_layout_ok. Qed.
Print Assumptions C06_ssh_example.

(* decided behaviour for a line that is neither blank nor comment and that the library rejects:
   the whole file is an error (as ssh.ParseKnownHosts itself does) — never a partial listing *)
Theorem C06_ssh_bad_line_is_error : forall lib desc data l,
  In l (split_lf data) -> ssh_skip l = false -> (exists e, lib l = Err e) ->
  (forall l', In l' (split_lf data) -> is_panic (lib l') = false) ->
  exists e, ssh_file ssh_skip lib desc data = Err e.
Proof. exact ssh_file_bad_line. Qed.
Print Assumptions C06_ssh_bad_line_is_error.

(* F15 on the pre-repair model: two keys and the final newline every real file has -> error (and
   file.Inspect fell through to "SSH public key" with the first key only); the repaired model lists both *)
Theorem C06_authorized_keys_refuted : exists lib its le trail,
  layout_ok its = true /\ (forall e, In e (entries_of its) -> lib_accepts lib e) /\
  (exists e, authorized_keys_pre lib (render its le trail) = Err e) /\
  exists k, authorized_keys lib (render its le trail) = Ok (Info (bs "SSH authorized_keys") [] k) /\ length k = 2%nat.
Proof. exact authorized_keys_pre_refuted. Qed.
Print Assumptions C06_authorized_keys_refuted.

(* F15, known_hosts: a '# comment' line made the pre-repair parser fail *)
Theorem C06_known_hosts_refuted : exists lib its le trail,
  layout_ok its = true /\ (forall e, In e (entries_of its) -> lib_accepts lib e) /\
  (exists e, known_hosts_pre lib (render its le trail) = Err e) /\
  exists k, known_hosts lib (render its le trail) = Ok (Info (bs "SSH known_hosts") [] k) /\ length k = 1%nat.
Proof. exact known_hosts_pre_refuted. Qed.
Print Assumptions C06_known_hosts_refuted.

(* ---------------- the lines, field by field ---------------- *)

(* lib is no longer abstract: ssh_auth_lib / ssh_hosts_lib (Model/Containers.v) re-model, from
   golang.org/x/crypto v0.28.0 ssh/keys.go, how ParseAuthorizedKey / ParseKnownHosts cut a line into fields
   (CR cut, TrimSpace, options scanner with quotes and escaped quotes, bytes.Fields, marker, base64 field,
   comment) down to ssh.ParsePublicKey on the decoded blob, which stays a parameter (key_of).  The
   correspondence check compares them with the library on every chunk of every generated file and on
   single lines (op sshline). *)

(* the CR half of lib_accepts is a theorem of the model: what follows the first CR of a line is never looked at *)
Theorem C06_ssh_line_cr : forall key_of l x,
  auth_line key_of (l ++ 13 :: x) = auth_line key_of l /\ hosts_line key_of (l ++ 13 :: x) = hosts_line key_of l.
Proof. intros. split; [apply auth_line_cr|apply hosts_line_cr]. Qed.
Print Assumptions C06_ssh_line_cr.

(* the file theorems with the modelled line parsers: all that is asked of an entry line is that it is accepted *)
Theorem C06_authorized_keys_model : forall key_of its le trail,
  layout_ok its = true ->
  (forall e, In e (entries_of its) -> exists a, ssh_auth_lib key_of e = Ok a) ->
  authorized_keys (ssh_auth_lib key_of) (render its le trail) =
    Ok (Info (bs "SSH authorized_keys") [] (map (ssh_child (ssh_auth_lib key_of)) (entries_of its))).
Proof. exact authorized_keys_model. Qed.
Print Assumptions C06_authorized_keys_model.

Theorem C06_known_hosts_model : forall key_of its le trail,
  layout_ok its = true ->
  (forall e, In e (entries_of its) -> exists a, ssh_hosts_lib key_of e = Ok a) ->
  known_hosts (ssh_hosts_lib key_of) (render its le trail) =
    Ok (Info (bs "SSH known_hosts") [] (map (ssh_child (ssh_hosts_lib key_of)) (entries_of its))).
Proof. exact known_hosts_model. Qed.
Print Assumptions C06_known_hosts_model.

(* One authorized_keys line, for EVERY entry written field by field (auth_entry_ok, boolean): blanks, optional
   options field (any bytes; every quoted string closed, a backslash escapes a quote, blanks only inside
   quotes: opts_ok) and blanks, key type (no blank inside), blanks, base64 field (visible ASCII), then nothing
   or a blank and any text that does not end in white space, blanks; no CR/LF.  The line is accepted, the
   key is the one of the base64 field and the comment is the rest of the line, trimmed.  With options:
   provided the text after the first blank of the line is not itself "base64 of a key blob, comment" -
   the library tries that first (known finding C06-ssh-quoted-key shows the hypothesis cannot be dropped). *)
Theorem C06_authorized_keys_line : forall key_of e key k,
  auth_entry_ok e = true ->
  Base64.std_decode Base64.Std (ae_b64 e) = Some key -> key_of key = Ok k ->
  (ae_opts e <> [] -> exists err, parse_key_field key_of (snd (span_word (auth_core e))) = Err err) ->
  ssh_auth_lib key_of (auth_text e) = Ok (key_attrs k (trim_space (ae_tail e))).
Proof. exact auth_lib_entry. Qed.
Print Assumptions C06_authorized_keys_line.

(* One known_hosts line: blanks, optional marker "@..." and blanks, host patterns, blanks, key type, blanks,
   base64 field, up to two comment words (one after a marker) each after blanks, blanks; words made of
   bytes that are neither ASCII white space nor the first byte of the UTF-8 encoding of a white-space rune
   (hosts_entry_ok).  Accepted; Hosts is the comma-separated list re-joined with ", ", the key is the one
   of the base64 field, the comment is the comment words joined by single blanks. *)
Theorem C06_known_hosts_line : forall key_of e key k,
  hosts_entry_ok e = true ->
  Base64.std_decode Base64.Std (he_b64 e) = Some key -> key_of key = Ok k ->
  ssh_hosts_lib key_of (hosts_text e) = Ok (hosts_attr (he_hosts e) :: key_attrs k (join [32] (map snd (he_comment e)))).
Proof. exact hosts_lib_entry. Qed.
Print Assumptions C06_known_hosts_line.

(* Files whose entries are written field by field, every layout of blank and comment lines, LF/CRLF, any number
   of trailing line endings: child i is "SSH public key" with Type and key attributes of the blob of entry i's
   base64 field and entry i's comment - no hypothesis about the line parsers is left, only about
   ssh.ParsePublicKey on the decoded blobs (auth_key_ok) *)
Theorem C06_authorized_keys_fields : forall key_of kinfo its le trail,
  forallb aitem_ok its = true ->
  (forall e, In e (aentries its) -> auth_key_ok key_of e (kinfo e)) ->
  authorized_keys (ssh_auth_lib key_of) (render (map aitem_item its) le trail) =
    Ok (Info (bs "SSH authorized_keys") [] (map (auth_child kinfo) (aentries its))).
Proof. exact authorized_keys_fields. Qed.
Print Assumptions C06_authorized_keys_fields.

Theorem C06_known_hosts_fields : forall key_of kinfo its le trail,
  forallb hitem_ok its = true ->
  (forall e, In e (hentries its) -> exists key, Base64.std_decode Base64.Std (he_b64 e) = Some key /\ key_of key = Ok (kinfo e)) ->
  known_hosts (ssh_hosts_lib key_of) (render (map hitem_item its) le trail) =
    Ok (Info (bs "SSH known_hosts") [] (map (hosts_child kinfo) (hentries its))).
Proof. exact known_hosts_fields. Qed.
Print Assumptions C06_known_hosts_fields.

(* the hypotheses are met: a plain entry; an entry with leading blank, options  command="say \"hi\" # x",no-pty,
   a tab, two blanks before the key, a two-word comment and trailing blanks; known_hosts entries with two hosts and a
   two-word comment, and with a marker *)
Theorem C06_ssh_fields_example :
  (forallb auth_entry_ok example_auth_entries = true /\
   forall e, In e example_auth_entries ->
     auth_key_ok toy_key_of e (bs "ssh-toy", [(bs "Size", dec_of_N (N.of_nat (length (ae_b64 e) / 4 * 3)))])) /\
  (forallb hosts_entry_ok example_hosts_entries = true /\
   forall e, In e example_hosts_entries -> exists key, Base64.std_decode Base64.Std (he_b64 e) = Some key /\
     toy_key_of key = Ok (bs "ssh-toy", [(bs "Size", dec_of_N (N.of_nat (length (he_b64 e) / 4 * 3)))])).
Proof. exact (conj example_auth_ok example_hosts_ok). Qed.
Print Assumptions C06_ssh_fields_example.

(* ---------------- SSH entries down to the bytes of the key blob ---------------- *)

(* key_of is no longer a parameter: key_of_model (Model/ContainersSsh.v) is C02's executable model of
   ssh.ParsePublicKey (wire readers parseString / parseInt, parseRSA, parseDSA, parseECDSA, parseED25519 of
   x/crypto v0.28.0) followed by C02's model of the attribute builder (sshPublicKeyAttributes ->
   cryptoPublicKeyAttributes), of exactly the type the line theorems above expect.  Two library answers remain,
   as arguments: point_ok (elliptic.Unmarshal's verdict on the point of an ecdsa-sha2-* blob) and other (the
   recorded answer for algorithm names outside C02's model: sk-*, *-cert-v01, unknown); the theorems hold for ALL
   of them, `other` is never consulted for the keys they speak of, point_ok only for ecdsa keys (inside skey_ok).
   The correspondence check evaluates every SSH case with key_of_model and compares it with the library on every
   base64 field (Run/C06.v key_of_tied, keys_agree, op keyblob).

   Keys are abstract (skey: ssh-rsa e n | ssh-dss p q g y | ecdsa-sha2-nistp256/384/521 point | ssh-ed25519 pk),
   blob_enc writes the RFC 4253 / 5656 / 8709 blob, the base64 field of the entry is the standard base64 of it.
   skey_ok (boolean): 32-bit lengths; rsa: e odd, 3 <= e < 2^24; dss: p of 1024 bits; ecdsa: point_ok accepts the
   point; ed25519: 32 octets.  For EVERY well-formed blob the model of the key parser returns describe_key k. *)
Theorem C06_key_blob_described : forall point_ok other k, skey_ok point_ok k = true ->
  key_of_model point_ok other (blob_enc k) = Ok (describe_key k).
Proof. exact key_of_model_enc. Qed.
Print Assumptions C06_key_blob_described.

(* For EVERY authorized_keys file whose entries are written field by field around the blob of an abstract key
   (kaitem_ok: skey_ok, auth_entry_ok, base64 field = base64 of blob_enc k; with an options field the word after the
   first blank of the line is not the base64 of something that starts with a wire string - first_try_rejected, boolean),
   every layout of blank and comment lines, LF/CRLF, any number of trailing line endings: the report is exactly the
   list of per-entry descriptions - "SSH public key", Type, Comment = rest of the line trimmed, the rows of
   describe_key k - in order.  No key_of parameter and no hypothesis about any library call on rsa/dss/ed25519 keys. *)
Theorem C06_authorized_keys_bytes : forall point_ok other its le trail,
  forallb (kaitem_ok point_ok) its = true ->
  authorized_keys (ssh_auth_lib (key_of_model point_ok other)) (kafile its le trail) =
    Ok (Info (bs "SSH authorized_keys") [] (map auth_described (kaentries its))).
Proof. exact authorized_keys_bytes. Qed.
Print Assumptions C06_authorized_keys_bytes.

(* same for known_hosts: optional marker, (hashed) host patterns, key type, base64 of the blob, up to two comment words *)
Theorem C06_known_hosts_bytes : forall point_ok other its le trail,
  forallb (khitem_ok point_ok) its = true ->
  known_hosts (ssh_hosts_lib (key_of_model point_ok other)) (khfile its le trail) =
    Ok (Info (bs "SSH known_hosts") [] (map hosts_described (khentries its))).
Proof. exact known_hosts_bytes. Qed.
Print Assumptions C06_known_hosts_bytes.

(* "as if inspected alone": the child listed for an entry IS the description the same key gets as a one-line public
   key file (parsers.go SSHPublicKey = ssh.ParseAuthorizedKey on the whole file + sshPublicKeyAttributes), for
   every entry: (1) for every public key file "type base64[ comment]" LF with the entry's base64 field and comment
   (alone_ok: no options field, any key type word, any blanks); (2) in particular for the file made of the entry's own
   key type word, one blank, its base64 field and its tail; (3) known_hosts: the child is that description with the
   Hosts row in front. *)
Theorem C06_ssh_entry_as_alone : forall point_ok other,
  (forall k e e', akey_entry_ok point_ok k e = true ->
     alone_ok (ae_b64 e) (trim_space (ae_tail e)) e' = true ->
     ssh_public_key_file (key_of_model point_ok other) (auth_text e' ++ [10]) = Ok (auth_described (k, e))) /\
  (forall k e, akey_entry_ok point_ok k e = true ->
     ssh_public_key_file (key_of_model point_ok other) (auth_text (alone_entry e) ++ [10]) = Ok (auth_described (k, e))) /\
  (forall k e e', hkey_entry_ok point_ok k e = true ->
     alone_ok (he_b64 e) (join [32] (map snd (he_comment e))) e' = true ->
     exists alone,
       ssh_public_key_file (key_of_model point_ok other) (auth_text e' ++ [10]) = Ok alone /\
       hosts_described (k, e) = Info ssh_key_desc (hosts_attr (he_hosts e) :: i_attrs alone) []).
Proof. exact ssh_entry_as_alone. Qed.
Print Assumptions C06_ssh_entry_as_alone.

(* non-vacuity: an authorized_keys file (comment line, an ssh-rsa entry, a blank line, an ssh-ed25519 entry behind an
   options field with a quoted blank) and a known_hosts file (two hosts + rsa key + two comment words, comment line,
   @revoked hashed host + ed25519 key) meet the hypotheses with point_ok = nothing; the descriptions are the
   expected ones (toy 12-bit modulus) *)
Example C06_ssh_bytes_example :
  forallb (kaitem_ok no_points) ex_auth_file = true /\ forallb (khitem_ok no_points) ex_hosts_file = true /\
  map (fun ke => fst (describe_key (fst ke))) (kaentries ex_auth_file) = [bs "ssh-rsa"; bs "ssh-ed25519"] /\
  map auth_described (kaentries ex_auth_file) =
    [Info (bs "SSH public key") [(bs "Type", bs "ssh-rsa"); (bs "Comment", bs "me@host");
                                 (bs "Algorithm", bs "RSA"); (bs "Size", bs "12 bits")] [];
     Info (bs "SSH public key") [(bs "Type", bs "ssh-ed25519"); (bs "Comment", bs "two words");
                                 (bs "Algorithm", bs "EdDSA"); (bs "Curve", bs "Ed25519")] []].
Proof. exact ex_files_ok. Qed.
Print Assumptions C06_ssh_bytes_example.

(* what the key parser refuses, and what that means for the file.  The model of ssh.ParsePublicKey + attribute
   builder returns a key or an error on EVERY octet string - never a panic (unless the fallback `other` panics) -
   and so do the modelled line parsers over any key parser that never panics. *)
Theorem C06_key_parser_never_panics : forall point_ok other,
  (forall b s, other b <> Panic s) ->
  (forall blob s, key_of_model point_ok other blob <> Panic s) /\
  (forall chunk, is_panic (ssh_auth_lib (key_of_model point_ok other) chunk) = false /\
                 is_panic (ssh_hosts_lib (key_of_model point_ok other) chunk) = false).
Proof. exact key_parser_never_panics. Qed.
Print Assumptions C06_key_parser_never_panics.

(* any octets after the last field of a well-formed blob: refused, for every key and every junk *)
Theorem C06_key_blob_trailing_rejected : forall point_ok other k x r, skey_ok point_ok k = true ->
  key_of_model point_ok other (blob_enc k ++ x :: r) = Err "ssh: trailing junk in public key".
Proof. exact key_of_model_trailing. Qed.
Print Assumptions C06_key_blob_trailing_rejected.

(* a well-formed known_hosts line whose key blob the key parser refuses is refused with that error (for EVERY key
   parser: the line parser hands it exactly the decoded base64 field) ... *)
Theorem C06_known_hosts_line_rejected : forall key_of e key err,
  hosts_entry_ok e = true ->
  Base64.std_decode Base64.Std (he_b64 e) = Some key -> key_of key = Err err ->
  ssh_hosts_lib key_of (hosts_text e) = Err err.
Proof. exact hosts_lib_rejected. Qed.
Print Assumptions C06_known_hosts_line_rejected.

(* ... and a known_hosts file that holds such a line (LF or CRLF), whatever its other lines are, is an error as a
   whole - never a partial listing *)
Theorem C06_known_hosts_bad_blob_is_error : forall key_of data e key err (crlf : bool),
  (forall b s, key_of b <> Panic s) ->
  In (hosts_text e ++ (if crlf then [13] else [])) (split_lf data) ->
  hosts_entry_ok e = true -> Base64.std_decode Base64.Std (he_b64 e) = Some key -> key_of key = Err err ->
  exists e', known_hosts (ssh_hosts_lib key_of) data = Err e'.
Proof. exact known_hosts_bad_blob. Qed.
Print Assumptions C06_known_hosts_bad_blob_is_error.

(* instance, about the bytes: an entry whose base64 field is a well-formed key blob followed by any octets *)
Theorem C06_known_hosts_trailing_is_error : forall point_ok other data k junk e (crlf : bool),
  (forall b s, other b <> Panic s) ->
  In (hosts_text e ++ (if crlf then [13] else [])) (split_lf data) ->
  skey_ok point_ok k = true -> junk <> [] -> bytes_ok junk = true ->
  hosts_entry_ok e = true -> he_b64 e = Base64.encode Base64.Std (blob_enc k ++ junk) ->
  exists e', known_hosts (ssh_hosts_lib (key_of_model point_ok other)) data = Err e'.
Proof. exact known_hosts_trailing_is_error. Qed.
Print Assumptions C06_known_hosts_trailing_is_error.

(* ---------------- PEM bundles ---------------- *)

(* A bundle is text, block, text, block, ..., text (pem_render); bundle_ok: no piece of text brings a
   "-----BEGIN " of its own (junk_ok / junk_end, boolean).  PGP armor is never generic PEM data and is
   not listed (listed = blocks whose type does not start with "PGP ").  Reading of the property for PEM,
   stated here and not hidden: n >= 2 listed blocks -> "multiple PEM blocks" with n children in input
   order; n = 1 -> the file IS that block (the code flattens); n = 0 -> error "no valid PEM blocks". *)
Theorem C06_pem_bundle : forall enc dec describe d,
  (forall b, prefix_of pem_begin (enc b) = true) ->
  (forall b rest, dec (enc b ++ rest) = Some (b, rest)) ->
  forall items tail,
  bundle_ok items tail = true ->
  (forall b, In b (listed items) -> describe b = Ok (d b)) ->
  pem_file dec describe (pem_render enc items tail) =
    match map d (listed items) with
    | [] => Err "no valid PEM blocks"
    | [i] => Ok i
    | k => Ok (Info (bs "multiple PEM blocks") [] k)
    end.
Proof. exact pem_file_bundle. Qed.
Print Assumptions C06_pem_bundle.

(* the hypotheses on enc/dec are satisfiable, and a bundle with leading text, an unknown label in the
   middle, a PGP block and text with dashes meets bundle_ok *)
Theorem C06_pem_example :
  ((forall b, prefix_of pem_begin (toy_enc b) = true) /\
   (forall b rest, toy_dec (toy_enc b ++ rest) = Some (b, rest))) /\
  bundle_ok example_bundle (bs "trailing text" ++ [10]) = true /\ length (listed example_bundle) = 3%nat.
Proof. exact (conj toy_pem_ok example_bundle_ok). Qed.
Print Assumptions C06_pem_example.

(* the loop of PEMFile terminates: with pem.Decode returning a strictly shorter rest, the model's fuel
   (length of the data + 1) is never exhausted and the result does not depend on it *)
Theorem C06_pem_loop_fuel : forall dec describe,
  (forall r b r', dec r = Some (b, r') -> (length r' < length r)%nat) ->
  (forall f1 f2 rest, (length rest < f1)%nat -> (length rest < f2)%nat ->
     pem_loop dec describe f1 rest = pem_loop dec describe f2 rest) /\
  ((forall b, describe b <> Err "fuel") ->
   forall f rest, (length rest < f)%nat -> pem_loop dec describe f rest <> Err "fuel").
Proof. intros dec describe H. split; [exact (pem_loop_fuel dec describe H)|exact (pem_loop_no_fuel_error dec describe H)]. Qed.
Print Assumptions C06_pem_loop_fuel.

(* ---------------- PEM bundles, about the bytes of the file ---------------- *)

(* No hypothesis about encoding/pem is left: dec is pem_dec, the Gallina model of pem.Decode
   (Model/Pem.v, go1.23.5 encoding/pem/pem.go, compared with the real decoder at every "-----BEGIN " of
   every generated case), and a block is written by [armor]: BEGIN line, header lines + empty line (if
   any), the base64 of the body in lines of any width (0: one line), END line, LF or CRLF per block; the
   END line of the last block may end the file.  bundle_text_ok (boolean): block_ok for every block
   (label without LF; header lines with ':' and without LF; body octets < 256; an empty block without
   headers has no ':' in its label), no piece of text between the blocks brings a "-----BEGIN " of its
   own, only the last block may be unterminated.  For EVERY such file PEMFile lists exactly the non-PGP
   blocks, in order. *)
Theorem C06_pem_bundle_bytes : forall describe d items tail,
  bundle_text_ok items tail = true ->
  (forall b, In b (listed_blocks items) -> describe (ablock_block b) = Ok (d (ablock_block b))) ->
  pem_file pem_dec describe (bundle_text items tail) =
    match map (fun b => d (ablock_block b)) (listed_blocks items) with
    | [] => Err "no valid PEM blocks"
    | [i] => Ok i
    | k => Ok (Info (bs "multiple PEM blocks") [] k)
    end.
Proof. exact pem_file_bytes. Qed.
Print Assumptions C06_pem_bundle_bytes.

(* dec_enc itself, proved of the model of pem.Decode for every armored block and every continuation *)
Theorem C06_pem_decode_armor : forall b rest, block_ok b = true -> (ab_fin b = true \/ rest = []) ->
  pem_dec (armor b ++ rest) = Some (ablock_block b, rest).
Proof. exact pem_dec_armor. Qed.
Print Assumptions C06_pem_decode_armor.

(* with at least two listed blocks, child i is what PEMFile reports for block i alone - however that
   block is written when it stands alone (line width, line endings, headers, final newline) *)
Theorem C06_as_if_alone_pem_bytes : forall describe d items tail,
  bundle_text_ok items tail = true ->
  (forall b, In b (listed_blocks items) -> describe (ablock_block b) = Ok (d (ablock_block b))) ->
  (2 <= length (listed_blocks items))%nat ->
  exists children,
    pem_file pem_dec describe (bundle_text items tail) = Ok (Info (bs "multiple PEM blocks") [] children) /\
    length children = length (listed_blocks items) /\
    Forall2 (fun b c => forall b', ablock_block b' = ablock_block b -> block_ok b' = true ->
                          pem_file pem_dec describe (armor b') = Ok c) (listed_blocks items) children.
Proof. exact pem_as_if_alone_bytes. Qed.
Print Assumptions C06_as_if_alone_pem_bytes.

(* pem.Decode (the model) always returns a strictly shorter rest, so PEMFile's loop terminates on every
   input: the fuel of the model is never exhausted and the result does not depend on it *)
Theorem C06_pem_terminates : forall describe,
  (forall r b r', pem_dec r = Some (b, r') -> (length r' < length r)%nat) /\
  (forall f1 f2 rest, (length rest < f1)%nat -> (length rest < f2)%nat ->
     pem_loop pem_dec describe f1 rest = pem_loop pem_dec describe f2 rest) /\
  ((forall b, describe b <> Err "fuel") ->
   forall f rest, (length rest < f)%nat -> pem_loop pem_dec describe f rest <> Err "fuel").
Proof. intros describe. split; [exact pem_dec_shorter|exact (pem_dec_loop_fuel describe)]. Qed.
Print Assumptions C06_pem_terminates.

(* the hypotheses are met by a bundle with leading text, a CRLF block, a block with headers in lines of 48,
   PGP armor, an empty block and a last block in one line whose END line ends the file *)
Theorem C06_pem_bytes_example : bundle_text_ok example_blocks [] = true /\ length (listed_blocks example_blocks) = 4%nat.
Proof. exact example_blocks_ok. Qed.
Print Assumptions C06_pem_bytes_example.

(* ---------------- PEM bundles through file.Inspect: every label ---------------- *)

(* The bundle theorems above quantify over ALL labels (block_ok asks only that a label has no LF): certificates,
   keys, requests, CRLs, PKCS#7, parameters, unknown labels, labels in other case or with extra blanks - a block
   the tool does not describe is still an entry.  What they say of PEMFile holds of file.Inspect as long as no
   row of the format table gets in front of the generic "-----BEGIN " row for such a file.  pem_routed (boolean,
   evaluated on the table regenerated from the running code): every row in front of the PEMFile row has no
   sniffer, and each of its magics either cannot start a text that starts with "-----BEGIN " or is PGP armor.
   Then, for EVERY bundle whose first bytes are a block that is not PGP armor, under EVERY file name no row
   claims, file.Inspect reports exactly what PEMFile reports: all the non-PGP blocks, in order. *)
Theorem C06_pem_table_routed : pem_routed Dispatch.table = true.
Proof. exact table_pem_routed. Qed.
Print Assumptions C06_pem_table_routed.

Theorem C06_pem_bundle_inspected : forall sniff parse describe d name b items tail,
  (forall data, parse (bs "PEMFile") data = pem_file pem_dec describe data) ->
  (forall r, In r Dispatch.table -> Dispatch.matches_name r name = Ok false) ->
  bundle_text_ok (([], b) :: items) tail = true -> is_pgp_type (ab_label b) = false ->
  (forall b', In b' (listed_blocks (([], b) :: items)) -> describe (ablock_block b') = Ok (d (ablock_block b'))) ->
  Dispatch.inspect sniff parse name (bundle_text (([], b) :: items) tail) =
    Ok (match map (fun b' => d (ablock_block b')) (listed_blocks (([], b) :: items)) with
        | [i] => i
        | k => Info (bs "multiple PEM blocks") [] k
        end)
  /\ (1 <= length (listed_blocks (([], b) :: items)))%nat.
Proof. exact pem_bundle_inspected. Qed.
Print Assumptions C06_pem_bundle_inspected.

(* ---------------- Java keystores ---------------- *)

(* The stream codec round trip, for every list of entries the format can represent (jentry_ok: field
   widths; a trusted-cert entry has exactly one certificate; chains of any length), both magics: the
   reader of jks-go returns exactly the entries written, and the report has one child per entry, in
   order, each "alias (type)" with its date and one child per certificate of its chain. *)
Theorem C06_jks : forall secret cert_info enc_name desc magic version ebs mac,
  magic_ok magic -> version < 4294967296 -> N.of_nat (length ebs) < 4294967296 -> length mac = 20%nat ->
  forallb (fun eb => jentry_ok (fst eb)) ebs = true ->
  (forall eb, In eb ebs -> secret_ok secret eb) ->
  (forall eb, In eb ebs -> certs_calm cert_info (je_certs (fst eb))) ->
  jks_parse secret (jks_encode magic version ebs mac) = Ok (map fst ebs) /\
  keystore_file cert_info enc_name true secret desc (jks_encode magic version ebs mac) =
    Ok (Info desc [] (map (entry_child cert_info enc_name) (map fst ebs))).
Proof. exact keystore_file_encode. Qed.
Print Assumptions C06_jks.

(* Nothing is outside: conversely, EVERY stream of octets that InsecureParse accepts is the writing of the entries
   it returns - jks_encode of entries that meet jentry_ok, with either magic, any version field, any 20-octet
   digest and, for a SecretKeyEntry, the octets the sealed-object reader consumed.  So the writer of C06_jks can
   represent everything the reader accepts (JCEKS secret-key entries under either magic, chains of length 0,
   aliases of any octets up to 65535, every 64-bit timestamp, unknown entry types without a body) and the
   quantifier of C06_jks ranges over all accepted keystores. *)
Theorem C06_jks_complete : forall secret data es, bytes_ok data = true -> jks_parse secret data = Ok es ->
  exists magic version ebs mac,
    magic_ok magic /\ version < 4294967296 /\ N.of_nat (length ebs) < 4294967296 /\ length mac = 20%nat /\
    forallb (fun eb => jentry_ok (fst eb)) ebs = true /\ map fst ebs = es /\
    data = jks_encode magic version ebs mac.
Proof. exact jks_parse_complete. Qed.
Print Assumptions C06_jks_complete.

(* and every accepted keystore is reported with one child per entry of the stream, in stream order *)
Theorem C06_jks_accepted : forall secret cert_info enc_name desc data es,
  jks_parse secret data = Ok es ->
  (forall e, In e es -> certs_calm cert_info (je_certs e)) ->
  keystore_file cert_info enc_name true secret desc data = Ok (Info desc [] (map (entry_child cert_info enc_name) es)).
Proof. exact keystore_file_accepted. Qed.
Print Assumptions C06_jks_accepted.

(* inside an entry: the children are the chain, complete and in order, then the key; a certificate
   that parses is described exactly as parseCertificate describes it on its own *)
Theorem C06_jks_chain : forall cert_info enc_name e,
  i_children (entry_child cert_info enc_name e) = map (cert_child cert_info) (je_certs e) ++ key_child enc_name e /\
  length (map (cert_child cert_info) (je_certs e)) = length (je_certs e) /\
  (forall c i, In c (je_certs e) -> is_x509 c = true -> cert_info (jc_bytes c) = Ok i -> cert_child cert_info c = i).
Proof. exact entry_child_chain. Qed.
Print Assumptions C06_jks_chain.

Theorem C06_jks_example :
  forallb (fun eb => jentry_ok (fst eb)) example_store = true /\
  (forall eb, In eb example_store -> secret_ok toy_secret eb) /\
  jks_parse toy_secret (jks_encode jceks_magic 2 example_store (repeat 0 20)) = Ok (map fst example_store).
Proof. exact example_store_ok. Qed.
Print Assumptions C06_jks_example.

(* the pre-repair parseJKSEntry (`continue`) on a chain [good, unparsable, good]: 2 children for 3
   certificates; the repaired code keeps 3 *)
Theorem C06_jks_chain_refuted : exists cert_info cs,
  certs_calm cert_info cs /\
  exists k, cert_children cert_info false cs = Ok k /\ length k = 2%nat /\ length cs = 3%nat /\
  exists k', cert_children cert_info true cs = Ok k' /\ length k' = 3%nat.
Proof. exact jks_chain_pre_refuted. Qed.
Print Assumptions C06_jks_chain_refuted.

(* the keystore loops terminate: the fuel is never exhausted *)
Theorem C06_jks_loops_fuel : forall secret,
  (forall off rest, secret off rest <> Err "fuel") ->
  (forall fuel count r, (length (fst r) < fuel)%nat -> read_certs fuel count r <> Err "fuel") /\
  (forall fuel count r, (length (fst r) < fuel)%nat -> read_entries secret fuel count r <> Err "fuel").
Proof. intros secret H. split; [exact read_certs_no_fuel|exact (read_entries_no_fuel secret H)]. Qed.
Print Assumptions C06_jks_loops_fuel.

(* ---------------- as if inspected alone ---------------- *)

(* SSH files: the report has as many children as entries, and child i is exactly the only child of the
   file that holds entry i alone (whatever that file's line ending and trailing newlines) *)
Theorem C06_as_if_alone_ssh : forall lib desc its le trail,
  layout_ok its = true ->
  (forall e, In e (entries_of its) -> lib_accepts lib e) ->
  exists children,
    ssh_file ssh_skip lib desc (render its le trail) = Ok (Info desc [] children) /\
    length children = length (entries_of its) /\
    Forall2 (fun e c => forall le' trail',
               ssh_file ssh_skip lib desc (render [IEntry e] le' trail') = Ok (Info desc [] [c]))
            (entries_of its) children.
Proof. exact ssh_as_if_alone. Qed.
Print Assumptions C06_as_if_alone_ssh.

(* PEM: with at least two listed blocks, child i is exactly what PEMFile reports for block i alone *)
Theorem C06_as_if_alone_pem : forall enc dec describe d,
  (forall b, prefix_of pem_begin (enc b) = true) ->
  (forall b rest, dec (enc b ++ rest) = Some (b, rest)) ->
  forall items tail,
  bundle_ok items tail = true ->
  (forall b, In b (listed items) -> describe b = Ok (d b)) ->
  (2 <= length (listed items))%nat ->
  exists children,
    pem_file dec describe (pem_render enc items tail) = Ok (Info (bs "multiple PEM blocks") [] children) /\
    length children = length (listed items) /\
    Forall2 (fun b c => pem_file dec describe (enc b) = Ok c) (listed items) children.
Proof. exact pem_as_if_alone. Qed.
Print Assumptions C06_as_if_alone_pem.
