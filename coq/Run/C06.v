(* Case runner and spec checker (T3) for C06 — stub. *)
From WI Require Import Lib.Base Lib.Info Model.Containers.
Definition run_C06 (op : bytes) (input : arg) : arg := AL [].
Definition check_C06 (op : bytes) (input impl : arg) : arg := AL [].
