(* Model of internal/file/filetype.go (MatchesName, MatchesMagic, SmellsLike),
   internal/file/info.go (candidateParsers, Inspect).  Sniffers and parsers are
   parameters here; their concrete models live in the other Model files. *)
From WI Require Import Lib.Base Lib.Info Lib.Strings.
From WI Require gen.FileTypes.
Open Scope N_scope.

Definition table : list row := gen.FileTypes.table.

(* filetype.MatchesName: one pattern *)
Definition pattern_matches (name p : bytes) : result bool :=
  if bytes_eqb p [42] then Ok true
  else
    let s := trim_both 42 p in
    if contains [42] s then Panic "filetype.go:MatchesName wildcard must be prefix or suffix"
    else
      let star_pre := has_prefix [42] p in
      let star_suf := has_suffix [42] p in
      if star_pre && star_suf then Ok (contains s name)
      else if star_pre then Ok (has_suffix s name)
      else if star_suf then Ok (has_prefix s name)
      else Ok (bytes_eqb name s).

Fixpoint patterns_match (name : bytes) (ps : list bytes) : result bool :=
  match ps with
  | [] => Ok false
  | p :: r =>
      match pattern_matches name p with
      | Ok true => Ok true
      | Ok false => patterns_match name r
      | Err e => Err e
      | Panic e => Panic e
      end
  end.

Definition matches_name (r : row) (name : bytes) : result bool :=
  match name with
  | [] => Ok false
  | _ => patterns_match (basename name) (r_patterns r)
  end.

Definition matches_magic (r : row) (data : bytes) : bool :=
  existsb (fun m => prefix_of m data) (r_magics r).

Section Inspect.
  Variable sniff : bytes -> bytes -> bool.            (* sniffer name -> data -> verdict *)
  Variable parse : bytes -> bytes -> result info.     (* parser name -> data -> outcome *)

  Definition smells_like (r : row) (data : bytes) : bool :=
    match r_sniffer r with [] => false | n => sniff n data end.

  Definition row_matches (name data : bytes) (r : row) : result bool :=
    match matches_name r name with
    | Ok true => Ok true
    | Ok false => Ok (matches_magic r data || smells_like r data)
    | Err e => Err e
    | Panic e => Panic e
    end.

  (* candidateParsers: table order, not deduplicated *)
  Fixpoint candidates_in (t : list row) (name data : bytes) : result (list bytes) :=
    match t with
    | [] => Ok []
    | r :: rest =>
        match row_matches name data r with
        | Ok b =>
            match candidates_in rest name data with
            | Ok l => Ok (if b then r_parser r :: l else l)
            | x => x
            end
        | Err e => Err e
        | Panic e => Panic e
        end
    end.

  (* the loop of Inspect: the first parser that returns no error wins; a failed
     parser's partial result is dropped; a panic propagates *)
  Fixpoint first_success (ps : list bytes) (data : bytes) : result info :=
    match ps with
    | [] => Ok empty_info
    | p :: rest =>
        match parse p data with
        | Ok i => Ok i
        | Err _ => first_success rest data
        | Panic e => Panic e
        end
    end.

  Definition inspect_in (t : list row) (name data : bytes) : result info :=
    match candidates_in t name data with
    | Ok ps => first_success ps data
    | Err e => Err e
    | Panic e => Panic e
    end.

  Definition inspect := inspect_in table.
End Inspect.

(* the two reserved SSH file names of the property; they apply to exact base names *)
Definition reserved_names : list bytes := [bs "authorized_keys"; bs "known_hosts"].
Definition reserved_name (name : bytes) : bool :=
  match name with [] => false | _ => existsb (bytes_eqb (basename name)) reserved_names end.

(* every name pattern of the table is one of the reserved names, literally *)
Definition only_reserved_patterns (t : list row) : bool :=
  forallb (fun r => forallb (fun p => existsb (bytes_eqb p) reserved_names) (r_patterns r)) t.

(* ---- well-formedness of the regenerated table (boolean; instance lemma by vm_compute) ---- *)
Definition is_sig_row (r : row) : bool :=
  match r_patterns r, r_magics r, r_sniffer r with
  | [], _ :: _, [] => true
  | _, _, _ => false
  end.

Fixpoint sig_prefix (t : list row) : list row :=
  match t with
  | r :: rest => if is_sig_row r then r :: sig_prefix rest else []
  | [] => []
  end.

Definition compatible (a b : bytes) : bool := prefix_of a b || prefix_of b a.

(* later signature rows never shadow... earlier rows may only be MORE specific:
   for i < j and compatible magics mi, mj: mj is a prefix of mi *)
Fixpoint sig_order_ok (t : list row) : bool :=
  match t with
  | [] => true
  | r :: rest =>
      forallb (fun r' =>
        forallb (fun m => forallb (fun m' => negb (compatible m m') || prefix_of m' m) (r_magics r')) (r_magics r))
        rest
      && sig_order_ok rest
  end.

Definition no_wildcards (t : list row) : bool :=
  forallb (fun r => forallb (fun p => negb (contains [42] p)) (r_patterns r)) t.

Definition has_parsers (t : list row) : bool :=
  forallb (fun r => match r_parser r with [] => false | _ => true end) t.

Definition table_ok (t : list row) : bool :=
  sig_order_ok (sig_prefix t) && no_wildcards t && has_parsers t.
