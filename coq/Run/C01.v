(* Case runner and spec checker (T3) for C01. *)
From WI Require Import Lib.Base Lib.Info Model.Safety.
Open Scope N_scope.

(* The model's prediction for every input: inspection terminates normally (outcome class 0),
   the CLI prints exactly one report (starting "path: ", ending in a line terminator) and exits 0.
   inspect: input (name data), observation (class detail)   class 0 ok, 2 panic, 3 fatal, 4 deadline, 5 memory
   cli:     input (path data), observation (exit-status starts-with-path ends-with-newline reports)
            exit-status -2: the process was ended at its deadline (5 s for one file) without having finished;
            reports = number of report heads (output lines that do not start with a space) printed for the file;
            for the structured families the data is the inspect case of the same run named in the input, and is
            repeated in the input only when the observation is not the expected one. *)
Definition run_C01 (op : bytes) (input : arg) : arg :=
  if bytes_eqb op (bs "inspect") then AL [AZ 0; AB []]
  else if bytes_eqb op (bs "cli") then AL [AZ 0; AZ 1; AZ 1; AZ 1]
  else AL [].

Definition check_C01 (op : bytes) (input impl : arg) : arg :=
  if bytes_eqb op (bs "inspect") then
    match arg_Z (arg_nth 0 impl) with
    | 0%Z => AL []
    | 2%Z => AB (bs "panic reachable from file content: " ++ arg_bytes (arg_nth 1 impl))
    | 3%Z => AB (bs "fatal runtime error reachable from file content: " ++ arg_bytes (arg_nth 1 impl))
    | 4%Z => AS "inspection did not terminate within the deadline"
    | 5%Z => AS "inspection exhausted the memory limit"
    | _ => AS "malformed observation"
    end
  else if bytes_eqb op (bs "cli") then
    if Z.eqb (arg_Z (arg_nth 0 impl)) (-2) then AS "command-line tool did not terminate within the deadline"
    else if negb (Z.eqb (arg_Z (arg_nth 0 impl)) 0) then AS "command-line tool exited with non-zero status"
    else if negb (arg_bool (arg_nth 1 impl)) then AS "command-line tool did not print a report for the file"
    else if negb (arg_bool (arg_nth 2 impl)) then AS "report not terminated"
    else if negb (Z.eqb (arg_Z (arg_nth 3 impl)) 1) then AS "command-line tool did not print exactly one report for the file"
    else AL []
  else AL [].
