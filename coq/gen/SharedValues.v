(* GENERATED on every run by tools/gen_tables.py from /repo (do not edit). *)
From Coq Require Import List NArith ZArith.
Import ListNotations.
From Coq Require Import String.
Open Scope string_scope.
(* (variable, (len, cap) of .Attributes, (len, cap) of .Children) *)
Definition shared_values : list (string * (nat * nat) * (nat * nat)) := [
  ("internal/file.UnknownASN1Data", (0%nat, 0%nat), (0%nat, 0%nat));
  ("internal/file.UnknownPEMData", (0%nat, 0%nat), (0%nat, 0%nat))
].
