package main

// C10 — order-sensitive contents.  A scan describes many files in ONE process; the property
// says its output is the concatenation of the single-file runs, so nothing a file leaves
// behind (a remembered table row, a used-up budget, a cache) may change how a later file is
// described.  The trees built here hold the families of inputs that such shortcuts confuse
// (the families of harness/c09_inputs.go, read-only, plus a few of our own), arranged BY NAME
// so that the depth-first name order of the scan visits them in the critical order: in both
// orders, across sibling directories (every file keeps its own name: authorized_keys,
// known_hosts, *.pub, *.der matter to the format table), in one directory, and as explicit
// argument lists.  The oracle stays each file's single run.

import (
	"bytes"
	"crypto/ed25519"
	"encoding/base64"
	"encoding/pem"
	"fmt"
	"strings"
	"time"
)

// c10OwnFamilies: families that harness/c09_inputs.go does not have in the shape needed here.
func c10OwnFamilies(c *Ctx) []c09Fam {
	var fams []c09Fam
	line := func(p ed25519.PublicKey, comment string) string {
		blob := cat(c09SSHString([]byte("ssh-ed25519")), c09SSHString(p))
		s := "ssh-ed25519 " + base64.StdEncoding.EncodeToString(blob)
		if comment != "" {
			s += " " + comment
		}
		return s + "\n"
	}
	var keys []ed25519.PublicKey
	for i := 0; i < 5; i++ {
		keys = append(keys, ed25519.NewKeyFromSeed(c.R.Bytes(32)).Public().(ed25519.PublicKey))
	}

	// (1) a name claimed by one row, a content claimed by another, after inputs of each other format
	{
		f := c09Fam{name: "claimed-by-several-rows"}
		idx := map[string][]int{}
		add := func(tag, name string, d []byte) int {
			f.items = append(f.items, c09In{tag, name, d})
			idx[tag] = append(idx[tag], len(f.items)-1)
			return len(f.items) - 1
		}
		for _, in := range c09Ambiguous(c) {
			add(in.tag, in.name, in.data)
		}
		pub := add("pub", "admin.pub", []byte(line(keys[0], "admin@host")))
		pub2 := add("pub", "zz.pub", []byte(line(keys[1], "zz@host")))
		ak := add("authorized-keys", "authorized_keys", []byte(line(keys[0], "admin@host")+line(keys[1], "zz@host")))
		ak1 := add("authorized-keys-one-line", "authorized_keys", []byte(line(keys[0], "admin@host")))
		kh := add("known-hosts", "known_hosts", []byte("host1.example,10.0.0.1 "+line(keys[2], "")+"host2.example "+line(keys[3], "")))
		kh1 := add("known-hosts-one-line", "known_hosts", []byte("host1.example "+line(keys[0], "")))
		der := add("der", "a.der", c09SmallDER)
		der2 := add("der", "c.der", c09Nested(3, []byte{0x02, 0x01, 0x05, 0x0c, 0x02, 'h', 'i'}))
		bin := add("binary", "blob.bin", c.R.Bytes(200))
		cert := add("cert-der", "cert.der", c09Cert(c.R.Bytes(32), "order.example", 77, time.Unix(1600000000, 0).UTC(), time.Unix(1700000000, 0).UTC(), nil))
		// *.pub before authorized_keys / known_hosts, and the reverse
		f.seqs = append(f.seqs,
			[]int{pub, ak, pub2, kh, ak1, pub, kh1, ak},
			[]int{ak, pub, kh, pub2, ak1, kh1})
		// DER before a JWT that is also one BER value, before Base64 text that is one BER value
		s := []int{der}
		for _, i := range idx["ambiguous-jwt-one-tlv"] {
			s = append(s, i, der2)
		}
		s = append(s, cert)
		for _, i := range idx["ambiguous-b64-one-tlv"] {
			s = append(s, i, bin, i, der)
		}
		for _, i := range idx["jwt-near-one-tlv"] {
			s = append(s, i)
		}
		f.seqs = append(f.seqs, s)
		// the names that a row claims holding every other format, each after a genuine file of that name
		for _, name := range []string{"authorized_keys", "known_hosts"} {
			genuine := ak
			if name == "known_hosts" {
				genuine = kh
			}
			s := []int{pub}
			for i, it := range f.items {
				if strings.HasPrefix(it.tag, "ambiguous-name-"+name+"-") {
					s = append(s, genuine, i)
				}
			}
			s = append(s, pub2, der)
			f.seqs = append(f.seqs, s)
		}
		fams = append(fams, f)
	}

	// (2) two files of the same multi-entry kind one after the other
	{
		f := c09Fam{name: "two-of-a-kind"}
		add := func(tag, name string, d []byte) int {
			f.items = append(f.items, c09In{tag, name, d})
			return len(f.items) - 1
		}
		akA := add("authorized-keys-3", "authorized_keys", []byte(line(keys[0], "a@h")+line(keys[1], "b@h")+line(keys[2], "c@h")))
		akB := add("authorized-keys-1", "authorized_keys", []byte(line(keys[3], "d@h")))
		akC := add("authorized-keys-2-options", "authorized_keys", []byte("no-pty "+line(keys[4], "e@h")+"command=\"x y\",no-agent-forwarding "+line(keys[0], "a@h")))
		khA := add("known-hosts-3", "known_hosts", []byte("h1 "+line(keys[0], "")+"h2,h3 "+line(keys[1], "")+"|1|abc=|def= "+line(keys[2], "")))
		khB := add("known-hosts-1", "known_hosts", []byte("@cert-authority *.example "+line(keys[3], "")))
		t0, t1 := time.Unix(1650000000, 0).UTC(), time.Unix(1750000000, 0).UTC()
		certs := [][]byte{}
		for i := 0; i < 4; i++ {
			certs = append(certs, pem.EncodeToMemory(&pem.Block{Type: "CERTIFICATE", Bytes: c09Cert(c.R.Bytes(32), fmt.Sprintf("bundle%d.example", i), int64(100+i), t0, t1, []string{fmt.Sprintf("b%d.example", i)})}))
		}
		pb3 := add("pem-bundle-3", "chain.pem", cat(certs[0], certs[1], certs[2]))
		pb2 := add("pem-bundle-2", "chain2.pem", cat(certs[3], certs[0]))
		pb1 := add("pem-single", "one.pem", certs[1])
		pbMixed := add("pem-bundle-mixed", "mixed.pem", cat(certs[2], pem.EncodeToMemory(&pem.Block{Type: "X", Bytes: []byte{1, 2, 3}}), certs[3]))
		jks := fixture("java/keystore.jks")
		k1 := add("jks", "a.jks", jks)
		k2 := add("jks", "b.jks", jks)
		// two JWTs with different field sets: the second lacks fields of the first
		jFull := add("jwt-many-fields", "full.jwt", jwtWith(
			map[string]any{"iss": "https://issuer.example", "sub": "alice", "aud": "api", "exp": 1900000000, "nbf": 1700000000, "iat": 1700000000, "jti": "id-1", "name": "Alice"},
			map[string]any{"alg": "ES256", "typ": "JWT", "kid": "key-1", "cty": "x"}))
		jLess := add("jwt-few-fields", "less.jwt", jwtWith(map[string]any{"sub": "bob"}, map[string]any{"alg": "none"}))
		jOther := add("jwt-other-fields", "other.jwt", jwtWith(map[string]any{"aud": []string{"a", "b"}, "exp": 1800000000}, map[string]any{"alg": "HS256", "typ": "JWT"}))
		f.seqs = append(f.seqs,
			[]int{akA, akB, akC, akA, khA, khB, khA, akB},
			[]int{pb3, pb2, pb1, pbMixed, pb3, pb1, pb2},
			[]int{k1, k2, pb3, k1},
			[]int{jFull, jLess, jOther, jLess, jFull})
		fams = append(fams, f)
	}
	return fams
}

// c10CapSeq bounds what one tree costs: at most maxLen entries, at most two occurrences of an
// item larger than 30 kB, at most `big` items whose description is very long.
func c10CapSeq(items []c09In, seq []int, maxLen int) []int {
	var out []int
	seen := map[int]int{}
	for _, i := range seq {
		if len(out) >= maxLen {
			break
		}
		if len(items[i].data) > 30000 && seen[i] >= 2 {
			continue
		}
		if strings.HasPrefix(items[i].tag, "der-many-elements") && seen[i] >= 1 {
			continue // its description is 1.5 MB
		}
		seen[i]++
		out = append(out, i)
	}
	return out
}

func c10OrderCases(c *Ctx, add func(kind string, tree []*fnode, argv ...string) *wcase) {
	fams := []c09Fam{c09BudgetDER(c), c09SSHFamily(c), c09CertFamily(c), c09JWTFamily(c), c09B64Family(c), c09BudgetOther(c), c09BudgetPGP(c), c09PGPFamily(c, c.R.Intn(3), 1)}
	fams = append(fams, c10OwnFamilies(c)...)
	maxLen := 14
	if c.Thorough() {
		maxLen = 40
	}
	for _, f := range fams {
		for si, seq0 := range f.seqs {
			seq := c10CapSeq(f.items, seq0, maxLen)
			if len(seq) < 2 {
				continue
			}
			// descriptions of 1.5 MB (10^5 elements) and 1 MB (1000 levels, indented): fewer layouts
			heavy, large := false, false
			for _, i := range seq {
				if strings.HasPrefix(f.items[i].tag, "der-many-elements") {
					heavy = true
				}
				if f.items[i].tag == "der-at-limit" || f.items[i].tag == "der-near-limit" {
					large = true
				}
			}
			rev := make([]int, len(seq))
			for i := range seq {
				rev[i] = seq[len(seq)-1-i]
			}
			tag := fmt.Sprintf("%s-%d", f.name, si)
			// across sibling directories: o/00/<name>, o/01/<name>, ... (created in shuffled order)
			siblings := func(s []int) ([]*fnode, []string) {
				var ch []*fnode
				var paths []string
				for k, i := range s {
					d := fmt.Sprintf("%02d", k)
					ch = append(ch, dir(d, reg(f.items[i].name, f.items[i].data)))
					paths = append(paths, "o/"+d+"/"+f.items[i].name)
				}
				for i := len(ch) - 1; i > 0; i-- {
					j := c.R.Intn(i + 1)
					ch[i], ch[j] = ch[j], ch[i]
				}
				return []*fnode{dir("o", ch...), reg("zz-after", []byte("hello\n"))}, paths
			}
			tree, paths := siblings(seq)
			add("walk:order-siblings-"+tag, tree, "-r", "o", "zz-after")
			if heavy && !c.Thorough() {
				continue
			}
			treeR, _ := siblings(rev)
			add("walk:order-siblings-rev-"+tag, treeR, "-r", "o", "zz-after")
			if large && !c.Thorough() {
				continue
			}
			// the same files named one by one, in the critical order and in the opposite one
			tree2, _ := siblings(seq)
			add("walk:order-args-"+tag, tree2, append([]string{"--"}, paths...)...)
			var back []string
			for i := len(paths) - 1; i >= 0; i-- {
				back = append(back, paths[i])
			}
			tree3, _ := siblings(seq)
			add("walk:order-args-rev-"+tag, tree3, append([]string{"--"}, back...)...)
			// in one directory: the position is a prefix of the name (suffix patterns of the format
			// table still apply; names claimed as a whole keep their name in one place at most)
			var one []*fnode
			for k, i := range seq {
				nm := fmt.Sprintf("%02d-%s", k, f.items[i].name)
				one = append(one, reg(nm, f.items[i].data))
			}
			add("walk:order-onedir-"+tag, []*fnode{dir("o", one...)}, "-r", "o")
		}
	}

	// names as they are met in practice, in one directory: the byte order of the names IS the critical order
	fam := c10OwnFamilies(c)[0]
	byTag := func(tag string) []byte {
		for _, it := range fam.items {
			if it.tag == tag {
				return it.data
			}
		}
		return nil
	}
	pub, ak, kh := byTag("pub"), byTag("authorized-keys"), byTag("known-hosts")
	jwtTLV := byTag("ambiguous-jwt-one-tlv")
	add("walk:order-natural-ssh", []*fnode{dir("ssh", reg("admin.pub", pub), reg("authorized_keys", ak), reg("known_hosts", kh), reg("zz.pub", pub))}, "-r", "ssh")
	add("walk:order-natural-ssh", []*fnode{dir("ssh", reg("authorized_keys", ak), reg("known_hosts", kh), reg("zz.pub", pub), reg("Admin.pub", pub))}, "-r", "ssh")
	add("walk:order-natural-ssh", []*fnode{dir("home", dir("alice", dir(".ssh", reg("authorized_keys", ak), reg("id.pub", pub), reg("known_hosts", kh))),
		dir("bob", dir(".ssh", reg("authorized_keys", byTag("authorized-keys-one-line")), reg("known_hosts", byTag("known-hosts-one-line")))),
		dir("carol", dir(".ssh", reg("authorized_keys", ak))))}, "-r", "home")
	add("walk:order-natural-ssh", []*fnode{dir("ssh", reg("admin.pub", pub), reg("authorized_keys", ak), reg("known_hosts", kh))}, "ssh/admin.pub", "ssh/authorized_keys", "ssh/known_hosts", "ssh/admin.pub")
	if jwtTLV != nil {
		bin := bytes.Repeat([]byte{0x30, 0x03, 0x02, 0x01, 0x07}, 1)
		add("walk:order-natural-der-jwt", []*fnode{dir("x", reg("a.der", bin), reg("b.jwt", jwtTLV), reg("c.der", c09SmallDER))}, "-r", "x")
		add("walk:order-natural-der-jwt", []*fnode{dir("x", reg("a.jwt", jwtTLV), reg("b.der", bin), reg("c.jwt", jwtTLV))}, "-r", "x")
		add("walk:order-natural-der-jwt", []*fnode{dir("x", reg("a.der", bin), reg("b.jwt", jwtTLV))}, "x/a.der", "x/b.jwt", "x/a.der")
	}
	// budget consumers in one directory under their own names
	der := c09BudgetDER(c)
	var l []*fnode
	for _, it := range der.items {
		if strings.HasPrefix(it.tag, "der-many-elements") || strings.HasPrefix(it.tag, "der-huge") || it.tag == "der-at-limit" {
			continue
		}
		l = append(l, reg(it.name, it.data))
	}
	// (d1001.der, d5000.der, f400.der ... sort before plain.der, small.der, strings.der; "0-" and "~" copies go round them)
	l = append(l, reg("0-small.der", c09SmallDER), reg("~small.der", c09SmallDER))
	add("walk:order-natural-budget-der", []*fnode{dir("asn1", l...)}, "-r", "asn1")
}

// c10OrderContents: small members of the same families for the content pool of the random trees.
func c10OrderContents(c *Ctx) [][]byte {
	var out [][]byte
	der := c09BudgetDER(c)
	for _, it := range der.items {
		if len(it.data) < 6000 {
			out = append(out, it.data)
		}
	}
	own := c10OwnFamilies(c)
	n := 0
	for _, it := range own[0].items {
		if strings.HasPrefix(it.tag, "ambiguous-jwt") || strings.HasPrefix(it.tag, "ambiguous-b64") || it.tag == "pub" || strings.HasPrefix(it.tag, "authorized") || strings.HasPrefix(it.tag, "known") {
			if n%2 == 0 {
				out = append(out, it.data)
			}
			n++
		}
	}
	for _, it := range own[1].items {
		if len(it.data) < 3000 {
			out = append(out, it.data)
		}
	}
	return out
}
