"""T1 generator for C09: the shared description values (returned by value; callers append to
the copies' slices) with the length and capacity of their slices in the running code
-> coq/gen/SharedValues.v."""
from gen_tables import generator

@generator("SharedValues.v", "c09_shared_values")
def shared_values(t):
    rows = []
    for r in t["c09_shared_values"]:
        rows.append('  ("%s", (%d%%nat, %d%%nat), (%d%%nat, %d%%nat))' % (r["Name"], r["AttrLen"], r["AttrCap"], r["ChildLen"], r["ChildCap"]))
    return ("From Coq Require Import String.\nOpen Scope string_scope.\n"
            "(* (variable, (len, cap) of .Attributes, (len, cap) of .Children) *)\n"
            "Definition shared_values : list (string * (nat * nat) * (nat * nat)) := [\n" + ";\n".join(rows) + "\n].\n")
