(* Lemmas about Lib/Sha1.v (SHA-1, FIPS 180-4, in Gallina): the digest of EVERY input is exactly
   20 octets, each below 256; the padded message is a whole number of 64-octet blocks and the
   fuel of the block loop always suffices (every block is compressed); the FIPS 180 test vectors. *)
From Coq Require Import ZifyN ZifyNat ZifyBool.
From WI Require Import Lib.Base Lib.Sha1.
Open Scope N_scope.

Lemma sha1_N_to_be_length : forall w n, length (N_to_be w n) = w.
Proof. induction w; intros; simpl; [reflexivity|]. rewrite app_length, IHw. simpl. lia. Qed.

Lemma sha1_bytes_ok_app : forall a b, bytes_ok (a ++ b) = bytes_ok a && bytes_ok b.
Proof. intros. unfold bytes_ok. apply forallb_app. Qed.

Lemma sha1_N_to_be_ok : forall w n, bytes_ok (N_to_be w n) = true.
Proof.
  induction w; intros; simpl; [reflexivity|].
  rewrite sha1_bytes_ok_app, IHw. cbn [bytes_ok forallb andb]. unfold byte_ok.
  assert (n mod 256 < 256) by (apply N.mod_lt; discriminate).
  destruct (n mod 256 <? 256) eqn:E; [reflexivity|]. apply N.ltb_ge in E. lia.
Qed.

(* the digest is the big-endian form of five 32-bit words, whatever the compression computed *)
Lemma sha1_digest_form : forall l, exists a b c d e,
  sha1 l = N_to_be 4 a ++ N_to_be 4 b ++ N_to_be 4 c ++ N_to_be 4 d ++ N_to_be 4 e.
Proof.
  intros l. unfold sha1.
  destruct (sha1_blocks _ _ _) as [[[[a b] c] d] e]. exists a, b, c, d, e. reflexivity.
Qed.

Theorem sha1_length : forall l, length (sha1 l) = 20%nat.
Proof.
  intros l. destruct (sha1_digest_form l) as (a & b & c & d & e & E). rewrite E.
  repeat rewrite app_length. repeat rewrite sha1_N_to_be_length. reflexivity.
Qed.

Theorem sha1_bytes_ok : forall l, bytes_ok (sha1 l) = true.
Proof.
  intros l. destruct (sha1_digest_form l) as (a & b & c & d & e & E). rewrite E.
  repeat rewrite sha1_bytes_ok_app. repeat rewrite sha1_N_to_be_ok. reflexivity.
Qed.

Theorem sha1_octets : forall l x, In x (sha1 l) -> x < 256.
Proof.
  intros l x Hin. pose proof (sha1_bytes_ok l) as B. unfold bytes_ok in B.
  rewrite forallb_forall in B. specialize (B x Hin). unfold byte_ok in B. apply N.ltb_lt in B. exact B.
Qed.

(* ---- padding: a whole number of blocks, the message in front, the bit length behind ---- *)
Theorem sha1_pad_blocks : forall l, (length (sha1_pad l) mod 64 = 0)%nat.
Proof.
  intros l. unfold sha1_pad. repeat rewrite app_length. rewrite repeat_length, sha1_N_to_be_length.
  cbn [length].
  set (n := length l).
  pose proof (Nat.mod_upper_bound n 64 ltac:(discriminate)) as Hn.
  pose proof (Nat.div_mod n 64 ltac:(discriminate)) as Dn.
  set (r := (n mod 64)%nat) in *. set (q := (n / 64)%nat) in *.
  pose proof (Nat.mod_upper_bound (119 - r) 64 ltac:(discriminate)) as Hk.
  pose proof (Nat.div_mod (119 - r) 64 ltac:(discriminate)) as Dk.
  set (k := ((119 - r) mod 64)%nat) in *. set (qk := ((119 - r) / 64)%nat) in *.
  (* n + 1 + k + 8 = 64 * (q + qk' + ...) *)
  assert (E : (n + (1 + (k + 8)) = 64 * (q + 2 - qk))%nat).
  { assert (qk = 0 \/ qk = 1)%nat as [Q|Q] by lia; lia. }
  rewrite E. rewrite Nat.mul_comm. apply Nat.mod_mul. discriminate.
Qed.

Theorem sha1_pad_prefix : forall l, take (length l) (sha1_pad l) = l.
Proof.
  intros l. unfold sha1_pad. generalize ([128] ++ repeat 0 (Nat.modulo (119 - Nat.modulo (length l) 64) 64) ++ N_to_be 8 (8 * N.of_nat (length l))).
  induction l; intros; simpl; [reflexivity|]. rewrite IHl. reflexivity.
Qed.

(* ---- the block loop: with enough fuel it is the fold over the 64-octet chunks; the fuel that
        [sha1] passes is enough for every input ---- *)
Lemma sha1_drop_length : forall {A} n (l : list A), length (drop n l) = (length l - n)%nat.
Proof. induction n; destruct l; simpl; auto. Qed.

Lemma sha1_blocks_S : forall f s l, sha1_blocks (S f) s l =
  match l with [] => s | _ => sha1_blocks f (sha1_block s (take 64 l)) (drop 64 l) end.
Proof. reflexivity. Qed.

Lemma sha1_blocks_fuel : forall f1 f2 s l, (length l / 64 < f1)%nat -> (length l / 64 < f2)%nat ->
  sha1_blocks f1 s l = sha1_blocks f2 s l.
Proof.
  induction f1; intros f2 s l H1 H2; [lia|].
  destruct f2; [lia|]. rewrite !sha1_blocks_S. destruct l as [|x l'] eqn:El; [reflexivity|].
  rewrite <- El in *. clear El x l'.
  destruct (Nat.lt_ge_cases (length l) 64) as [Hs|Hs].
  - (* the last, short chunk: the rest is empty *)
    assert (D : drop 64 l = []).
    { apply length_zero_iff_nil. rewrite sha1_drop_length. lia. }
    rewrite D. destruct f1, f2; reflexivity.
  - assert (L : (length (drop 64 l) / 64 = length l / 64 - 1)%nat).
    { rewrite sha1_drop_length.
      replace (length l) with ((length l - 64) + 1 * 64)%nat at 2 by lia.
      rewrite Nat.div_add by discriminate. lia. }
    assert (1 <= length l / 64)%nat.
    { apply Nat.div_le_lower_bound; [discriminate|lia]. }
    apply IHf1; lia.
Qed.

(* no block is left uncompressed: more fuel never changes the digest *)
Theorem sha1_fuel_enough : forall l extra s,
  let p := sha1_pad l in
  sha1_blocks (S (Nat.div (length p) 64) + extra) s p = sha1_blocks (S (Nat.div (length p) 64)) s p.
Proof. intros l extra s p. apply sha1_blocks_fuel; lia. Qed.

(* ---- the message schedule (FIPS 180-4 6.1.2 step 1): W_t = M_t for t < 16 and
        W_t = ROTL^1 (W_(t-3) xor W_(t-8) xor W_(t-14) xor W_(t-16)) for 16 <= t < 80, for every block ---- *)
Definition schedule (w16 : list N) : list N := rev (extend 64 (rev w16)).
Definition sched_rec (W : list N) (t : nat) : Prop :=
  nth t W 0 = rotl32 1 (N.lxor (N.lxor (nth (t - 3) W 0) (nth (t - 8) W 0)) (N.lxor (nth (t - 14) W 0) (nth (t - 16) W 0))).

Lemma extend_app : forall k r, exists pre, extend k r = pre ++ r /\ length pre = k.
Proof.
  induction k; intros r; [exists []; auto|]. cbn [extend].
  destruct (IHk (rotl32 1 (N.lxor (N.lxor (nth 2 r 0) (nth 7 r 0)) (N.lxor (nth 13 r 0) (nth 15 r 0))) :: r)) as (pre & E & L).
  exists (pre ++ [rotl32 1 (N.lxor (N.lxor (nth 2 r 0) (nth 7 r 0)) (N.lxor (nth 13 r 0) (nth 15 r 0)))]).
  rewrite E, <- app_assoc. split; [reflexivity|]. rewrite app_length. simpl. lia.
Qed.

Lemma extend_inv : forall k r, (16 <= length r)%nat ->
  (forall t, (16 <= t < length r)%nat -> sched_rec (rev r) t) ->
  forall t, (16 <= t < k + length r)%nat -> sched_rec (rev (extend k r)) t.
Proof.
  induction k; intros r L Inv t Ht; [apply Inv; simpl in Ht; lia|].
  cbn [extend]. set (w := rotl32 1 (N.lxor (N.lxor (nth 2 r 0) (nth 7 r 0)) (N.lxor (nth 13 r 0) (nth 15 r 0)))).
  apply IHk; [simpl; lia| |simpl; lia].
  intros u Hu. cbn [length] in Hu. unfold sched_rec. cbn [rev].
  destruct (Nat.eq_dec u (length r)) as [->|Ne].
  - rewrite app_nth2 by (rewrite rev_length; lia). rewrite rev_length, Nat.sub_diag. cbn [nth].
    rewrite !app_nth1 by (rewrite rev_length; lia).
    rewrite !rev_nth by lia.
    replace (length r - S (length r - 3))%nat with 2%nat by lia.
    replace (length r - S (length r - 8))%nat with 7%nat by lia.
    replace (length r - S (length r - 14))%nat with 13%nat by lia.
    replace (length r - S (length r - 16))%nat with 15%nat by lia.
    reflexivity.
  - rewrite !app_nth1 by (rewrite rev_length; lia). apply Inv. lia.
Qed.

Theorem sha1_schedule : forall w16, length w16 = 16%nat ->
  length (schedule w16) = 80%nat /\
  (forall t, (t < 16)%nat -> nth t (schedule w16) 0 = nth t w16 0) /\
  (forall t, (16 <= t < 80)%nat -> sched_rec (schedule w16) t).
Proof.
  intros w16 L. unfold schedule.
  destruct (extend_app 64 (rev w16)) as (pre & E & Lp).
  split; [|split].
  - rewrite rev_length, E, app_length, rev_length. lia.
  - intros t Ht. rewrite E, rev_app_distr, rev_involutive. apply app_nth1. lia.
  - intros t Ht. apply extend_inv; rewrite ?rev_length; try lia.
Qed.

(* every block of the padded message has 64 octets, i.e. 16 words *)
Lemma words_of_length : forall n l, length l = (4 * n)%nat -> length (words_of l) = n.
Proof.
  induction n; intros l L.
  - destruct l; [reflexivity|discriminate].
  - do 4 (destruct l as [|? l]; [simpl in L; lia|]). cbn [words_of length]. f_equal. apply IHn. simpl in L. lia.
Qed.

(* the 32-bit operations stay below 2^32 *)
Lemma m32_lt : forall x, m32 x < 2 ^ 32.
Proof.
  intros x. unfold m32. change 4294967295 with (N.ones 32). rewrite N.land_ones. apply N.mod_lt. discriminate.
Qed.
Lemma add32_lt : forall a b, add32 a b < 2 ^ 32.  Proof. intros. apply m32_lt. Qed.
Lemma rotl32_lt : forall n x, rotl32 n x < 2 ^ 32.  Proof. intros. apply m32_lt. Qed.
Lemma add32_mod : forall a b, add32 a b = (a + b) mod 2 ^ 32.
Proof. intros. unfold add32, m32. change 4294967295 with (N.ones 32). apply N.land_ones. Qed.

(* the statements of Props/C12.v *)
Theorem sha1_digest_shape : forall l,
  length (sha1 l) = 20%nat /\ bytes_ok (sha1 l) = true /\ (forall x, In x (sha1 l) -> x < 256).
Proof. intros l. split; [apply sha1_length | split; [apply sha1_bytes_ok | apply sha1_octets]]. Qed.

Theorem sha1_padding : forall l,
  (take (length l) (sha1_pad l) = l) /\ ((length (sha1_pad l) mod 64)%nat = 0%nat) /\
  forall extra s, sha1_blocks (S (Nat.div (length (sha1_pad l)) 64) + extra) s (sha1_pad l) =
                  sha1_blocks (S (Nat.div (length (sha1_pad l)) 64)) s (sha1_pad l).
Proof.
  intros l. split; [apply sha1_pad_prefix | split; [apply sha1_pad_blocks | intros extra s; apply sha1_fuel_enough]].
Qed.

Theorem sha1_words : (forall blk, length blk = 64%nat -> length (words_of blk) = 16%nat) /\
  (forall a b, add32 a b = (a + b) mod 2 ^ 32) /\ (forall n x, rotl32 n x < 2 ^ 32).
Proof. split; [intros blk L; apply words_of_length; exact L | split; [exact add32_mod | exact rotl32_lt]]. Qed.

(* ---- test vectors (FIPS 180-2 appendix A / NIST CAVS): non-vacuity, not theorems ---- *)
Example sha1_vec_abc : hex_of false (sha1 (bs "abc")) = bs "a9993e364706816aba3e25717850c26c9cd0d89d".
Proof. vm_compute. reflexivity. Qed.
Example sha1_vec_empty : hex_of false (sha1 []) = bs "da39a3ee5e6b4b0d3255bfef95601890afd80709".
Proof. vm_compute. reflexivity. Qed.
Example sha1_vec_448 :
  hex_of false (sha1 (bs "abcdbcdecdefdefgefghfghighijhijkijkljklmklmnlmnomnopnopq")) = bs "84983e441c3bd26ebaae4aa1f95129e5e54670f1".
Proof. vm_compute. reflexivity. Qed.
(* two blocks of 56 octets (the 896-bit message of FIPS 180-4's examples) *)
Example sha1_vec_896 :
  hex_of false (sha1 (bs "abcdefghbcdefghicdefghijdefghijkefghijklfghijklmghijklmnhijklmnoijklmnopjklmnopqklmnopqrlmnopqrsmnopqrstnopqrstu"))
  = bs "a49b2446a02c645bf419f995b67091253a04a259".
Proof. vm_compute. reflexivity. Qed.
(* 1000 octets 'a' (the million-'a' vector cut to a size the kernel computes in a moment) *)
Example sha1_vec_1000a : hex_of false (sha1 (repeat 97 1000)) = bs "291e9a6c66994949b57ba5e650361e98fc36b1ba".
Proof. vm_compute. reflexivity. Qed.
(* 1000 octets 0x00 *)
Example sha1_vec_1000z : hex_of false (sha1 (repeat 0 1000)) = bs "c577f7a37657053275f3e3ecc06ec22e6b909366".
Proof. vm_compute. reflexivity. Qed.
