(* C02 — private keys under algorithms the describers do not decode: what the PKCS#8 describer says
   about them is the bare container label, for ALL contents.  (Separate from Proofs/Keys.v only to keep
   that file's build time out of the way.) *)
From WI Require Import Lib.Base Lib.Info Lib.Strings Model.Keys.
Import gen.KeyTables.
Open Scope N_scope.

Definition decoded_pkcs8_oids : list (list N) :=
  [oid_dsa; oid_rsa; oid_ec_public_key; oid_ed25519; oid_ed448; oid_x25519; oid_x448].

(* an algorithm identifier outside the describer's table (id-RSASSA-PSS, dhKeyAgreement, id-ecDH, a private
   arc ...): the description is "PKCS#8 private key" with no attribute and no child, whatever the
   parameters and whatever the privateKey octets are - nothing of the key is shown *)
Lemma pkcs8_undecoded_bare : forall alg d r e,
  forallb (fun o => negb (oid_eqb alg o)) decoded_pkcs8_oids = true ->
  with_desc "PKCS#8 private key" (pkcs8_attrs alg d r e) = Ok (Info (bs "PKCS#8 private key") [] []).
Proof.
  intros alg d r e H. unfold decoded_pkcs8_oids in H. cbn [forallb] in H.
  repeat match type of H with
  | (_ && _)%bool = true => let H1 := fresh "H" in apply andb_prop in H; destruct H as [H1 H]; apply Bool.negb_true_iff in H1
  end.
  unfold pkcs8_attrs.
  repeat match goal with Hx : oid_eqb alg _ = false |- _ => rewrite Hx; clear Hx end.
  reflexivity.
Qed.

(* rsaEncryption around octets that are not an RSAPrivateKey the library can decode (an exponent that does
   not fit a machine integer, another structure): the same bare label *)
Lemma pkcs8_rsa_undecodable_bare : forall d e,
  with_desc "PKCS#8 private key" (pkcs8_attrs oid_rsa d None e) = Ok (Info (bs "PKCS#8 private key") [] []).
Proof.
  intros d e. unfold pkcs8_attrs.
  change (oid_eqb oid_rsa oid_dsa) with false. change (oid_eqb oid_rsa oid_rsa) with true. reflexivity.
Qed.

Lemma pkcs8_undecoded_examples :
  forallb (fun alg => forallb (fun o => negb (oid_eqb alg o)) decoded_pkcs8_oids)
    [[1; 2; 840; 113549; 1; 1; 10]; [1; 2; 840; 113549; 1; 1; 7]; [1; 2; 840; 113549; 1; 3; 1]; [1; 2; 840; 10046; 2; 1];
     [1; 3; 132; 1; 12]; [1; 3; 6; 1; 4; 1; 99999; 1; 2]] = true.
Proof. vm_compute. reflexivity. Qed.
