(* Model for C19 — RPM package identity, digests and signature issuer.
   Executable definitions only, no proofs.

   Part 1: github.com/jfrog/go-rpm v1.0.1, re-modelled at byte level from its source
           (lead.go, header.go, index.go, packagefile.go).
   Part 2: internal/openpgp/packet: packet.Read for signature packets (packet.go, signature.go,
           signature_v3.go); every other packet type is an oracle [other].
   Part 3: internal/file: RPMFile (parsers.go), rpmSignatureAttributes, rpmCheckIndex (rpm.go),
           gpgAlgorithmName (pgp.go), before and after the repairs F23/F24/F25/F32/F36
           (a [cfg] record selects the variant; [cfg_now] is the code as it is now).
   Part 4: Rpm.encode — the canonical layout of a package description, used by the theorems. *)
From WI Require Import Lib.Base Lib.Info.
Open Scope N_scope.

Definition lenN {A} (l : list A) : N := N.of_nat (length l).

(* l[o : o+n]; callers check the bounds first, so the conversion to nat is never large *)
Definition slice (o n : N) (l : bytes) : bytes := firstn (N.to_nat n) (skipn (N.to_nat o) l).

(* ================================================================ Part 1: go-rpm *)

(* b := make([]byte, n); k, err := r.Read(b) on a bytes.Reader, followed by the callers'
   "if err != nil return err; if k != n return ErrBad...": bytes.Reader.Read returns io.EOF when
   nothing is left — even for n = 0 — and otherwise min(n, remaining) bytes without error. *)
Definition read_exact (n : N) (rest : bytes) : result (bytes * bytes) :=
  match rest with
  | [] => Err "EOF"
  | _ => if lenN rest <? n then Err "short read"
         else Ok (firstn (N.to_nat n) rest, skipn (N.to_nat n) rest)
  end.

Record lead := mklead { l_major : N; l_minor : N }.

Definition rpm_magic : bytes := [237; 171; 238; 219].

(* lead.go:42 ReadPackageLead *)
Definition read_lead (data : bytes) : result (lead * bytes) :=
  let* (b, rest) := read_exact 96 data in
  if negb (bytes_eqb (firstn 4 b) rpm_magic) then Err "RPM file descriptor is invalid"
  else
    let major := nth 4 b 0 in
    if (major <? 3) || (4 <? major) then Err "unsupported RPM package version"
    else Ok (mklead major (nth 5 b 0), rest).

(* index.go:8 value data types *)
Inductive value : Type :=
| VNull                                (* Value == nil                       *)
| VBytes (b : bytes)                   (* []uint8 (CHAR) and []byte (BIN)    *)
| VInts (ty : N) (raw : bytes)         (* []int8/16/32/64: the big-endian bytes of the items *)
| VStrings (l : list bytes).           (* []string (STRING, STRING_ARRAY, I18NSTRING) *)

Record entry := mkentry { e_tag : N; e_type : N; e_off : N; e_cnt : N; e_val : value }.
Record header := mkheader { h_version : N; h_count : N; h_length : N; h_entries : list entry }.

Definition be32_at (o : nat) (b : bytes) : N := be_to_N (firstn 4 (skipn o b)).

Definition max_header_size : N := 33554432.

(* header.go:130-147: the index loop; an offset at or beyond the store length is an error *)
Fixpoint parse_index (n : nat) (idx : bytes) (len : N) : result (list entry) :=
  match n with
  | O => Ok []
  | S n' =>
      let e := mkentry (be32_at 0 idx) (be32_at 4 idx) (be32_at 8 idx) (be32_at 12 idx) VNull in
      if len <=? e_off e then Err "index is out of range"
      else let* r := parse_index n' (skipn 16 idx) len in Ok (e :: r)
  end.

(* bytes of l up to (not including) the first zero byte, or all of l *)
Fixpoint until_nul (l : bytes) : bytes :=
  match l with
  | [] => []
  | b :: r => if b =? 0 then [] else b :: until_nul r
  end.

(* header.go:244-258: the string loop.  [o] may have run past the store: then j = 0, the
   "j == len(store)" test fails (the store is not empty) and store[o:o+j] panics (F36). *)
Fixpoint extract_strings (store : bytes) (cnt : nat) (o : N) : result (list bytes) :=
  match cnt with
  | O => Ok []
  | S c =>
      let slen := lenN store in
      let s := if slen <? o then [] else until_nul (skipn (N.to_nat o) store) in
      let j := lenN s in
      if j =? slen then Err "string value is out of range"
      else if slen <? o then Panic "slice bounds out of range (go-rpm header.go:254)"
      else let* r := extract_strings store c (o + j + 1) in Ok (s :: r)
  end.

Definition int_size (ty : N) : N :=
  if ty =? 3 then 2 else if ty =? 4 then 4 else if ty =? 5 then 8 else 1.

(* header.go:160-267: one index entry's value *)
Definition extract_value (store : bytes) (ty o cnt : N) : result value :=
  let slen := lenN store in
  if ty =? 0 then Ok VNull
  else if ty <=? 5 then
    (* make([]T, cnt) first, then "if o+size > len(store) return error" per item *)
    let sz := int_size ty in
    if (0 <? cnt) && (slen <? o + cnt * sz) then Err "value is out of range"
    else let raw := slice o (cnt * sz) store in
         Ok (if ty =? 1 then VBytes raw else VInts ty raw)
  else if ty =? 7 then
    if slen <? o + cnt then Err "[]byte value is out of range" else Ok (VBytes (slice o cnt store))
  else if (ty =? 6) || (ty =? 8) || (ty =? 9) then
    if slen <? o + cnt then Err "[]string value is out of range"
    else let* l := extract_strings store (N.to_nat cnt) o in Ok (VStrings l)
  else Err "unknown index data type".

Fixpoint extract_all (store : bytes) (es : list entry) : result (list entry) :=
  match es with
  | [] => Ok []
  | e :: r =>
      let* v := extract_value store (e_type e) (e_off e) (e_cnt e) in
      let* r' := extract_all store r in
      Ok (mkentry (e_tag e) (e_type e) (e_off e) (e_cnt e) v :: r')
  end.

Definition header_magic : bytes := [142; 173; 232].

(* header.go:270-285: skip the padding to a multiple of 8 (after every header) *)
Definition skip_pad (len : N) (rest : bytes) : result bytes :=
  if len mod 8 =? 0 then Ok rest
  else let* (_, r) := read_exact (8 - len mod 8) rest in Ok r.

(* header.go:73 ReadPackageHeader *)
Definition read_header (data : bytes) : result (header * bytes) :=
  let* (hd, r1) := read_exact 16 data in
  if negb (bytes_eqb (firstn 3 hd) header_magic) then Err "invalid RPM header descriptor"
  else
    let cnt := be32_at 8 hd in
    let len := be32_at 12 hd in
    if max_header_size <? len then Err "RPM header section is incorrect length"
    else if max_header_size <? cnt * 16 then Err "index count exceeds header size"
    else
      let* (idx, r2) := read_exact (16 * cnt) r1 in
      let* raw := parse_index (N.to_nat cnt) idx len in
      let* (store, r3) := read_exact len r2 in
      let* es := extract_all store raw in
      let* r4 := skip_pad len r3 in
      Ok (mkheader (nth 3 hd 0) cnt len es, r4).

Record pkgfile := mkpkgfile { p_lead : lead; p_sig : header; p_main : header }.

(* packagefile.go:30 ReadPackageFile *)
Definition read_package_file (data : bytes) : result pkgfile :=
  let* (l, r0) := read_lead data in
  let* (h0, r1) := read_header r0 in
  let* (h1, _) := read_header r1 in
  Ok (mkpkgfile l h0 h1).

(* index.go:33 IndexByTag *)
Fixpoint index_by_tag (tag : N) (es : list entry) : option entry :=
  match es with
  | [] => None
  | e :: r => if e_tag e =? tag then Some e else index_by_tag tag r
  end.

(* index.go:45 StringByTag: i.Value.([]string) and s[0], unchecked;
   [checked] = the repository's own accessor rpmString (rpm.go) after the repair of F24 *)
Definition string_by_tag (checked : bool) (tag : N) (es : list entry) : result bytes :=
  match index_by_tag tag es with
  | None => Ok []
  | Some e =>
      match e_val e with
      | VNull => Ok []
      | VStrings (s :: _) => Ok s
      | VStrings [] => if checked then Ok [] else Panic "index out of range [0] with length 0 (go-rpm index.go:53)"
      | _ => if checked then Ok [] else Panic "interface conversion: not []string (go-rpm index.go:51)"
      end
  end.

(* index.go:120 BytesByTag / rpmBytes *)
Definition bytes_by_tag (checked : bool) (tag : N) (es : list entry) : result bytes :=
  match index_by_tag tag es with
  | None => Ok []
  | Some e =>
      match e_val e with
      | VNull => Ok []
      | VBytes b => Ok b
      | _ => if checked then Ok [] else Panic "interface conversion: not []uint8 (go-rpm index.go:126)"
      end
  end.

(* ================================================================ Part 2: packet.Read *)

Definition need (n : nat) (l : bytes) : result (bytes * bytes) :=
  if Nat.ltb (length l) n then Err "unexpected EOF" else Ok (firstn n l, skipn n l).

(* the first [n] bytes of l, all of l when it is shorter (spanReader: reads beyond fail) *)
Definition firstn_N (n : N) (l : bytes) : bytes :=
  if lenN l <=? n then l else firstn (N.to_nat n) l.

(* s2k.go:234 hashToHashIdMapping with crypto.Hash.String() *)
Definition hash_name (id : N) : option bytes :=
  if id =? 1 then Some (bs "MD5")
  else if id =? 2 then Some (bs "SHA-1")
  else if id =? 3 then Some (bs "RIPEMD-160")
  else if id =? 8 then Some (bs "SHA-256")
  else if id =? 9 then Some (bs "SHA-384")
  else if id =? 10 then Some (bs "SHA-512")
  else if id =? 11 then Some (bs "SHA-224")
  else None.

Definition hash_known (id : N) : bool := match hash_name id with Some _ => true | None => false end.

(* packet.go:540 readMPI *)
Definition read_mpi (l : bytes) : result bytes :=
  let* (b, r) := need 2 l in
  let bitlen := nth 0 b 0 * 256 + nth 1 b 0 in
  let* (_, r') := need (N.to_nat ((bitlen + 7) / 8)) r in
  Ok r'.

Fixpoint read_mpis (k : nat) (l : bytes) : result unit :=
  match k with
  | O => Ok tt
  | S k' => let* r := read_mpi l in read_mpis k' r
  end.

(* what rpmSignatureAttributes looks at *)
Inductive pkt : Type :=
| PSig4 (sigtype algo hash : N) (issuer : option N)
| PSig3 (algo hash issuer : N)
| POther.

Definition sig4_algo_ok (a : N) : bool := (a =? 1) || (a =? 3) || (a =? 17) || (a =? 19) || (a =? 22).
Definition sig3_algo_ok (a : N) : bool := (a =? 1) || (a =? 3) || (a =? 17).
(* number of MPIs read after the hash tag (signature.go:157-182); None = panic("unreachable") *)
Definition sig_mpis (a : N) : option nat :=
  if (a =? 1) || (a =? 3) then Some 1%nat
  else if (a =? 17) || (a =? 19) || (a =? 22) then Some 2%nat
  else None.

(* state threaded through parseSignatureSubpackets *)
Record sstate := mksstate { ss_created : bool; ss_issuer : option N; ss_embedded : bool }.

(* signature.go:205-233: subpacket length; result (length, bytes after the length octets) *)
Definition subpacket_length (sp : bytes) : result (N * bytes) :=
  match sp with
  | [] => Err "signature subpacket truncated"
  | b0 :: r =>
      if b0 <? 192 then Ok (b0, r)
      else if b0 <? 255 then
        match r with
        | b1 :: r' => Ok ((b0 - 192) * 256 + b1 + 192, r')
        | [] => Err "signature subpacket truncated"
        end
      else
        match r with
        | b1 :: b2 :: b3 :: b4 :: r' => Ok (be_to_N [b1; b2; b3; b4], r')
        | _ => Err "signature subpacket truncated"
        end
  end.

(* signature.go:86 Signature.parse and :186 parseSignatureSubpackets, :205 parseSignatureSubpacket.
   [emb] = sig.embedded: the signature is being parsed out of an embedded-signature subpacket.
   Fuel: one unit per call; length of the input suffices (Proofs/Rpm.v). *)
Fixpoint parse_sig4 (fuel : nat) (emb : bool) (content : bytes) : result pkt :=
  match content with
  | v :: t :: a :: h :: l1 :: l2 :: rest =>
      match fuel with
      | O => Err "fuel"
      | S f =>
          if negb (v =? 4) then Err "signature packet version"
          else if negb (sig4_algo_ok a) then Err "public key algorithm"
          else if negb (hash_known h) then Err "hash function"
          else
            let* (hashed, r1) := need (N.to_nat (l1 * 256 + l2)) rest in
            let* st1 := parse_subpackets f emb (mksstate false None false) hashed true in
            if negb (ss_created st1) then Err "no creation time in signature"
            else
              let* (ul, r2) := need 2 r1 in
              let* (unhashed, r3) := need (N.to_nat (nth 0 ul 0 * 256 + nth 1 ul 0)) r2 in
              let* st2 := parse_subpackets f emb st1 unhashed false in
              let* (_, r4) := need 2 r3 in
              match sig_mpis a with
              | None => Panic "unreachable (signature.go:181)"
              | Some k => let* _ := read_mpis k r4 in Ok (PSig4 t a h (ss_issuer st2))
              end
      end
  | [] => Err "unexpected EOF"
  | v :: _ => if negb (v =? 4) then Err "signature packet version" else Err "unexpected EOF"
  end
with parse_subpackets (fuel : nat) (emb : bool) (st : sstate) (sp : bytes) (hashed : bool) : result sstate :=
  match sp with
  | [] => Ok st
  | _ :: _ =>
      match fuel with
      | O => Err "fuel"
      | S f =>
          let* (len, body) := subpacket_length sp in
          if lenN body <? len then Err "signature subpacket truncated"
          else
            let rest := skipn (N.to_nat len) body in
            match firstn (N.to_nat len) body with
            | [] => Err "zero length signature subpacket"
            | t0 :: payload =>
                let ty := t0 mod 128 in
                let critical := 128 <=? t0 in
                let plen := length payload in
                let continue (st' : sstate) := parse_subpackets f emb st' rest hashed in
                if ty =? 2 then
                  if negb hashed then Err "signature creation time in non-hashed area"
                  else if negb (Nat.eqb plen 4) then Err "signature creation time not four bytes"
                  else continue (mksstate true (ss_issuer st) (ss_embedded st))
                else if (ty =? 3) || (ty =? 9) then
                  if negb hashed then continue st
                  else if negb (Nat.eqb plen 4) then Err "expiration subpacket with bad length"
                  else continue st
                else if (ty =? 11) || (ty =? 21) || (ty =? 22) || (ty =? 30) then continue st
                else if ty =? 16 then
                  if negb (Nat.eqb plen 8) then Err "issuer subpacket with bad length"
                  else continue (mksstate (ss_created st) (Some (be_to_N payload)) (ss_embedded st))
                else if ty =? 25 then
                  if negb hashed then continue st
                  else if negb (Nat.eqb plen 1) then Err "primary user id subpacket with bad length"
                  else continue st
                else if (ty =? 27) || (ty =? 29) then
                  if negb hashed then continue st
                  else if Nat.eqb plen 0 then Err "empty subpacket"
                  else continue st
                else if ty =? 32 then
                  if ss_embedded st then Err "Cannot have multiple embedded signatures"
                  else if emb then Err "embedded signature inside an embedded signature"
                  else
                    let* e := parse_sig4 f true payload in
                    match e with
                    | PSig4 et _ _ _ =>
                        if et =? 25 then continue (mksstate (ss_created st) (ss_issuer st) true)
                        else Err "cross-signature has unexpected type"
                    | _ => Err "cross-signature has unexpected type"
                    end
                else if critical then Err "unknown critical signature subpacket type"
                else continue st
            end
      end
  end.

(* signature_v3.go:35 SignatureV3.parse *)
Definition parse_sig3 (content : bytes) : result pkt :=
  match content with
  | v :: r0 =>
      if (v <? 2) || (3 <? v) then Err "signature packet version"
      else
        match r0 with
        | five :: r1 =>
            if negb (five =? 5) then Err "invalid hashed material length"
            else
              let* (_, r2) := need 5 r1 in
              let* (kid, r3) := need 8 r2 in
              let* (ah, r4) := need 2 r3 in
              let a := nth 0 ah 0 in
              let h := nth 1 ah 0 in
              if negb (sig3_algo_ok a) then Err "public key algorithm"
              else if negb (hash_known h) then Err "hash function"
              else
                let* (_, r5) := need 2 r4 in
                match sig_mpis a with
                | None => Panic "unreachable (signature_v3.go:98)"
                | Some k => let* _ := read_mpis k r5 in Ok (PSig3 a h (be_to_N kid))
                end
        | [] => Err "unexpected EOF"
        end
  | [] => Err "unexpected EOF"
  end.

(* packet.go:41 readLength + partialLengthReader: the bytes the packet's contents reader can
   deliver before it fails; reading beyond them is an error in every case *)
Fixpoint partial_body (fuel : nat) (chunk : N) (r : bytes) : bytes :=
  if lenN r <=? chunk then r
  else
    let here := firstn (N.to_nat chunk) r in
    match fuel, skipn (N.to_nat chunk) r with
    | S f, c :: r' =>
        if c <? 192 then here ++ firstn_N c r'
        else if c <? 224 then
          match r' with
          | d :: r'' => here ++ firstn_N ((c - 192) * 256 + d + 192) r''
          | [] => here
          end
        else if c <? 255 then here ++ partial_body f (2 ^ (c mod 32)) r'
        else
          match r' with
          | b1 :: b2 :: b3 :: b4 :: r'' => here ++ firstn_N (be_to_N [b1; b2; b3; b4]) r''
          | _ => here
          end
    | _, _ => here
    end.

(* packet.go:201 readHeader: (tag, contents) *)
Definition read_pkt_header (sig : bytes) : result (N * bytes) :=
  match sig with
  | [] => Err "EOF"
  | b0 :: r =>
      if b0 <? 128 then Err "tag byte does not have MSB set"
      else if (b0 / 64) mod 2 =? 0 then
        (* old format *)
        let tag := (b0 mod 64) / 4 in
        let lt := b0 mod 4 in
        if lt =? 3 then Ok (tag, r)
        else
          let* (lb, r') := need (N.to_nat (2 ^ lt)) r in
          Ok (tag, firstn_N (be_to_N lb) r')
      else
        let tag := b0 mod 64 in
        match r with
        | [] => Err "unexpected EOF"
        | c :: r' =>
            if c <? 192 then Ok (tag, firstn_N c r')
            else if c <? 224 then
              match r' with
              | d :: r'' => Ok (tag, firstn_N ((c - 192) * 256 + d + 192) r'')
              | [] => Err "unexpected EOF"
              end
            else if c <? 255 then Ok (tag, partial_body (length r') (2 ^ (c mod 32)) r')
            else
              let* (lb, r'') := need 4 r' in
              Ok (tag, firstn_N (be_to_N lb) r'')
        end
  end.

(* packet.go Read (repair 700bb73): a packet that is not handed out as a stream is consumed to its
   end after it has been parsed; that fails (unexpected EOF) when the input ends before the length
   the header announces.  [pkt_complete sig]: all announced octets are there. *)
Definition fits (n : N) (l : bytes) : bool := n <=? lenN l.

Fixpoint partial_complete (fuel : nat) (chunk : N) (r : bytes) : bool :=
  if lenN r <=? chunk then false      (* the next length octet is missing *)
  else
    match fuel, skipn (N.to_nat chunk) r with
    | S f, c :: r' =>
        if c <? 192 then fits c r'
        else if c <? 224 then
          match r' with
          | d :: r'' => fits ((c - 192) * 256 + d + 192) r''
          | [] => false
          end
        else if c <? 255 then partial_complete f (2 ^ (c mod 32)) r'
        else
          match r' with
          | b1 :: b2 :: b3 :: b4 :: r'' => fits (be_to_N [b1; b2; b3; b4]) r''
          | _ => false
          end
    | _, _ => false
    end.

Definition pkt_complete (sig : bytes) : bool :=
  match sig with
  | [] => false
  | b0 :: r =>
      if b0 <? 128 then false
      else if (b0 / 64) mod 2 =? 0 then
        let lt := b0 mod 4 in
        if lt =? 3 then true
        else match need (N.to_nat (2 ^ lt)) r with
             | Ok (lb, r') => fits (be_to_N lb) r'
             | _ => false
             end
      else
        match r with
        | [] => false
        | c :: r' =>
            if c <? 192 then fits c r'
            else if c <? 224 then
              match r' with
              | d :: r'' => fits ((c - 192) * 256 + d + 192) r''
              | [] => false
              end
            else if c <? 255 then partial_complete (length r') (2 ^ (c mod 32)) r'
            else match need 4 r' with
                 | Ok (lb, r'') => fits (be_to_N lb) r''
                 | _ => false
                 end
        end
  end.

(* packet types that packet.Read hands to a parser other than the signature parsers (packet.go:347-400) *)
Definition other_packet_tag (t : N) : bool :=
  existsb (N.eqb t) [1; 3; 4; 5; 6; 7; 8; 9; 11; 13; 14; 17; 18].

(* packet.go:341 Read.  [other sig]: the outcome of packet.Read on a packet that is not a
   signature packet (recorded from the running code per case; theorems quantify over it). *)
Definition packet_read (other : bytes -> result unit) (sig : bytes) : result pkt :=
  let* (tag, content) := read_pkt_header sig in
  if tag =? 2 then
    match content with
    | [] => Err "EOF"                       (* peekVersion *)
    | v :: _ =>
        let* p := (if v <? 4 then parse_sig3 content else parse_sig4 (length content) false content) in
        if pkt_complete sig then Ok p else Err "unexpected EOF"
    end
  else if other_packet_tag tag then let* _ := other sig in Ok POther
  else Err "unknown packet type".

(* ================================================================ Part 3: internal/file *)

Record cfg := mkcfg {
  cfg_keyid16 : bool;    (* F23: "%016X" instead of "%X"                                  *)
  cfg_checked : bool;    (* F24: checked local accessors instead of go-rpm's              *)
  cfg_echash : bool;     (* F32: ECDSA/EdDSA shown with their hash                        *)
  cfg_validate : bool;   (* F25/F36: rpmCheckIndex runs before go-rpm                     *)
  cfg_noregion : bool    (* F37: digests/signatures reported without a leading region tag *)
}.
Definition cfg_original : cfg := mkcfg false false false false false.
Definition cfg_now : cfg := mkcfg true true true true true.

(* fmt "%X" of a uint64: no leading zeros ("0" for zero) *)
Fixpoint hex_digits_fuel (fuel : nat) (n : N) (acc : bytes) : bytes :=
  match fuel with
  | O => acc
  | S f => let q := n / 16 in let d := hex_digit true (n mod 16) in
           if q =? 0 then d :: acc else hex_digits_fuel f q (d :: acc)
  end.
Definition fmt_keyid_raw (k : N) : bytes := hex_digits_fuel (S (N.to_nat (N.size k))) k [].
(* fmt "%016X" of a uint64 *)
Definition fmt_keyid (k : N) : bytes := hex_of true (N_to_be 8 k).
Definition fmt_keyid_cfg (c : cfg) (k : N) : bytes := if cfg_keyid16 c then fmt_keyid k else fmt_keyid_raw k.

(* pgp.go:87 gpgAlgorithmName *)
Definition algo_name (c : cfg) (a h : N) : bytes :=
  let hn := match hash_name h with Some n => n | None => bs "unknown hash value " ++ dec_of_N h end in
  if a =? 17 then bs "DSA/" ++ hn
  else if a =? 19 then (if cfg_echash c then bs "ECDSA/" ++ hn else bs "ECDSA")
  else if a =? 22 then (if cfg_echash c then bs "EdDSA/" ++ hn else bs "EdDSA")
  else if (a =? 1) || (a =? 3) then bs "RSA/" ++ hn
  else bs "unknown".

(* rpm.go:10 rpmSignatureAttributes *)
Definition sig_attrs (c : cfg) (other : bytes -> result unit) (sig : bytes) : result (list (bytes * bytes)) :=
  match packet_read other sig with
  | Err _ => Ok [(bs "Type", bs "unknown or malformed")]
  | Panic s => Panic s
  | Ok (PSig4 _ a h i) =>
      Ok ((bs "Algorithm", algo_name c a h) ::
          match i with Some k => [(bs "Key id", fmt_keyid_cfg c k)] | None => [] end)
  | Ok (PSig3 a h k) => Ok [(bs "Algorithm", algo_name c a h); (bs "Key id", fmt_keyid_cfg c k)]
  | Ok POther => Ok []
  end.

(* ---- rpm.go rpmCheckIndex (repair of F25/F36): walk both headers before go-rpm does ---- *)

(* rpm.go rpmStringsFit: [cnt] NUL-terminated strings starting at l *)
Fixpoint strings_fit (cnt : nat) (l : bytes) : bool :=
  match cnt with
  | O => true
  | S c =>
      let s := until_nul l in
      if Nat.eqb (length s) (length l) then false        (* bytes.IndexByte(...) < 0 *)
      else strings_fit c (skipn (S (length s)) l)
  end.

Definition entry_fits (store : bytes) (ty o cnt : N) : bool :=
  let slen := lenN store in
  if slen <? o then false
  else
    let avail := slen - o in
    if (ty =? 1) || (ty =? 2) || (ty =? 7) then cnt <=? avail
    else if ty =? 3 then cnt <=? avail / 2
    else if ty =? 4 then cnt <=? avail / 4
    else if ty =? 5 then cnt <=? avail / 8
    else if (ty =? 6) || (ty =? 8) || (ty =? 9) then
      (* "if", not "&&": the count is converted to nat only once it is known to be small *)
      if cnt <=? avail then strings_fit (N.to_nat cnt) (skipn (N.to_nat o) store) else false
    else true.

Fixpoint index_fits (n : nat) (idx store : bytes) : bool :=
  match n with
  | O => true
  | S n' => entry_fits store (be32_at 4 idx) (be32_at 8 idx) (be32_at 12 idx) && index_fits n' (skipn 16 idx) store
  end.

(* one header; None = "return nil" (too short to hold a header intro: go-rpm reports it) *)
Definition check_header (rest : bytes) : result (option bytes) :=
  if lenN rest <? 16 then Ok None
  else
    let cnt := be32_at 8 rest in
    let len := be32_at 12 rest in
    let r1 := skipn 16 rest in
    if lenN r1 / 16 <? cnt then Err "RPM index exceeds the file"
    else
      let idx := firstn (N.to_nat (16 * cnt)) r1 in
      let r2 := skipn (N.to_nat (16 * cnt)) r1 in
      if lenN r2 <? len then Err "RPM header store exceeds the file"
      else
        let store := firstn (N.to_nat len) r2 in
        let r3 := skipn (N.to_nat len) r2 in
        if negb (index_fits (N.to_nat cnt) idx store) then Err "RPM index entry exceeds the header store"
        else Ok (Some (if len mod 8 =? 0 then r3 else skipn (N.to_nat (8 - len mod 8)) r3)).

Definition check_index (data : bytes) : result unit :=
  let* o1 := check_header (skipn 96 data) in
  match o1 with
  | None => Ok tt
  | Some r1 => let* _ := check_header r1 in Ok tt
  end.

(* ---- parsers.go:202 RPMFile ---- *)

Definition opt_attr (name value : bytes) : list (bytes * bytes) :=
  match value with [] => [] | _ => [(name, value)] end.

(* one signature tag: (found, children) *)
Definition sig_child (c : cfg) (other : bytes -> result unit) (desc : bytes) (idx0 : list entry) (tag : N)
  : result (list info) :=
  let* sig := bytes_by_tag (cfg_checked c) tag idx0 in
  match sig with
  | [] => Ok []
  | _ => let* a := sig_attrs c other sig in Ok [Info desc a []]
  end.

Definition describe_gen (c : cfg) (other : bytes -> result unit) (data : bytes) : result info :=
  let* _ := (if cfg_validate c then check_index data else Ok tt) in
  let* p := read_package_file data in
  let idx1 := h_entries (p_main p) in
  let sbt := string_by_tag (cfg_checked c) in
  let* rv := sbt 1064 idx1 in
  let desc := match rv with [] => bs "RPM" | _ => bs "RPM (version " ++ rv ++ bs ")" end in
  let* name := sbt 1000 idx1 in
  let* version := sbt 1001 idx1 in
  let* release := sbt 1002 idx1 in
  let* arch := sbt 1022 idx1 in
  let attrs := [(bs "Name", name); (bs "Version", version); (bs "Release", release); (bs "Architecture", arch)] in
  let idx0 := h_entries (p_sig p) in
  let region := match idx0 with e0 :: _ => e_tag e0 =? 62 | [] => false end in
  if negb (region || cfg_noregion c) then Ok (Info desc attrs [])
  else
    let* md5 := bytes_by_tag (cfg_checked c) 1004 idx0 in
    let* sha1 := string_by_tag (cfg_checked c) 269 idx0 in
    let* sha256 := string_by_tag (cfg_checked c) 273 idx0 in
    let digests := opt_attr (bs "MD5") (hex_of false md5) ++ opt_attr (bs "SHA-1") sha1 ++ opt_attr (bs "SHA-256") sha256 in
    let* c_dsa := sig_child c other (bs "Signature") idx0 267 in
    let* c_rsa := sig_child c other (bs "Signature") idx0 268 in
    let* c_gpg := sig_child c other (bs "Legacy signature (RPM v3)") idx0 1005 in
    let* c_pgp := sig_child c other (bs "Legacy signature (RPM v3)") idx0 1002 in
    let children := c_dsa ++ c_rsa ++ c_gpg ++ c_pgp in
    let none := match children with [] => [(bs "Signature", bs "none")] | _ => [] end in
    Ok (Info desc (attrs ++ digests ++ none) children).

Definition describe := describe_gen cfg_now.

(* ================================================================ Part 4: the canonical layout *)

Record sigpkt := mksigpkt {
  sp_v3 : bool; sp_algo : N; sp_hash : N; sp_issuer : N; sp_created : N; sp_sigtype : N;
  sp_hashtag : bytes; sp_mpis : list bytes }.

Record pkg := mkpkg {
  k_major : N; k_minor : N;
  k_name : bytes; k_version : bytes; k_release : bytes; k_arch : bytes;
  k_rpmversion : option bytes;
  k_md5 : option bytes; k_sha1 : option bytes; k_sha256 : option bytes;
  k_dsa : option sigpkt; k_rsa : option sigpkt; k_gpg : option sigpkt; k_pgp : option sigpkt;
  k_payload : bytes }.

(* RFC 4880 4.2.2: new-format body length *)
Definition new_len (n : N) : bytes :=
  if n <? 192 then [n]
  else if n <? 8384 then [192 + (n - 192) / 256; (n - 192) mod 256]
  else 255 :: N_to_be 4 n.

Definition enc_mpi (m : bytes) : bytes := N_to_be 2 (8 * lenN m) ++ m.

Definition sig_body (s : sigpkt) : bytes :=
  (if sp_v3 s then
     [3; 5; sp_sigtype s] ++ N_to_be 4 (sp_created s) ++ N_to_be 8 (sp_issuer s) ++ [sp_algo s; sp_hash s]
   else
     [4; sp_sigtype s; sp_algo s; sp_hash s] ++ [0; 6; 5; 2] ++ N_to_be 4 (sp_created s)
       ++ [0; 10; 9; 16] ++ N_to_be 8 (sp_issuer s))
  ++ sp_hashtag s ++ flat_map enc_mpi (sp_mpis s).

Definition encode_sig (s : sigpkt) : bytes :=
  let b := sig_body s in 194 :: new_len (lenN b) ++ b.

(* an index entry to be laid out: tag, type, count, bytes in the store *)
Record item := mkitem { it_tag : N; it_type : N; it_cnt : N; it_data : bytes }.

Definition str_item (tag : N) (s : bytes) : item := mkitem tag 6 1 (s ++ [0]).
Definition bin_item (tag : N) (b : bytes) : item := mkitem tag 7 (lenN b) b.

(* two's complement of -16*n in 32 bits *)
Definition region_trailer (tag : N) (n : N) : bytes :=
  N_to_be 4 tag ++ N_to_be 4 7 ++ N_to_be 4 (4294967296 - 16 * n) ++ N_to_be 4 16.

Fixpoint enc_index (off : N) (its : list item) : bytes :=
  match its with
  | [] => []
  | it :: r => N_to_be 4 (it_tag it) ++ N_to_be 4 (it_type it) ++ N_to_be 4 off ++ N_to_be 4 (it_cnt it)
               ++ enc_index (off + lenN (it_data it)) r
  end.

Definition enc_store (its : list item) : bytes := flat_map it_data its.

Definition encode_header (its : list item) : bytes :=
  header_magic ++ [1; 0; 0; 0; 0] ++ N_to_be 4 (lenN its) ++ N_to_be 4 (lenN (enc_store its))
  ++ enc_index 0 its ++ enc_store its.

Definition pad_len (n : N) : N := (8 - n mod 8) mod 8.

Definition opt_item {A} (f : A -> item) (o : option A) : list item :=
  match o with Some a => [f a] | None => [] end.

Definition with_region (tag : N) (its : list item) : list item :=
  bin_item tag (region_trailer tag (1 + lenN its)) :: its.

Definition sig_items (p : pkg) : list item :=
  with_region 62
    (opt_item (fun s => bin_item 267 (encode_sig s)) (k_dsa p)
     ++ opt_item (fun s => bin_item 268 (encode_sig s)) (k_rsa p)
     ++ opt_item (str_item 269) (k_sha1 p)
     ++ opt_item (str_item 273) (k_sha256 p)
     ++ opt_item (fun s => bin_item 1002 (encode_sig s)) (k_pgp p)
     ++ opt_item (bin_item 1004) (k_md5 p)
     ++ opt_item (fun s => bin_item 1005 (encode_sig s)) (k_gpg p)).

Definition main_items (p : pkg) : list item :=
  with_region 63
    ([str_item 1000 (k_name p); str_item 1001 (k_version p); str_item 1002 (k_release p); str_item 1022 (k_arch p)]
     ++ opt_item (str_item 1064) (k_rpmversion p)).

Definition lead_name (p : pkg) : bytes :=
  firstn 66 (k_name p ++ [45] ++ k_version p ++ [45] ++ k_release p).

Definition encode_lead (p : pkg) : bytes :=
  rpm_magic ++ [k_major p; k_minor p; 0; 0; 0; 1]
  ++ lead_name p ++ repeat 0 (66 - length (lead_name p))
  ++ [0; 1; 0; 5] ++ repeat 0 16.

Definition encode (p : pkg) : bytes :=
  let sh := encode_header (sig_items p) in
  encode_lead p ++ sh ++ repeat 0 (N.to_nat (pad_len (lenN (enc_store (sig_items p)))))
  ++ encode_header (main_items p) ++ k_payload p.

(* ---- what is well formed, what go-rpm must return for it, what must be reported ---- *)

Definition hex_val (c : N) : N :=
  if (48 <=? c) && (c <=? 57) then c - 48
  else if (65 <=? c) && (c <=? 70) then c - 55
  else if (97 <=? c) && (c <=? 102) then c - 87
  else 0.
Definition of_hex (l : bytes) : N := fold_left (fun acc c => acc * 16 + hex_val c) l 0.

Definition nonul (s : bytes) : bool := forallb (fun b => negb (b =? 0)) s.
Definition opt_ok {A} (f : A -> bool) (o : option A) : bool := match o with Some a => f a | None => true end.

Definition sig_ok (s : sigpkt) : bool :=
  (if sp_v3 s then sig3_algo_ok (sp_algo s) else sig4_algo_ok (sp_algo s))
  && hash_known (sp_hash s)
  && (sp_issuer s <? 2 ^ 64) && (sp_created s <? 2 ^ 32)
  && Nat.eqb (length (sp_hashtag s)) 2
  && match sig_mpis (sp_algo s) with Some k => Nat.eqb (length (sp_mpis s)) k | None => false end
  && forallb (fun m => lenN m <? 8192) (sp_mpis s).

Definition pkg_ok (p : pkg) : bool :=
  ((k_major p =? 3) || (k_major p =? 4))
  && nonul (k_name p) && nonul (k_version p) && nonul (k_release p) && nonul (k_arch p)
  && opt_ok nonul (k_rpmversion p) && opt_ok nonul (k_sha1 p) && opt_ok nonul (k_sha256 p)
  && opt_ok (fun d => negb (Nat.eqb (length d) 0)) (k_md5 p)
  && opt_ok sig_ok (k_dsa p) && opt_ok sig_ok (k_rsa p) && opt_ok sig_ok (k_gpg p) && opt_ok sig_ok (k_pgp p)
  && (lenN (enc_store (sig_items p)) <=? max_header_size)
  && (lenN (enc_store (main_items p)) <=? max_header_size)
  && (pad_len (lenN (enc_store (main_items p))) <=? lenN (k_payload p)).

(* the typed value go-rpm extracts for an item of the canonical layout *)
Definition item_value (it : item) : value :=
  if it_type it =? 7 then VBytes (it_data it) else VStrings [until_nul (it_data it)].

Fixpoint entries_view (off : N) (its : list item) : list entry :=
  match its with
  | [] => []
  | it :: r => mkentry (it_tag it) (it_type it) off (it_cnt it) (item_value it)
               :: entries_view (off + lenN (it_data it)) r
  end.

Definition header_view (its : list item) : header :=
  mkheader 1 (lenN its) (lenN (enc_store its)) (entries_view 0 its).

Definition view (p : pkg) : pkgfile :=
  mkpkgfile (mklead (k_major p) (k_minor p)) (header_view (sig_items p)) (header_view (main_items p)).

(* the report of a well-formed package, written from the property:
   identity strings and digests as stored; per signature its public-key algorithm, its hash
   algorithm (RFC 4880 9.1, 9.4) and the 16 hex digits of its issuer key ID *)
Definition pk_name (a : N) : bytes :=
  if a =? 17 then bs "DSA" else if a =? 19 then bs "ECDSA" else if a =? 22 then bs "EdDSA" else bs "RSA".
Definition hash_label (h : N) : bytes := match hash_name h with Some n => n | None => [] end.

Definition sig_report (s : sigpkt) : list (bytes * bytes) :=
  [(bs "Algorithm", pk_name (sp_algo s) ++ bs "/" ++ hash_label (sp_hash s));
   (bs "Key id", fmt_keyid (sp_issuer s))].

Definition stored (o : option bytes) : bytes := match o with Some s => s | None => [] end.
Definition opt_list {A B} (f : A -> B) (o : option A) : list B := match o with Some a => [f a] | None => [] end.

Definition report_children (p : pkg) : list info :=
  opt_list (fun s => Info (bs "Signature") (sig_report s) []) (k_dsa p)
  ++ opt_list (fun s => Info (bs "Signature") (sig_report s) []) (k_rsa p)
  ++ opt_list (fun s => Info (bs "Legacy signature (RPM v3)") (sig_report s) []) (k_gpg p)
  ++ opt_list (fun s => Info (bs "Legacy signature (RPM v3)") (sig_report s) []) (k_pgp p).

Definition report (p : pkg) : info :=
  Info (match stored (k_rpmversion p) with [] => bs "RPM" | v => bs "RPM (version " ++ v ++ bs ")" end)
       ([(bs "Name", k_name p); (bs "Version", k_version p); (bs "Release", k_release p); (bs "Architecture", k_arch p)]
        ++ opt_attr (bs "MD5") (hex_of false (stored (k_md5 p)))
        ++ opt_attr (bs "SHA-1") (stored (k_sha1 p))
        ++ opt_attr (bs "SHA-256") (stored (k_sha256 p))
        ++ match report_children p with [] => [(bs "Signature", bs "none")] | _ => [] end)
       (report_children p).

(* ================================================================ Part 5: arbitrary layouts

   A package description that fixes nothing but the file structure: a lead, two header
   structures whose index entries are ARBITRARY declarations (tag, type, offset, count) over an
   ARBITRARY store, the padding between them and a payload.  [gpkg_ok] is the boolean
   well-formedness predicate on (index, store): every entry's data lies inside the store with
   the count and the type it declares.  No order of tags or offsets, no alignment, no
   disjointness is asked for (go-rpm asks for none; layouts with rpm's alignment padding, gaps,
   shared data, a region entry or none are all instances). *)

Record gent := mkgent { ge_tag : N; ge_type : N; ge_off : N; ge_cnt : N }.
Record ghdr := mkghdr { gh_version : N; gh_reserved : bytes; gh_index : list gent; gh_store : bytes }.
Record gpkg := mkgpkg {
  gp_major : N; gp_minor : N; gp_leadrest : bytes;        (* the 90 lead octets after the version *)
  gp_sig : ghdr; gp_pad : bytes; gp_main : ghdr; gp_payload : bytes }.

Definition enc_gent (e : gent) : bytes :=
  N_to_be 4 (ge_tag e) ++ N_to_be 4 (ge_type e) ++ N_to_be 4 (ge_off e) ++ N_to_be 4 (ge_cnt e).

Definition ghdr_intro (h : ghdr) : bytes :=
  header_magic ++ [gh_version h] ++ gh_reserved h
  ++ N_to_be 4 (lenN (gh_index h)) ++ N_to_be 4 (lenN (gh_store h)).

Definition enc_ghdr (h : ghdr) : bytes := ghdr_intro h ++ flat_map enc_gent (gh_index h) ++ gh_store h.

Definition glead (g : gpkg) : bytes := rpm_magic ++ [gp_major g; gp_minor g] ++ gp_leadrest g.

Definition gencode (g : gpkg) : bytes :=
  glead g ++ enc_ghdr (gp_sig g) ++ gp_pad g ++ enc_ghdr (gp_main g) ++ gp_payload g.

(* the string that starts at the head of l and the bytes after its NUL; None: no NUL in l *)
Fixpoint split_nul (l : bytes) : option (bytes * bytes) :=
  match l with
  | [] => None
  | b :: r => if b =? 0 then Some ([], r)
              else match split_nul r with Some (s, t) => Some (b :: s, t) | None => None end
  end.

(* the [cnt] consecutive NUL-terminated strings at the head of l; None: l ends first *)
Fixpoint strings_at (cnt : nat) (l : bytes) : option (list bytes) :=
  match cnt with
  | O => Some []
  | S c => match split_nul l with
           | None => None
           | Some (s, t) => match strings_at c t with Some r => Some (s :: r) | None => None end
           end
  end.

(* octets per item: CHAR, INT8, BIN 1; INT16 2; INT32 4; INT64 8 *)
Definition item_size (ty : N) : N := if ty =? 3 then 2 else if ty =? 4 then 4 else if ty =? 5 then 8 else 1.
Definition is_string_type (ty : N) : bool := (ty =? 6) || (ty =? 8) || (ty =? 9).
Definition is_fixed_type (ty : N) : bool := ((1 <=? ty) && (ty <=? 5)) || (ty =? 7).

(* one index entry against its store: the data starts inside the store and
   NULL: nothing more;  CHAR/INT8/INT16/INT32/INT64/BIN: count items of the type's size lie inside;
   STRING/STRING_ARRAY/I18NSTRING: count NUL-terminated strings lie inside *)
Definition gent_ok (store : bytes) (e : gent) : bool :=
  let n := lenN store in
  (ge_tag e <? 4294967296) && (ge_cnt e <? 4294967296) && (ge_off e <? n)
  && (if ge_type e =? 0 then true
      else if is_fixed_type (ge_type e) then ge_off e + ge_cnt e * item_size (ge_type e) <=? n
      else if is_string_type (ge_type e) then
        if ge_cnt e <=? n then
          match strings_at (N.to_nat (ge_cnt e)) (skipn (N.to_nat (ge_off e)) store) with Some _ => true | None => false end
        else false
      else false).

Definition ghdr_ok (h : ghdr) : bool :=
  (gh_version h <? 256) && Nat.eqb (length (gh_reserved h)) 4
  && (16 * lenN (gh_index h) <=? max_header_size) && (lenN (gh_store h) <=? max_header_size)
  && forallb (gent_ok (gh_store h)) (gh_index h).

Definition gpkg_ok (g : gpkg) : bool :=
  ((gp_major g =? 3) || (gp_major g =? 4)) && Nat.eqb (length (gp_leadrest g)) 90
  && ghdr_ok (gp_sig g) && ghdr_ok (gp_main g)
  && (lenN (gp_pad g) =? pad_len (lenN (gh_store (gp_sig g))))
  (* go-rpm reads the main header's padding too, and reads nothing from an exhausted reader *)
  && (pad_len (lenN (gh_store (gp_main g))) <=? lenN (gp_payload g))
  && (0 <? lenN (gh_store (gp_main g)) + lenN (gp_payload g)).

(* the typed value that lies at the declared offset *)
Definition gent_value (store : bytes) (e : gent) : value :=
  let ty := ge_type e in
  if ty =? 0 then VNull
  else if (ty =? 1) || (ty =? 7) then VBytes (slice (ge_off e) (ge_cnt e) store)
  else if is_fixed_type ty then VInts ty (slice (ge_off e) (ge_cnt e * item_size ty) store)
  else if is_string_type ty then
    VStrings (match strings_at (N.to_nat (ge_cnt e)) (skipn (N.to_nat (ge_off e)) store) with
              | Some l => l | None => [] end)
  else VNull.

Definition gent_view (store : bytes) (e : gent) : entry :=
  mkentry (ge_tag e) (ge_type e) (ge_off e) (ge_cnt e) (gent_value store e).

Definition ghdr_view (h : ghdr) : header :=
  mkheader (gh_version h) (lenN (gh_index h)) (lenN (gh_store h)) (map (gent_view (gh_store h)) (gh_index h)).

Definition gview (g : gpkg) : pkgfile :=
  mkpkgfile (mklead (gp_major g) (gp_minor g)) (ghdr_view (gp_sig g)) (ghdr_view (gp_main g)).

(* ---- what a header stores under a tag (the first entry that carries the tag) ---- *)

Definition first_with_tag (tag : N) (idx : list gent) : option gent := find (fun e => ge_tag e =? tag) idx.

(* the first string of a STRING / STRING_ARRAY / I18NSTRING entry; empty for every other entry *)
Definition stored_string (h : ghdr) (tag : N) : bytes :=
  match first_with_tag tag (gh_index h) with
  | Some e =>
      if is_string_type (ge_type e) then
        match strings_at (N.to_nat (ge_cnt e)) (skipn (N.to_nat (ge_off e)) (gh_store h)) with
        | Some (s :: _) => s
        | _ => []
        end
      else []
  | None => []
  end.

(* the octets of a BIN (or CHAR) entry; empty for every other entry *)
Definition stored_bytes (h : ghdr) (tag : N) : bytes :=
  match first_with_tag tag (gh_index h) with
  | Some e => if (ge_type e =? 7) || (ge_type e =? 1) then slice (ge_off e) (ge_cnt e) (gh_store h) else []
  | None => []
  end.

(* ---- signature packets in every form of RFC 4880 4.2 / 5.2 ---- *)

(* a signature subpacket: the form of its length (1, 2 or 5 octets), its type octet
   (critical bit included) and its body *)
Record subpkt := mksub { sb_form : N; sb_type : N; sb_data : bytes }.

(* RFC 4880 5.2.3.1 *)
Definition sub_len_enc (form n : N) : bytes :=
  if form =? 1 then [n]
  else if form =? 2 then [192 + (n - 192) / 256; (n - 192) mod 256]
  else 255 :: N_to_be 4 n.
Definition sub_len_ok (form n : N) : bool :=
  if form =? 1 then n <? 192
  else if form =? 2 then (192 <=? n) && (n <? 16320)
  else (form =? 5) && (n <? 4294967296).

Definition enc_sub (sp : subpkt) : bytes :=
  sub_len_enc (sb_form sp) (1 + lenN (sb_data sp)) ++ sb_type sp :: sb_data sp.

(* the body lengths RFC 4880 5.2.3.x prescribe for the subpackets this reader interprets;
   embedded signatures (type 32) are outside this family; a subpacket of any other type must not
   be critical.  Outside the hashed area only the issuer is interpreted. *)
Definition sub_ok (hashed : bool) (sp : subpkt) : bool :=
  let ty := sb_type sp mod 128 in
  let n := length (sb_data sp) in
  (sb_type sp <? 256) && sub_len_ok (sb_form sp) (1 + lenN (sb_data sp))
  && (if ty =? 2 then hashed && Nat.eqb n 4
      else if (ty =? 3) || (ty =? 9) then negb hashed || Nat.eqb n 4
      else if ty =? 16 then Nat.eqb n 8
      else if ty =? 25 then negb hashed || Nat.eqb n 1
      else if (ty =? 27) || (ty =? 29) then negb hashed || negb (Nat.eqb n 0)
      else if ty =? 32 then false
      else if (ty =? 11) || (ty =? 21) || (ty =? 22) || (ty =? 30) then true
      else sb_type sp <? 128).

(* the stored issuer: the last issuer subpacket, hashed area first *)
Definition sub_issuer (acc : option N) (sp : subpkt) : option N :=
  if sb_type sp mod 128 =? 16 then Some (be_to_N (sb_data sp)) else acc.

(* packet header forms (RFC 4880 4.2): old format with length type 0..3 (3 = indeterminate);
   new format with a 1-, 2- or 5-octet length; new format with partial body lengths 2^k for the
   listed k followed by a final 1-, 2- or 5-octet length *)
Inductive pform : Type :=
| FOld (lt : N)
| FNew (f : N)
| FPartial (ks : list N) (f : N).

Definition new_len_form (f n : N) : bytes :=
  if f =? 1 then [n]
  else if f =? 2 then [192 + (n - 192) / 256; (n - 192) mod 256]
  else 255 :: N_to_be 4 n.
Definition new_len_ok (f n : N) : bool :=
  if f =? 1 then n <? 192
  else if f =? 2 then (192 <=? n) && (n <? 8384)
  else (f =? 5) && (n <? 4294967296).

Fixpoint partial_chunks (ks : list N) (f : N) (body : bytes) : bytes :=
  match ks with
  | [] => new_len_form f (lenN body) ++ body
  | k :: r => (224 + k) :: firstn (N.to_nat (2 ^ k)) body ++ partial_chunks r f (skipn (N.to_nat (2 ^ k)) body)
  end.
Fixpoint partial_ok (ks : list N) (f : N) (n : N) : bool :=
  match ks with
  | [] => new_len_ok f n
  | k :: r => (k <=? 30) && (2 ^ k <=? n) && partial_ok r f (n - 2 ^ k)
  end.

Definition pform_ok (pf : pform) (n : N) : bool :=
  (n <? 4294967296) &&
  match pf with
  | FOld lt => (lt =? 3) || ((lt <=? 2) && (n <? 256 ^ (2 ^ lt)))
  | FNew f => new_len_ok f n
  | FPartial ks f => partial_ok ks f n
  end.

(* a signature packet (tag 2) around [body] *)
Definition wrap_sig (pf : pform) (body : bytes) : bytes :=
  match pf with
  | FOld lt => (136 + lt) :: (if lt =? 3 then [] else N_to_be (N.to_nat (2 ^ lt)) (lenN body)) ++ body
  | FNew f => 194 :: new_len_form f (lenN body) ++ body
  | FPartial ks f => 194 :: partial_chunks ks f body
  end.

(* a multiprecision integer (RFC 4880 3.2): its bit count and its octets *)
Definition enc_mpib (m : N * bytes) : bytes := N_to_be 2 (fst m) ++ snd m.
Definition mpib_ok (m : N * bytes) : bool := (fst m <? 65536) && (lenN (snd m) =? (fst m + 7) / 8).

Record gsig := mkgsig {
  gs_form : pform;
  gs_version : N;                               (* 2, 3: a version 3 packet; 4: a version 4 packet *)
  gs_sigtype : N; gs_algo : N; gs_hash : N;
  gs_created : N; gs_issuer : N;                (* version 3: fixed fields *)
  gs_hashed : list subpkt; gs_unhashed : list subpkt;   (* version 4: subpacket areas *)
  gs_hashtag : bytes; gs_mpis : list (N * bytes) }.

Definition enc_subs (l : list subpkt) : bytes := flat_map enc_sub l.

Definition gsig_body (s : gsig) : bytes :=
  (if gs_version s <? 4 then
     [gs_version s; 5; gs_sigtype s] ++ N_to_be 4 (gs_created s) ++ N_to_be 8 (gs_issuer s) ++ [gs_algo s; gs_hash s]
   else
     [4; gs_sigtype s; gs_algo s; gs_hash s]
     ++ N_to_be 2 (lenN (enc_subs (gs_hashed s))) ++ enc_subs (gs_hashed s)
     ++ N_to_be 2 (lenN (enc_subs (gs_unhashed s))) ++ enc_subs (gs_unhashed s))
  ++ gs_hashtag s ++ flat_map enc_mpib (gs_mpis s).

Definition gencode_sig (s : gsig) : bytes := wrap_sig (gs_form s) (gsig_body s).

Definition gsig_ok (s : gsig) : bool :=
  hash_known (gs_hash s)
  && Nat.eqb (length (gs_hashtag s)) 2
  && match sig_mpis (gs_algo s) with Some k => Nat.eqb (length (gs_mpis s)) k | None => false end
  && forallb mpib_ok (gs_mpis s)
  && pform_ok (gs_form s) (lenN (gsig_body s))
  && (if gs_version s <? 4 then
        (2 <=? gs_version s) && sig3_algo_ok (gs_algo s)
        && (gs_issuer s <? 2 ^ 64) && (gs_created s <? 2 ^ 32)
      else
        (gs_version s =? 4) && sig4_algo_ok (gs_algo s)
        && forallb (sub_ok true) (gs_hashed s) && forallb (sub_ok false) (gs_unhashed s)
        && existsb (fun sp => sb_type sp mod 128 =? 2) (gs_hashed s)     (* a creation time, 5.2.3.4 *)
        && (lenN (enc_subs (gs_hashed s)) <? 65536) && (lenN (enc_subs (gs_unhashed s)) <? 65536)).

Definition gsig_issuer (s : gsig) : option N :=
  if gs_version s <? 4 then Some (gs_issuer s)
  else fold_left sub_issuer (gs_hashed s ++ gs_unhashed s) None.

(* what packet.Read must return for it *)
Definition gsig_view (s : gsig) : pkt :=
  if gs_version s <? 4 then PSig3 (gs_algo s) (gs_hash s) (gs_issuer s)
  else PSig4 (gs_sigtype s) (gs_algo s) (gs_hash s) (gsig_issuer s).

(* what must be shown for it: algorithm/hash, and the 16 digits of the issuer when one is stored
   (a packet that carries only an issuer FINGERPRINT subpacket, type 33, stores no issuer key ID:
   no "Key id" line) *)
Definition gsig_report (s : gsig) : list (bytes * bytes) :=
  (bs "Algorithm", pk_name (gs_algo s) ++ bs "/" ++ hash_label (gs_hash s))
  :: match gsig_issuer s with Some k => [(bs "Key id", fmt_keyid k)] | None => [] end.

(* ---- the report of a package in an arbitrary layout ---- *)

(* [sa tag] = the attributes shown for the signature stored under [tag] *)
Definition gsig_child (sa : N -> list (bytes * bytes)) (desc : bytes) (h : ghdr) (tag : N) : list info :=
  match stored_bytes h tag with [] => [] | _ => [Info desc (sa tag) []] end.

Definition greport_children (sa : N -> list (bytes * bytes)) (g : gpkg) : list info :=
  gsig_child sa (bs "Signature") (gp_sig g) 267 ++ gsig_child sa (bs "Signature") (gp_sig g) 268
  ++ gsig_child sa (bs "Legacy signature (RPM v3)") (gp_sig g) 1005
  ++ gsig_child sa (bs "Legacy signature (RPM v3)") (gp_sig g) 1002.

Definition greport_with (sa : N -> list (bytes * bytes)) (g : gpkg) : info :=
  Info (match stored_string (gp_main g) 1064 with [] => bs "RPM" | v => bs "RPM (version " ++ v ++ bs ")" end)
       ([(bs "Name", stored_string (gp_main g) 1000); (bs "Version", stored_string (gp_main g) 1001);
         (bs "Release", stored_string (gp_main g) 1002); (bs "Architecture", stored_string (gp_main g) 1022)]
        ++ opt_attr (bs "MD5") (hex_of false (stored_bytes (gp_sig g) 1004))
        ++ opt_attr (bs "SHA-1") (stored_string (gp_sig g) 269)
        ++ opt_attr (bs "SHA-256") (stored_string (gp_sig g) 273)
        ++ match greport_children sa g with [] => [(bs "Signature", bs "none")] | _ => [] end)
       (greport_children sa g).

(* the four signature tags hold nothing or a well-formed signature packet *)
Record gsigs := mkgsigs { sg_dsa : option gsig; sg_rsa : option gsig; sg_gpg : option gsig; sg_pgp : option gsig }.

Definition sig_at (sg : gsigs) (tag : N) : option gsig :=
  if tag =? 267 then sg_dsa sg else if tag =? 268 then sg_rsa sg
  else if tag =? 1005 then sg_gpg sg else if tag =? 1002 then sg_pgp sg else None.

Definition gsig_stored (g : gpkg) (sg : gsigs) (tag : N) : bool :=
  match sig_at sg tag with
  | None => match stored_bytes (gp_sig g) tag with [] => true | _ => false end
  | Some s => gsig_ok s && bytes_eqb (stored_bytes (gp_sig g) tag) (gencode_sig s)
  end.

Definition gsigs_ok (g : gpkg) (sg : gsigs) : bool :=
  gsig_stored g sg 267 && gsig_stored g sg 268 && gsig_stored g sg 1005 && gsig_stored g sg 1002.

Definition greport (g : gpkg) (sg : gsigs) : info :=
  greport_with (fun tag => match sig_at sg tag with Some s => gsig_report s | None => [] end) g.
