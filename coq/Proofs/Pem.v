(* encoding/pem.Decode on a well-formed block: the loop of PEMFile meets exactly that block. *)
From WI Require Import Lib.Base Lib.Strings Model.Base64 Model.Pem Model.Routes.
From WI Require Proofs.Base64.
From Coq Require Import ZifyN ZifyNat ZifyBool.
Open Scope N_scope.

(* ---------- lists ---------- *)
Lemma take_app_length : forall (A : Type) (a y : list A), take (length a) (a ++ y) = a.
Proof. induction a as [|x a IH]; intros y; [now destruct y|]. cbn [length app take]. now rewrite IH. Qed.

Lemma drop_app_length : forall (A : Type) (a y : list A), drop (length a) (a ++ y) = y.
Proof. induction a as [|x a IH]; intros y; [reflexivity|]. cbn [length app drop]. apply IH. Qed.

Lemma drop_app_plus : forall (A : Type) (a b y : list A), drop (length a + length b) (a ++ b ++ y) = y.
Proof.
  induction a as [|x a IH]; intros b y; cbn [length app drop Nat.add]; [apply drop_app_length|apply IH].
Qed.

Lemma nth_app_length : forall (a y : bytes) c, nth (length a) (a ++ c :: y) 0 = c.
Proof. induction a as [|x a IH]; intros y c; [reflexivity|]. cbn [length app nth]. apply IH. Qed.

Lemma prefix_of_app : forall p y, prefix_of p (p ++ y) = true.
Proof. induction p as [|x p IH]; intros y; [reflexivity|]. cbn [app prefix_of]. now rewrite N.eqb_refl, IH. Qed.

Lemma bytes_eqb_refl : forall a, bytes_eqb a a = true.
Proof. induction a as [|x a IH]; [reflexivity|]. cbn [bytes_eqb]. now rewrite N.eqb_refl, IH. Qed.

Lemma has_suffix_app : forall a s, has_suffix s (a ++ s) = true.
Proof.
  intros a s. unfold has_suffix. rewrite app_length.
  destruct (Nat.ltb (length a + length s) (length s)) eqn:E; [apply Nat.ltb_lt in E; lia|].
  replace (length a + length s - length s)%nat with (length a) by lia.
  rewrite drop_app_length. apply bytes_eqb_refl.
Qed.

(* ---------- bytes.Index ---------- *)
Lemma prefix_of_length : forall p x, prefix_of p x = true -> (length p <= length x)%nat.
Proof.
  induction p as [|a p IH]; intros x H; [cbn; lia|]. destruct x as [|b x]; [discriminate|].
  cbn [prefix_of] in H. apply andb_true_iff in H as [_ H]. apply IH in H. cbn [length]. lia.
Qed.

Lemma index_from_length : forall sep x k n, index_from k sep x = Some n -> (length sep <= length x)%nat.
Proof.
  induction x as [|c x IH]; intros k n H; cbn [index_from] in H.
  - destruct (prefix_of sep []) eqn:E; [now apply prefix_of_length in E|discriminate].
  - destruct (prefix_of sep (c :: x)) eqn:E; [now apply prefix_of_length in E|].
    apply IH in H. cbn [length]. lia.
Qed.

(* a mismatch that is not due to the text being too short stays a mismatch when text is appended *)
Lemma prefix_of_false_app : forall p x y, prefix_of p x = false -> (length p <= length x)%nat ->
  prefix_of p (x ++ y) = false.
Proof.
  induction p as [|a p IH]; intros x y H Hl; [discriminate|].
  destruct x as [|b x]; [cbn in Hl; lia|]. cbn [app prefix_of] in *.
  destruct (a =? b); cbn [andb] in *; [|reflexivity]. apply IH; [assumption|cbn [length] in Hl; lia].
Qed.

Lemma index_from_app : forall sep x y k n, index_from k sep x = Some n -> index_from k sep (x ++ y) = Some n.
Proof.
  induction x as [|c x IH]; intros y k n H; cbn [index_from] in H.
  - destruct (prefix_of sep []) eqn:E; [|discriminate]. destruct sep; [|discriminate]. inversion H; subst.
    destruct y; reflexivity.
  - cbn [app index_from]. destruct (prefix_of sep (c :: x)) eqn:E.
    + destruct sep as [|s sep]; [now inversion H|]. cbn [prefix_of] in *.
      apply andb_true_iff in E as [E1 E2]. rewrite E1. cbn [andb].
      assert (prefix_of sep (x ++ y) = true).
      { clear - E2. revert x E2. induction sep as [|a sep IH]; intros x E; [reflexivity|].
        destruct x as [|b x]; [discriminate|]. cbn [app prefix_of] in *.
        apply andb_true_iff in E as [-> E]. cbn [andb]. now apply IH. }
      now rewrite H0.
    + pose proof (index_from_length sep x (S k) n H) as Hl.
      change (c :: x ++ y) with ((c :: x) ++ y).
      rewrite (prefix_of_false_app sep (c :: x) y E) by (cbn [length]; lia). now apply IH.
Qed.

(* the separator "\n-" ++ s cannot start inside text that contains no '-' *)
Lemma index_after_dashless : forall x s z k, ~ In 45 x ->
  index_from k (10 :: 45 :: s) (x ++ 10 :: 45 :: s ++ z) = Some (k + length x)%nat.
Proof.
  induction x as [|c x IH]; intros s z k Hn.
  - cbn [app length index_from prefix_of]. rewrite !N.eqb_refl, prefix_of_app. cbn [andb]. f_equal. lia.
  - cbn [app index_from].
    assert (Hp : prefix_of (10 :: 45 :: s) (c :: x ++ 10 :: 45 :: s ++ z) = false).
    { cbn [prefix_of]. destruct (10 =? c) eqn:E; [|reflexivity]. cbn [andb].
      destruct x as [|c2 x]; cbn [app prefix_of].
      - reflexivity.
      - destruct (45 =? c2) eqn:E2; [|reflexivity]. apply N.eqb_eq in E2. exfalso. apply Hn. right. left. congruence. }
    rewrite Hp. rewrite IH by (intros H; apply Hn; now right). f_equal. cbn [length]. lia.
Qed.

(* ---------- getLine ---------- *)
Lemma index_byte_app : forall c a y, ~ In c a -> index_byte c (a ++ c :: y) = Some (length a).
Proof.
  induction a as [|x a IH]; intros y H; cbn [app index_byte length].
  - now rewrite N.eqb_refl.
  - destruct (x =? c) eqn:E; [apply N.eqb_eq in E; exfalso; apply H; now left|].
    rewrite IH by (intros Hin; apply H; now right). reflexivity.
Qed.

Lemma trim_right_keep : forall a c, is_sp_tab c = false -> trim_right_sp_tab (a ++ [c]) = a ++ [c].
Proof.
  intros a c H. unfold trim_right_sp_tab. rewrite rev_app_distr. cbn [rev app drop_sp_tab]. rewrite H.
  change (c :: rev a) with ([c] ++ rev a). rewrite rev_app_distr, rev_involutive. reflexivity.
Qed.

Lemma get_line_nonempty : forall a c crlf y, ~ In 10 (a ++ [c]) -> c <> 13 -> is_sp_tab c = false ->
  get_line ((a ++ [c]) ++ eol crlf ++ y) = (a ++ [c], y).
Proof.
  intros a c crlf y Hn Hc Hs. unfold get_line. destruct crlf; cbn [eol app].
  - (* CRLF *)
    replace ((a ++ [c]) ++ 13 :: 10 :: y) with (((a ++ [c]) ++ [13]) ++ 10 :: y) by (now rewrite <- app_assoc).
    rewrite index_byte_app.
    2:{ intros H. apply in_app_or in H as [H|[H|[]]]; [now apply Hn|discriminate]. }
    rewrite app_length. cbn [length]. replace (length (a ++ [c]) + 1 - 1)%nat with (length (a ++ [c])) by lia.
    replace (Nat.ltb 0 (length (a ++ [c]) + 1)) with true by (symmetry; apply Nat.ltb_lt; lia).
    rewrite <- app_assoc. cbn [app]. rewrite nth_app_length, N.eqb_refl. cbn [andb].
    rewrite take_app_length, (trim_right_keep a c Hs). f_equal.
    replace (S (length (a ++ [c]) + 1)) with (length ((a ++ [c]) ++ [13; 10])) by (rewrite app_length; cbn; lia).
    replace ((a ++ [c]) ++ 13 :: 10 :: y) with (((a ++ [c]) ++ [13; 10]) ++ y) by (now rewrite <- app_assoc).
    apply drop_app_length.
  - (* LF *)
    rewrite index_byte_app by assumption.
    rewrite app_length. cbn [length].
    replace (Nat.ltb 0 (length a + 1)) with true by (symmetry; apply Nat.ltb_lt; lia).
    replace (length a + 1 - 1)%nat with (length a) by lia.
    rewrite <- app_assoc. cbn [app]. rewrite nth_app_length.
    destruct (c =? 13) eqn:E; [apply N.eqb_eq in E; contradiction|]. cbn [andb].
    replace (length a + 1)%nat with (length (a ++ [c])) by (rewrite app_length; cbn; lia).
    replace (a ++ c :: 10 :: y) with ((a ++ [c]) ++ 10 :: y) by (now rewrite <- app_assoc).
    rewrite take_app_length, (trim_right_keep a c Hs). f_equal.
    replace (S (length (a ++ [c]))) with (length ((a ++ [c]) ++ [10])) by (rewrite app_length; cbn; lia).
    replace ((a ++ [c]) ++ 10 :: y) with (((a ++ [c]) ++ [10]) ++ y) by (now rewrite <- app_assoc).
    apply drop_app_length.
Qed.

Lemma get_line_empty : forall crlf y, get_line (eol crlf ++ y) = ([], y).
Proof. intros [|] y; reflexivity. Qed.

(* the line that getLine returns consists of bytes that precede the first line feed *)
Lemma In_take : forall (A : Type) n (l : list A) x, In x (take n l) -> In x l.
Proof.
  induction n as [|n IH]; intros l x H; destruct l as [|y l]; cbn [take] in H; try contradiction.
  destruct H as [->|H]; [now left|right; eauto].
Qed.

Lemma drop_sp_tab_incl : forall l x, In x (drop_sp_tab l) -> In x l.
Proof.
  induction l as [|c l IH]; intros x H; [assumption|]. cbn [drop_sp_tab] in H.
  destruct (is_sp_tab c); [right; now apply IH|assumption].
Qed.

Lemma trim_right_incl : forall l x, In x (trim_right_sp_tab l) -> In x l.
Proof.
  intros l x H. unfold trim_right_sp_tab in H. apply in_rev in H. apply drop_sp_tab_incl in H. now apply in_rev.
Qed.

Lemma index_byte_first : forall c u v i, In c u -> index_byte c (u ++ v) = Some i ->
  (i < length u)%nat /\ take i (u ++ v) = take i u.
Proof.
  induction u as [|x u IH]; intros v i Hin H; [contradiction|].
  cbn [app index_byte] in H. destruct (x =? c) eqn:E.
  - inversion H; subst. split; [cbn; lia|reflexivity].
  - destruct Hin as [->|Hin]; [rewrite N.eqb_refl in E; discriminate|].
    destruct (index_byte c (u ++ v)) as [j|] eqn:Ej; [|discriminate]. inversion H; subst.
    destruct (IH v j Hin Ej) as [Hl Ht]. split; [cbn [length]; lia|]. cbn [app take]. now rewrite Ht.
Qed.

Lemma index_byte_some : forall c l, In c l -> exists i, index_byte c l = Some i.
Proof.
  induction l as [|x l IH]; intros H; [contradiction|]. cbn [index_byte].
  destruct (x =? c) eqn:E; [eauto|]. destruct H as [->|H]; [rewrite N.eqb_refl in E; discriminate|].
  destruct (IH H) as [i ->]. cbn. eauto.
Qed.

Lemma get_line_incl : forall u v x, In 10 u -> In x (fst (get_line (u ++ v))) -> In x u.
Proof.
  intros u v x Hu H. unfold get_line in H.
  destruct (index_byte_some 10 (u ++ v) (in_or_app _ _ _ (or_introl Hu))) as [i Hi]. rewrite Hi in H.
  destruct (index_byte_first 10 u v i Hu Hi) as [Hl Ht]. cbn [fst] in H.
  apply trim_right_incl in H.
  set (i' := if Nat.ltb 0 i && (nth (i - 1) (u ++ v) 0 =? 13) then (i - 1)%nat else i) in *.
  assert (Hle : (i' <= i)%nat) by (subst i'; destruct (_ && _); lia).
  assert (Hsub : forall n m (l : bytes) y, (n <= m)%nat -> In y (take n l) -> In y (take m l)).
  { induction n as [|n IHn]; intros m l y Hnm Hy; [contradiction|].
    destruct l as [|z l]; [contradiction|]. destruct m as [|m]; [lia|]. cbn [take] in *.
    destruct Hy as [->|Hy]; [now left|right; apply (IHn m); [lia|assumption]]. }
  apply (Hsub i' i) in H; [|assumption]. rewrite Ht in H. now apply In_take in H.
Qed.

(* ---------- character classes of a wrapped base64 body ---------- *)
Lemma encode_core_forall : forall (P : N -> bool) u p,
  (forall v, v < 64 -> P (b64char u v) = true) -> P 61 = true ->
  forall n d, (length d < n)%nat -> bytes_ok d = true -> forallb P (encode_core u p d) = true.
Proof.
  intros P u p Hc He. induction n as [|n IH]; intros d Hn Hok; [lia|].
  destruct d as [|a [|b [|c r]]].
  - reflexivity.
  - cbn [bytes_ok forallb] in Hok. unfold byte_ok in Hok. assert (Ha : a < 256) by lia.
    cbn [encode_core app]. destruct p; cbn [app forallb]; rewrite ?He, !Hc by lia; reflexivity.
  - cbn [bytes_ok forallb] in Hok. unfold byte_ok in Hok. assert (Ha : a < 256) by lia. assert (Hb : b < 256) by lia.
    cbn [encode_core app]. destruct p; cbn [app forallb]; rewrite ?He, !Hc by lia; reflexivity.
  - cbn [bytes_ok forallb] in Hok. unfold byte_ok in Hok.
    assert (Ha : a < 256) by lia. assert (Hb : b < 256) by lia. assert (Hc' : c < 256) by lia.
    assert (Hr : bytes_ok r = true) by (unfold bytes_ok, byte_ok; lia).
    cbn [encode_core app forallb]. rewrite !Hc by lia. cbn [andb].
    apply IH; [cbn [length] in Hn; lia|exact Hr].
Qed.

Lemma forallb_take : forall (A : Type) (f : A -> bool) n l, forallb f l = true -> forallb f (take n l) = true.
Proof.
  induction n as [|n IH]; intros l H; [reflexivity|]. destruct l as [|x l]; [reflexivity|].
  cbn [take forallb] in *. apply andb_true_iff in H as [-> H]. now apply IH.
Qed.
Lemma forallb_drop : forall (A : Type) (f : A -> bool) n l, forallb f l = true -> forallb f (drop n l) = true.
Proof.
  induction n as [|n IH]; intros l H; [assumption|]. destruct l as [|x l]; [reflexivity|].
  cbn [drop forallb] in *. apply andb_true_iff in H as [_ H]. now apply IH.
Qed.

Lemma wrap_go_forall : forall (P : N -> bool) crlf, P 13 = true -> P 10 = true ->
  forall f w s, forallb P s = true -> forallb P (wrap_go f w crlf s) = true.
Proof.
  intros P crlf H13 H10. induction f as [|f IH]; intros w s H; [assumption|]. cbn [wrap_go].
  destruct (Nat.leb (length s) w); [assumption|].
  rewrite !forallb_app. rewrite forallb_take by assumption. rewrite IH by (now apply forallb_drop).
  destruct crlf; cbn [forallb]; rewrite ?H13, ?H10; reflexivity.
Qed.

Lemma wrap_forall : forall (P : N -> bool) w crlf s, P 13 = true -> P 10 = true ->
  forallb P s = true -> forallb P (wrap w crlf s) = true.
Proof. intros P w crlf s H13 H10 H. destruct w; [assumption|]. unfold wrap. now apply wrap_go_forall. Qed.

(* the body of a PEM block: no '-', ':', space or tab *)
Definition body_char (c : N) : bool := negb (c =? 45) && negb (c =? 58) && negb (is_sp_tab c).

Lemma body_chars : forall crlf d, bytes_ok d = true -> forallb body_char (wrap 64 crlf (encode Std d)) = true.
Proof.
  intros crlf d H. apply wrap_forall; try reflexivity. unfold encode.
  apply (encode_core_forall body_char false true) with (n := S (length d)); try reflexivity; [|lia|assumption].
  intros v Hv.
  exact (Proofs.Base64.forall_range (fun v => body_char (b64char false v)) 64 ltac:(vm_compute; reflexivity) v Hv).
Qed.

Lemma forallb_not_in : forall (P : N -> bool) l c, forallb P l = true -> P c = false -> ~ In c l.
Proof. intros P l c H Hc Hin. rewrite forallb_forall in H. apply H in Hin. congruence. Qed.

Lemma filter_id : forall (f : N -> bool) l, forallb f l = true -> filter f l = l.
Proof.
  induction l as [|x l IH]; intros H; [reflexivity|]. cbn [forallb filter] in *.
  apply andb_true_iff in H as [-> H]. f_equal. now apply IH.
Qed.

Lemma skip_headers_none : forall f rest line next n, rest <> [] -> get_line rest = (line, next) ->
  existsb (fun c => c =? 58) line = false -> skip_headers (S f) rest n = Some (rest, n).
Proof.
  intros f rest line next n Hne Hg Hl. cbn [skip_headers]. destruct rest as [|c r]; [congruence|].
  now rewrite Hg, Hl.
Qed.

(* ---------- the block ---------- *)
Section Block.
  Variable label : bytes.
  Variable d : bytes.
  Variable crlf : bool.
  Hypothesis label_no_lf : ~ In 10 label.
  Hypothesis d_ok : bytes_ok d = true.
  Hypothesis d_nonempty : d <> [].

  Let body := wrap 64 crlf (encode Std d).
  Let cr : bytes := if crlf then [13] else [].

  Lemma eol_split : eol crlf = cr ++ [10].
  Proof. unfold cr. destruct crlf; reflexivity. Qed.

  Lemma marker_line : forall (m : bytes), ~ In 10 m ->
    forall y, get_line ((m ++ label ++ pem_dashes) ++ eol crlf ++ y) = (m ++ label ++ pem_dashes, y).
  Proof.
    intros m Hm y.
    replace (m ++ label ++ pem_dashes) with ((m ++ label ++ bs "----") ++ [45]).
    2:{ rewrite <- !app_assoc. reflexivity. }
    apply get_line_nonempty; try discriminate; try reflexivity.
    intros H. rewrite <- !app_assoc in H. apply in_app_or in H as [H|H]; [now apply Hm|].
    apply in_app_or in H as [H|H]; [now apply label_no_lf|].
    cbn in H. repeat (destruct H as [H|H]; [discriminate|]). contradiction.
  Qed.

  Lemma body_nonempty : exists c t, body = c :: t /\ body_char c = true.
  Proof.
    pose proof (body_chars crlf d d_ok) as H. fold body in H.
    destruct body as [|c t] eqn:E.
    - exfalso. unfold body in E.
      assert (Hs : strip_nl (wrap 64 crlf (encode Std d)) = []) by now rewrite E.
      destruct (Proofs.Base64.encode_core_props false true (S (length d)) d (Nat.lt_succ_diag_r _) d_ok) as [Hnl Hc].
      unfold encode in Hs. cbn [enc_url enc_padded] in Hs. rewrite (Proofs.Base64.strip_wrap _ _ _ Hnl) in Hs.
      specialize (Hc (S (length (encode_core false true d))) (Nat.lt_succ_diag_r _)).
      rewrite Hs in Hc. cbn in Hc. inversion Hc. congruence.
    - cbn [forallb] in H. apply andb_true_iff in H as [H _]. eauto.
  Qed.

  Lemma body_cr_chars : forallb body_char (body ++ cr) = true.
  Proof.
    rewrite forallb_app. unfold body. rewrite (body_chars crlf d d_ok). unfold cr. destruct crlf; reflexivity.
  Qed.

  Lemma body_decodes : std_decode Std (body ++ cr) = Some d.
  Proof.
    destruct (Proofs.Base64.encode_core_props false true (S (length d)) d (Nat.lt_succ_diag_r _) d_ok) as [Hnl Hc].
    unfold std_decode. cbv zeta. rewrite Proofs.Base64.strip_app. unfold body, encode. cbn [enc_url enc_padded].
    rewrite (Proofs.Base64.strip_wrap _ _ _ Hnl).
    assert (Hcr : strip_nl cr = []) by (unfold cr; destruct crlf; reflexivity).
    rewrite Hcr, app_nil_r. apply Hc. apply Nat.lt_succ_diag_r.
  Qed.

  (* pem.Decode, called at the BEGIN line of the block, returns it and the text after its END line *)
  Theorem decode_block : forall post,
    attempt_block (label ++ pem_dashes ++ eol crlf ++ body ++ eol crlf
                   ++ pem_end ++ label ++ pem_dashes ++ eol crlf ++ post)
    = Found label d post.
  Proof.
    intros post. unfold attempt_block.
    set (tail := pem_end ++ label ++ pem_dashes ++ eol crlf ++ post).
    (* the type line *)
    replace (label ++ pem_dashes ++ eol crlf ++ body ++ eol crlf ++ tail)
      with (([] ++ label ++ pem_dashes) ++ eol crlf ++ (body ++ eol crlf ++ tail))
      by (cbn [app]; now rewrite <- !app_assoc).
    rewrite (marker_line [] (fun H => H)). cbn [app].
    rewrite has_suffix_app. cbn [negb].
    replace (take (length (label ++ pem_dashes) - length pem_dashes) (label ++ pem_dashes)) with label.
    2:{ rewrite app_length. replace (length label + length pem_dashes - length pem_dashes)%nat with (length label) by lia.
        now rewrite take_app_length. }
    (* no header lines *)
    destruct body_nonempty as (c0 & t0 & Eb & Hc0).
    assert (Hrest1 : body ++ eol crlf ++ tail = (body ++ eol crlf) ++ tail) by now rewrite <- app_assoc.
    destruct (get_line (body ++ eol crlf ++ tail)) as [line next] eqn:Eg.
    assert (Hline : existsb (fun c => c =? 58) line = false).
    { destruct (existsb (fun c => c =? 58) line) eqn:E; [|reflexivity]. exfalso.
      apply existsb_exists in E as [x [Hx Hx58]]. apply N.eqb_eq in Hx58. subst x.
      assert (Hin : In 58 (fst (get_line ((body ++ eol crlf) ++ tail)))) by (rewrite <- Hrest1, Eg; exact Hx).
      apply get_line_incl in Hin.
      - rewrite eol_split, app_assoc in Hin. apply in_app_or in Hin as [Hin|[Hin|[]]]; [|discriminate].
        revert Hin. apply (forallb_not_in body_char); [apply body_cr_chars|reflexivity].
      - apply in_or_app. right. rewrite eol_split. apply in_or_app. right. now left. }
    rewrite (skip_headers_none _ _ line next O); [|rewrite Eb; discriminate|exact Eg|exact Hline].
    (* the END line *)
    assert (Hpe : prefix_of pem_end (body ++ eol crlf ++ tail) = false).
    { rewrite Eb. cbn [app]. change pem_end with (45 :: bs "----END "). cbn [prefix_of].
      destruct (45 =? c0) eqn:E; [|reflexivity]. apply N.eqb_eq in E. subst c0. discriminate Hc0. }
    cbn [Nat.eqb andb]. rewrite Hpe.
    assert (Hsplit : body ++ eol crlf ++ tail
                     = (body ++ cr) ++ (10 :: pem_end) ++ (label ++ pem_dashes ++ eol crlf ++ post)).
    { unfold tail. rewrite eol_split. rewrite <- !app_assoc. reflexivity. }
    rewrite Hsplit.
    assert (Hidx : index_of (10 :: pem_end) ((body ++ cr) ++ (10 :: pem_end) ++ label ++ pem_dashes ++ eol crlf ++ post)
                   = Some (length (body ++ cr))).
    { unfold index_of.
      change ((10 :: pem_end) ++ label ++ pem_dashes ++ eol crlf ++ post)
        with (10 :: 45 :: bs "----END " ++ label ++ pem_dashes ++ eol crlf ++ post).
      change (10 :: pem_end) with (10 :: 45 :: bs "----END ").
      rewrite index_after_dashless; [reflexivity|].
      apply (forallb_not_in body_char); [apply body_cr_chars|reflexivity]. }
    rewrite Hidx.
    replace (length (body ++ cr) + S (length pem_end))%nat with (length (body ++ cr) + length (10%N :: pem_end))%nat
      by reflexivity.
    rewrite drop_app_plus.
    (* the trailer after "-----END " *)
    rewrite !app_length.
    replace (Nat.ltb (length label + (length pem_dashes + (length (eol crlf) + length post)))
                     (length label + length pem_dashes)) with false by (symmetry; apply Nat.ltb_ge; lia).
    replace (label ++ pem_dashes ++ eol crlf ++ post) with ((label ++ pem_dashes) ++ eol crlf ++ post)
      by now rewrite <- app_assoc.
    replace (length label + length pem_dashes)%nat with (length (label ++ pem_dashes)) by now rewrite app_length.
    rewrite drop_app_length, take_app_length, prefix_of_app, has_suffix_app. cbn [negb orb].
    rewrite get_line_empty. cbn [fst].
    (* the body *)
    replace (length body + length cr)%nat with (length (body ++ cr)) by (now rewrite app_length).
    rewrite take_app_length. unfold remove_sp_tab.
    rewrite filter_id.
    2:{ pose proof body_cr_chars as H. rewrite forallb_forall in *. intros x Hx. specialize (H x Hx).
        unfold body_char in H. apply andb_true_iff in H as [_ H]. exact H. }
    rewrite body_decodes.
    (* the rest after the END line *)
    f_equal.
    replace ((body ++ cr) ++ (10 :: pem_end) ++ (label ++ pem_dashes) ++ eol crlf ++ post)
      with (((body ++ cr) ++ (10 :: bs "-----END")) ++ (([32] ++ label ++ pem_dashes) ++ eol crlf ++ post)).
    2:{ rewrite <- !app_assoc. reflexivity. }
    replace (length (body ++ cr) + length pem_end)%nat with (length ((body ++ cr) ++ (10 :: bs "-----END"))).
    2:{ rewrite !app_length. reflexivity. }
    rewrite drop_app_length.
    rewrite (marker_line [32]); [reflexivity|]. intros [H|[]]. discriminate.
  Qed.
End Block.

Lemma blocks_go_nil : forall f, blocks_go f [] = [].
Proof. destruct f; reflexivity. Qed.

(* the loop of PEMFile over a file that consists of text without a start marker, one well-formed
   block, and text without a start marker: exactly that block *)
Theorem pem_blocks_of_pem_text : forall label d crlf pre post,
  ~ In 10 label -> bytes_ok d = true -> d <> [] ->
  index_of pem_begin (pre ++ pem_begin) = Some (length pre) ->
  index_of pem_begin post = None ->
  pem_blocks_of (pem_text label d crlf pre post) = [(label, d)].
Proof.
  intros label d crlf pre post Hl Hd Hne Hpre Hpost.
  set (R := label ++ pem_dashes ++ eol crlf ++ wrap 64 crlf (encode Std d) ++ eol crlf
            ++ pem_end ++ label ++ pem_dashes ++ eol crlf ++ post).
  assert (Ht : pem_text label d crlf pre post = (pre ++ pem_begin) ++ R).
  { unfold pem_text, R. rewrite <- !app_assoc. reflexivity. }
  unfold pem_blocks_of. rewrite Ht.
  assert (Hskip : skip_to_block ((pre ++ pem_begin) ++ R) = pem_begin ++ R).
  { unfold skip_to_block, index_of. unfold index_of in Hpre. rewrite (index_from_app _ _ R _ _ Hpre).
    rewrite <- app_assoc. apply drop_app_length. }
  rewrite Hskip. cbn [blocks_go].
  change (pem_begin ++ R) with (45 :: bs "----BEGIN " ++ R) at 1.
  cbv iota. fold (pem_begin ++ R).
  assert (Hdec : pem_decode (pem_begin ++ R) = Some (label, d, post)).
  { unfold pem_decode. cbn [decode_go]. unfold find_start. rewrite prefix_of_app.
    rewrite drop_app_length. unfold R. now rewrite decode_block. }
  change (45 :: bs "----BEGIN " ++ R) with (pem_begin ++ R).
  rewrite Hdec. unfold skip_to_block at 1. rewrite Hpost. now rewrite blocks_go_nil.
Qed.

(* the labels of the property contain no line feed *)
Lemma label_of_no_lf : forall k, ~ In 10 (label_of k).
Proof.
  intros k H. assert (E : existsb (fun c => c =? 10) (label_of k) = true).
  { apply existsb_exists. exists 10. split; [assumption|reflexivity]. }
  destruct k as [|[|[|[|[|[|k]]]]]]; vm_compute in E; discriminate.
Qed.
