(* Proofs about the reference JSON reader (Model/JwtJson.v): whatever the fallback oracle answers,
   the model's J decodes into a map only texts whose first byte is '{' or JSON white space - the
   hypothesis C18_dispatch puts on the JSON library. *)
From WI Require Import Lib.Base Lib.Utf8 Model.Jwt Model.JwtJson.
From WI Require Proofs.JwtDispatch.
From Coq Require Import List NArith Lia Bool.
Import ListNotations.
Open Scope N_scope.

(* machines that can no longer end with an object as the top-level value: the outermost open
   bracket is '[' or, with nothing open, a top-level value that is not an object has begun *)
Definition begin_state (s : sst) : bool :=
  match s with SBeginValue | SBeginValueOrEmpty | SBeginStringOrEmpty | SBeginString => true | _ => false end.
Definition top_obj (m : mach) : bool := match m_top m with Some TObject => true | _ => false end.
Fixpoint bottom_arr (k : list pst) : bool :=
  match k with
  | [] => false
  | [p] => match p with PArr => true | _ => false end
  | _ :: r => bottom_arr r
  end.
Definition no_object (m : mach) : bool :=
  negb (top_obj m) && match m_stack m with [] => negb (begin_state (m_st m)) | k => bottom_arr k end.

Lemma bottom_arr_cons : forall p q r, bottom_arr (p :: q :: r) = bottom_arr (q :: r).
Proof. reflexivity. Qed.

Lemma bottom_arr_top : forall p p' r, r <> [] -> bottom_arr (p :: r) = bottom_arr (p' :: r).
Proof. intros p p' [|q r] H; [contradiction|reflexivity]. Qed.

Lemma deliver_no_object : forall m v t o u, t <> TObject -> no_object m = true ->
  no_object (deliver m v t o u) = true.
Proof.
  intros [st k d l key mem top ov un] v t o u Ht H. unfold no_object, top_obj, deliver in *. cbn in *.
  destruct k as [|p [|q r]].
  - cbn. destruct t; try contradiction; reflexivity.
  - destruct p; cbn in *; exact H.
  - destruct p; cbn in *; exact H.
Qed.

(* delivering an object is harmless while something is still open *)
Lemma deliver_open : forall m v t o u, m_stack m <> [] -> no_object m = true ->
  no_object (deliver m v t o u) = true.
Proof.
  intros [st k d l key mem top ov un] v t o u Hk H. unfold no_object, top_obj, deliver in *. cbn in *.
  destruct k as [|p [|q r]]; [contradiction| |]; destruct p; cbn in *; exact H.
Qed.

Lemma deliver_stack : forall m v t o u, m_stack (deliver m v t o u) = m_stack m.
Proof. intros [st k d l key mem top ov un] v t o u. unfold deliver. cbn. destruct k as [|[] [|q r]]; reflexivity. Qed.
Lemma deliver_st : forall m v t o u, m_st (deliver m v t o u) = SEndValue.
Proof. intros [st k d l key mem top ov un] v t o u. unfold deliver. cbn. destruct k as [|[] [|q r]]; reflexivity. Qed.

Lemma end_literal_no_object : forall m k, no_object m = true -> no_object (end_literal m k) = true.
Proof.
  intros m k H. unfold end_literal. destruct k; try (apply deliver_no_object; [discriminate|exact H]).
  destruct (num_value _); apply deliver_no_object; try discriminate; exact H.
Qed.
Lemma end_literal_stack : forall m k, m_stack (end_literal m k) = m_stack m.
Proof. intros m k. unfold end_literal. destruct k; try apply deliver_stack. destruct (num_value _); apply deliver_stack. Qed.

Lemma set_st_no_object : forall m s, m_stack m <> [] -> no_object m = true -> no_object (set_st m s) = true.
Proof. intros [st k d l key mem top ov un] s Hk H. unfold no_object, top_obj in *. cbn in *. destruct k; [contradiction|exact H]. Qed.

Lemma pop_no_object : forall m m', no_object m = true -> pop_state m = Some m' -> no_object m' = true.
Proof.
  intros [st k d l key mem top ov un] m' H Hp. unfold pop_state in Hp. cbn in Hp. cbv zeta in Hp.
  destruct k as [|p rest]; [discriminate|].
  unfold no_object, top_obj in H. cbn in H. apply andb_prop in H. destruct H as [Ht Hb].
  destruct rest as [|q r].
  - destruct p; cbn in Hb; try discriminate Hb. injection Hp as Hp; subst m'. unfold no_object, top_obj. reflexivity.
  - assert (B : no_object (mk SEndValue (q :: r) (d - 1) [] key mem top ov un) = true).
    { unfold no_object, top_obj. cbn [m_top m_stack]. rewrite Ht. exact Hb. }
    assert (HM : m_stack (mk SEndValue (q :: r) (d - 1) [] key mem top ov un) <> []) by (cbn; discriminate).
    assert (G : forall v t s, no_object (set_st (deliver (mk SEndValue (q :: r) (d - 1) [] key mem top ov un) v t false false) s) = true).
    { intros v t s. apply set_st_no_object; [rewrite deliver_stack; exact HM | apply deliver_open; assumption]. }
    destruct p; injection Hp as Hp; subst m'; apply G.
Qed.

(* for end_value the state of m does not matter, only that a non-object value is under way *)
Definition no_object_open (m : mach) : bool :=
  negb (top_obj m) && match m_stack m with [] => true | k => bottom_arr k end.

Lemma no_object_open_of : forall m, no_object m = true -> no_object_open m = true.
Proof.
  intros [st k d l key mem top ov un]. unfold no_object, no_object_open. cbn. destruct k; [|trivial].
  intros H. apply andb_prop in H. destruct H as [-> _]. reflexivity.
Qed.

Lemma end_value_no_object : forall m c m', no_object_open m = true -> end_value m c = Some m' -> no_object m' = true.
Proof.
  intros [st k d l key mem top ov un] c m' H He. unfold end_value in He. cbn in He.
  unfold no_object_open, top_obj in H. cbn in H. apply andb_prop in H. destruct H as [Ht Hb].
  destruct k as [|p rest].
  - destruct (is_space c); [|discriminate]. injection He as He; subst m'. unfold no_object, top_obj. cbn. rewrite Ht. reflexivity.
  - destruct (is_space c).
    { injection He as He; subst m'. unfold no_object, top_obj. cbn. rewrite Ht. exact Hb. }
    destruct p.
    + destruct (c =? 58); [|discriminate]. injection He as He; subst m'. unfold no_object, top_obj. cbn [m_top m_stack set_stack]. rewrite Ht.
      destruct rest; [discriminate Hb|exact Hb].
    + destruct (c =? 44).
      * injection He as He; subst m'. unfold no_object, top_obj. cbn [m_top m_stack set_stack]. rewrite Ht.
        destruct rest; [discriminate Hb|exact Hb].
      * destruct (c =? 125); [|discriminate]. apply (pop_no_object (mk st (PVal :: rest) d l key mem top ov un) m'); [|exact He].
        unfold no_object, top_obj. cbn. rewrite Ht. exact Hb.
    + destruct (c =? 44).
      * injection He as He; subst m'. unfold no_object, top_obj. cbn. rewrite Ht. exact Hb.
      * destruct (c =? 93); [|discriminate]. apply (pop_no_object (mk st (PArr :: rest) d l key mem top ov un) m'); [|exact He].
        unfold no_object, top_obj. cbn. rewrite Ht. exact Hb.
Qed.

(* ---- the state "after '{'" only occurs with an object frame on top ---- *)
Definition not_bsoe (s : sst) : bool := match s with SBeginStringOrEmpty => false | _ => true end.
Definition key_state_ok (m : mach) : bool :=
  not_bsoe (m_st m) || match m_stack m with PKey :: _ => true | _ => false end.

Lemma end_literal_st : forall m k, m_st (end_literal m k) = SEndValue.
Proof. intros m k. unfold end_literal. destruct k; try apply deliver_st. destruct (num_value _); apply deliver_st. Qed.

Lemma set_st_st : forall m s, m_st (set_st m s) = s.
Proof. reflexivity. Qed.

Lemma pop_state_st : forall m m', pop_state m = Some m' -> not_bsoe (m_st m') = true.
Proof.
  intros m m' H. unfold pop_state in H. destruct (m_stack m) as [|p rest]; [discriminate|]. cbv zeta in H.
  destruct p; injection H as H; subst m'; rewrite set_st_st; destruct rest; reflexivity.
Qed.

Lemma end_value_st : forall m c m', end_value m c = Some m' -> not_bsoe (m_st m') = true.
Proof.
  intros m c m' H. unfold end_value in H. destruct (m_stack m) as [|p rest].
  - destruct (is_space c); [|discriminate]. injection H as H; subst m'. reflexivity.
  - destruct (is_space c); [injection H as H; subst m'; reflexivity|].
    destruct p.
    + destruct (c =? 58); [|discriminate]. injection H as H; subst m'. reflexivity.
    + destruct (c =? 44); [injection H as H; subst m'; reflexivity|].
      destruct (c =? 125); [|discriminate]. exact (pop_state_st _ _ H).
    + destruct (c =? 44); [injection H as H; subst m'; reflexivity|].
      destruct (c =? 93); [|discriminate]. exact (pop_state_st _ _ H).
Qed.

Lemma ok_of_st : forall m, not_bsoe (m_st m) = true -> key_state_ok m = true.
Proof. intros m H. unfold key_state_ok. rewrite H. reflexivity. Qed.

Lemma begin_value_key_ok : forall m c m', begin_value m c = Some m' -> key_state_ok m' = true.
Proof.
  intros m c m' H. unfold begin_value, push_state in H.
  repeat match type of H with
  | (if ?b then _ else _) = _ => destruct b
  end; try discriminate H; injection H as H; subst m'; reflexivity.
Qed.

Lemma begin_string_key_ok : forall m c m', begin_string m c = Some m' -> key_state_ok m' = true.
Proof. intros m c m' H. unfold begin_string in H. destruct (c =? 34); [|discriminate]. injection H as H; subst m'. reflexivity. Qed.

Lemma after_int_key_ok : forall m c m', after_int m c = Some m' -> key_state_ok m' = true.
Proof.
  intros m c m' H. unfold after_int in H.
  destruct (c =? 46); [injection H as H; subst m'; reflexivity|].
  destruct ((c =? 101) || (c =? 69)); [injection H as H; subst m'; reflexivity|].
  apply ok_of_st. exact (end_value_st _ _ _ H).
Qed.

Lemma step_key_ok : forall m c m', key_state_ok m = true -> step m c = Some m' -> key_state_ok m' = true.
Proof.
  intros m c m' Hk H. unfold step in H.
  destruct (m_st m) eqn:Est.
  - destruct (is_space c); [injection H as H; subst m'; exact Hk|]. exact (begin_value_key_ok _ _ _ H).
  - destruct (is_space c); [injection H as H; subst m'; exact Hk|].
    destruct (c =? 93); [apply ok_of_st; exact (end_value_st _ _ _ H)|]. exact (begin_value_key_ok _ _ _ H).
  - destruct (is_space c); [injection H as H; subst m'; exact Hk|].
    destruct (c =? 125); [apply ok_of_st; exact (end_value_st _ _ _ H)|]. exact (begin_string_key_ok _ _ _ H).
  - destruct (is_space c); [injection H as H; subst m'; exact Hk|]. exact (begin_string_key_ok _ _ _ H).
  - apply ok_of_st; exact (end_value_st _ _ _ H).
  - destruct (is_space c); [injection H as H; subst m'; exact Hk|discriminate].
  - destruct (c =? 34); [injection H as H; subst m'; apply ok_of_st; rewrite ?end_literal_st, ?deliver_st; reflexivity|].
    destruct (c =? 92); [injection H as H; subst m'; reflexivity|].
    destruct (c <? 32); [discriminate|]. injection H as H; subst m'; reflexivity.
  - match type of H with (if ?b then _ else _) = _ => destruct b end; [injection H as H; subst m'; reflexivity|].
    destruct (c =? 117); [|discriminate]. injection H as H; subst m'; reflexivity.
  - destruct (is_hex c); [|discriminate]. injection H as H; subst m'. apply ok_of_st. cbn. destruct k as [|[|[|[|k]]]]; reflexivity.
  - destruct (c =? 48); [injection H as H; subst m'; reflexivity|].
    destruct ((49 <=? c) && (c <=? 57)); [|discriminate]. injection H as H; subst m'; reflexivity.
  - exact (after_int_key_ok _ _ _ H).
  - destruct (is_digit c); [injection H as H; subst m'; reflexivity|]. exact (after_int_key_ok _ _ _ H).
  - destruct (is_digit c); [|discriminate]. injection H as H; subst m'; reflexivity.
  - destruct (is_digit c); [injection H as H; subst m'; reflexivity|].
    destruct ((c =? 101) || (c =? 69)); [injection H as H; subst m'; reflexivity|].
    apply ok_of_st; exact (end_value_st _ _ _ H).
  - destruct ((c =? 43) || (c =? 45)); [injection H as H; subst m'; reflexivity|].
    destruct (is_digit c); [|discriminate]. injection H as H; subst m'; reflexivity.
  - destruct (is_digit c); [|discriminate]. injection H as H; subst m'; reflexivity.
  - destruct (is_digit c); [injection H as H; subst m'; reflexivity|]. apply ok_of_st; exact (end_value_st _ _ _ H).
  - destruct rest as [|x r]; [discriminate|]. destruct (c =? x); [|discriminate].
    destruct r; injection H as H; subst m'; [apply ok_of_st; rewrite ?end_literal_st, ?deliver_st; reflexivity | reflexivity].
Qed.

(* ---- no_object is kept by every step ---- *)
Lemma add_lit_no_object : forall m s c, begin_state s = false -> no_object m = true -> no_object (add_lit m s c) = true.
Proof.
  intros [st k d l key mem top ov un] s c Hs H. unfold no_object, top_obj in *. cbn in *.
  apply andb_prop in H. destruct H as [-> H]. destruct k; [rewrite Hs; reflexivity | exact H].
Qed.
Lemma start_lit_no_object : forall m s l0, begin_state s = false -> no_object m = true -> no_object (start_lit m s l0) = true.
Proof.
  intros [st k d l key mem top ov un] s l0 Hs H. unfold no_object, top_obj in *. cbn in *.
  apply andb_prop in H. destruct H as [-> H]. destruct k; [rewrite Hs; reflexivity | exact H].
Qed.
Lemma set_st_no_object' : forall m s, begin_state s = false -> no_object m = true -> no_object (set_st m s) = true.
Proof.
  intros [st k d l key mem top ov un] s Hs H. unfold no_object, top_obj in *. cbn in *.
  apply andb_prop in H. destruct H as [-> H]. destruct k; [rewrite Hs; reflexivity | exact H].
Qed.

Lemma open_of_begin : forall m, no_object m = true -> begin_state (m_st m) = true -> m_stack m <> [].
Proof.
  intros [st k d l key mem top ov un] H Hb. unfold no_object in H. cbn in *. destruct k; [|discriminate].
  rewrite Hb in H. apply andb_prop in H. destruct H as [_ H]. discriminate H.
Qed.

Lemma push_no_object : forall m p s m', m_stack m <> [] -> no_object m = true -> push_state m p s = Some m' -> no_object m' = true.
Proof.
  intros [st k d l key mem top ov un] p s m' Hk H Hp. unfold push_state in Hp. cbn in Hp.
  destruct (d + 1 <=? max_depth); [|discriminate]. injection Hp as Hp; subst m'.
  unfold no_object, top_obj in *. cbn in *. destruct k as [|q r]; [contradiction|exact H].
Qed.

Lemma start_lit_open : forall m s l0, m_stack m <> [] -> no_object m = true -> no_object (start_lit m s l0) = true.
Proof.
  intros [st k d l key mem top ov un] s l0 Hk H. unfold no_object, top_obj in *. cbn in *. destruct k; [contradiction|exact H].
Qed.

Lemma begin_value_no_object : forall m c m', no_object m = true -> begin_state (m_st m) = true ->
  begin_value m c = Some m' -> no_object m' = true.
Proof.
  intros m c m' H Hb Hv. pose proof (open_of_begin m H Hb) as Hk. unfold begin_value in Hv.
  repeat match type of Hv with
  | (if ?b then _ else _) = _ => destruct b
  end; try discriminate Hv;
  try (apply (push_no_object _ _ _ _ Hk H Hv));
  injection Hv as Hv; subst m'; apply start_lit_open; assumption.
Qed.

Lemma begin_string_no_object : forall m c m', no_object m = true -> begin_state (m_st m) = true ->
  begin_string m c = Some m' -> no_object m' = true.
Proof.
  intros m c m' H Hb Hv. pose proof (open_of_begin m H Hb) as Hk. unfold begin_string in Hv.
  destruct (c =? 34); [|discriminate]. injection Hv as Hv; subst m'. apply start_lit_open; assumption.
Qed.

Lemma end_after_literal : forall m k c m', no_object m = true -> end_value (end_literal m k) c = Some m' -> no_object m' = true.
Proof.
  intros m k c m' H He. apply (end_value_no_object _ c m' (no_object_open_of _ (end_literal_no_object m k H)) He).
Qed.

Lemma after_int_no_object : forall m c m', no_object m = true -> after_int m c = Some m' -> no_object m' = true.
Proof.
  intros m c m' H Hv. unfold after_int in Hv.
  destruct (c =? 46); [injection Hv as Hv; subst m'; apply add_lit_no_object; [reflexivity|exact H]|].
  destruct ((c =? 101) || (c =? 69)); [injection Hv as Hv; subst m'; apply add_lit_no_object; [reflexivity|exact H]|].
  exact (end_after_literal _ _ _ _ H Hv).
Qed.

Lemma step_no_object : forall m c m', key_state_ok m = true -> no_object m = true -> step m c = Some m' -> no_object m' = true.
Proof.
  intros m c m' Hk H Hs. unfold step in Hs.
  destruct (m_st m) eqn:Est.
  - destruct (is_space c); [injection Hs as Hs; subst m'; exact H|].
    apply (begin_value_no_object m c m' H); [rewrite Est; reflexivity | exact Hs].
  - destruct (is_space c); [injection Hs as Hs; subst m'; exact H|].
    destruct (c =? 93); [exact (end_value_no_object _ _ _ (no_object_open_of _ H) Hs)|].
    apply (begin_value_no_object m c m' H); [rewrite Est; reflexivity | exact Hs].
  - destruct (is_space c); [injection Hs as Hs; subst m'; exact H|].
    destruct (c =? 125).
    + apply (end_value_no_object _ _ _) with (2 := Hs).
      unfold key_state_ok in Hk. rewrite Est in Hk. cbn in Hk.
      destruct m as [st k d l key mem top ov un]. cbn in *. destruct k as [|[] rest]; try discriminate Hk.
      unfold no_object, no_object_open, top_obj in *. cbn in *.
      apply andb_prop in H. destruct H as [-> H]. destruct rest; [discriminate H|exact H].
    + apply (begin_string_no_object m c m' H); [rewrite Est; reflexivity | exact Hs].
  - destruct (is_space c); [injection Hs as Hs; subst m'; exact H|].
    apply (begin_string_no_object m c m' H); [rewrite Est; reflexivity | exact Hs].
  - exact (end_value_no_object _ _ _ (no_object_open_of _ H) Hs).
  - destruct (is_space c); [injection Hs as Hs; subst m'; exact H|discriminate].
  - destruct (c =? 34); [injection Hs as Hs; subst m'; apply (end_literal_no_object m LStr H)|].
    destruct (c =? 92); [injection Hs as Hs; subst m'; apply add_lit_no_object; [reflexivity|exact H]|].
    destruct (c <? 32); [discriminate|]. injection Hs as Hs; subst m'; apply add_lit_no_object; [reflexivity|exact H].
  - match type of Hs with (if ?b then _ else _) = _ => destruct b end;
      [injection Hs as Hs; subst m'; apply add_lit_no_object; [reflexivity|exact H]|].
    destruct (c =? 117); [|discriminate]. injection Hs as Hs; subst m'; apply add_lit_no_object; [reflexivity|exact H].
  - destruct (is_hex c); [|discriminate]. injection Hs as Hs; subst m'. apply add_lit_no_object; [|exact H].
    destruct k as [|[|[|[|k]]]]; reflexivity.
  - destruct (c =? 48); [injection Hs as Hs; subst m'; apply add_lit_no_object; [reflexivity|exact H]|].
    destruct ((49 <=? c) && (c <=? 57)); [|discriminate]. injection Hs as Hs; subst m'; apply add_lit_no_object; [reflexivity|exact H].
  - exact (after_int_no_object _ _ _ H Hs).
  - destruct (is_digit c); [injection Hs as Hs; subst m'; apply add_lit_no_object; [reflexivity|exact H]|].
    exact (after_int_no_object _ _ _ H Hs).
  - destruct (is_digit c); [|discriminate]. injection Hs as Hs; subst m'; apply add_lit_no_object; [reflexivity|exact H].
  - destruct (is_digit c); [injection Hs as Hs; subst m'; apply add_lit_no_object; [reflexivity|exact H]|].
    destruct ((c =? 101) || (c =? 69)); [injection Hs as Hs; subst m'; apply add_lit_no_object; [reflexivity|exact H]|].
    exact (end_after_literal _ _ _ _ H Hs).
  - destruct ((c =? 43) || (c =? 45)); [injection Hs as Hs; subst m'; apply add_lit_no_object; [reflexivity|exact H]|].
    destruct (is_digit c); [|discriminate]. injection Hs as Hs; subst m'; apply add_lit_no_object; [reflexivity|exact H].
  - destruct (is_digit c); [|discriminate]. injection Hs as Hs; subst m'; apply add_lit_no_object; [reflexivity|exact H].
  - destruct (is_digit c); [injection Hs as Hs; subst m'; apply add_lit_no_object; [reflexivity|exact H]|].
    exact (end_after_literal _ _ _ _ H Hs).
  - destruct rest as [|x r]; [discriminate|]. destruct (c =? x); [|discriminate].
    destruct r; injection Hs as Hs; subst m'; [apply (end_literal_no_object m k H) | apply set_st_no_object'; [reflexivity|exact H]].
Qed.

(* ---- the theorem ---- *)
Lemma scan_inv : forall s m m', key_state_ok m = true -> no_object m = true -> scan m s = Some m' ->
  key_state_ok m' = true /\ no_object m' = true.
Proof.
  induction s as [|c s IH]; intros m m' Hk H Hs; cbn [scan] in Hs.
  - injection Hs as Hs; subst m'. auto.
  - destruct (step m c) as [m1|] eqn:E; [|discriminate].
    exact (IH m1 m' (step_key_ok _ _ _ Hk E) (step_no_object _ _ _ Hk H E) Hs).
Qed.

Lemma first_step : forall c m, is_space c = false -> (c =? 123) = false -> step init c = Some m ->
  key_state_ok m = true /\ no_object m = true.
Proof.
  intros c m Hs Hc H. split; [exact (step_key_ok init c m eq_refl H)|].
  unfold step in H. cbn [m_st init] in H. rewrite Hs in H. unfold begin_value, push_state in H. rewrite Hc in H.
  repeat match type of H with
  | (if ?b then _ else _) = _ => destruct b
  end; try discriminate H; injection H as H; subst m; reflexivity.
Qed.

Lemma finish_no_object : forall m, no_object m = true -> key_state_ok m = true ->
  finish m = RDecided JRError \/ finish m = RDecided JRNull.
Proof.
  intros m H Hk. unfold finish. destruct (step m 32) as [m'|] eqn:E; [|left; reflexivity].
  pose proof (step_no_object _ _ _ Hk H E) as H'. unfold no_object, top_obj in H'.
  apply andb_prop in H'. destruct H' as [Ht _].
  destruct (m_st m'); try (left; reflexivity).
  destruct (m_top m') as [[]|]; try discriminate Ht; auto.
Qed.

Lemma space_start : forall c, is_space c = true -> json_start c = true.
Proof.
  intros c H. unfold is_space in H. unfold json_start.
  repeat (apply orb_true_iff in H; destruct H as [H|H]); rewrite H; repeat rewrite orb_true_r; reflexivity.
Qed.

(* a text the reader does not reject and does not read as null starts with '{' or white space *)
Theorem reader_object_start : forall b,
  (read_json b = RUnknown \/ exists ms, read_json b = RDecided (JRObject ms)) ->
  exists c r, b = c :: r /\ json_start c = true.
Proof.
  intros b H. destruct b as [|c r].
  - exfalso. destruct H as [H | [ms H]]; vm_compute in H; discriminate H.
  - exists c, r. split; [reflexivity|].
    destruct (is_space c) eqn:Hs; [apply space_start; exact Hs|].
    destruct (c =? 123) eqn:Hc; [unfold json_start; rewrite Hc; reflexivity|].
    exfalso. unfold read_json in H. cbn [scan] in H.
    destruct (step init c) as [m1|] eqn:E1; [|destruct H as [H | [ms H]]; discriminate H].
    destruct (first_step c m1 Hs Hc E1) as [K1 N1].
    destruct (scan m1 r) as [m|] eqn:E2; [|destruct H as [H | [ms H]]; discriminate H].
    destruct (scan_inv r m1 m K1 N1 E2) as [K N].
    destruct (finish_no_object m N K) as [F|F]; rewrite F in H; destruct H as [H | [ms H]]; discriminate H.
Qed.

(* the model's J meets the hypothesis of C18_dispatch, whatever the fallback answers *)
Theorem J_ref_object_start : forall oracle, Proofs.JwtDispatch.J_object_start (J_ref oracle).
Proof.
  intros oracle b H. apply reader_object_start. unfold J_ref in H.
  destruct (read_json b) as [[ms| |]|]; try discriminate H; [right; exists ms; reflexivity | left; reflexivity].
Qed.

(* ---- two rules of the grammar, for every text ---- *)
Lemma scan_app : forall a m b, scan m (a ++ b) = match scan m a with Some m' => scan m' b | None => None end.
Proof.
  induction a as [|c a IH]; intros m b; [reflexivity|].
  cbn [app scan]. destruct (step m c); [apply IH | reflexivity].
Qed.

(* inside a string literal a control character (below U+0020) must be escaped: a text with a raw
   one is not JSON, whatever follows *)
Theorem raw_control_rejected : forall pre m c post,
  scan init pre = Some m -> m_st m = SInString -> c < 32 ->
  read_json (pre ++ c :: post) = RDecided JRError.
Proof.
  intros pre m c post Hs Hst Hc. unfold read_json. rewrite scan_app, Hs. cbn [scan].
  unfold step. rewrite Hst.
  replace (c =? 34) with false by lia. replace (c =? 92) with false by lia. replace (c <? 32) with true by lia.
  reflexivity.
Qed.

(* after the top-level value only white space may follow *)
Theorem trailing_data_rejected : forall pre m c post,
  scan init pre = Some m -> m_st m = SEndTop -> is_space c = false ->
  read_json (pre ++ c :: post) = RDecided JRError.
Proof.
  intros pre m c post Hs Hst Hc. unfold read_json. rewrite scan_app, Hs. cbn [scan].
  unfold step. rewrite Hst, Hc. reflexivity.
Qed.

Example trailing_data_example :
  exists m, scan init (bs "{""sub"":""a""}") = Some m /\ m_st m = SEndTop.
Proof. eexists. split; vm_compute; reflexivity. Qed.
Example raw_control_example :
  exists m, scan init (bs "{""sub"":""a") = Some m /\ m_st m = SInString.
Proof. eexists. split; vm_compute; reflexivity. Qed.
