package main

// C01, structured family (b): explicit elliptic-curve domain parameters (SEC 1 C.2 / X9.62 ECParameters)
// that are genuine in every component but ONE, which takes the lengths, prefixes, encodings and ASN.1
// types a parser could mishandle; each through every carrier the tool recognises (EC PARAMETERS, SEC 1
// ECPrivateKey, PKCS#8, SubjectPublicKeyInfo, certificate) as DER, base64 and PEM.

import (
	"crypto/elliptic"
	"encoding/base64"
	"encoding/hex"
	"fmt"
	"math/big"
	"strings"
)

// ---------- DER ----------
func c01Len(n int) []byte {
	switch {
	case n < 0x80:
		return []byte{byte(n)}
	case n < 0x100:
		return []byte{0x81, byte(n)}
	case n < 0x10000:
		return []byte{0x82, byte(n >> 8), byte(n)}
	case n < 0x1000000:
		return []byte{0x83, byte(n >> 16), byte(n >> 8), byte(n)}
	}
	return []byte{0x84, byte(n >> 24), byte(n >> 16), byte(n >> 8), byte(n)}
}
func c01Cat(parts ...[]byte) []byte {
	var out []byte
	for _, p := range parts {
		out = append(out, p...)
	}
	return out
}
func c01TLV(tag byte, parts ...[]byte) []byte {
	body := c01Cat(parts...)
	return c01Cat([]byte{tag}, c01Len(len(body)), body)
}
func c01Seq(parts ...[]byte) []byte { return c01TLV(0x30, parts...) }
func c01Oct(b []byte) []byte        { return c01TLV(0x04, b) }
func c01Bits(b []byte) []byte       { return c01TLV(0x03, []byte{0}, b) }

// c01UInt is the DER INTEGER of the non-negative number with big-endian magnitude mag.
func c01UInt(mag []byte) []byte {
	for len(mag) > 1 && mag[0] == 0 {
		mag = mag[1:]
	}
	if len(mag) == 0 {
		mag = []byte{0}
	}
	if mag[0]&0x80 != 0 {
		mag = append([]byte{0}, mag...)
	}
	return c01TLV(0x02, mag)
}
func c01SmallInt(v int64) []byte {
	b := big.NewInt(v)
	if v >= 0 {
		return c01UInt(b.Bytes())
	}
	// two's complement of a negative number
	n := 1
	for ; n < 9; n++ {
		if v >= -(int64(1) << (8*uint(n) - 1)) {
			break
		}
	}
	m := new(big.Int).Add(new(big.Int).Lsh(big.NewInt(1), uint(8*n)), b)
	out := m.Bytes()
	for len(out) < n {
		out = append([]byte{0xff}, out...)
	}
	return c01TLV(0x02, out)
}
func c01OID(arcs ...int) []byte {
	body := []byte{byte(arcs[0]*40 + arcs[1])}
	for _, a := range arcs[2:] {
		var tmp []byte
		tmp = append(tmp, byte(a&0x7f))
		for a >>= 7; a > 0; a >>= 7 {
			tmp = append([]byte{byte(a&0x7f) | 0x80}, tmp...)
		}
		body = append(body, tmp...)
	}
	return c01TLV(0x06, body)
}

var (
	c01OIDPrimeField = []int{1, 2, 840, 10045, 1, 1}
	c01OIDChar2Field = []int{1, 2, 840, 10045, 1, 2}
	c01OIDECPub      = []int{1, 2, 840, 10045, 2, 1}
	c01OIDECDSA256   = []int{1, 2, 840, 10045, 4, 3, 2}
	c01OIDSHA1       = []int{1, 3, 14, 3, 2, 26}
)

// ---------- curves ----------
type c01Curve struct {
	name            string
	flen            int
	p, a, b, gx, gy []byte // field elements, flen octets each
	n               []byte // order, big-endian magnitude
	seed            []byte
	h               int64
	oid             []int
}

func c01Hex(s string) []byte {
	b, err := hex.DecodeString(strings.ReplaceAll(s, " ", ""))
	if err != nil {
		panic(err)
	}
	return b
}

func c01Pad(b []byte, n int) []byte {
	for len(b) < n {
		b = append([]byte{0}, b...)
	}
	return b
}

// the NIST curves from the standard library's parameters (a = p - 3; seeds from FIPS 186-4 D.1.2),
// and secp256k1 (SEC 2, 2.4.1), which is in no table of the tool
func c01Curves() []c01Curve {
	var out []c01Curve
	for _, c := range []struct {
		cv   elliptic.Curve
		seed string
		oid  []int
	}{
		{elliptic.P256(), "c49d360886e704936a6678e1139d26b7819f7e90", []int{1, 2, 840, 10045, 3, 1, 7}},
		{elliptic.P224(), "bd71344799d5c7fcdc45b59fa3b9ab8f6a948bc5", []int{1, 3, 132, 0, 33}},
		{elliptic.P384(), "a335926aa319a27a1d00896a6773a4827acdac73", []int{1, 3, 132, 0, 34}},
		{elliptic.P521(), "d09e8800291cb85396cc6717393284aaa0da64ba", []int{1, 3, 132, 0, 35}},
	} {
		ps := c.cv.Params()
		fl := (ps.BitSize + 7) / 8
		a := new(big.Int).Sub(ps.P, big.NewInt(3))
		out = append(out, c01Curve{name: ps.Name, flen: fl, p: c01Pad(ps.P.Bytes(), fl), a: c01Pad(a.Bytes(), fl), b: c01Pad(ps.B.Bytes(), fl),
			gx: c01Pad(ps.Gx.Bytes(), fl), gy: c01Pad(ps.Gy.Bytes(), fl), n: ps.N.Bytes(), seed: c01Hex(c.seed), h: 1, oid: c.oid})
	}
	out = append(out, c01Curve{name: "secp256k1", flen: 32,
		p:  c01Hex("fffffffffffffffffffffffffffffffffffffffffffffffffffffffefffffc2f"),
		a:  make([]byte, 32),
		b:  c01Pad([]byte{7}, 32),
		gx: c01Hex("79be667ef9dcbbac55a06295ce870b07029bfcdb2dce28d959f2815b16f81798"),
		gy: c01Hex("483ada7726a3c4655da4fbfc0e1108a8fd17b448a68554199c47d08ffb10d4b8"),
		n:  c01Hex("fffffffffffffffffffffffffffffffebaaedce6af48a03bbfd25e8cd0364141"),
		h:  1, oid: []int{1, 3, 132, 0, 10}})
	return out
}

func (cv c01Curve) point() []byte { return c01Cat([]byte{4}, cv.gx, cv.gy) }

// ---------- ECParameters with replaceable components (each a complete TLV; nil = absent) ----------
type c01EC struct {
	version, fieldType, fieldParams, a, b, seed, base, order, cofactor, hash, extra []byte
	fieldID, curve                                                                  []byte // when non-nil: the whole sub-structure
}

func (cv c01Curve) genuine(withSeed, withCofactor bool) c01EC {
	e := c01EC{version: c01SmallInt(1), fieldType: c01OID(c01OIDPrimeField...), fieldParams: c01UInt(cv.p),
		a: c01Oct(cv.a), b: c01Oct(cv.b), base: c01Oct(cv.point()), order: c01UInt(cv.n)}
	if withSeed && cv.seed != nil {
		e.seed = c01Bits(cv.seed)
	}
	if withCofactor {
		e.cofactor = c01SmallInt(cv.h)
	}
	return e
}

func (e c01EC) der() []byte {
	fid := e.fieldID
	if fid == nil {
		fid = c01Seq(e.fieldType, e.fieldParams)
	}
	cu := e.curve
	if cu == nil {
		cu = c01Seq(e.a, e.b, e.seed)
	}
	return c01Seq(e.version, fid, cu, e.base, e.order, e.cofactor, e.hash, e.extra)
}

type c01ECVariant struct {
	tag string
	e   c01EC
}

// lengths a component is cut or stretched to, for field length fl
func c01Lengths(fl int) []int {
	return []int{0, 1, 2, fl/2 + 1, fl - 1, fl, fl + 1, fl + 2, 2*fl - 1, 2 * fl, 2*fl + 1, 2*fl + 2, 4*fl + 1}
}

var c01Prefixes = []byte{0x00, 0x02, 0x03, 0x04, 0x05, 0x06, 0x07, 0xff}

// c01Stretch returns l octets that start like g (g repeated when l is larger).
func c01Stretch(g []byte, l int) []byte {
	out := make([]byte, l)
	for i := range out {
		if len(g) > 0 {
			out[i] = g[i%len(g)]
		}
	}
	return out
}

// contents derived from the genuine content g: every length (cut on either side, zero-padded on either
// side, repeated) and every prefix (replacing the first octet, and put in front)
func c01Contents(g []byte, fl int) [][]byte {
	var out [][]byte
	seen := map[string]bool{}
	put := func(b []byte) {
		if !seen[string(b)] {
			seen[string(b)] = true
			out = append(out, b)
		}
	}
	for _, l := range c01Lengths(fl) {
		if l <= len(g) {
			put(append([]byte{}, g[:l]...))
			put(append([]byte{}, g[len(g)-l:]...))
		} else {
			put(c01Stretch(g, l))
			put(c01Cat(make([]byte, l-len(g)), g))
			put(c01Cat(g, make([]byte, l-len(g))))
		}
	}
	for _, p := range c01Prefixes {
		if len(g) > 0 {
			put(c01Cat([]byte{p}, g[1:]))
		}
		put(c01Cat([]byte{p}, g))
	}
	return out
}

// the same content under other identifier octets and length forms
func c01Retype(content []byte, own byte) [][]byte {
	var out [][]byte
	for _, t := range []byte{0x01, 0x02, 0x03, 0x04, 0x05, 0x06, 0x0a, 0x0c, 0x13, 0x17, 0x18, 0x30, 0x31, 0x80, 0x81, 0xa0, 0xa1, 0x24, 0x23, 0x22} {
		if t != own {
			out = append(out, c01TLV(t, content))
		}
	}
	n := len(content)
	out = append(out,
		[]byte{0x05, 0x00},
		[]byte{0x01, 0x01, 0xff},
		[]byte{0x30, 0x00},
		c01Cat([]byte{own, 0x81, byte(n)}, content),               // non-minimal length (when n < 128)
		c01Cat([]byte{own, 0x82, byte(n >> 8), byte(n)}, content), // non-minimal length
		c01Cat([]byte{own, 0x84, 0, 0, byte(n >> 8), byte(n)}, content),
		c01Cat([]byte{own, 0x80}, content, []byte{0, 0}),                     // indefinite length
		c01Cat([]byte{own | 0x20, 0x80}, c01TLV(own, content), []byte{0, 0}), // constructed, indefinite
		c01Cat([]byte{own, 0x84, 0xff, 0xff, 0xff, 0xff}, content),           // length far beyond the data
		c01Cat([]byte{own, 0x88, 0, 0, 0, 0, 0, 0, byte(n >> 8), byte(n)}, content),
		c01Cat([]byte{own, 0xff}, content),                       // reserved length octet
		c01Cat([]byte{own, byte(n + 1)}, content),                // one more than there is
		c01Cat([]byte{0x1f, 0x81, 0x00, byte(n)}, content),       // high-tag-number form with a padded tag number
		c01Cat([]byte{0x1f, byte(own & 0x1f), byte(n)}, content), // high-tag-number form of a low tag
	)
	return out
}

func c01IntVariants(mag []byte, fl int) [][]byte {
	var out [][]byte
	for _, cnt := range c01Contents(mag, fl) {
		out = append(out, c01TLV(0x02, cnt)) // raw content: may be empty, negative or non-minimal
		out = append(out, c01UInt(cnt))      // the same magnitude, well-formed
	}
	v := new(big.Int).SetBytes(mag)
	for _, d := range []int64{-2, -1, 1, 2} {
		out = append(out, c01UInt(new(big.Int).Add(v, big.NewInt(d)).Bytes()))
	}
	out = append(out, c01UInt(new(big.Int).Lsh(v, 1).Bytes()), c01UInt(new(big.Int).Rsh(v, 1).Bytes()),
		c01SmallInt(0), c01SmallInt(1), c01SmallInt(2), c01SmallInt(3), c01SmallInt(-1), c01SmallInt(-128), c01SmallInt(255), c01SmallInt(65537),
		c01TLV(0x02, c01Cat([]byte{0, 0}, mag)), c01TLV(0x02, c01Cat([]byte{0xff}, mag)), c01TLV(0x02, []byte{0x80}), c01TLV(0x02, []byte{0xff, 0xff}),
		c01TLV(0x02, []byte{0x00, 0x00}), c01TLV(0x02, []byte{0x00, 0x7f}), c01UInt(c01Stretch([]byte{0xff}, 1024)), c01UInt(c01Stretch([]byte{0xff}, 8192)))
	return out
}

var c01SmallInts = []int64{0, 1, 2, 3, 4, 8, 127, 128, 255, 256, 65535, 65536, 1<<31 - 1, 1 << 31, 1<<32 - 1, 1 << 32, 1<<63 - 1, -1, -2, -128, -129, -(1 << 31), -(1 << 31) - 1, -(1 << 63)}

func c01SmallIntVariants() [][]byte {
	var out [][]byte
	for _, v := range c01SmallInts {
		out = append(out, c01SmallInt(v))
	}
	out = append(out, c01TLV(0x02, nil), c01TLV(0x02, []byte{0, 1}), c01TLV(0x02, []byte{0xff, 0xff}), c01TLV(0x02, []byte{0, 0, 0, 0, 0, 0, 0, 0, 1}),
		c01UInt(c01Stretch([]byte{0x80}, 8)), c01UInt(c01Stretch([]byte{0x01}, 9)), c01UInt(c01Stretch([]byte{0xff}, 64)), c01UInt(c01Stretch([]byte{0xff}, 4096)))
	return out
}

// c01ECVariants lists, for one curve, the parameter structures that differ from the genuine one in exactly
// one component.
func c01ECVariants(cv c01Curve) []c01ECVariant {
	var out []c01ECVariant
	fl := cv.flen
	for _, ws := range []bool{true, false} {
		for _, wc := range []bool{true, false} {
			out = append(out, c01ECVariant{"ec-genuine", cv.genuine(ws, wc)})
		}
	}
	g := cv.genuine(true, true)
	mod := func(tag string, f func(e *c01EC)) {
		e := g
		f(&e)
		out = append(out, c01ECVariant{tag, e})
	}
	// --- base point: prefix x length over the genuine coordinates, and the genuine point in every form
	xy := c01Cat(cv.gx, cv.gy)
	par := cv.gy[len(cv.gy)-1] & 1
	for _, b := range [][]byte{cv.point(), c01Cat([]byte{2 + par}, cv.gx), c01Cat([]byte{3 - par}, cv.gx), c01Cat([]byte{6 + par}, xy), c01Cat([]byte{7 - par}, xy), {0}, {},
		c01Cat([]byte{4}, cv.gx, make([]byte, fl)), c01Cat([]byte{4}, make([]byte, fl), cv.gy), c01Cat([]byte{4}, cv.gy, cv.gx), c01Cat([]byte{2 + par}, cv.gy), make([]byte, 1+2*fl)} {
		bb := b
		mod("ec-base-form", func(e *c01EC) { e.base = c01Oct(bb) })
	}
	for _, p := range c01Prefixes {
		for _, l := range c01Lengths(fl) {
			if l == 0 {
				continue
			}
			bb := c01Cat([]byte{p}, c01Stretch(xy, l-1))
			mod(fmt.Sprintf("ec-base-prefix-%02x", p), func(e *c01EC) { e.base = c01Oct(bb) })
		}
	}
	for _, t := range c01Retype(cv.point(), 0x04) {
		tt := t
		mod("ec-base-type", func(e *c01EC) { e.base = tt })
	}
	// --- a, b
	for _, cnt := range c01Contents(cv.a, fl) {
		cc := cnt
		mod("ec-a-length", func(e *c01EC) { e.a = c01Oct(cc) })
	}
	for _, cnt := range c01Contents(cv.b, fl) {
		cc := cnt
		mod("ec-b-length", func(e *c01EC) { e.b = c01Oct(cc) })
	}
	for _, t := range c01Retype(cv.a, 0x04) {
		tt := t
		mod("ec-a-type", func(e *c01EC) { e.a = tt })
	}
	for _, t := range c01Retype(cv.b, 0x04) {
		tt := t
		mod("ec-b-type", func(e *c01EC) { e.b = tt })
	}
	mod("ec-ab-swapped", func(e *c01EC) { e.a, e.b = e.b, e.a })
	// --- seed (optional BIT STRING)
	seed := cv.seed
	if seed == nil {
		seed = c01Stretch([]byte{0x5e, 0xed}, 20)
	}
	for _, s := range [][]byte{nil, c01Bits(seed), c01TLV(0x03, nil), c01TLV(0x03, []byte{0}), c01TLV(0x03, []byte{7}), c01TLV(0x03, []byte{8}), c01TLV(0x03, []byte{0xff}),
		c01TLV(0x03, []byte{1}, seed), c01TLV(0x03, []byte{7}, seed), c01TLV(0x03, []byte{8}, seed), c01TLV(0x03, []byte{0x80}, seed), c01Bits(seed[:1]), c01Bits(seed[:19]),
		c01Bits(c01Cat(seed, []byte{0})), c01Bits(c01Stretch(seed, 21)), c01Bits(c01Stretch(seed, 40)), c01Bits(c01Stretch(seed, 65536)), c01Bits(make([]byte, 20)),
		c01TLV(0x23, c01Bits(seed)), c01Bits(c01Cat([]byte{seed[0] ^ 1}, seed[1:]))} {
		ss := s
		mod("ec-seed", func(e *c01EC) { e.seed = ss })
	}
	for _, t := range c01Retype(c01Cat([]byte{0}, seed), 0x03) {
		tt := t
		mod("ec-seed-type", func(e *c01EC) { e.seed = tt })
	}
	// --- prime, order
	for _, v := range c01IntVariants(cv.p, fl) {
		vv := v
		mod("ec-prime", func(e *c01EC) { e.fieldParams = vv })
	}
	for _, t := range c01Retype(c01UInt(cv.p)[2:], 0x02) {
		tt := t
		mod("ec-prime-type", func(e *c01EC) { e.fieldParams = tt })
	}
	for _, v := range c01IntVariants(cv.n, fl) {
		vv := v
		mod("ec-order", func(e *c01EC) { e.order = vv })
	}
	for _, t := range c01Retype(c01UInt(cv.n)[2:], 0x02) {
		tt := t
		mod("ec-order-type", func(e *c01EC) { e.order = tt })
	}
	// --- cofactor, version
	for _, v := range c01SmallIntVariants() {
		vv := v
		mod("ec-cofactor", func(e *c01EC) { e.cofactor = vv })
		mod("ec-version", func(e *c01EC) { e.version = vv })
	}
	for _, t := range c01Retype([]byte{1}, 0x02) {
		tt := t
		mod("ec-cofactor-type", func(e *c01EC) { e.cofactor = tt })
		mod("ec-version-type", func(e *c01EC) { e.version = tt })
	}
	// --- hash (optional OID after the cofactor) and a trailing extra component
	for _, hsh := range [][]byte{c01OID(c01OIDSHA1...), c01TLV(0x06, nil), c01TLV(0x06, []byte{0x80}), c01TLV(0x06, []byte{0x2a, 0x86}), c01TLV(0x06, c01Stretch([]byte{0xff}, 40), []byte{0x7f}), {0x05, 0x00}, c01Seq(c01OID(c01OIDSHA1...))} {
		hh := hsh
		mod("ec-hash", func(e *c01EC) { e.hash = hh })
		mod("ec-hash-no-cofactor", func(e *c01EC) { e.cofactor = nil; e.hash = hh })
		mod("ec-extra", func(e *c01EC) { e.extra = hh })
	}
	// --- field type OID and the field parameters of the other field types
	m := c01SmallInt(int64(8 * fl))
	for _, ft := range [][]byte{c01OID(c01OIDChar2Field...), c01OID(1, 2, 840, 10045, 1, 3), c01OID(1, 2, 840, 10045, 1), c01OID(1, 2, 840, 10045, 1, 1, 1), c01OID(1, 2, 840, 10045, 2, 1),
		c01OID(1, 2, 840, 113549, 1, 1, 1), c01OID(2, 999, 1<<31-1), c01TLV(0x06, nil), c01TLV(0x06, []byte{0x2a}), c01TLV(0x06, []byte{0x80, 0x01}), c01TLV(0x06, []byte{0x2a, 0x86, 0x48, 0xce, 0x3d, 0x01, 0x81}),
		c01TLV(0x06, c01Stretch([]byte{0xff}, 12), []byte{0x7f}), c01TLV(0x06, c01Stretch([]byte{0x2a, 0x86, 0x48, 0xce, 0x3d, 0x01, 0x01}, 700))} {
		ff := ft
		mod("ec-fieldtype", func(e *c01EC) { e.fieldType = ff })
	}
	for _, t := range c01Retype(c01OID(c01OIDPrimeField...)[2:], 0x06) {
		tt := t
		mod("ec-fieldtype-type", func(e *c01EC) { e.fieldType = tt })
	}
	for _, fp := range [][]byte{
		c01Seq(m, c01OID(1, 2, 840, 10045, 1, 2, 3, 2), c01SmallInt(9)),                                         // trinomial basis
		c01Seq(m, c01OID(1, 2, 840, 10045, 1, 2, 3, 3), c01Seq(c01SmallInt(1), c01SmallInt(2), c01SmallInt(8))), // pentanomial basis
		c01Seq(m, c01OID(1, 2, 840, 10045, 1, 2, 3, 1), []byte{0x05, 0x00}),                                     // normal basis
		c01Seq(m), c01Seq(), c01Seq(c01SmallInt(-1)), c01Seq(c01SmallInt(0)), c01Seq(c01UInt(c01Stretch([]byte{0xff}, 16))), c01Seq(c01UInt(c01Stretch([]byte{0xff}, 4096))),
		c01Seq(c01Oct(cv.p)), c01Seq(c01TLV(0x02, nil)), c01Seq([]byte{0x05, 0x00}),
	} {
		pp := fp
		mod("ec-char2-params", func(e *c01EC) { e.fieldType = c01OID(c01OIDChar2Field...); e.fieldParams = pp })
		mod("ec-prime-field-with-char2-params", func(e *c01EC) { e.fieldParams = pp })
	}
	// --- absent components and sub-structures of the wrong shape
	mod("ec-absent-version", func(e *c01EC) { e.version = nil })
	mod("ec-absent-fieldtype", func(e *c01EC) { e.fieldType = nil })
	mod("ec-absent-prime", func(e *c01EC) { e.fieldParams = nil })
	mod("ec-absent-a", func(e *c01EC) { e.a = nil })
	mod("ec-absent-b", func(e *c01EC) { e.b = nil })
	mod("ec-absent-ab", func(e *c01EC) { e.a, e.b = nil, nil })
	mod("ec-absent-base", func(e *c01EC) { e.base = nil })
	mod("ec-absent-order", func(e *c01EC) { e.order = nil })
	mod("ec-absent-order-cofactor", func(e *c01EC) { e.order, e.cofactor = nil, nil })
	mod("ec-absent-base-order", func(e *c01EC) { e.base, e.order = nil, nil })
	for _, sub := range [][]byte{c01Seq(), {0x05, 0x00}, c01Oct(nil), c01SmallInt(0), c01TLV(0x31, g.fieldType, g.fieldParams), c01TLV(0xa0, g.fieldType, g.fieldParams), c01OID(c01OIDPrimeField...)} {
		ss := sub
		mod("ec-fieldid-shape", func(e *c01EC) { e.fieldID = ss })
		mod("ec-curve-shape", func(e *c01EC) { e.curve = ss })
	}
	mod("ec-curve-shape", func(e *c01EC) { e.curve = c01TLV(0x31, g.a, g.b) })
	mod("ec-curve-shape", func(e *c01EC) { e.curve = c01Seq(g.a, g.b, g.seed, g.seed) })
	mod("ec-curve-shape", func(e *c01EC) { e.curve = c01Seq(g.seed, g.a, g.b) })
	mod("ec-fieldid-shape", func(e *c01EC) { e.fieldID = c01Seq(g.fieldParams, g.fieldType) })
	mod("ec-fieldid-shape", func(e *c01EC) { e.fieldID = c01Seq(g.fieldType, g.fieldParams, g.fieldParams) })
	return out
}

// ---------- carriers ----------
const (
	c01CarParams = iota
	c01CarSEC1
	c01CarPKCS8
	c01CarPKCS8Inner
	c01CarSPKI
	c01CarCert
	c01NCarriers
)

var c01CarrierNames = []string{"ecparameters", "sec1", "pkcs8", "pkcs8-inner", "spki", "certificate"}
var c01CarrierLabels = []string{"EC PARAMETERS", "EC PRIVATE KEY", "PRIVATE KEY", "PRIVATE KEY", "PUBLIC KEY", "CERTIFICATE"}
var c01CarrierFiles = []string{"ecparam", "ec.key", "p8.key", "p8i.key", "ec.pub", "ec.crt"}

func c01Name(cn string) []byte {
	return c01Seq(c01TLV(0x31, c01Seq(c01OID(2, 5, 4, 3), c01TLV(0x0c, []byte(cn)))))
}

// c01Cert is an X.509 v3 certificate (RFC 5280 4.1) around the given SubjectPublicKeyInfo; the signature is
// not a real one (the tool does not verify it).
func c01Cert(spki []byte) []byte {
	sigAlg := c01Seq(c01OID(c01OIDECDSA256...))
	tbs := c01Seq(
		c01TLV(0xa0, c01SmallInt(2)),
		c01SmallInt(0x1234567),
		sigAlg,
		c01Name("verif issuer"),
		c01Seq(c01TLV(0x17, []byte("240101000000Z")), c01TLV(0x17, []byte("340101000000Z"))),
		c01Name("verif subject"),
		spki,
	)
	sig := c01Seq(c01UInt(c01Stretch([]byte{0x11}, 32)), c01UInt(c01Stretch([]byte{0x22}, 32)))
	return c01Seq(tbs, sigAlg, c01Bits(sig))
}

// c01Carrier wraps the encoded parameters (any bytes) in carrier kind.
func c01Carrier(kind int, cv c01Curve, params []byte) []byte {
	priv := c01Pad([]byte{1}, cv.flen)
	pub := c01Bits(cv.point())
	algID := c01Seq(c01OID(c01OIDECPub...), params)
	switch kind {
	case c01CarParams:
		return params
	case c01CarSEC1:
		return c01Seq(c01SmallInt(1), c01Oct(priv), c01TLV(0xa0, params), c01TLV(0xa1, pub))
	case c01CarPKCS8:
		return c01Seq(c01SmallInt(0), algID, c01Oct(c01Seq(c01SmallInt(1), c01Oct(priv), c01TLV(0xa1, pub))))
	case c01CarPKCS8Inner:
		return c01Seq(c01SmallInt(0), c01Seq(c01OID(c01OIDECPub...), c01OID(cv.oid...)), c01Oct(c01Seq(c01SmallInt(1), c01Oct(priv), c01TLV(0xa0, params), c01TLV(0xa1, pub))))
	case c01CarSPKI:
		return c01Seq(algID, pub)
	default:
		return c01Cert(c01Seq(algID, pub))
	}
}

func c01PEM(label string, der []byte, lineLen int, eol string) []byte {
	var sb strings.Builder
	sb.WriteString("-----BEGIN " + label + "-----" + eol)
	b := base64.StdEncoding.EncodeToString(der)
	for len(b) > lineLen {
		sb.WriteString(b[:lineLen] + eol)
		b = b[lineLen:]
	}
	if len(b) > 0 {
		sb.WriteString(b + eol)
	}
	sb.WriteString("-----END " + label + "-----" + eol)
	return []byte(sb.String())
}

// c01Present renders der in presentation form 0 DER, 1 base64 (convention by k), 2 PEM.
func c01Present(form, k int, label string, der []byte) []byte {
	switch form {
	case 0:
		return der
	case 1:
		s := c01B64[k%4].EncodeToString(der)
		if k%8 >= 4 {
			s += "\n"
		}
		return []byte(s)
	}
	return c01PEM(label, der, 64, "\n")
}

var c01FormNames = []string{"der", "base64", "pem"}

func c01GenEC(c *Ctx, r *Rng, add func(kind, name string, data []byte)) {
	curves := c01Curves()
	rot := r.Intn(3)
	k := 0
	for _, cv := range curves {
		// the named-curve siblings of every carrier
		for car := 0; car < c01NCarriers; car++ {
			for form := 0; form < 3; form++ {
				add("ec-named:"+c01CarrierNames[car], c01CarrierFiles[car]+"."+c01FormNames[form], c01Present(form, form, c01CarrierLabels[car], c01Carrier(car, cv, c01OID(cv.oid...))))
			}
		}
		full := c.Thorough() || cv.name == "P-256" || cv.name == "P-521" // quick tier: the other curves take the base-point families only
		for _, v := range c01ECVariants(cv) {
			params := v.e.der()
			basePoint := strings.HasPrefix(v.tag, "ec-base") || v.tag == "ec-genuine" || strings.HasPrefix(v.tag, "ec-absent")
			if !full && !basePoint {
				continue
			}
			allForms := c.Thorough() || (full && basePoint)
			for car := 0; car < c01NCarriers; car++ {
				k++
				// quick tier, other than base-point families: two carriers per variant (rotating) besides the bare parameters
				if !c.Thorough() && !basePoint && car != c01CarParams && (k/c01NCarriers+car)%3 != 0 {
					continue
				}
				for form := 0; form < 3; form++ {
					// quick tier: one presentation per (variant, carrier), rotating; the PEM block of bare parameters always
					if !allForms && (k+rot)%3 != form && !(car == c01CarParams && form == 2) {
						continue
					}
					add(v.tag+":"+c01CarrierNames[car], c01CarrierFiles[car]+"."+c01FormNames[form], c01Present(form, k, c01CarrierLabels[car], c01Carrier(car, cv, params)))
				}
			}
		}
	}
}
