(* Case runner and spec checker (T3) for C04 — stub. *)
From WI Require Import Lib.Base Lib.Info Model.Determinism.
Definition run_C04 (op : bytes) (input : arg) : arg := AL [].
Definition check_C04 (op : bytes) (input impl : arg) : arg := AL [].
