(* Proofs for C15: the text Model/Dn.v prints for a distinguished name is read back by the
   RFC 4514 reader of Lib/Rfc4514.v as exactly the name.  Contents:
     1. UTF-8: encode_rune/decode_rune/the reader's UTFMB agree on Unicode scalar values
     2. Go's range loop over a valid string; escapeRDNAttrValue code point by code point
     3. utf8.ValidString characterised (valid = encoding of scalar values)
     4. the reader's state after each escaped/unescaped code point (leading space, leading '#',
        trailing space)
     5. hex form; decimal arcs, dotted OIDs, the name table; injectivity of displayed types
     6. attribute, RDN ('+') and name (',') structure; the round trip and its consequences *)
From Coq Require Import ZifyN ZifyNat ZifyBool Lia.
From Coq Require Import DecimalFacts DecimalPos DecimalN.
From Coq Require Import Permutation.
From WI Require Import Lib.Base Lib.Info Lib.Utf8 Lib.Rfc4514 Model.Dn.
Open Scope N_scope.
(* lia may use the Euclidean equations of / and mod by constants (UTF-8 bit fields, hex digits) *)
Ltac Zify.zify_post_hook ::= Z.div_mod_to_equations.

(* ---------- Unicode scalar values and their UTF-8 encoding ---------- *)
Definition scalar (c : N) : Prop := (c < 55296 \/ 57344 <= c) /\ c <= 1114111.

Definition two_ok (b0 b1 c : N) : Prop :=
  194 <= b0 <= 223 /\ 128 <= b1 <= 191 /\ (b0 - 192) * 64 + (b1 - 128) = c.
Definition three_ok (b0 b1 b2 c : N) : Prop :=
  224 <= b0 <= 239 /\ 128 <= b1 <= 191 /\ (b0 = 224 -> 160 <= b1) /\ (b0 = 237 -> b1 <= 159) /\
  128 <= b2 <= 191 /\ (b0 - 224) * 4096 + (b1 - 128) * 64 + (b2 - 128) = c.
Definition four_ok (b0 b1 b2 b3 c : N) : Prop :=
  240 <= b0 <= 244 /\ 128 <= b1 <= 191 /\ (b0 = 240 -> 144 <= b1) /\ (b0 = 244 -> b1 <= 143) /\
  128 <= b2 <= 191 /\ 128 <= b3 <= 191 /\
  (b0 - 240) * 262144 + (b1 - 128) * 4096 + (b2 - 128) * 64 + (b3 - 128) = c.

Inductive enc_shape (c : N) : bytes -> Prop :=
| es1 : c < 128 -> enc_shape c [c]
| es2 b0 b1 : 128 <= c -> two_ok b0 b1 c -> enc_shape c [b0; b1]
| es3 b0 b1 b2 : 128 <= c -> three_ok b0 b1 b2 c -> enc_shape c [b0; b1; b2]
| es4 b0 b1 b2 b3 : 128 <= c -> four_ok b0 b1 b2 b3 c -> enc_shape c [b0; b1; b2; b3].

Lemma encode_shape c : scalar c -> enc_shape c (encode_rune c).
Proof.
  intros [Hs Hm]. unfold encode_rune.
  destruct (c <? 128) eqn:E1. { apply es1. lia. }
  destruct (c <? 2048) eqn:E2. { apply es2. lia. unfold two_ok. lia. }
  replace (in_range 55296 57343 c || (1114111 <? c)) with false by (unfold in_range; lia).
  destruct (c <? 65536) eqn:E3.
  - apply es3. lia. unfold three_ok. lia.
  - apply es4. lia. unfold four_ok. lia.
Qed.

Ltac bool_to v b := replace b with v by (unfold in_range, is_cont, in_range, rng, utf0, rng; lia).

Lemma decode_two b0 b1 c rest : two_ok b0 b1 c -> decode_rune (b0 :: b1 :: rest) = (true, c, 2%nat).
Proof.
  intros (H0 & H1 & Hv). unfold decode_rune.
  bool_to false (b0 <? 128). bool_to true (in_range 194 223 b0). bool_to true (is_cont b1).
  now rewrite Hv.
Qed.

Lemma decode_three b0 b1 b2 c rest : three_ok b0 b1 b2 c -> decode_rune (b0 :: b1 :: b2 :: rest) = (true, c, 3%nat).
Proof.
  intros (H0 & H1 & Ha & Hb & H2 & Hv). unfold decode_rune.
  bool_to false (b0 <? 128). bool_to false (in_range 194 223 b0). bool_to true (in_range 224 239 b0).
  cbv zeta.
  destruct (N.eqb_spec b0 224), (N.eqb_spec b0 237); try lia;
  match goal with |- context [in_range ?lo ?hi b1 && is_cont b2] => bool_to true (in_range lo hi b1 && is_cont b2) end;
  now rewrite Hv.
Qed.

Lemma decode_four b0 b1 b2 b3 c rest : four_ok b0 b1 b2 b3 c -> decode_rune (b0 :: b1 :: b2 :: b3 :: rest) = (true, c, 4%nat).
Proof.
  intros (H0 & H1 & Ha & Hb & H2 & H3 & Hv). unfold decode_rune.
  bool_to false (b0 <? 128). bool_to false (in_range 194 223 b0). bool_to false (in_range 224 239 b0).
  bool_to true (in_range 240 244 b0).
  cbv zeta.
  destruct (N.eqb_spec b0 240), (N.eqb_spec b0 244); try lia;
  match goal with |- context [in_range ?lo ?hi b1 && is_cont b2 && is_cont b3] => bool_to true (in_range lo hi b1 && is_cont b2 && is_cont b3) end;
  now rewrite Hv.
Qed.

Lemma utfmb_two b0 b1 c rest : two_ok b0 b1 c -> utfmb (b0 :: b1 :: rest) = 2%nat.
Proof. intros (H0 & H1 & Hv). unfold utfmb. bool_to true (rng 194 223 b0 && utf0 b1). reflexivity. Qed.

Lemma utfmb_three b0 b1 b2 c rest : three_ok b0 b1 b2 c -> utfmb (b0 :: b1 :: b2 :: rest) = 3%nat.
Proof.
  intros (H0 & H1 & Ha & Hb & H2 & Hv). unfold utfmb.
  bool_to false (rng 194 223 b0 && utf0 b1).
  match goal with |- (if ?x then _ else _) = _ => bool_to true x end. reflexivity.
Qed.

Lemma utfmb_four b0 b1 b2 b3 c rest : four_ok b0 b1 b2 b3 c -> utfmb (b0 :: b1 :: b2 :: b3 :: rest) = 4%nat.
Proof.
  intros (H0 & H1 & Ha & Hb & H2 & H3 & Hv). unfold utfmb.
  bool_to false (rng 194 223 b0 && utf0 b1).
  match goal with |- (if ?x then _ else _) = _ => bool_to false x end.
  match goal with |- (if ?x then _ else _) = _ => bool_to true x end. reflexivity.
Qed.

Definition utf8 (cps : list N) : bytes := flat_map encode_rune cps.
Definition width (c : N) : nat := length (encode_rune c).

Lemma width_pos c : scalar c -> (1 <= width c)%nat.
Proof. intro H. unfold width. destruct (encode_shape c H); simpl; lia. Qed.

Lemma drop_app_length {A} (a b : list A) : drop (length a) (a ++ b) = b.
Proof. induction a; simpl; auto. Qed.

Lemma decode_encode c rest : scalar c ->
  decode_rune (encode_rune c ++ rest) = (true, c, width c) /\ exists b t, encode_rune c = b :: t.
Proof.
  intro H. unfold width. destruct (encode_shape c H) as [Hc|b0 b1 Hc Hk|b0 b1 b2 Hc Hk|b0 b1 b2 b3 Hc Hk]; cbn [app length].
  - split; [|eauto]. unfold decode_rune. replace (c <? 128) with true by lia. reflexivity.
  - split; [|eauto]. now apply decode_two.
  - split; [|eauto]. now apply decode_three.
  - split; [|eauto]. now apply decode_four.
Qed.

Fixpoint runes_spec (k : nat) (cps : list N) : list (nat * bool * N * nat) :=
  match cps with
  | [] => []
  | c :: r => (k, true, c, width c) :: runes_spec (k + width c) r
  end.

Lemma runes_from_step f k s v c sz : s <> [] -> decode_rune s = (v, c, sz) ->
  runes_from (S f) k s = (k, v, c, sz) :: runes_from f (k + sz) (drop sz s).
Proof.
  intros Hne Hd. destruct s as [|b s']; [congruence|].
  cbn [runes_from]. rewrite Hd. reflexivity.
Qed.

Lemma runes_from_utf8 cps : Forall scalar cps -> forall fuel k, (length (utf8 cps) <= fuel)%nat ->
  runes_from fuel k (utf8 cps) = runes_spec k cps.
Proof.
  induction 1 as [|c r Hc Hr IH]; intros fuel k Hf.
  - destruct fuel; reflexivity.
  - cbn [utf8 flat_map] in *. fold (utf8 r) in *. rewrite app_length in Hf.
    pose proof (width_pos c Hc) as Hw. unfold width in Hw.
    destruct fuel as [|f]; [lia|].
    destruct (decode_encode c (utf8 r) Hc) as [Hd (b & t & Hbt)].
    assert (Hne : encode_rune c ++ utf8 r <> []) by (rewrite Hbt; discriminate).
    rewrite (runes_from_step f k _ _ _ _ Hne Hd).
    unfold width. rewrite drop_app_length. fold (width c).
    cbn [runes_spec]. f_equal. apply IH. lia.
Qed.

Lemma runes_utf8 cps : Forall scalar cps -> runes (utf8 cps) = runes_spec 0 cps.
Proof. intro H. unfold runes. now apply runes_from_utf8. Qed.

(* ---------- escapeRDNAttrValue on valid strings, code point by code point ---------- *)
Definition is_nil {A} (l : list A) : bool := match l with [] => true | _ => false end.
Definition escaped_here (first last : bool) (c : N) : bool :=
  always_escaped c || ((c =? 32) && (first || last)) || ((c =? 35) && first).
Definition esc_piece (nul first last : bool) (c : N) : bytes :=
  if nul && (c =? 0) then [92; 48; 48]
  else if escaped_here first last c then 92 :: encode_rune c else encode_rune c.
Fixpoint esc_cps (nul first : bool) (cps : list N) : bytes :=
  match cps with
  | [] => []
  | c :: r => esc_piece nul first (is_nil r) c ++ esc_cps nul false r
  end.

Lemma utf8_nil_iff cps : Forall scalar cps -> (length (utf8 cps) = 0%nat <-> cps = []).
Proof.
  intros H. split; [|intros ->; reflexivity].
  destruct H as [|c r Hc _]; auto. simpl. rewrite app_length. pose proof (width_pos c Hc). unfold width in *. lia.
Qed.

Lemma escape_runes_spec nul cps : Forall scalar cps -> forall k L, L = (k + length (utf8 cps))%nat ->
  escape_runes nul L (runes_spec k cps) = esc_cps nul (Nat.eqb k 0) cps.
Proof.
  induction 1 as [|c r Hc Hr IH]; intros k L HL; [reflexivity|].
  simpl utf8 in HL. rewrite app_length in HL. fold (width c) in HL.
  pose proof (width_pos c Hc) as Hw.
  simpl. rewrite (IH (k + width c)%nat L) by lia.
  replace (Nat.eqb (k + width c) 0) with false by (symmetry; apply Nat.eqb_neq; lia).
  f_equal. unfold esc_piece, escape_here, escaped_here.
  destruct (nul && (c =? 0)); [reflexivity|].
  destruct (c =? 32) eqn:E32.
  - assert (c = 32) by lia. subst c. change (width 32) with 1%nat in *.
    assert (Hl : Nat.eqb k (L - 1) = is_nil r).
    { destruct r as [|c2 r2]; simpl is_nil.
      - simpl in HL. apply Nat.eqb_eq. lia.
      - apply Nat.eqb_neq. apply Forall_inv in Hr. cbn [utf8 flat_map] in HL. rewrite app_length in HL.
        pose proof (width_pos c2 Hr). unfold width in *. lia. }
    rewrite Hl. reflexivity.
  - rewrite !andb_false_l, !orb_false_r. reflexivity.
Qed.

Lemma escape_utf8 nul cps : Forall scalar cps -> escape_gen nul (utf8 cps) = esc_cps nul true cps.
Proof.
  intro H. unfold escape_gen. rewrite runes_utf8 by assumption.
  now rewrite (escape_runes_spec nul cps H 0%nat (length (utf8 cps))).
Qed.

(* ---------- valid UTF-8, as a boolean: every rune Go's range loop yields is valid ---------- *)

Ltac enc_conds c :=
  unfold encode_rune;
  repeat match goal with
  | |- context [c <? ?k] => (replace (c <? k) with true by lia) || (replace (c <? k) with false by lia)
  | |- context [in_range 55296 57343 c || (1114111 <? c)] =>
      replace (in_range 55296 57343 c || (1114111 <? c)) with false by (unfold in_range; lia)
  end.

Lemma decode_valid s c n : decode_rune s = (true, c, n) ->
  scalar c /\ n = width c /\ s = encode_rune c ++ drop n s.
Proof.
  unfold decode_rune, width. destruct s as [|b0 r]; [discriminate|].
  destruct (b0 <? 128) eqn:E0.
  { intros [= <- <-]. unfold scalar. enc_conds b0. cbn. repeat split; lia. }
  destruct (in_range 194 223 b0) eqn:E1.
  { destruct r as [|b1 r]; [discriminate|]. destruct (is_cont b1) eqn:C1; [|discriminate].
    intros [= <- <-]. unfold in_range, is_cont, in_range in *.
    set (c := (b0 - 192) * 64 + (b1 - 128)).
    assert (Hc : 128 <= c < 2048) by (subst c; lia).
    unfold scalar. enc_conds c. cbn [length drop app]. repeat split; try lia.
    f_equal; [subst c; lia|]. f_equal. subst c; lia. }
  destruct (in_range 224 239 b0) eqn:E2.
  { destruct r as [|b1 [|b2 r]]; try discriminate. cbv zeta.
    destruct (in_range (if b0 =? 224 then 160 else 128) (if b0 =? 237 then 159 else 191) b1 && is_cont b2) eqn:C; [|discriminate].
    intros [= <- <-]. unfold in_range, is_cont, in_range in *.
    set (c := (b0 - 224) * 4096 + (b1 - 128) * 64 + (b2 - 128)).
    assert (Hc : 2048 <= c < 65536 /\ (c < 55296 \/ 57344 <= c)).
    { subst c. destruct (N.eqb_spec b0 224), (N.eqb_spec b0 237); lia. }
    assert (Hb : 128 <= b1 <= 191 /\ 128 <= b2 <= 191 /\ 224 <= b0 <= 239).
    { destruct (N.eqb_spec b0 224), (N.eqb_spec b0 237); lia. }
    clear C.
    unfold scalar. enc_conds c. cbn [length drop app]. repeat split; try lia.
    f_equal; [subst c; lia|]. f_equal; [subst c; lia|]. f_equal. subst c; lia. }
  destruct (in_range 240 244 b0) eqn:E3; [|discriminate].
  destruct r as [|b1 [|b2 [|b3 r]]]; try discriminate. cbv zeta.
  destruct (in_range (if b0 =? 240 then 144 else 128) (if b0 =? 244 then 143 else 191) b1 && is_cont b2 && is_cont b3) eqn:C; [|discriminate].
  intros [= <- <-]. unfold in_range, is_cont, in_range in *.
  set (c := (b0 - 240) * 262144 + (b1 - 128) * 4096 + (b2 - 128) * 64 + (b3 - 128)).
  assert (Hc : 65536 <= c <= 1114111).
  { subst c. destruct (N.eqb_spec b0 240), (N.eqb_spec b0 244); lia. }
  assert (Hb : 128 <= b1 <= 191 /\ 128 <= b2 <= 191 /\ 128 <= b3 <= 191 /\ 240 <= b0 <= 244).
  { destruct (N.eqb_spec b0 240), (N.eqb_spec b0 244); lia. }
  clear C.
  unfold scalar. enc_conds c. cbn [length drop app]. repeat split; try lia.
  f_equal; [subst c; lia|]. f_equal; [subst c; lia|]. f_equal; [subst c; lia|]. f_equal. subst c; lia.
Qed.

Lemma valid_runes_from fuel : forall s k, (length s <= fuel)%nat ->
  forallb (fun x => match x with (_, v, _, _) => v end) (runes_from fuel k s) = true ->
  exists cps, Forall scalar cps /\ s = utf8 cps.
Proof.
  induction fuel as [|f IH]; intros s k Hlen Hv.
  - destruct s; [|cbn in Hlen; lia]. exists []. split; [constructor|reflexivity].
  - destruct s as [|b s']. { exists []. split; [constructor|reflexivity]. }
    cbn [runes_from] in Hv. destruct (decode_rune (b :: s')) as [[v c] n] eqn:Hd.
    cbn [forallb] in Hv. apply andb_prop in Hv. destruct Hv as [-> Hv].
    destruct (decode_valid _ _ _ Hd) as (Hc & Hn & Hs).
    pose proof (width_pos c Hc) as Hw.
    assert (Hl : length (b :: s') = (n + length (drop n (b :: s')))%nat).
    { rewrite Hs at 1. rewrite app_length. unfold width in Hn. lia. }
    destruct (IH (drop n (b :: s')) (k + n)%nat) as (cps & Hcps & Hrest); [lia|assumption|].
    exists (c :: cps). split; [now constructor|]. cbn [utf8 flat_map]. fold (utf8 cps). now rewrite <- Hrest.
Qed.

Lemma valid_utf8_scalars s : valid_utf8 s = true -> exists cps, Forall scalar cps /\ s = utf8 cps.
Proof. unfold valid_utf8, runes. now apply valid_runes_from. Qed.

Lemma scalars_valid_utf8 cps : Forall scalar cps -> valid_utf8 (utf8 cps) = true.
Proof.
  intro H. unfold valid_utf8. rewrite runes_utf8 by assumption. generalize 0%nat.
  induction cps as [|c r IH]; intro k; [reflexivity|]. cbn. apply IH. now apply Forall_inv_tail in H.
Qed.

Ltac unfold_classes :=
  unfold escaped_here, always_escaped, is_sep, is_special, is_escaped, sutf1, lutf1, tutf1, rng in *.

(* ---------- the reader after one character of the escaped text ---------- *)
Lemma lex_pair_special c X : (c =? 92) || is_special c = true ->
  lex_value (92 :: c :: X) = push (TPair c) (lex_value X).
Proof. intro H. cbn [lex_value]. change (is_sep 92) with false. change (92 =? 92) with true. cbv iota. rewrite H. reflexivity. Qed.

Lemma lex_pair_nul X : lex_value (92 :: 48 :: 48 :: X) = push (TPair 0) (lex_value X).
Proof. reflexivity. Qed.

Lemma lex_raw b X : b < 128 -> is_sep b = false -> b <> 92 -> sutf1 b = true ->
  lex_value (b :: X) = push (TRaw b) (lex_value X).
Proof.
  intros H1 H2 H3 H4. cbn [lex_value]. rewrite H2.
  replace (b =? 92) with false by lia. replace (b <? 128) with true by lia. rewrite H4. reflexivity.
Qed.

Lemma lex_two b0 b1 c X : two_ok b0 b1 c -> lex_value (b0 :: b1 :: X) = push (TMb [b0; b1]) (lex_value X).
Proof.
  intro H. cbn [lex_value]. rewrite (utfmb_two _ _ _ _ H). destruct H as (H0 & _).
  replace (is_sep b0) with false by (unfold is_sep; lia).
  replace (b0 =? 92) with false by lia. replace (b0 <? 128) with false by lia. reflexivity.
Qed.

Lemma lex_three b0 b1 b2 c X : three_ok b0 b1 b2 c ->
  lex_value (b0 :: b1 :: b2 :: X) = push (TMb [b0; b1; b2]) (lex_value X).
Proof.
  intro H. cbn [lex_value]. rewrite (utfmb_three _ _ _ _ _ H). destruct H as (H0 & _).
  replace (is_sep b0) with false by (unfold is_sep; lia).
  replace (b0 =? 92) with false by lia. replace (b0 <? 128) with false by lia. reflexivity.
Qed.

Lemma lex_four b0 b1 b2 b3 c X : four_ok b0 b1 b2 b3 c ->
  lex_value (b0 :: b1 :: b2 :: b3 :: X) = push (TMb [b0; b1; b2; b3]) (lex_value X).
Proof.
  intro H. cbn [lex_value]. rewrite (utfmb_four _ _ _ _ _ _ H). destruct H as (H0 & _).
  replace (is_sep b0) with false by (unfold is_sep; lia).
  replace (b0 =? 92) with false by lia. replace (b0 <? 128) with false by lia. reflexivity.
Qed.

(* the token the reader must produce for one code point of the value *)
Definition tok_of (first last : bool) (c : N) : tok :=
  if c =? 0 then TPair 0
  else if escaped_here first last c then TPair c
  else if c <? 128 then TRaw c else TMb (encode_rune c).
Fixpoint toks (first : bool) (cps : list N) : list tok :=
  match cps with
  | [] => []
  | c :: r => tok_of first (is_nil r) c :: toks false r
  end.

Definition sep_or_end (rest : bytes) : bool := match rest with [] => true | c :: _ => is_sep c end.

Lemma lex_piece first last c X : scalar c ->
  lex_value (esc_piece true first last c ++ X) = push (tok_of first last c) (lex_value X).
Proof.
  intro Hc. unfold esc_piece, tok_of. cbn [andb].
  destruct (c =? 0) eqn:E0. { apply lex_pair_nul. }
  destruct (escaped_here first last c) eqn:Ee.
  - assert (c < 128) by (unfold_classes; lia).
    replace (encode_rune c) with [c] by (unfold encode_rune; replace (c <? 128) with true by lia; reflexivity).
    apply lex_pair_special. unfold_classes; lia.
  - destruct (encode_shape c Hc) as [H1|b0 b1 H1 Hk|b0 b1 b2 H1 Hk|b0 b1 b2 b3 H1 Hk]; cbn [app].
    + replace (c <? 128) with true by lia. apply lex_raw; unfold_classes; lia.
    + replace (c <? 128) with false by lia. now apply lex_two with c.
    + replace (c <? 128) with false by lia. now apply lex_three with c.
    + replace (c <? 128) with false by lia. now apply lex_four with c.
Qed.

Lemma lex_esc cps : Forall scalar cps -> forall first rest, sep_or_end rest = true ->
  lex_value (esc_cps true first cps ++ rest) = Some (toks first cps, rest).
Proof.
  induction 1 as [|c r Hc Hr IH]; intros first rest Hrest.
  - cbn [esc_cps toks app]. destruct rest as [|b rest']; [reflexivity|].
    cbn [sep_or_end] in Hrest. cbn [lex_value]. rewrite Hrest. reflexivity.
  - cbn [esc_cps toks]. rewrite <- app_assoc. rewrite lex_piece by assumption.
    rewrite IH by assumption. reflexivity.
Qed.

Lemma toks_bytes cps : Forall scalar cps -> forall first, flat_map tok_bytes (toks first cps) = utf8 cps.
Proof.
  induction 1 as [|c r Hc Hr IH]; intro first; [reflexivity|].
  cbn [toks flat_map utf8]. fold (utf8 r). rewrite IH. f_equal.
  unfold tok_of.
  destruct (c =? 0) eqn:E0. { assert (c = 0) by lia. subst. reflexivity. }
  destruct (escaped_here first (is_nil r) c) eqn:Ee.
  - assert (c < 128) by (unfold_classes; lia). cbn. unfold encode_rune. replace (c <? 128) with true by lia. reflexivity.
  - destruct (c <? 128) eqn:E1; cbn; [|reflexivity]. unfold encode_rune. rewrite E1. reflexivity.
Qed.

Lemma lead_ok_tok last c : scalar c -> lead_ok (tok_of true last c) = true.
Proof.
  intro Hc. unfold tok_of. destruct (c =? 0) eqn:E0; [reflexivity|].
  destruct (escaped_here true last c) eqn:Ee; [reflexivity|].
  destruct (c <? 128) eqn:E1; [|reflexivity]. cbn [lead_ok]. unfold_classes. lia.
Qed.

Lemma trail_ok_tok first c : scalar c -> trail_ok (tok_of first true c) = true.
Proof.
  intro Hc. unfold tok_of. destruct (c =? 0) eqn:E0; [reflexivity|].
  destruct (escaped_here first true c) eqn:Ee; [reflexivity|].
  destruct (c <? 128) eqn:E1; [|reflexivity]. cbn [trail_ok]. unfold_classes. lia.
Qed.

Lemma trail_ok_last cps : Forall scalar cps -> forall first d, cps <> [] -> trail_ok (last (toks first cps) d) = true.
Proof.
  induction 1 as [|c r Hc Hr IH]; intros first d Hne; [congruence|].
  destruct r as [|c2 r2].
  - cbn. now apply trail_ok_tok.
  - cbn [toks]. cbn [toks] in IH.
    change (last (tok_of first (is_nil (c2 :: r2)) c :: tok_of false (is_nil r2) c2 :: toks false r2) d)
      with (last (tok_of false (is_nil r2) c2 :: toks false r2) d).
    apply (IH false d). discriminate.
Qed.

Lemma toks_string_ok cps : Forall scalar cps -> string_ok (toks true cps) = true.
Proof.
  intro H. destruct cps as [|c r]; [reflexivity|].
  unfold string_ok. cbn [toks]. apply andb_true_intro. split.
  - apply lead_ok_tok. now apply Forall_inv in H.
  - change (tok_of true (is_nil r) c :: toks false r) with (toks true (c :: r)).
    apply trail_ok_last; [assumption|discriminate].
Qed.

(* ---------- values ---------- *)
Lemma esc_head_not_sharp cps first rest : Forall scalar cps -> sep_or_end rest = true -> first = true ->
  starts_with_sharp (esc_cps true first cps ++ rest) = false.
Proof.
  intros H Hrest ->. destruct H as [|c r Hc Hr].
  - cbn. destruct rest as [|b t]; [reflexivity|]. cbn in *. unfold is_sep in Hrest. lia.
  - cbn [esc_cps]. rewrite <- app_assoc. unfold esc_piece. cbn [andb].
    destruct (c =? 0) eqn:E0; [reflexivity|].
    destruct (escaped_here true (is_nil r) c) eqn:Ee; [reflexivity|].
    destruct (encode_shape c Hc) as [H1|b0 b1 H1 Hk|b0 b1 b2 H1 Hk|b0 b1 b2 b3 H1 Hk]; cbn [app starts_with_sharp].
    + unfold_classes. lia.
    + destruct Hk as (? & _). lia.
    + destruct Hk as (? & _). lia.
    + destruct Hk as (? & _). lia.
Qed.

Lemma parse_value_string cps rest : Forall scalar cps -> sep_or_end rest = true ->
  parse_value (esc_cps true true cps ++ rest) = Some (PStr (utf8 cps), rest).
Proof.
  intros H Hrest. unfold parse_value.
  rewrite esc_head_not_sharp by auto. rewrite lex_esc by auto.
  rewrite toks_string_ok by auto. rewrite toks_bytes by auto. reflexivity.
Qed.

Lemma hexval_digit x : x < 16 -> hexval (hex_digit false x) = Some x /\ is_sep (hex_digit false x) = false.
Proof.
  intro H. unfold hex_digit, hexval, is_sep, rng.
  destruct (x <? 10) eqn:E.
  - replace ((48 <=? 48 + x) && (48 + x <=? 57)) with true by lia. split; [f_equal|]; lia.
  - replace ((48 <=? 87 + x) && (87 + x <=? 57)) with false by lia.
    replace ((65 <=? 87 + x) && (87 + x <=? 70)) with false by lia.
    replace ((97 <=? 87 + x) && (87 + x <=? 102)) with true by lia. split; [f_equal|]; lia.
Qed.

Lemma hexpairs_hex d : bytes_ok d = true -> forall rest, sep_or_end rest = true ->
  hexpairs (hex_of false d ++ rest) = Some (d, rest).
Proof.
  induction d as [|b d IH]; intros Hd rest Hrest.
  - cbn. destruct rest as [|c t]; [reflexivity|]. cbn in Hrest. cbn [hexpairs]. rewrite Hrest. reflexivity.
  - cbn in Hd. apply andb_prop in Hd. destruct Hd as [Hb Hd]. unfold byte_ok in Hb.
    unfold hex_of. cbn [flat_map]. fold (hex_of false d). unfold hex_byte. cbn [app].
    destruct (hexval_digit (b / 16)) as [E1 S1]. { lia. }
    destruct (hexval_digit (b mod 16)) as [E2 _]. { lia. }
    cbn [hexpairs]. rewrite S1, E1, E2, IH by assumption. cbn [push]. do 3 f_equal. lia.
Qed.

Lemma parse_value_hex d rest : d <> [] -> bytes_ok d = true -> sep_or_end rest = true ->
  parse_value (35 :: hex_of false d ++ rest) = Some (PHex d, rest).
Proof.
  intros Hne Hd Hrest. unfold parse_value. cbn [starts_with_sharp tl]. change (35 =? 35) with true. cbv iota.
  rewrite hexpairs_hex by assumption. destruct d; [congruence|reflexivity].
Qed.

(* ---------- decimal arcs and dotted OIDs ---------- *)
Lemma bytes_of_uint_digits u : forallb is_digit (bytes_of_uint u) = true.
Proof. induction u; cbn [bytes_of_uint forallb]; try rewrite IHu; reflexivity. Qed.

Lemma dec_N_shape n : dec_N n = [48] \/
  exists c r, dec_N n = c :: r /\ 49 <= c <= 57 /\ forallb is_digit r = true.
Proof.
  unfold dec_N.
  assert (E : N.to_uint n = Decimal.unorm (N.to_uint n)).
  { rewrite <- (DecimalN.Unsigned.to_of (N.to_uint n)). now rewrite DecimalN.Unsigned.of_to. }
  rewrite E. unfold Decimal.unorm.
  pose proof (nzhead_nonzero (N.to_uint n)) as Hnz.
  destruct (Decimal.nzhead (N.to_uint n)) as [|u|u|u|u|u|u|u|u|u|u]; [left; reflexivity| | | | | | | | | |].
  - exfalso. apply (Hnz u). reflexivity.
  - right. eexists _, _. cbn [bytes_of_uint]. split; [reflexivity|]. split; [lia|apply bytes_of_uint_digits].
  - right. eexists _, _. cbn [bytes_of_uint]. split; [reflexivity|]. split; [lia|apply bytes_of_uint_digits].
  - right. eexists _, _. cbn [bytes_of_uint]. split; [reflexivity|]. split; [lia|apply bytes_of_uint_digits].
  - right. eexists _, _. cbn [bytes_of_uint]. split; [reflexivity|]. split; [lia|apply bytes_of_uint_digits].
  - right. eexists _, _. cbn [bytes_of_uint]. split; [reflexivity|]. split; [lia|apply bytes_of_uint_digits].
  - right. eexists _, _. cbn [bytes_of_uint]. split; [reflexivity|]. split; [lia|apply bytes_of_uint_digits].
  - right. eexists _, _. cbn [bytes_of_uint]. split; [reflexivity|]. split; [lia|apply bytes_of_uint_digits].
  - right. eexists _, _. cbn [bytes_of_uint]. split; [reflexivity|]. split; [lia|apply bytes_of_uint_digits].
  - right. eexists _, _. cbn [bytes_of_uint]. split; [reflexivity|]. split; [lia|apply bytes_of_uint_digits].
Qed.

Lemma dec_N_digits n : forallb is_digit (dec_N n) = true /\ dec_N n <> [].
Proof.
  destruct (dec_N_shape n) as [E|(c & r & E & Hc & Hr)]; rewrite E; split; try discriminate; [reflexivity|].
  cbn [forallb]. rewrite Hr. unfold is_digit, rng. lia.
Qed.

Lemma bytes_of_uint_inj u : forall u', bytes_of_uint u = bytes_of_uint u' -> u = u'.
Proof.
  induction u; destruct u'; cbn [bytes_of_uint]; intro H; try discriminate H; try reflexivity;
    injection H as H; f_equal; auto.
Qed.

Lemma dec_N_inj n m : dec_N n = dec_N m -> n = m.
Proof. intro H. apply DecimalN.Unsigned.to_uint_inj. now apply bytes_of_uint_inj. Qed.

Definition dot_or_end (t : bytes) : Prop := t = [] \/ exists r, t = 46 :: r.

Lemma digits_split d1 : forall d2 t1 t2, forallb is_digit d1 = true -> forallb is_digit d2 = true ->
  dot_or_end t1 -> dot_or_end t2 -> d1 ++ t1 = d2 ++ t2 -> d1 = d2 /\ t1 = t2.
Proof.
  induction d1 as [|a d1 IH]; intros d2 t1 t2 H1 H2 T1 T2 E.
  - destruct d2 as [|b d2]; [auto|]. cbn in *. apply andb_prop in H2. destruct H2 as [Hb _].
    destruct T1 as [->|(r & ->)]; [discriminate|]. injection E as E _. subst b. discriminate Hb.
  - cbn in H1. apply andb_prop in H1. destruct H1 as [Ha H1].
    destruct d2 as [|b d2].
    + cbn in E. destruct T2 as [->|(r & ->)]; [discriminate|]. injection E as E _. subst a. discriminate Ha.
    + cbn in H2. apply andb_prop in H2. destruct H2 as [_ H2]. cbn in E. injection E as E1 E2. subst b.
      destruct (IH d2 t1 t2 H1 H2 T1 T2 E2) as [-> ->]. auto.
Qed.

Lemma dotted_cons n o : dotted (n :: o) = dec_N n ++ match o with [] => [] | _ => 46 :: dotted o end.
Proof. unfold dotted. destruct o; cbn [map join]; [now rewrite app_nil_r|reflexivity]. Qed.

Lemma dotted_inj o1 : forall o2, dotted o1 = dotted o2 -> o1 = o2.
Proof.
  induction o1 as [|n o1 IH]; intros o2 E.
  - destruct o2 as [|m o2]; [reflexivity|]. rewrite dotted_cons in E. change (dotted []) with (@nil N) in E.
    destruct (dec_N_digits m) as [_ Hne]. destruct (dec_N m); [congruence|discriminate].
  - destruct o2 as [|m o2].
    + rewrite dotted_cons in E. change (dotted []) with (@nil N) in E.
      destruct (dec_N_digits n) as [_ Hne]. destruct (dec_N n); [congruence|discriminate].
    + rewrite !dotted_cons in E.
      apply digits_split in E; try apply dec_N_digits.
      * destruct E as [E1 E2]. apply dec_N_inj in E1. subst m. f_equal.
        destruct o1, o2; try discriminate; [reflexivity|]. injection E2 as E2. now apply IH.
      * destruct o1; [left|right]; eauto.
      * destruct o2; [left|right]; eauto.
Qed.

(* ---------- the dotted form is a numericoid ---------- *)
Lemma digit_not_dot c : is_digit c = true -> (c =? 46) = false.
Proof. unfold is_digit, rng. lia. Qed.

Definition after_number (dots : nat) (X : bytes) : bool :=
  match X with [] => Nat.leb 1 dots | _ :: Y => noid NStart (S dots) Y end.

Lemma noid_in_digits r : forallb is_digit r = true -> forall dots X, dot_or_end X ->
  noid NIn dots (r ++ X) = after_number dots X.
Proof.
  induction r as [|c r IH]; intros Hr dots X HX.
  - cbn [app]. destruct HX as [->|(Y & ->)]; reflexivity.
  - cbn in Hr. apply andb_prop in Hr. destruct Hr as [Hc Hr]. cbn [app noid].
    rewrite (digit_not_dot c Hc), Hc. now apply IH.
Qed.

Lemma noid_number n dots X : dot_or_end X -> noid NStart dots (dec_N n ++ X) = after_number dots X.
Proof.
  intro HX. destruct (dec_N_shape n) as [E|(c & r & E & Hc & Hr)]; rewrite E.
  - destruct HX as [->|(Y & ->)]; reflexivity.
  - cbn [app noid]. replace (c =? 46) with false by lia. replace (is_digit c) with true by (unfold is_digit, rng; lia).
    replace (c =? 48) with false by lia. now apply noid_in_digits.
Qed.

Lemma noid_dotted o : o <> [] -> forall dots, noid NStart dots (dotted o) = Nat.leb 1 (dots + length o - 1).
Proof.
  induction o as [|n o IH]; intros Hne dots; [congruence|].
  rewrite dotted_cons. destruct o as [|m o].
  - rewrite noid_number by (left; reflexivity). cbn [after_number length]. f_equal. lia.
  - rewrite noid_number by (right; eauto). cbn [after_number]. rewrite IH by discriminate.
    f_equal. cbn [length]. lia.
Qed.

Lemma dotted_numericoid o : (2 <= length o)%nat -> is_numericoid (dotted o) = true.
Proof.
  intro H. unfold is_numericoid. rewrite noid_dotted by (destruct o; [cbn in H; lia|discriminate]).
  apply Nat.leb_le. lia.
Qed.

Lemma dotted_chars o : forallb (fun c => is_digit c || (c =? 46)) (dotted o) = true.
Proof.
  induction o as [|n o IH]; [reflexivity|]. rewrite dotted_cons. rewrite forallb_app. apply andb_true_intro. split.
  - destruct (dec_N_digits n) as [H _]. rewrite forallb_forall in *. intros x Hx. now rewrite (H x Hx).
  - destruct o; [reflexivity|]. cbn [forallb]. now rewrite IH.
Qed.

(* ---------- the name table ---------- *)
Fixpoint nodupb (l : list bytes) : bool :=
  match l with
  | [] => true
  | x :: r => negb (existsb (bytes_eqb x) r) && nodupb r
  end.
Definition name_table_ok (t : name_table) : bool :=
  forallb (fun kn => is_descr (snd kn)) t && nodupb (map snd t).

Lemma bytes_eqb_eq a : forall b, bytes_eqb a b = true <-> a = b.
Proof.
  induction a as [|x a IH]; destruct b as [|y b]; cbn; split; intro H; try congruence; try discriminate.
  - apply andb_prop in H. destruct H as [H1 H2]. apply N.eqb_eq in H1. apply IH in H2. congruence.
  - injection H as -> ->. rewrite N.eqb_refl. now apply IH.
Qed.

Lemma lookup_in t o n : lookup_name t o = Some n -> In (o, n) t.
Proof.
  induction t as [|[k m] t IH]; cbn; [discriminate|].
  destruct (bytes_eqb k o) eqn:E.
  - intros [= ->]. apply bytes_eqb_eq in E. subst. now left.
  - intro H. right. auto.
Qed.

Lemma lookup_descr t o n : name_table_ok t = true -> lookup_name t o = Some n -> is_descr n = true.
Proof.
  intros Ht Hl. apply andb_prop in Ht. destruct Ht as [Ht _].
  rewrite forallb_forall in Ht. apply (Ht (o, n)). now apply lookup_in.
Qed.

Lemma descr_no_eq n : is_descr n = true -> ~ In 61 n.
Proof.
  destruct n as [|c r]; [discriminate|]. cbn. intros H [E|E].
  - subst c. discriminate H.
  - apply andb_prop in H. destruct H as [_ H]. rewrite forallb_forall in H. specialize (H 61 E). discriminate H.
Qed.

Lemma dotted_no_eq o : ~ In 61 (dotted o).
Proof.
  intro H. pose proof (dotted_chars o) as Hc. rewrite forallb_forall in Hc. specialize (Hc 61 H). discriminate Hc.
Qed.

Lemma attr_name_type t o : name_table_ok t = true -> (2 <= length o)%nat ->
  is_attr_type (attr_name_in t o) = true /\ ~ In 61 (attr_name_in t o).
Proof.
  intros Ht Ho. unfold attr_name_in, is_attr_type. destruct (lookup_name t o) as [n|] eqn:E.
  - pose proof (lookup_descr t o n Ht E) as Hd. rewrite Hd. split; [reflexivity|now apply descr_no_eq].
  - rewrite dotted_numericoid by assumption. split; [apply orb_true_r|apply dotted_no_eq].
Qed.

Lemma split_eq_app n v : ~ In 61 n -> split_eq (n ++ 61 :: v) = Some (n, v).
Proof.
  induction n as [|c n IH]; intro H; cbn [app split_eq].
  - reflexivity.
  - replace (c =? 61) with false by (symmetry; apply N.eqb_neq; intro; subst; apply H; now left).
    rewrite IH; [reflexivity|]. intro; apply H; now right.
Qed.

(* ---------- injectivity of the displayed type ---------- *)
Lemma nodupb_in_unique (t : name_table) : nodupb (map snd t) = true ->
  forall o1 o2 n, In (o1, n) t -> In (o2, n) t -> o1 = o2.
Proof.
  induction t as [|[k m] t IH]; cbn [map nodupb snd]; intros H o1 o2 n H1 H2; [destruct H1|].
  apply andb_prop in H. destruct H as [Hx Hr].
  assert (Hnot : forall o, In (o, m) t -> False).
  { intros o Ho. apply negb_true_iff in Hx.
    assert (Ht : existsb (bytes_eqb m) (map snd t) = true).
    { apply existsb_exists. exists m. split; [now apply (in_map snd t (o, m))|now apply bytes_eqb_eq]. }
    congruence. }
  destruct H1 as [E1|H1], H2 as [E2|H2].
  - congruence.
  - injection E1 as -> ->. exfalso. eauto.
  - injection E2 as -> ->. exfalso. eauto.
  - eauto.
Qed.

Lemma descr_not_dotted n o : is_descr n = true -> n <> dotted o.
Proof.
  intros Hd E. destruct n as [|c r]; [discriminate|]. cbn in Hd. apply andb_prop in Hd. destruct Hd as [Ha _].
  pose proof (dotted_chars o) as Hc. rewrite <- E in Hc. cbn in Hc. apply andb_prop in Hc. destruct Hc as [Hc _].
  unfold is_alpha, is_digit, rng in *. lia.
Qed.

Lemma attr_name_in_inj t : name_table_ok t = true ->
  forall o1 o2, attr_name_in t o1 = attr_name_in t o2 -> o1 = o2.
Proof.
  intros Ht o1 o2. unfold attr_name_in.
  destruct (lookup_name t o1) as [n1|] eqn:E1, (lookup_name t o2) as [n2|] eqn:E2; intro E.
  - subst n2. apply andb_prop in Ht. destruct Ht as [_ Hn].
    eapply nodupb_in_unique; eauto using lookup_in.
  - exfalso. eapply descr_not_dotted; eauto using lookup_descr.
  - exfalso. symmetry in E. eapply descr_not_dotted; eauto using lookup_descr.
  - now apply dotted_inj.
Qed.

Lemma x500_names_ok : name_table_ok x500_names = true.
Proof. vm_compute. reflexivity. Qed.

(* ---------- what a name is, and what the reader must return for it ---------- *)
(* a string value is valid UTF-8 (what PrintableString, IA5String and UTF8String contents are);
   any other value is known by its DER encoding, which must exist *)
Definition value_ok (v : govalue) : Prop :=
  match v with
  | GStr s => valid_utf8 s = true
  | _ => marshal v <> [] /\ bytes_ok (marshal v) = true
  end.
Definition atv_ok (a : atv) : Prop := (2 <= length (fst a))%nat /\ value_ok (snd a).
Definition name_ok (rdns : list (list atv)) : Prop := Forall (Forall atv_ok) rdns.

Definition pv (v : govalue) : pvalue :=
  match v with GStr s => PStr s | _ => PHex (marshal v) end.
Definition patv_in (t : name_table) (a : atv) : patv := (attr_name_in t (fst a), pv (snd a)).
Definition patv_of : atv -> patv := patv_in x500_names.

Definition fixed (var : variant) : Prop := v_nul var = true /\ v_hex var = true.

Lemma parse_value_render var v rest : fixed var -> value_ok v -> sep_or_end rest = true ->
  parse_value (render_value var v ++ rest) = Some (pv v, rest).
Proof.
  intros [Hn Hh] Hv Hrest. unfold render_value. rewrite Hh, Hn.
  destruct v as [s|z| |p m]; cbn [value_ok pv] in *.
  - destruct (valid_utf8_scalars s Hv) as (cps & Hc & ->). rewrite escape_utf8 by assumption. now apply parse_value_string.
  - destruct Hv. cbn [app]. now apply parse_value_hex.
  - destruct Hv. cbn [app]. now apply parse_value_hex.
  - destruct Hv. cbn [app]. now apply parse_value_hex.
Qed.

Lemma parse_atv_render var t a rest : fixed var -> name_table_ok t = true -> atv_ok a -> sep_or_end rest = true ->
  parse_atv (render_atv var t a ++ rest) = Some (patv_in t a, rest).
Proof.
  intros Hf Ht [Ho Hv] Hrest. unfold render_atv, parse_atv.
  destruct (attr_name_type t (fst a) Ht Ho) as [Hty Hne].
  rewrite <- !app_assoc. cbn [app]. rewrite split_eq_app by assumption. rewrite Hty.
  rewrite parse_value_render by assumption. reflexivity.
Qed.

(* ---------- RDNs joined by '+', names joined by ',' ---------- *)
Section Structure.
  Variable var : variant.
  Variable t : name_table.
  Hypothesis Hf : fixed var.
  Hypothesis Ht : name_table_ok t = true.

  Let ratv := render_atv var t.
  Let rrdn (r : list atv) : bytes := join [43] (map ratv r).
  Definition tail_text (rs : list (list atv)) : bytes :=
    match rs with [] => [] | _ => 44 :: join [44] (map rrdn rs) end.

  Lemma join_cons_tail r rs : join [44] (map rrdn (r :: rs)) = rrdn r ++ tail_text rs.
  Proof. destruct rs; cbn [map join tail_text]; [now rewrite app_nil_r|reflexivity]. Qed.

  Lemma tail_sep rs : sep_or_end (tail_text rs) = true.
  Proof. destruct rs; reflexivity. Qed.

  Definition total (rs : list (list atv)) : nat := length (concat rs).

  Lemma parse_structure rs :
    Forall (fun r => r <> [] /\ Forall atv_ok r) rs -> rs <> [] ->
    forall fuel, (total rs <= fuel)%nat ->
    parse_rdns_fuel fuel (join [44] (map rrdn rs)) = Some (map (map (patv_in t)) rs).
  Proof.
    induction rs as [|r rs IHrs]; intros Hall Hne; [congruence|].
    apply Forall_cons_iff in Hall. destruct Hall as [[Hr Hok] Hall].
    rewrite join_cons_tail.
    (* inner induction over the attributes of the first RDN *)
    induction r as [|a r IHr]; [congruence|]. intros fuel Hfuel.
    apply Forall_cons_iff in Hok. destruct Hok as [Ha Hok].
    unfold total in *. cbn [concat] in Hfuel. rewrite app_length in Hfuel. cbn [length] in Hfuel.
    destruct fuel as [|f]; [lia|].
    destruct r as [|a2 r].
    - (* last attribute of this RDN *)
      unfold rrdn. cbn [map join parse_rdns_fuel].
      fold ratv. unfold ratv. rewrite (parse_atv_render var t a (tail_text rs) Hf Ht Ha (tail_sep rs)).
      destruct rs as [|r2 rs]; [reflexivity|].
      cbn [tail_text]. rewrite IHrs; [|assumption|discriminate|].
      + cbn [map]. reflexivity.
      + cbn [concat app length]. cbn [concat app length] in Hfuel. lia.
    - (* more attributes follow in the same RDN *)
      assert (Etext : rrdn (a :: a2 :: r) ++ tail_text rs = ratv a ++ 43 :: (rrdn (a2 :: r) ++ tail_text rs)).
      { unfold rrdn. cbn [map join]. rewrite <- !app_assoc. reflexivity. }
      rewrite Etext. cbn [parse_rdns_fuel].
      assert (Hsep : sep_or_end (43 :: (rrdn (a2 :: r) ++ tail_text rs)) = true) by reflexivity.
      unfold ratv at 1. rewrite (parse_atv_render var t a _ Hf Ht Ha Hsep).
      assert (IH : parse_rdns_fuel f (rrdn (a2 :: r) ++ tail_text rs)
                   = Some (map (map (patv_in t)) ((a2 :: r) :: rs))).
      { apply IHr; [discriminate|assumption|discriminate|]. cbn [concat]. rewrite app_length. cbn [length] in *. lia. }
      rewrite IH. cbn [map]. reflexivity.
  Qed.

  Lemma ratv_length a : (1 <= length (ratv a))%nat.
  Proof. unfold ratv, render_atv. rewrite !app_length. cbn. lia. Qed.

  Lemma rrdn_length r : (length r <= length (rrdn r))%nat.
  Proof.
    unfold rrdn. induction r as [|a r IH]; [cbn; lia|].
    destruct r as [|a2 r]; cbn [map join length] in *.
    - pose proof (ratv_length a). lia.
    - rewrite !app_length. pose proof (ratv_length a). cbn [length]. lia.
  Qed.

  Lemma text_length rs : (total rs <= length (join [44%N] (map rrdn rs)))%nat.
  Proof.
    unfold total. induction rs as [|r rs IH]; [cbn; lia|].
    rewrite join_cons_tail. cbn [concat]. rewrite !app_length. pose proof (rrdn_length r).
    destruct rs as [|r2 rs]; cbn [tail_text length concat] in *; lia.
  Qed.

  Lemma parse_rdns_structure rs :
    Forall (fun r => r <> [] /\ Forall atv_ok r) rs ->
    parse_rdns (join [44] (map rrdn rs)) = Some (map (map (patv_in t)) rs).
  Proof.
    intro Hall. destruct rs as [|r rs]; [reflexivity|].
    unfold parse_rdns.
    pose proof (text_length (r :: rs)) as Hlen.
    assert (Hpos : (1 <= total (r :: rs))%nat).
    { apply Forall_inv in Hall. destruct Hall as [Hr _]. unfold total. cbn [concat]. rewrite app_length.
      destruct r; [congruence|cbn; lia]. }
    destruct (join [44] (map rrdn (r :: rs))) as [|b s] eqn:E; [cbn [length] in Hlen; lia|].
    rewrite <- E. apply parse_structure; [assumption|discriminate|]. rewrite E. exact Hlen.
  Qed.
End Structure.

Lemma filter_nonempty_ok (rdns : list (list atv)) : name_ok rdns ->
  Forall (fun r => r <> [] /\ Forall atv_ok r) (filter nonempty (rev rdns)).
Proof.
  intro H. apply Forall_forall. intros r Hr. apply filter_In in Hr. destruct Hr as [Hin Hne].
  split; [destruct r; [discriminate|discriminate]|].
  apply in_rev in Hin. unfold name_ok in H. rewrite Forall_forall in H. now apply H.
Qed.

Lemma concat_filter_nonempty {A} (l : list (list A)) : concat (filter nonempty l) = concat l.
Proof. induction l as [|x l IH]; [reflexivity|]. destruct x; cbn; [assumption|now rewrite IH]. Qed.

(* ---------- the round trip ---------- *)
Lemma roundtrip_rdns_gen var t rdns : fixed var -> v_plus var = true -> name_table_ok t = true -> name_ok rdns ->
  parse_rdns (render_dn_gen var t rdns) = Some (map (map (patv_in t)) (filter nonempty (rev rdns))).
Proof.
  intros Hf Hp Ht Hn. unfold render_dn_gen. rewrite Hp.
  now apply parse_rdns_structure; [| |apply filter_nonempty_ok].
Qed.

Lemma current_fixed : fixed current /\ v_plus current = true.
Proof. repeat split. Qed.

Lemma roundtrip_rdns rdns : name_ok rdns ->
  parse_rdns (render_dn rdns) = Some (map (map patv_of) (filter nonempty (rev rdns))).
Proof.
  intro H. destruct current_fixed as [Hf Hp]. now apply roundtrip_rdns_gen; [| |apply x500_names_ok|].
Qed.

Lemma roundtrip rdns : name_ok rdns ->
  parse_dn (render_dn rdns) = Some (map patv_of (concat (rev rdns))).
Proof.
  intro H. unfold parse_dn. rewrite roundtrip_rdns by assumption.
  rewrite <- concat_map. rewrite concat_filter_nonempty. reflexivity.
Qed.

(* ---------- INTEGER values are always printable in '#' form ---------- *)
Lemma int_len_bound fuel : forall n z, (int_len fuel n z <= n + fuel)%nat.
Proof.
  induction fuel as [|f IH]; intros n z; cbn [int_len]; [lia|].
  destruct (_ && _); [lia|]. specialize (IH (S n) z). lia.
Qed.

Lemma N_to_be_ok w : forall n, bytes_ok (N_to_be w n) = true.
Proof.
  induction w as [|w IH]; intro n; [reflexivity|]. cbn [N_to_be]. unfold bytes_ok in *.
  rewrite forallb_app, IH. cbn. unfold byte_ok.
  assert (n mod 256 < 256) by (apply N.mod_lt; discriminate). lia.
Qed.

Lemma int_value_ok z : value_ok (GInt z).
Proof.
  cbn [value_ok marshal]. unfold int64_der. split; [discriminate|].
  cbn [bytes_ok forallb]. fold (bytes_ok (N_to_be (int_len 8 1 z) (Z.to_N (z mod 2 ^ (8 * Z.of_nat (int_len 8 1 z)))))).
  rewrite N_to_be_ok. pose proof (int_len_bound 8 1 z). unfold byte_ok. lia.
Qed.

(* ---------- consequences ---------- *)
Definition akey (a : atv) : oid * pvalue := (fst a, pv (snd a)).

Lemma attr_name_inj o1 o2 : attr_name o1 = attr_name o2 -> o1 = o2.
Proof. apply attr_name_in_inj. exact x500_names_ok. Qed.

Lemma patv_akey_inj a b : patv_of a = patv_of b -> akey a = akey b.
Proof. unfold patv_of, patv_in, akey. intros [= H1 H2]. apply attr_name_inj in H1. congruence. Qed.

Lemma map_inj_lift {A B C} (f : A -> B) (g : A -> C) (H : forall a b, f a = f b -> g a = g b) :
  forall l l', map f l = map f l' -> map g l = map g l'.
Proof.
  induction l as [|x l IH]; destruct l' as [|y l']; cbn; intro E; try discriminate; [reflexivity|].
  injection E as E1 E2. f_equal; auto.
Qed.

Lemma unambiguous r1 r2 : name_ok r1 -> name_ok r2 -> render_dn r1 = render_dn r2 ->
  map (map akey) (filter nonempty (rev r1)) = map (map akey) (filter nonempty (rev r2)).
Proof.
  intros H1 H2 E. pose proof (roundtrip_rdns r1 H1) as P1. pose proof (roundtrip_rdns r2 H2) as P2.
  rewrite E in P1. rewrite P1 in P2. injection P2 as P2.
  revert P2. apply map_inj_lift. apply map_inj_lift. exact patv_akey_inj.
Qed.

Lemma length_concat_rev {A} (l : list (list A)) : length (concat (rev l)) = length (concat l).
Proof.
  induction l as [|x l IH]; [reflexivity|]. cbn [rev concat].
  rewrite concat_app, !app_length, IH. cbn [concat]. rewrite app_nil_r. lia.
Qed.

Lemma no_forgery rdns : name_ok rdns ->
  exists l, parse_dn (render_dn rdns) = Some l /\ length l = length (concat rdns).
Proof.
  intro H. eexists. split; [now apply roundtrip|].
  rewrite map_length. apply length_concat_rev.
Qed.

(* ---------- one value, end to end ---------- *)
Lemma value_roundtrip s rest : valid_utf8 s = true -> sep_or_end rest = true ->
  parse_value (escape_gen true s ++ rest) = Some (PStr s, rest).
Proof.
  intros Hv Hrest. destruct (valid_utf8_scalars s Hv) as (cps & Hc & ->).
  rewrite escape_utf8 by assumption. now apply parse_value_string.
Qed.

Lemma from_raw_dn_roundtrip dn rdns : name_ok rdns ->
  parse_dn (from_raw_dn dn (Some rdns)) = Some (map patv_of (concat (rev rdns))).
Proof. exact (roundtrip rdns). Qed.

(* ---------- the code before the repairs (witnesses; see known_findings.json) ---------- *)
Definition cn : oid := [2; 5; 4; 3].
Definition ldap_rows_before : name_table :=
  [([2; 5; 4; 95], bs "ldapUrl"); ([2; 5; 4; 96], bs "ldapUrl")].

Lemma names_injective_refuted_before :
  exists o1 o2, o1 <> o2 /\ attr_name_in ldap_rows_before o1 = attr_name_in ldap_rows_before o2.
Proof. exists [2; 5; 4; 95], [2; 5; 4; 96]. split; [discriminate|reflexivity]. Qed.

Lemma nul_refuted_before :
  exists rdns, name_ok rdns /\ parse_dn (render_dn_gen original x500_names rdns) = None.
Proof.
  exists [[(cn, GStr [0])]]. split.
  - repeat constructor.
  - vm_compute. reflexivity.
Qed.

Lemma multivalued_refuted_before :
  exists r1 r2, name_ok r1 /\ name_ok r2 /\
    render_dn_gen (mkvariant true false true) x500_names r1 = render_dn_gen (mkvariant true false true) x500_names r2 /\
    map (map akey) (filter nonempty (rev r1)) <> map (map akey) (filter nonempty (rev r2)).
Proof.
  exists [[(cn, GStr (bs "a")); ([2; 5; 4; 10], GStr (bs "b"))]],
         [[([2; 5; 4; 10], GStr (bs "b"))]; [(cn, GStr (bs "a"))]].
  split; [repeat constructor|]. split; [repeat constructor|]. split; [vm_compute; reflexivity|].
  vm_compute. discriminate.
Qed.

Lemma nonstring_refuted_before :
  exists a b, akey a <> akey b /\
    render_dn_gen (mkvariant true true false) x500_names [[a]] = render_dn_gen (mkvariant true true false) x500_names [[b]].
Proof.
  exists (cn, GInt 5), (cn, GStr (bs "%!s(int64=5)")). split; [vm_compute; discriminate|vm_compute; reflexivity].
Qed.

(* a value without DER (nil; never produced by FromRawDN since F31e) is printed as a bare '#', which cannot be read *)
Lemma nil_value_unreadable : parse_dn (render_dn [[(cn, GNil)]]) = None.
Proof. vm_compute. reflexivity. Qed.

(* ---------- the hypotheses are met by non-trivial names ---------- *)
Definition tricky_name : list (list atv) :=
  [ [([2; 5; 4; 6], GStr (bs "ZZ"))];
    [];
    [(cn, GStr ([32; 35; 44; 43; 34; 92; 60; 62; 59; 61; 0; 10; 195; 169; 240; 159; 152; 128; 32]));
     ([2; 5; 4; 96], GInt (-129));
     ([1; 2; 840; 113549; 1; 9; 1], GStr [])];
    [([0; 9; 2342; 19200300; 100; 1; 25], GStr (bs "#"));
     ([2; 5; 4; 10], GStr (bs " "));
     ([2; 999; 3], GOther (bs "x") [4; 1; 255])] ].

Lemma tricky_name_ok : name_ok tricky_name.
Proof.
  unfold tricky_name, name_ok.
  repeat (apply Forall_cons || apply Forall_nil);
    (split; [cbn; lia|]); try (vm_compute; reflexivity); try apply int_value_ok.
  cbn. split; [discriminate|reflexivity].
Qed.

Lemma tricky_name_text :
  render_dn tricky_name =
    bs "0.9.2342.19200300.100.1.25=\#+O=\ +2.999.3=#0401ff,CN=\ #\,\+\""\\\<\>\;=\00" ++ [10; 195; 169; 240; 159; 152; 128]
    ++ bs "\ +tagLocation=#0202ff7f+1.2.840.113549.1.9.1=,C=ZZ".
Proof. vm_compute. reflexivity. Qed.

(* ---------- the two names of a certificate (getCertificateInfo, der.go:82/87) ---------- *)
(* what an RFC 4514 reader must return for a name: its non-empty RDNs, most specific first *)
Definition reads_as (rdns : list (list atv)) : option (list (list patv)) :=
  Some (map (map patv_of) (filter nonempty (rev rdns))).

(* rendering is applied to subject and issuer independently: whatever the two names are (and
   however they are related), the Subject text reads back as the subject and the Issuer text
   as the issuer *)
Lemma cert_names_roundtrip ds di s i : name_ok s -> name_ok i ->
  parse_rdns (fst (cert_names (ds, Some s) (di, Some i))) = reads_as s /\
  parse_rdns (snd (cert_names (ds, Some s) (di, Some i))) = reads_as i.
Proof. intros Hs Hi. split; [exact (roundtrip_rdns s Hs)|exact (roundtrip_rdns i Hi)]. Qed.

(* the two lines of a certificate show the same text only if issuer and subject are the same
   name: same RDNs in the same order, same grouping, same OIDs, same values *)
Lemma cert_names_same_text ds di s i : name_ok s -> name_ok i ->
  fst (cert_names (ds, Some s) (di, Some i)) = snd (cert_names (ds, Some s) (di, Some i)) ->
  map (map akey) (filter nonempty (rev s)) = map (map akey) (filter nonempty (rev i)).
Proof. intros Hs Hi E. exact (unambiguous s i Hs Hi E). Qed.

(* a name the library decoded: its bytes and the decoded RDNs *)
Definition decoded_name : Type := (bytes * list (list atv))%type.
Definition as_raw (n : decoded_name) : raw_name := (fst n, Some (snd n)).

(* every certificate of a bundle / keystore: both texts read back as its own names *)
Lemma carrier_names_roundtrip (certs : list (decoded_name * decoded_name)) :
  Forall (fun c => name_ok (snd (fst c)) /\ name_ok (snd (snd c))) certs ->
  map (fun t => (parse_rdns (fst t), parse_rdns (snd t)))
      (carrier_names (map (fun c => (as_raw (fst c), as_raw (snd c))) certs))
  = map (fun c => (reads_as (snd (fst c)), reads_as (snd (snd c)))) certs.
Proof.
  induction 1 as [|c l [Hs Hi] _ IH]; [reflexivity|].
  unfold carrier_names in *. cbn [map]. f_equal; [|exact IH].
  destruct (cert_names_roundtrip (fst (fst c)) (fst (snd c)) _ _ Hs Hi) as [E1 E2].
  f_equal; [exact E1|exact E2].
Qed.

(* related names (the witnesses of the seeded shortcut "render once when pkix.Name.String()
   is equal"): the same RDNs in another order; one multi-valued RDN against two RDNs *)
Definition acme_subject : list (list atv) :=
  [[([2; 5; 4; 6], GStr (bs "US"))]; [([2; 5; 4; 10], GStr (bs "Acme, Inc."))]; [(cn, GStr (bs "Acme CA"))]].
Definition acme_issuer : list (list atv) :=
  [[([2; 5; 4; 10], GStr (bs "Acme, Inc."))]; [([2; 5; 4; 6], GStr (bs "US"))]; [(cn, GStr (bs "Acme CA"))]].
Definition two_rdns : list (list atv) := [[(cn, GStr (bs "x"))]; [([2; 5; 4; 10], GStr (bs "a+b"))]].
Definition one_rdn : list (list atv) := [[(cn, GStr (bs "x")); ([2; 5; 4; 10], GStr (bs "a+b"))]].

Lemma related_names_ok : name_ok acme_subject /\ name_ok acme_issuer /\ name_ok two_rdns /\ name_ok one_rdn.
Proof.
  unfold acme_subject, acme_issuer, two_rdns, one_rdn, name_ok.
  repeat split; repeat (apply Forall_cons || apply Forall_nil);
    (split; [cbn; lia|vm_compute; reflexivity]).
Qed.

Lemma related_names_text :
  cert_names ([], Some acme_subject) ([], Some acme_issuer)
    = (bs "CN=Acme CA,O=Acme\, Inc.,C=US", bs "CN=Acme CA,C=US,O=Acme\, Inc.") /\
  cert_names ([], Some two_rdns) ([], Some one_rdn) = (bs "O=a\+b,CN=x", bs "CN=x+O=a\+b").
Proof. split; vm_compute; reflexivity. Qed.

(* the escaping decisions are by BYTE position (x500.go:94-122: k == 0, k == len(s)-1) while
   the loop walks runes: a space after a multi-byte character is the last BYTE and is escaped;
   a '#' after a combining mark is not first and is not *)
Lemma multibyte_positions :
  escape_gen true (utf8 [233; 32]) = utf8 [233; 92; 32] /\
  escape_gen true (utf8 [32; 128512; 32]) = utf8 [92; 32; 128512; 92; 32] /\
  escape_gen true (utf8 [769; 35]) = utf8 [769; 35] /\
  escape_gen true (utf8 [35; 769]) = utf8 [92; 35; 769] /\
  escape_gen true (utf8 [8364; 32; 32]) = utf8 [8364; 32; 92; 32].
Proof. repeat split; vm_compute; reflexivity. Qed.

(* ---------- several names in one process: nothing is carried from one to the next ---------- *)
Lemma render_loop_map ns : forall out, render_loop out ns = out ++ map render_dn ns.
Proof.
  induction ns as [|n ns IH]; intro out; cbn [render_loop map]; [now rewrite app_nil_r|].
  rewrite IH, <- app_assoc. reflexivity.
Qed.

(* rendering a list of names is the map of rendering one name *)
Lemma render_all_map ns : render_all ns = map render_dn ns.
Proof. unfold render_all. now rewrite render_loop_map. Qed.

Lemma render_raw_loop_map ns : forall out,
  render_raw_loop out ns = out ++ map (fun n => from_raw_dn (fst n) (snd n)) ns.
Proof.
  induction ns as [|n ns IH]; intro out; cbn [render_raw_loop map]; [now rewrite app_nil_r|].
  rewrite IH, <- app_assoc. reflexivity.
Qed.

Lemma render_all_raw_map ns : render_all_raw ns = map (fun n => from_raw_dn (fst n) (snd n)) ns.
Proof. unfold render_all_raw. now rewrite render_raw_loop_map. Qed.

(* hence the k-th text depends on the k-th name only ... *)
Lemma render_all_nth ns k : nth_error (render_all ns) k = option_map render_dn (nth_error ns k).
Proof. rewrite render_all_map. apply nth_error_map. Qed.

(* ... a name has the same text wherever and however often it occurs, whatever was rendered
   before it or between its occurrences ... *)
Lemma render_all_position pre post pre' post' n :
  nth_error (render_all (pre ++ n :: post)) (length pre) = Some (render_dn n) /\
  nth_error (render_all (pre' ++ n :: post')) (length pre') = Some (render_dn n).
Proof.
  split; rewrite render_all_nth, nth_error_app2, Nat.sub_diag by lia; reflexivity.
Qed.

Lemma render_all_repeat pre mid post n :
  nth_error (render_all (pre ++ n :: mid ++ n :: post)) (length pre) = Some (render_dn n) /\
  nth_error (render_all (pre ++ n :: mid ++ n :: post)) (length pre + 1 + length mid) = Some (render_dn n).
Proof.
  split; rewrite render_all_nth.
  - rewrite nth_error_app2, Nat.sub_diag by lia. reflexivity.
  - rewrite nth_error_app2 by lia.
    replace (length pre + 1 + length mid - length pre)%nat with (S (length mid)) by lia.
    cbn [nth_error]. rewrite nth_error_app2, Nat.sub_diag by lia. reflexivity.
Qed.

(* ... and reordering the names reorders the texts the same way *)
Lemma render_all_perm ns ms : Permutation ns ms -> Permutation (render_all ns) (render_all ms).
Proof. rewrite !render_all_map. apply Permutation_map. Qed.

(* every text of the sequence reads back as its own name *)
Lemma render_all_roundtrip ns : Forall name_ok ns ->
  map parse_rdns (render_all ns) = map reads_as ns.
Proof.
  intro H. rewrite render_all_map, map_map. apply map_ext_in. intros n Hn.
  apply roundtrip_rdns. rewrite Forall_forall in H. now apply H.
Qed.

Lemma render_all_raw_roundtrip (ns : list decoded_name) : Forall (fun n => name_ok (snd n)) ns ->
  map parse_rdns (render_all_raw (map as_raw ns)) = map (fun n => reads_as (snd n)) ns.
Proof.
  intro H. rewrite render_all_raw_map, !map_map. apply map_ext_in. intros n Hn.
  unfold as_raw. cbn [fst snd]. apply (roundtrip_rdns (snd n)). rewrite Forall_forall in H. now apply H.
Qed.

(* the witnesses of the seeded attribute cache (key: dotted OID followed by the value, no
   separator): 2.5.4.5 = "0123" then 2.5.4.50 = "123"; both orders, one name, two names *)
Definition serial_0123 : atv := ([2; 5; 4; 5], GStr (bs "0123")).
Definition member_123 : atv := ([2; 5; 4; 50], GStr (bs "123")).
Lemma colliding_names_text :
  render_all [[[serial_0123]]; [[member_123]]; [[serial_0123]]; [[member_123; serial_0123]]]
  = [bs "serialNumber=0123"; bs "uniqueMember=123"; bs "serialNumber=0123"; bs "uniqueMember=123+serialNumber=0123"].
Proof. vm_compute. reflexivity. Qed.
