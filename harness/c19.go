package main

// C19 — RPM package identity, digests and signature issuer are reported as stored.
//
// The harness has its own package writer (lead, signature header, main header, OpenPGP
// v3/v4 signature packets); nothing here uses the repository's or go-rpm's serialisers.
// Ops (the part of the kind before ':'):
//   encode    input = package description, impl = bytes laid out by the Go writer below
//             (cross-checks Rpm.encode, the encoder the theorems are about)
//   lib       input = (data), impl = what go-rpm's ReadPackageFile returned (both headers'
//             index entries with their typed values) — cross-checks the byte-level re-model
//   sig       input = (packet oracle), impl = what packet.Read returned for the bytes
//   describe  input = (data oracle truth), impl = file.RPMFile's outcome; truth = what the
//             generator stored (for the spec checker), () for malformed inputs
//   wf        input = package description, impl = 1: generated packages are meant to be well
//             formed (cross-checks Rpm.pkg_ok, the hypothesis of the theorems)
//   report    input = package description, impl = file.RPMFile on the Go writer's bytes
//             (cross-checks Rpm.report, the right-hand side of C19_faithful)
//   gencode   input = layout description (lead, two arbitrary (index, store) pairs, padding,
//             payload), impl = the Go writer's bytes (cross-checks Rpm.gencode)
//   gwf       input = (layout, packets under the four signature tags), impl = 1 (cross-checks
//             Rpm.gpkg_ok / gsigs_ok, the hypotheses of the *_layout theorems)
//   greport   same input, impl = file.RPMFile on the bytes (cross-checks Rpm.greport)
//   layout    input = (data declared-headers), impl = go-rpm's parse; the spec checker demands for
//             every declared entry the typed value that lies at its declared offset
//   gsigenc / gsigwf / gsigview   input = signature packet description (header form, version,
//             subpacket lists, MPIs with bit counts), impl = the Go writer's bytes / 1 / packet.Read
//             on them (cross-check Rpm.gencode_sig, gsig_ok, gsig_view)
//   sigpkt    input = (bytes oracle truth), impl = packet.Read; the spec checker compares version,
//             algorithm, hash and issuer with what the generator stored
//   alloc     input = (data), impl = (outcome MiB-allocated) measured in-process on inputs
//             whose length fields are moderately large           [oracle only]
//   isolated  input = (data), impl = outcome of inspecting the file in a worker child with a
//             memory watchdog (huge length fields)               [oracle only]

import (
	"bytes"
	"encoding/binary"
	"encoding/hex"
	"runtime"
	"strings"

	rpm "github.com/jfrog/go-rpm"

	"github.com/edutko/decipher/internal/file"
	"github.com/edutko/decipher/internal/openpgp/packet"
)

func init() {
	gens["C19"] = genC19
	extraSeeds = append(extraSeeds, c19Seeds)
}

// ---------------------------------------------------------------- OpenPGP signature writer

type sigSpec struct {
	V3      bool
	Algo    byte
	Hash    byte
	Issuer  uint64
	Created uint32
	SigType byte
	HashTag [2]byte
	MPIs    [][]byte
}

func be16(n int) []byte { return []byte{byte(n >> 8), byte(n)} }
func be32(n uint32) []byte {
	b := make([]byte, 4)
	binary.BigEndian.PutUint32(b, n)
	return b
}
func be64(n uint64) []byte {
	b := make([]byte, 8)
	binary.BigEndian.PutUint64(b, n)
	return b
}

// newLen: RFC 4880 4.2.2 new-format body length (1, 2 or 5 octets)
func newLen(n int) []byte {
	switch {
	case n < 192:
		return []byte{byte(n)}
	case n < 8384:
		n -= 192
		return []byte{byte(192 + n>>8), byte(n)}
	default:
		return append([]byte{255}, be32(uint32(n))...)
	}
}

func mpisBytes(m [][]byte) []byte {
	var out []byte
	for _, x := range m {
		out = append(out, be16(8*len(x))...)
		out = append(out, x...)
	}
	return out
}

// body of the canonical packet (the layout Rpm.encode_sig produces)
func (s sigSpec) body() []byte {
	var b []byte
	if s.V3 {
		b = append(b, 3, 5, s.SigType)
		b = append(b, be32(s.Created)...)
		b = append(b, be64(s.Issuer)...)
		b = append(b, s.Algo, s.Hash)
	} else {
		b = append(b, 4, s.SigType, s.Algo, s.Hash)
		b = append(b, 0, 6, 5, 2)
		b = append(b, be32(s.Created)...)
		b = append(b, 0, 10, 9, 16)
		b = append(b, be64(s.Issuer)...)
	}
	b = append(b, s.HashTag[:]...)
	return append(b, mpisBytes(s.MPIs)...)
}

func (s sigSpec) bytes() []byte {
	body := s.body()
	return append(append([]byte{0xC2}, newLen(len(body))...), body...)
}

func (s sigSpec) sx() Sx {
	m := SL{}
	for _, x := range s.MPIs {
		m = append(m, SB(x))
	}
	return SL{Bool(s.V3), I(int(s.Algo)), I(int(s.Hash)), SB(be64(s.Issuer)), SB(be32(s.Created)), I(int(s.SigType)), SB(s.HashTag[:]), m}
}

// what the generator stored, for the spec checker: (algo hash-id (issuer)?)
func (s sigSpec) truth() Sx { return SL{I(int(s.Algo)), I(int(s.Hash)), SL{SB(be64(s.Issuer))}} }

// wrap a packet body in one of the header forms of RFC 4880 4.2
func wrapPacket(form int, tag byte, body []byte, r *Rng) []byte {
	switch form {
	case 0: // new format
		return append(append([]byte{0xC0 | tag}, newLen(len(body))...), body...)
	case 1: // old format, one-octet length
		if len(body) < 256 {
			return append([]byte{0x80 | tag<<2, byte(len(body))}, body...)
		}
		fallthrough
	case 2: // old format, two-octet length
		return append(append([]byte{0x80 | tag<<2 | 1}, be16(len(body))...), body...)
	case 3: // old format, four-octet length
		return append(append([]byte{0x80 | tag<<2 | 2}, be32(uint32(len(body)))...), body...)
	case 4: // old format, indeterminate length
		return append([]byte{0x80 | tag<<2 | 3}, body...)
	case 5: // new format, five-octet length
		return append(append([]byte{0xC0 | tag, 255}, be32(uint32(len(body)))...), body...)
	default: // new format, partial body lengths: chunks of 2^k then a final definite length
		out := []byte{0xC0 | tag}
		for len(body) > 0 {
			k := r.Intn(4)
			if 1<<k > len(body) || r.Intn(3) == 0 {
				break
			}
			out = append(out, byte(224+k))
			out = append(out, body[:1<<k]...)
			body = body[1<<k:]
		}
		return append(append(out, newLen(len(body))...), body...)
	}
}

func subpacket(typ byte, data []byte) []byte {
	return append(append(newLen(len(data)+1), typ), data...)
}

// a v4 signature body with free choice of the subpacket areas
func sigV4Body(sigType, algo, hash byte, hashed, unhashed []byte, tag [2]byte, mpis [][]byte) []byte {
	b := []byte{4, sigType, algo, hash}
	b = append(b, be16(len(hashed))...)
	b = append(b, hashed...)
	b = append(b, be16(len(unhashed))...)
	b = append(b, unhashed...)
	b = append(b, tag[:]...)
	return append(b, mpisBytes(mpis)...)
}

var c19Algos = []byte{1, 3, 17, 19, 22}
var c19V3Algos = []byte{1, 3, 17}
var c19Hashes = []byte{1, 2, 3, 8, 9, 10, 11}

func mpiCount(algo byte) int {
	if algo == 1 || algo == 3 {
		return 1
	}
	return 2
}

func randSig(r *Rng, v3 bool) sigSpec {
	s := sigSpec{V3: v3, Created: uint32(r.U64()), SigType: []byte{0, 1, 0x10, 0x13, 0x18, 0x19}[r.Intn(6)]}
	if v3 {
		s.Algo = c19V3Algos[r.Intn(len(c19V3Algos))]
	} else {
		s.Algo = c19Algos[r.Intn(len(c19Algos))]
	}
	s.Hash = c19Hashes[r.Intn(len(c19Hashes))]
	// issuer with 0..15 leading zero nibbles (and sometimes zero)
	z := r.Intn(34)
	if z > 16 {
		z = 0
	}
	s.Issuer = 0
	if z < 16 {
		s.Issuer = r.U64()>>(4*uint(z)) | 1<<(63-4*uint(z)) // exactly z leading zero nibbles
	}
	copy(s.HashTag[:], r.Bytes(2))
	for i := 0; i < mpiCount(s.Algo); i++ {
		s.MPIs = append(s.MPIs, r.Bytes(r.Intn(40)))
	}
	return s
}

// ---------------------------------------------------------------- RPM writer

type hEntry struct {
	Tag, Type uint32
	Count     uint32
	Data      []byte
	Align     int
	// overrides applied to the index entry only (malformed stream)
	OvType, OvCount, OvOff *uint32
}

func strEntry(tag uint32, s string) hEntry {
	return hEntry{Tag: tag, Type: 6, Count: 1, Data: append([]byte(s), 0)}
}
func binEntry(tag uint32, b []byte) hEntry {
	return hEntry{Tag: tag, Type: 7, Count: uint32(len(b)), Data: b}
}
func i32Entry(tag uint32, vals ...uint32) hEntry {
	var d []byte
	for _, v := range vals {
		d = append(d, be32(v)...)
	}
	return hEntry{Tag: tag, Type: 4, Count: uint32(len(vals)), Data: d, Align: 4}
}
func strArrayEntry(tag uint32, typ uint32, ss ...string) hEntry {
	var d []byte
	for _, s := range ss {
		d = append(append(d, s...), 0)
	}
	return hEntry{Tag: tag, Type: typ, Count: uint32(len(ss)), Data: d}
}

func regionTrailer(tag uint32, n int) []byte {
	return append(append(append(be32(tag), be32(7)...), be32(uint32(-16*n))...), be32(16)...)
}

// header structure: magic, version, reserved, index count, store size, index, store.
// regionLast: the first entry's data is placed at the end of the store (as rpm does).
func buildHeader(es []hEntry, regionLast bool) []byte {
	var store []byte
	offs := make([]uint32, len(es))
	place := func(i int) {
		e := es[i]
		if e.Align > 1 {
			for len(store)%e.Align != 0 {
				store = append(store, 0)
			}
		}
		offs[i] = uint32(len(store))
		store = append(store, e.Data...)
	}
	start := 0
	if regionLast && len(es) > 0 {
		start = 1
	}
	for i := start; i < len(es); i++ {
		place(i)
	}
	if start == 1 {
		place(0)
	}
	out := []byte{0x8E, 0xAD, 0xE8, 1, 0, 0, 0, 0}
	out = append(out, be32(uint32(len(es)))...)
	out = append(out, be32(uint32(len(store)))...)
	for i, e := range es {
		typ, off, cnt := e.Type, offs[i], e.Count
		if e.OvType != nil {
			typ = *e.OvType
		}
		if e.OvOff != nil {
			off = *e.OvOff
		}
		if e.OvCount != nil {
			cnt = *e.OvCount
		}
		out = append(out, be32(e.Tag)...)
		out = append(out, be32(typ)...)
		out = append(out, be32(off)...)
		out = append(out, be32(cnt)...)
	}
	return append(out, store...)
}

func pad8(b []byte, storeLen int) []byte {
	for storeLen%8 != 0 {
		b = append(b, 0)
		storeLen++
	}
	return b
}

func buildLead(major, minor byte, name string) []byte {
	b := make([]byte, 96)
	copy(b, []byte{0xED, 0xAB, 0xEE, 0xDB, major, minor, 0, 0, 0, 1})
	copy(b[10:76], name)
	b[77] = 1
	b[79] = 5
	return b
}

type rpmPkg struct {
	Major, Minor                 byte
	Name, Version, Release, Arch string
	RPMVersion                   *string
	MD5                          []byte
	SHA1, SHA256                 *string
	Sigs                         [4]*sigSpec // DSA(267) RSA(268) GPG(1005) PGP(1002)
	Payload                      []byte
}

var sigTags = [4]uint32{267, 268, 1005, 1002}

// canonical layout: exactly what Rpm.encode produces
func (p rpmPkg) sigEntries(raw [4][]byte) []hEntry {
	es := []hEntry{binEntry(62, nil)}
	if p.Sigs[0] != nil {
		es = append(es, binEntry(267, raw[0]))
	}
	if p.Sigs[1] != nil {
		es = append(es, binEntry(268, raw[1]))
	}
	if p.SHA1 != nil {
		es = append(es, strEntry(269, *p.SHA1))
	}
	if p.SHA256 != nil {
		es = append(es, strEntry(273, *p.SHA256))
	}
	if p.Sigs[3] != nil {
		es = append(es, binEntry(1002, raw[3]))
	}
	if p.MD5 != nil {
		es = append(es, binEntry(1004, p.MD5))
	}
	if p.Sigs[2] != nil {
		es = append(es, binEntry(1005, raw[2]))
	}
	es[0] = binEntry(62, regionTrailer(62, len(es)))
	return es
}

func (p rpmPkg) mainEntries() []hEntry {
	es := []hEntry{binEntry(63, nil), strEntry(1000, p.Name), strEntry(1001, p.Version), strEntry(1002, p.Release), strEntry(1022, p.Arch)}
	if p.RPMVersion != nil {
		es = append(es, strEntry(1064, *p.RPMVersion))
	}
	es[0] = binEntry(63, regionTrailer(63, len(es)))
	return es
}

func (p rpmPkg) rawSigs() (raw [4][]byte) {
	for i, s := range p.Sigs {
		if s != nil {
			raw[i] = s.bytes()
		}
	}
	return
}

func assemble(lead []byte, sigH, mainH, payload []byte) []byte {
	out := append([]byte{}, lead...)
	out = append(out, sigH...)
	sl := int(binary.BigEndian.Uint32(sigH[12:16]))
	out = pad8(out, sl)
	out = append(out, mainH...)
	return append(out, payload...)
}

func (p rpmPkg) canonical() []byte {
	return assemble(buildLead(p.Major, p.Minor, p.Name+"-"+p.Version+"-"+p.Release),
		buildHeader(p.sigEntries(p.rawSigs()), false), buildHeader(p.mainEntries(), false), p.Payload)
}

func optS(s *string) Sx {
	if s == nil {
		return SL{}
	}
	return SL{S(*s)}
}
func optB(b []byte) Sx {
	if b == nil {
		return SL{}
	}
	return SL{SB(b)}
}

func (p rpmPkg) sx() Sx {
	sigs := SL{}
	for _, s := range p.Sigs {
		if s == nil {
			sigs = append(sigs, SL{})
		} else {
			sigs = append(sigs, SL{s.sx()})
		}
	}
	return SL{I(int(p.Major)), I(int(p.Minor)), S(p.Name), S(p.Version), S(p.Release), S(p.Arch), optS(p.RPMVersion),
		optB(p.MD5), optS(p.SHA1), optS(p.SHA256), sigs, SB(p.Payload)}
}

// what is stored, for the spec checker:
// (name version release arch (md5)? (sha1)? (sha256)? ((sigtruth)? x4 in DSA RSA GPG PGP order))
func (p rpmPkg) truth(sigTruth [4]Sx) Sx {
	sigs := SL{}
	for i := range p.Sigs {
		if sigTruth[i] == nil {
			sigs = append(sigs, SL{})
		} else {
			sigs = append(sigs, SL{sigTruth[i]})
		}
	}
	return SL{SL{S(p.Name), S(p.Version), S(p.Release), S(p.Arch), optB(p.MD5), optS(p.SHA1), optS(p.SHA256), sigs}}
}

func (p rpmPkg) canonicalTruth() Sx {
	var t [4]Sx
	for i, s := range p.Sigs {
		if s != nil {
			t[i] = s.truth()
		}
	}
	return p.truth(t)
}

func c19_randText(r *Rng, alphabet string, min, max int) string {
	n := min + r.Intn(max-min+1)
	var sb strings.Builder
	for i := 0; i < n; i++ {
		sb.WriteByte(alphabet[r.Intn(len(alphabet))])
	}
	return sb.String()
}

const idAlphabet = "abcdefghijklmnopqrstuvwxyzABCDEFGHIJKLMNOPQRSTUVWXYZ0123456789._+-~^"

func randIdent(r *Rng) string {
	switch r.Intn(8) {
	case 0:
		return "" // empty strings are stored as a lone NUL
	case 1:
		b := r.Bytes(1 + r.Intn(12)) // arbitrary non-NUL bytes, including invalid UTF-8 and controls
		for i := range b {
			if b[i] == 0 {
				b[i] = 0xff
			}
		}
		return string(b)
	case 2:
		return c19_randText(r, idAlphabet+" \t\n:=()%", 1, 40)
	default:
		return c19_randText(r, idAlphabet, 1, 24)
	}
}

func randPkg(r *Rng) rpmPkg {
	p := rpmPkg{Major: byte(3 + r.Intn(2)), Minor: byte(r.Intn(2)), Name: randIdent(r), Version: randIdent(r), Release: randIdent(r), Arch: randIdent(r)}
	if r.Intn(4) != 0 {
		v := []string{"4.14.3", "4.18.0", "3.0.6", "4.20.1", randIdent(r)}[r.Intn(5)]
		p.RPMVersion = &v
	}
	if r.Bool() {
		p.MD5 = r.Bytes(16)
	}
	if r.Bool() {
		s := hex.EncodeToString(r.Bytes(20))
		p.SHA1 = &s
	}
	if r.Bool() {
		s := hex.EncodeToString(r.Bytes(32))
		p.SHA256 = &s
	}
	if r.Intn(5) != 0 { // one package in five is unsigned
		for i := range p.Sigs {
			if r.Intn(3) == 0 {
				s := randSig(r, r.Intn(3) == 0)
				p.Sigs[i] = &s
			}
		}
	}
	p.Payload = r.Bytes(8 + r.Intn(24))
	return p
}

// ---------------------------------------------------------------- observations

func pktTag(b []byte) int {
	if len(b) == 0 || b[0]&0x80 == 0 {
		return -1
	}
	if b[0]&0x40 == 0 {
		return int(b[0]&0x3f) >> 2
	}
	return int(b[0] & 0x3f)
}

// (0 (4 algo hash-name (issuer)?)) | (0 (3 algo hash-name issuer)) | (0 (0)) other packet | (1) | (2)
func obsPacket(b []byte) Sx {
	return guard(func() Sx {
		p, err := packet.Read(bytes.NewReader(b))
		if err != nil {
			return ObsErr()
		}
		switch s := p.(type) {
		case *packet.Signature:
			iss := SL{}
			if s.IssuerKeyId != nil {
				iss = SL{SB(be64(*s.IssuerKeyId))}
			}
			return ObsOk(SL{I(4), I(int(s.PubKeyAlgo)), S(s.Hash.String()), iss})
		case *packet.SignatureV3:
			return ObsOk(SL{I(3), I(int(s.PubKeyAlgo)), S(s.Hash.String()), SB(be64(s.IssuerKeyId))})
		}
		return ObsOk(SL{I(0)})
	})
}

// oracle for packets that are not signature packets: ((bytes outcome) ...), outcome 0 ok / 1 error / 2 panic
func packetOracle(cands [][]byte) Sx {
	out := SL{}
	for _, b := range cands {
		if pktTag(b) == 2 || pktTag(b) < 0 {
			continue
		}
		o := obsPacket(b).(SL)
		out = append(out, SL{SB(b), o[0]})
	}
	return out
}

func valueSx(v interface{}) Sx {
	switch x := v.(type) {
	case nil:
		return SL{}
	case []byte:
		return SL{I(1), SB(x)}
	case []int8:
		b := make([]byte, len(x))
		for i, e := range x {
			b[i] = byte(e)
		}
		return SL{I(2), SB(b)}
	case []int16:
		var b []byte
		for _, e := range x {
			b = append(b, be16(int(uint16(e)))...)
		}
		return SL{I(3), SB(b)}
	case []int32:
		var b []byte
		for _, e := range x {
			b = append(b, be32(uint32(e))...)
		}
		return SL{I(4), SB(b)}
	case []int64:
		var b []byte
		for _, e := range x {
			b = append(b, be64(uint64(e))...)
		}
		return SL{I(5), SB(b)}
	case []string:
		l := SL{}
		for _, e := range x {
			l = append(l, S(e))
		}
		return SL{I(6), l}
	}
	return SL{I(99)}
}

func obsLib(data []byte) (Sx, *rpm.PackageFile) {
	var pf *rpm.PackageFile
	o := guard(func() Sx {
		p, err := rpm.ReadPackageFile(bytes.NewReader(data))
		if err != nil {
			return ObsErr()
		}
		pf = p
		hs := SL{}
		for _, h := range p.Headers {
			es := SL{}
			for _, e := range h.Indexes {
				es = append(es, SL{I(e.Tag), I(e.Type), I(e.Offset), I(e.ItemCount), valueSx(e.Value)})
			}
			hs = append(hs, SL{I(h.Version), I(h.IndexCount), I(h.Length), es})
		}
		return ObsOk(SL{SL{I(p.Lead.VersionMajor), I(p.Lead.VersionMinor)}, hs})
	})
	return o, pf
}

func obsDescribe(data []byte) Sx {
	return guard(func() Sx {
		i, err := file.RPMFile(file.Info{}, data)
		if err != nil {
			return ObsErr()
		}
		return ObsOk(InfoSx(i))
	})
}

// candidates for the packet oracle: every value the four signature tags could hand to packet.Read
func sigCandidates(pf *rpm.PackageFile) [][]byte {
	var out [][]byte
	if pf == nil || len(pf.Headers) == 0 {
		return nil
	}
	for _, e := range pf.Headers[0].Indexes {
		if b, ok := e.Value.([]byte); ok && len(b) > 0 {
			switch e.Tag {
			case 267, 268, 1005, 1002:
				out = append(out, b)
			}
		}
	}
	return out
}

func c19Emit(c *Ctx, tag string, data []byte, truth Sx) {
	lib, pf := obsLib(data)
	c.Emit("lib:"+tag, SL{SB(data)}, lib)
	c.Emit("describe:"+tag, SL{SB(data), packetOracle(sigCandidates(pf)), truth}, obsDescribe(data))
}

func c19EmitSig(c *Ctx, tag string, b []byte) {
	c.Emit("sig:"+tag, SL{SB(b), packetOracle([][]byte{b})}, obsPacket(b))
}

// in-process allocation measurement (moderate sizes only)
func c19Alloc(c *Ctx, tag string, data []byte) {
	var m0, m1 runtime.MemStats
	runtime.GC()
	runtime.ReadMemStats(&m0)
	o := obsDescribe(data).(SL)
	runtime.ReadMemStats(&m1)
	// whole MiB: the exact byte count is not reproducible from run to run
	c.Emit("alloc:"+tag, SL{SB(data)}, SL{o[0], I(int((m1.TotalAlloc - m0.TotalAlloc) >> 20))})
}

// ---------------------------------------------------------------- signature packets in every form

// a signature subpacket: length form (1, 2 or 5 octets), type octet (critical bit included), body
type subPkt struct {
	Form int
	Type byte
	Data []byte
}

func (sp subPkt) bytes() []byte {
	n := len(sp.Data) + 1
	var out []byte
	switch sp.Form {
	case 1:
		out = []byte{byte(n)}
	case 2:
		out = []byte{byte(192 + (n-192)>>8), byte(n - 192)}
	default:
		out = append([]byte{255}, be32(uint32(n))...)
	}
	return append(append(out, sp.Type), sp.Data...)
}

// mkSub picks a length form that can express the length: the shortest one, or a longer one
func mkSub(r *Rng, typ byte, data []byte) subPkt {
	n := len(data) + 1
	form := 1
	if n >= 192 {
		form = 2
	}
	if n >= 16320 || r.Intn(6) == 0 {
		form = 5
	}
	return subPkt{Form: form, Type: typ, Data: data}
}

func subsBytes(l []subPkt) []byte {
	var out []byte
	for _, sp := range l {
		out = append(out, sp.bytes()...)
	}
	return out
}

func subsSx(l []subPkt) Sx {
	out := SL{}
	for _, sp := range l {
		out = append(out, SL{I(sp.Form), I(int(sp.Type)), SB(sp.Data)})
	}
	return out
}

// packet header form: Kind 0 old format (Lt 0..3), 1 new format (F = 1, 2, 5 octets),
// 2 new format with partial body lengths 2^k for k in Ks, then a final length of F octets
type pForm struct {
	Kind, Lt, F int
	Ks          []int
}

func (f pForm) sx() Sx {
	switch f.Kind {
	case 0:
		return SL{I(0), I(f.Lt)}
	case 1:
		return SL{I(1), I(f.F)}
	}
	ks := SL{}
	for _, k := range f.Ks {
		ks = append(ks, I(k))
	}
	return SL{I(2), ks, I(f.F)}
}

func newLenForm(f, n int) []byte {
	switch f {
	case 1:
		return []byte{byte(n)}
	case 2:
		return []byte{byte(192 + (n-192)>>8), byte(n - 192)}
	}
	return append([]byte{255}, be32(uint32(n))...)
}

// the shortest new-format length form for n, or (one time in four) the five-octet one
func pickNewForm(r *Rng, n int) int {
	if r.Intn(4) == 0 || n >= 8384 {
		return 5
	}
	if n >= 192 {
		return 2
	}
	return 1
}

func (f pForm) wrap(body []byte) []byte {
	switch f.Kind {
	case 0:
		out := []byte{byte(0x88 + f.Lt)}
		switch f.Lt {
		case 0:
			out = append(out, byte(len(body)))
		case 1:
			out = append(out, be16(len(body))...)
		case 2:
			out = append(out, be32(uint32(len(body)))...)
		}
		return append(out, body...)
	case 1:
		return append(append([]byte{0xC2}, newLenForm(f.F, len(body))...), body...)
	}
	out := []byte{0xC2}
	for _, k := range f.Ks {
		out = append(out, byte(224+k))
		out = append(out, body[:1<<uint(k)]...)
		body = body[1<<uint(k):]
	}
	return append(append(out, newLenForm(f.F, len(body))...), body...)
}

func randPForm(r *Rng, n int) pForm {
	switch r.Intn(8) {
	case 0:
		if n < 256 {
			return pForm{Kind: 0, Lt: 0}
		}
		fallthrough
	case 1:
		if n < 65536 {
			return pForm{Kind: 0, Lt: 1}
		}
		fallthrough
	case 2:
		return pForm{Kind: 0, Lt: 2}
	case 3:
		return pForm{Kind: 0, Lt: 3}
	case 4, 5:
		return pForm{Kind: 1, F: pickNewForm(r, n)}
	}
	f := pForm{Kind: 2}
	left := n
	for len(f.Ks) < 6 {
		k := r.Intn(8)
		if 1<<uint(k) > left || r.Intn(4) == 0 {
			break
		}
		f.Ks = append(f.Ks, k)
		left -= 1 << uint(k)
	}
	f.F = pickNewForm(r, left)
	return f
}

type gSig struct {
	Form           pForm
	Version        byte
	SigType        byte
	Algo, Hash     byte
	Created        uint32
	Issuer         uint64
	Hashed, Unhash []subPkt
	HashTag        [2]byte
	MPIs           [][]byte
	Bits           []int // the bit count written in front of each MPI (RFC 4880 3.2)
}

func (s gSig) mpis() []byte {
	var out []byte
	for i, x := range s.MPIs {
		out = append(append(out, be16(s.Bits[i])...), x...)
	}
	return out
}

func (s gSig) body() []byte {
	var b []byte
	if s.Version < 4 {
		b = append(b, s.Version, 5, s.SigType)
		b = append(b, be32(s.Created)...)
		b = append(b, be64(s.Issuer)...)
		b = append(b, s.Algo, s.Hash)
	} else {
		h, u := subsBytes(s.Hashed), subsBytes(s.Unhash)
		b = append(b, 4, s.SigType, s.Algo, s.Hash)
		b = append(append(b, be16(len(h))...), h...)
		b = append(append(b, be16(len(u))...), u...)
	}
	b = append(b, s.HashTag[:]...)
	return append(b, s.mpis()...)
}

func (s gSig) bytes() []byte { return s.Form.wrap(s.body()) }

func (s gSig) sx() Sx {
	m := SL{}
	for i, x := range s.MPIs {
		m = append(m, SL{I(s.Bits[i]), SB(x)})
	}
	return SL{s.Form.sx(), I(int(s.Version)), I(int(s.SigType)), I(int(s.Algo)), I(int(s.Hash)), SB(be32(s.Created)), SB(be64(s.Issuer)),
		subsSx(s.Hashed), subsSx(s.Unhash), SB(s.HashTag[:]), m}
}

// the issuer the packet stores: the fixed field (version 2/3); the last issuer subpacket,
// hashed area first (version 4)
func (s gSig) storedIssuer() Sx {
	if s.Version < 4 {
		return SL{SB(be64(s.Issuer))}
	}
	var out Sx = SL{}
	for _, l := range [][]subPkt{s.Hashed, s.Unhash} {
		for _, sp := range l {
			if sp.Type&0x7f == 16 {
				out = SL{SB(sp.Data)}
			}
		}
	}
	return out
}

// for the spec checker: (algo hash-id (issuer)?) and (version algo hash-id (issuer)?)
func (s gSig) truth() Sx { return SL{I(int(s.Algo)), I(int(s.Hash)), s.storedIssuer()} }
func (s gSig) pktTruth() Sx {
	return SL{I(int(s.Version)), I(int(s.Algo)), I(int(s.Hash)), s.storedIssuer()}
}

func critical(r *Rng, t byte) byte {
	if r.Intn(5) == 0 {
		return t | 0x80
	}
	return t
}

// subpackets the reader interprets, with the body lengths RFC 4880 5.2.3.x prescribes, and
// subpackets it does not know (never critical)
func randFiller(r *Rng, hashed bool) subPkt {
	switch r.Intn(12) {
	case 0:
		return mkSub(r, 33, append([]byte{4}, r.Bytes(20)...)) // issuer fingerprint
	case 1:
		return mkSub(r, 28, []byte("a@example.org")) // signer's user id
	case 2:
		return mkSub(r, 20, r.Bytes([]int{8, 150, 190, 191, 192, 300}[r.Intn(6)])) // notation data, lengths around 191/192
	case 3:
		return mkSub(r, critical(r, []byte{3, 9}[r.Intn(2)]), r.Bytes(4))
	case 4:
		return mkSub(r, critical(r, []byte{11, 21, 22, 30}[r.Intn(4)]), r.Bytes(r.Intn(6)))
	case 5:
		return mkSub(r, critical(r, 25), r.Bytes(1))
	case 6:
		return mkSub(r, critical(r, []byte{27, 29}[r.Intn(2)]), r.Bytes(1+r.Intn(4)))
	case 7:
		if !hashed { // outside the hashed area only the issuer is interpreted: any length goes
			return mkSub(r, []byte{3, 9, 25, 27, 29}[r.Intn(5)], r.Bytes(r.Intn(7)))
		}
		return mkSub(r, 7, r.Bytes(1)) // revocable
	case 8:
		return mkSub(r, byte(40+r.Intn(60)), r.Bytes(r.Intn(10))) // unassigned / private types
	case 9:
		return mkSub(r, 0, nil) // reserved type, empty body
	default:
		return mkSub(r, []byte{4, 5, 6, 10, 12, 23, 24, 26, 31}[r.Intn(9)], r.Bytes(1+r.Intn(8)))
	}
}

// a version 2, 3 or 4 signature packet in a random header form; kind selects where the issuer lives
func randGSig(r *Rng, kind int) gSig {
	base := randSig(r, false)
	s := gSig{Version: 4, SigType: base.SigType, Algo: base.Algo, Hash: base.Hash, Created: base.Created, Issuer: base.Issuer, HashTag: base.HashTag, MPIs: base.MPIs}
	if kind%4 == 3 {
		s.Version = byte(2 + r.Intn(2))
		s.Algo = c19V3Algos[r.Intn(len(c19V3Algos))]
		s.MPIs = nil
		for i := 0; i < mpiCount(s.Algo); i++ {
			s.MPIs = append(s.MPIs, r.Bytes(r.Intn(40)))
		}
	} else {
		iss := func() subPkt { return mkSub(r, critical(r, 16), be64(randSig(r, false).Issuer)) }
		ct := mkSub(r, critical(r, 2), be32(s.Created))
		var h, u []subPkt
		switch (kind / 4) % 8 {
		case 0: // as rpm/gpg 1.x write it: issuer unhashed
			u = append(u, iss())
		case 1: // issuer hashed
			h = append(h, iss())
		case 2: // gpg 2.1+: fingerprint hashed, issuer unhashed
			h = append(h, mkSub(r, 33, append([]byte{4}, r.Bytes(20)...)))
			u = append(u, iss())
		case 3: // only an issuer fingerprint: no issuer key ID is stored
			h = append(h, mkSub(r, 33, append([]byte{4}, r.Bytes(20)...)))
		case 4: // no issuer at all
		case 5: // several issuers, in both areas: the last one counts
			h = append(h, iss(), iss())
			u = append(u, iss())
		case 6: // two issuers in the hashed area
			h = append(h, iss(), iss())
		default: // two issuers in the unhashed area
			u = append(u, iss(), iss())
		}
		for k := r.Intn(4); k > 0; k-- {
			h = append(h, randFiller(r, true))
		}
		for k := r.Intn(3); k > 0; k-- {
			u = append(u, randFiller(r, false))
		}
		h = append(h, ct)
		// any order inside an area
		for i := len(h) - 1; i > 0; i-- {
			j := r.Intn(i + 1)
			h[i], h[j] = h[j], h[i]
		}
		for i := len(u) - 1; i > 0; i-- {
			j := r.Intn(i + 1)
			u[i], u[j] = u[j], u[i]
		}
		s.Hashed, s.Unhash = h, u
	}
	// bit counts as real signatures have them: any value whose octet count is the MPI's length
	s.Bits = nil
	for _, x := range s.MPIs {
		bits := 8 * len(x)
		if len(x) > 0 {
			bits -= r.Intn(8)
		}
		s.Bits = append(s.Bits, bits)
	}
	s.Form = randPForm(r, len(s.body()))
	return s
}

func c19EmitGSig(c *Ctx, s gSig) {
	b := s.bytes()
	c.Emit("gsigenc", SL{s.sx()}, SB(b))
	c.Emit("gsigwf", SL{s.sx()}, I(1))
	c.Emit("gsigview", SL{s.sx()}, obsPacket(b))
	c.Emit("sigpkt:wf", SL{SB(b), packetOracle([][]byte{b}), SL{s.pktTruth()}}, obsPacket(b))
}

// ---------------------------------------------------------------- length-encoding boundaries

// subpacket body sizes on both sides of every boundary of the subpacket length encoding
// (RFC 4880 5.2.3.1: one octet below 192, two octets 192..16319 with a first octet 192..254,
// five octets above; the encoded length counts the type octet), and the largest body the 16-bit
// area length leaves room for
var c19SubBodySizes = []int{0, 1, 189, 190, 191, 192, 193, 8382, 8383, 8384, 8385, 12000, 16317, 16318, 16319, 16320, 65535}

// a version 4 packet with one subpacket of the given body size and length form in the hashed or
// the unhashed area, before or after the issuer subpacket
func boundarySubSig(r *Rng, k int, size, form int, hashedArea, afterIssuer bool) gSig {
	base := randSig(r, false)
	s := gSig{Version: 4, SigType: base.SigType, Algo: c19Algos[k%len(c19Algos)], Hash: c19Hashes[(k/len(c19Algos))%len(c19Hashes)],
		Created: base.Created, HashTag: base.HashTag}
	for i := 0; i < mpiCount(s.Algo); i++ {
		x := r.Bytes(1 + r.Intn(40))
		s.MPIs = append(s.MPIs, x)
		s.Bits = append(s.Bits, 8*len(x)-r.Intn(8))
	}
	ct := subPkt{Form: 1, Type: 2, Data: be32(s.Created)}
	iss := subPkt{Form: 1, Type: 16, Data: be64(base.Issuer)}
	// what the area length leaves: 65535 - creation time (6) - issuer (10) - length octets - type octet
	room := 65535 - 1
	if form == 2 {
		room -= 2
	} else if form == 5 {
		room -= 5
	} else {
		room--
	}
	if hashedArea {
		room -= 6
	}
	room -= 10
	if size > room {
		size = room
	}
	typ := []byte{20, 26, 28, 24, 100}[k%5] // notation data, policy URI, signer's user id, key server, private
	big := subPkt{Form: form, Type: typ, Data: r.Bytes(size)}
	area := []subPkt{iss, big}
	if !afterIssuer {
		area = []subPkt{big, iss}
	}
	if hashedArea {
		s.Hashed = append([]subPkt{ct}, area...)
	} else {
		s.Hashed, s.Unhash = []subPkt{ct}, area
	}
	s.Form = randPForm(r, len(s.body()))
	return s
}

func legalSubForms(size int) []int {
	n := size + 1
	switch {
	case n < 192:
		return []int{1, 5}
	case n < 16320:
		return []int{2, 5}
	}
	return []int{5}
}

// a version 4 packet whose BODY has exactly the wanted length (a notation subpacket fills it up)
func boundaryBodySig(r *Rng, k int, target int) (gSig, bool) {
	base := randSig(r, false)
	s := gSig{Version: 4, SigType: base.SigType, Algo: c19Algos[k%len(c19Algos)], Hash: c19Hashes[(k/len(c19Algos))%len(c19Hashes)],
		Created: base.Created, HashTag: base.HashTag}
	for i := 0; i < mpiCount(s.Algo); i++ {
		x := r.Bytes(1 + r.Intn(8))
		s.MPIs = append(s.MPIs, x)
		s.Bits = append(s.Bits, 8*len(x))
	}
	s.Hashed = []subPkt{{Form: 1, Type: 2, Data: be32(s.Created)}}
	s.Unhash = []subPkt{{Form: 1, Type: 16, Data: be64(base.Issuer)}}
	if target > 40000 { // more than one area holds
		s.Hashed = append(s.Hashed, subPkt{Form: 5, Type: 20, Data: r.Bytes(30000)})
	}
	have := len(s.body())
	for d := target - have - 6; d <= target-have; d++ {
		if d < 0 {
			continue
		}
		form := 1
		if d+1 >= 192 {
			form = 2
		}
		if d+1 >= 16320 {
			form = 5
		}
		t := s
		t.Unhash = append(append([]subPkt{}, s.Unhash...), subPkt{Form: form, Type: 20, Data: r.Bytes(d)})
		if len(t.body()) == target {
			return t, true
		}
	}
	return s, false
}

// the header forms that can express a body of n octets
func legalPForms(n int) []pForm {
	out := []pForm{{Kind: 0, Lt: 2}, {Kind: 0, Lt: 3}, {Kind: 1, F: 5}}
	if n < 256 {
		out = append(out, pForm{Kind: 0, Lt: 0})
	}
	if n < 65536 {
		out = append(out, pForm{Kind: 0, Lt: 1})
	}
	if n < 192 {
		out = append(out, pForm{Kind: 1, F: 1})
	} else if n < 8384 {
		out = append(out, pForm{Kind: 1, F: 2})
	}
	// partial body lengths: one chunk, the rest on either side of the 191/192 and 8383/8384 boundaries when it fits
	for _, rest := range []int{0, 191, 192, 8383, 8384} {
		for k := 14; k >= 0; k-- {
			if n-rest == 1<<uint(k) {
				f := 1
				if rest >= 192 {
					f = 2
				}
				if rest >= 8384 {
					f = 5
				}
				out = append(out, pForm{Kind: 2, Ks: []int{k}, F: f})
			}
		}
	}
	if n >= 600 {
		f := pForm{Kind: 2, Ks: []int{9}}
		left := n - 512
		if left >= 4096 {
			f.Ks = append(f.Ks, 12)
			left -= 4096
		}
		f.F = 1
		if left >= 192 {
			f.F = 2
		}
		if left >= 8384 {
			f.F = 5
		}
		out = append(out, f)
	}
	return out
}

// the packet under one signature tag of an otherwise canonical package, judged against the stored truth
func c19EmitSigPackage(c *Ctx, tag string, s gSig, slot int) {
	p := randPkg(c.R)
	for k := range p.Sigs {
		p.Sigs[k] = nil
	}
	b := canonicalBase(p)
	b.sig = append(b.sig, binEntry(sigTags[slot], s.bytes()))
	b.sig[0] = binEntry(62, regionTrailer(62, len(b.sig)))
	var st [4]Sx
	st[slot] = s.truth()
	c19Emit(c, tag, b.bytes(), p.truth(st))
}

func c19Boundaries(c *Ctx) {
	r := c.R
	k := 0
	// corpus: a complete signature whose header announces more octets than the input has
	// (packet.Read consumes a packet to its end: unexpected EOF), in each definite-length form
	for i := 0; i < 4; i++ {
		body := randGSig(r, i).body()
		n := len(body) + 1 + i
		c19EmitSig(c, "announced-too-long", append(append([]byte{0x89}, be16(n)...), body...))
		c19EmitSig(c, "announced-too-long", append(append([]byte{0x8A}, be32(uint32(n))...), body...))
		c19EmitSig(c, "announced-too-long", append(append([]byte{0xC2, 255}, be32(uint32(n))...), body...))
		c19EmitSig(c, "announced-too-long", append(append([]byte{0xC2, byte(224 + 2)}, body[:4]...), append(newLenForm(pickNewForm(r, n-4), n-4), body[4:]...)...))
	}
	for _, size := range c19SubBodySizes {
		for _, form := range legalSubForms(size) {
			for combo := 0; combo < 4; combo++ {
				if size > 60000 && combo%3 != 0 && !c.Thorough() {
					continue
				}
				s := boundarySubSig(r, k, size, form, combo&1 == 0, combo&2 != 0)
				c19EmitGSig(c, s)
				if combo == k%4 || c.Thorough() {
					c19EmitSigPackage(c, "sub-boundary", s, k%4)
				}
				k++
			}
		}
	}
	for _, target := range []int{190, 191, 192, 193, 255, 256, 257, 8383, 8384, 8385, 65535, 65536, 65537} {
		base, ok := boundaryBodySig(r, k, target)
		if !ok {
			panic("c19: no signature body of the wanted length")
		}
		for i, f := range legalPForms(target) {
			s := base
			s.Form = f
			c19EmitGSig(c, s)
			if i%3 == k%3 || c.Thorough() {
				c19EmitSigPackage(c, "pkt-boundary", s, k%4)
			}
			k++
		}
	}
}

// ---------------------------------------------------------------- arbitrary layouts

type gEnt struct{ Tag, Type, Off, Cnt uint32 }

type gHdr struct {
	Version  byte
	Reserved []byte
	Index    []gEnt
	Store    []byte
}

func (h gHdr) bytes() []byte {
	out := []byte{0x8E, 0xAD, 0xE8, h.Version}
	out = append(out, h.Reserved...)
	out = append(out, be32(uint32(len(h.Index)))...)
	out = append(out, be32(uint32(len(h.Store)))...)
	for _, e := range h.Index {
		out = append(out, be32(e.Tag)...)
		out = append(out, be32(e.Type)...)
		out = append(out, be32(e.Off)...)
		out = append(out, be32(e.Cnt)...)
	}
	return append(out, h.Store...)
}

func (h gHdr) indexSx() Sx {
	idx := SL{}
	for _, e := range h.Index {
		idx = append(idx, SL{I(int(e.Tag)), I(int(e.Type)), I(int(e.Off)), I(int(e.Cnt))})
	}
	return idx
}
func (h gHdr) sx() Sx     { return SL{I(int(h.Version)), SB(h.Reserved), h.indexSx(), SB(h.Store)} }
func (h gHdr) declSx() Sx { return SL{I(int(h.Version)), h.indexSx(), SB(h.Store)} }

type gPkg struct {
	Major, Minor byte
	LeadRest     []byte
	Sig          gHdr
	Pad          []byte
	Main         gHdr
	Payload      []byte
}

func (g gPkg) bytes() []byte {
	out := []byte{0xED, 0xAB, 0xEE, 0xDB, g.Major, g.Minor}
	out = append(out, g.LeadRest...)
	out = append(out, g.Sig.bytes()...)
	out = append(out, g.Pad...)
	out = append(out, g.Main.bytes()...)
	return append(out, g.Payload...)
}

func (g gPkg) sx() Sx {
	return SL{I(int(g.Major)), I(int(g.Minor)), SB(g.LeadRest), g.Sig.sx(), SB(g.Pad), g.Main.sx(), SB(g.Payload)}
}

// something to be laid out in a store
type lItem struct {
	Tag, Type, Cnt uint32
	Data           []byte
	Align          int
	Alias          int // >= 0: shares the data of that item, AliasOff octets into it
	AliasOff       int
	Whole          bool     // CHAR / INT8 / BIN entry that spans the whole store
	Strs           []string // the strings of a string-typed item
	Sig            *gSig    // the packet of a signature item
	off            uint32
}

func strItem(tag, typ uint32, ss ...string) lItem {
	e := strArrayEntry(tag, typ, ss...)
	return lItem{Tag: tag, Type: typ, Cnt: e.Count, Data: e.Data, Alias: -1, Strs: ss}
}
func binItem(tag uint32, b []byte) lItem {
	return lItem{Tag: tag, Type: 7, Cnt: uint32(len(b)), Data: b, Alias: -1}
}

var typeAlign = map[uint32]int{3: 2, 4: 4, 5: 8}
var typeSize = map[uint32]int{1: 1, 2: 1, 3: 2, 4: 4, 5: 8, 7: 1}

// an entry of the given type with a boundary or random count
func randItemOfType(r *Rng, tag, typ uint32) lItem {
	switch typ {
	case 0:
		return lItem{Tag: tag, Type: 0, Cnt: []uint32{0, 0, 1, 7}[r.Intn(4)], Alias: -1}
	case 6:
		return strItem(tag, 6, randIdent(r))
	case 8, 9:
		n := []int{0, 1, 1, 2, 5}[r.Intn(5)]
		ss := []string{}
		for i := 0; i < n; i++ {
			ss = append(ss, randIdent(r))
		}
		return strItem(tag, typ, ss...)
	}
	cnt := []int{0, 1, 1, 2, 3, 1 + r.Intn(40)}[r.Intn(6)]
	return lItem{Tag: tag, Type: typ, Cnt: uint32(cnt), Data: r.Bytes(cnt * typeSize[typ]), Align: typeAlign[typ], Alias: -1}
}

func randItem(r *Rng, tag uint32) lItem { return randItemOfType(r, tag, uint32(r.Intn(10))) }

// lay the items out: data in a random order, rpm's alignment, gaps, shared data; the region
// entry (mode 1: trailer at the end of the store as rpm 4 writes it, mode 2: trailer first,
// mode 0: none, rpm 3.x) first in the index, the other entries in tag order or shuffled;
// the store length is steered to the wanted residue mod 8
func layOut(r *Rng, items []lItem, regionTag uint32, mode int, residue int) (gHdr, []lItem) {
	var store []byte
	junk := func(n int) {
		for ; n > 0; n-- {
			store = append(store, byte(1+r.Intn(255)))
		}
	}
	nIdx := len(items)
	if mode != 0 {
		nIdx++
	}
	trailer := regionTrailer(regionTag, nIdx)
	var regionOff uint32
	if mode == 2 {
		store = append(store, trailer...)
	}
	order := make([]int, 0, len(items))
	for i := range items {
		order = append(order, i)
	}
	for i := len(order) - 1; i > 0; i-- {
		j := r.Intn(i + 1)
		order[i], order[j] = order[j], order[i]
	}
	for _, i := range order {
		it := &items[i]
		if it.Alias >= 0 || it.Whole {
			continue
		}
		if r.Intn(4) == 0 {
			junk(1 + r.Intn(5))
		}
		if it.Align > 1 {
			for len(store)%it.Align != 0 {
				store = append(store, 0)
			}
		}
		it.off = uint32(len(store))
		store = append(store, it.Data...)
	}
	for i := range items {
		if it := &items[i]; it.Alias >= 0 {
			it.off = items[it.Alias].off + uint32(it.AliasOff)
		}
	}
	// every entry must start inside the store: something follows the last empty item
	tail := 0
	if mode == 1 {
		tail = len(trailer)
	}
	need := false
	for _, it := range items {
		if int(it.off) >= len(store) {
			need = true
		}
	}
	if need && tail == 0 {
		junk(1)
	}
	for (len(store)+tail)%8 != residue && nIdx > 0 {
		junk(1)
	}
	if mode == 1 {
		regionOff = uint32(len(store))
		store = append(store, trailer...)
	}
	for i := range items {
		if it := &items[i]; it.Whole {
			it.off, it.Cnt = 0, uint32(len(store))
		}
	}
	h := gHdr{Version: 1, Reserved: []byte{0, 0, 0, 0}, Store: store}
	if r.Intn(8) == 0 {
		h.Version, h.Reserved = byte(r.Intn(256)), r.Bytes(4)
	}
	idx := append([]lItem{}, items...)
	if r.Bool() { // tag order, as rpm writes the index
		for i := 1; i < len(idx); i++ {
			for j := i; j > 0 && idx[j-1].Tag > idx[j].Tag; j-- {
				idx[j-1], idx[j] = idx[j], idx[j-1]
			}
		}
	} else {
		for i := len(idx) - 1; i > 0; i-- {
			j := r.Intn(i + 1)
			idx[i], idx[j] = idx[j], idx[i]
		}
	}
	if mode != 0 {
		h.Index = append(h.Index, gEnt{regionTag, 7, regionOff, 16})
	}
	for _, it := range idx {
		h.Index = append(h.Index, gEnt{it.Tag, it.Type, it.off, it.Cnt})
	}
	return h, idx
}

func firstItem(idx []lItem, tag uint32) *lItem {
	for i := range idx {
		if idx[i].Tag == tag {
			return &idx[i]
		}
	}
	return nil
}

// a package in an arbitrary well-formed layout, what it stores for the spec checker (nil when
// one of the tags RPMFile reads carries an unexpected type or count: partial description) and
// the packets under the four signature tags
func randLayout(r *Rng, n int) (g gPkg, truth Sx, sigs [4]*gSig) {
	p := randPkg(r)
	unknownTag := func() uint32 {
		return []uint32{5000 + uint32(r.Intn(200)), 100, 1003, 1006, 1010, 1011, 1014, 1015, 1020, 1021, 1030, 1046, 1124, 1126, 0x7fffffff, 0xfffffff0, 1 << 20}[r.Intn(17)]
	}
	// ---- signature header
	var sigItems []lItem
	unexpected := false
	retype := -1
	if n%8 == 5 {
		retype = r.Intn(9) // one of the tags RPMFile reads gets a random type
	}
	add := func(items *[]lItem, k int, it lItem) {
		if k == retype {
			t := uint32(r.Intn(10))
			if k < 4 { // a signature tag: any type that does not hand octets to packet.Read
				t = []uint32{0, 2, 3, 4, 5, 6, 8, 9}[r.Intn(8)]
			}
			if t != it.Type {
				it = randItemOfType(r, it.Tag, t)
				unexpected = true
			}
		}
		*items = append(*items, it)
	}
	for i, t := range sigTags {
		present := r.Intn(2) == 0
		if n%8 == 1 {
			present = true // all four signatures
		}
		if n%8 == 2 {
			present = false // unsigned
		}
		if present {
			s := randGSig(r, r.Intn(64))
			it := binItem(t, s.bytes())
			it.Sig = &s
			add(&sigItems, i, it)
			if r.Intn(10) == 0 { // the tag a second time: the first entry in the index counts
				s2 := randGSig(r, r.Intn(64))
				it2 := binItem(t, s2.bytes())
				it2.Sig = &s2
				sigItems = append(sigItems, it2)
			}
		}
	}
	if p.MD5 != nil {
		add(&sigItems, 4, binItem(1004, p.MD5))
	}
	if p.SHA1 != nil {
		add(&sigItems, 5, strItem(269, 6, *p.SHA1))
	}
	if p.SHA256 != nil {
		add(&sigItems, 6, strItem(273, 6, *p.SHA256))
	}
	sigItems = append(sigItems, randItemOfType(r, 1000, 4), randItemOfType(r, 1007, 4))
	if r.Bool() {
		sigItems = append(sigItems, randItemOfType(r, 270, 5), randItemOfType(r, 271, 5))
	}
	if r.Bool() {
		sigItems = append(sigItems, binItem(1008, make([]byte, 1+r.Intn(40))))
	}
	for k := r.Intn(4); k > 0; k-- {
		sigItems = append(sigItems, randItem(r, unknownTag()))
	}
	// ---- main header
	var mainItems []lItem
	idType := func() uint32 { // rpm stores these as STRING; a string array / i18n string still has a first string
		if r.Intn(8) == 0 {
			return []uint32{8, 9}[r.Intn(2)]
		}
		return 6
	}
	idItem := func(tag uint32, v string) lItem {
		t := idType()
		if t != 6 && r.Bool() {
			return strItem(tag, t, v, randIdent(r))
		}
		return strItem(tag, t, v)
	}
	add(&mainItems, 7, idItem(1000, p.Name))
	mainItems = append(mainItems, idItem(1001, p.Version), idItem(1002, p.Release))
	add(&mainItems, 8, idItem(1022, p.Arch))
	if p.RPMVersion != nil {
		mainItems = append(mainItems, strItem(1064, 6, *p.RPMVersion))
	}
	for t := uint32(0); t < 10; t++ { // every entry type
		if r.Intn(3) != 0 || n%8 == 3 {
			mainItems = append(mainItems, randItemOfType(r, unknownTag(), t))
		}
	}
	if r.Intn(6) == 0 {
		mainItems = append(mainItems, idItem(1000, randIdent(r))) // NAME a second time
	}
	// shared data: entries that point into the data of another entry
	for _, items := range []*[]lItem{&sigItems, &mainItems} {
		for k := r.Intn(3); k > 0; k-- {
			j := r.Intn(len(*items))
			src := (*items)[j]
			if src.Alias >= 0 || len(src.Data) == 0 {
				continue
			}
			switch {
			case src.Type == 6 || src.Type == 8 || src.Type == 9:
				if len(src.Strs) == 0 {
					continue
				}
				o := r.Intn(len(src.Strs[0]) + 1) // a suffix of its first string
				*items = append(*items, lItem{Tag: unknownTag(), Type: 6, Cnt: 1, Alias: j, AliasOff: o, Strs: []string{src.Strs[0][o:]}})
			default:
				o := r.Intn(len(src.Data))
				c := r.Intn(len(src.Data) - o + 1)
				*items = append(*items, lItem{Tag: unknownTag(), Type: []uint32{1, 2, 7}[r.Intn(3)], Cnt: uint32(c), Alias: j, AliasOff: o})
			}
		}
	}
	if r.Intn(4) == 0 {
		mainItems = append(mainItems, lItem{Tag: unknownTag(), Type: []uint32{1, 2, 7}[r.Intn(3)], Alias: -1, Whole: true})
	}
	if r.Intn(6) == 0 {
		sigItems = append(sigItems, lItem{Tag: unknownTag(), Type: []uint32{1, 2, 7}[r.Intn(3)], Alias: -1, Whole: true})
	}
	sigMode, mainMode := []int{0, 1, 1, 2}[r.Intn(4)], []int{0, 1, 1, 2}[r.Intn(4)]
	if n%32 == 7 { // a signature header with no entries and an empty store
		sigItems, sigMode = nil, 0
	}
	var sigIdx, mainIdx []lItem
	g = gPkg{Major: p.Major, Minor: p.Minor, LeadRest: buildLead(p.Major, p.Minor, p.Name)[6:]}
	g.Sig, sigIdx = layOut(r, sigItems, 62, sigMode, n%8)
	g.Main, mainIdx = layOut(r, mainItems, 63, mainMode, (n/8)%8)
	for len(g.Sig.Store)%8 != 0 && (len(g.Sig.Store)+len(g.Pad))%8 != 0 {
		g.Pad = append(g.Pad, byte(r.Intn(3))) // rpm writes zeros; go-rpm does not look
	}
	g.Payload = r.Bytes((8-len(g.Main.Store)%8)%8 + r.Intn(16))
	if len(g.Main.Store)+len(g.Payload) == 0 {
		g.Payload = []byte{0}
	}
	// ---- what is stored
	q := rpmPkg{}
	str1 := func(idx []lItem, tag uint32) string {
		it := firstItem(idx, tag)
		if it == nil {
			return ""
		}
		if (it.Type == 6 || it.Type == 8 || it.Type == 9) && len(it.Strs) > 0 {
			return it.Strs[0]
		}
		unexpected = true
		return ""
	}
	q.Name, q.Version, q.Release, q.Arch = str1(mainIdx, 1000), str1(mainIdx, 1001), str1(mainIdx, 1002), str1(mainIdx, 1022)
	if it := firstItem(sigIdx, 1004); it != nil {
		if it.Type == 7 {
			q.MD5 = it.Data
		} else {
			unexpected = true
		}
	}
	if it := firstItem(sigIdx, 269); it != nil {
		v := str1(sigIdx, 269)
		q.SHA1 = &v
	}
	if it := firstItem(sigIdx, 273); it != nil {
		v := str1(sigIdx, 273)
		q.SHA256 = &v
	}
	var st [4]Sx
	for i, t := range sigTags {
		it := firstItem(sigIdx, t)
		if it == nil {
			continue
		}
		if it.Sig != nil {
			sigs[i] = it.Sig
			q.Sigs[i] = &sigSpec{}
			st[i] = it.Sig.truth()
		} else {
			unexpected = true
		}
	}
	truth = q.truth(st)
	if unexpected {
		truth = SL{}
	}
	return
}

func c19EmitLayout(c *Ctx, tag string, g gPkg, truth Sx, sigs [4]*gSig) {
	data := g.bytes()
	ss := SL{}
	for _, s := range sigs {
		if s == nil {
			ss = append(ss, SL{})
		} else {
			ss = append(ss, SL{s.sx()})
		}
	}
	c.Emit("gencode", SL{g.sx()}, SB(data))
	c.Emit("gwf", SL{g.sx(), ss}, I(1))
	desc := obsDescribe(data)
	c.Emit("greport", SL{g.sx(), ss}, desc)
	lib, pf := obsLib(data)
	c.Emit("layout:"+tag, SL{SB(data), SL{g.Sig.declSx(), g.Main.declSx()}}, lib)
	c.Emit("describe:"+tag, SL{SB(data), packetOracle(sigCandidates(pf)), truth}, desc)
}

// ---------------------------------------------------------------- the generator

func c19_u32p(v uint32) *uint32 { return &v }

type c19Base struct {
	tag    string
	lead   []byte
	sig    []hEntry
	main   []hEntry
	pay    []byte
	region bool
}

func (b c19Base) bytes() []byte {
	return assemble(b.lead, buildHeader(b.sig, b.region), buildHeader(b.main, b.region), b.pay)
}

// a realistic package: region trailers last in the store, aligned INT32 entries, i18n strings,
// string arrays, both header-only and header+payload signatures
func realisticBase(r *Rng, p rpmPkg) c19Base {
	raw := p.rawSigs()
	sig := []hEntry{binEntry(62, nil)}
	for i, t := range []uint32{267, 268} {
		if p.Sigs[i] != nil {
			sig = append(sig, binEntry(t, raw[i]))
		}
	}
	if p.SHA1 != nil {
		sig = append(sig, strEntry(269, *p.SHA1))
	}
	if p.SHA256 != nil {
		sig = append(sig, strEntry(273, *p.SHA256))
	}
	sig = append(sig, i32Entry(1000, uint32(r.Intn(1<<20))))
	if p.Sigs[3] != nil {
		sig = append(sig, binEntry(1002, raw[3]))
	}
	if p.MD5 != nil {
		sig = append(sig, binEntry(1004, p.MD5))
	}
	if p.Sigs[2] != nil {
		sig = append(sig, binEntry(1005, raw[2]))
	}
	sig = append(sig, i32Entry(1007, uint32(r.Intn(1<<20))))
	sig = append(sig, binEntry(1008, make([]byte, 8+r.Intn(40))))
	sig[0] = binEntry(62, regionTrailer(62, len(sig)))
	main := []hEntry{binEntry(63, nil), strArrayEntry(100, 8, "C"), strEntry(1000, p.Name), strEntry(1001, p.Version), strEntry(1002, p.Release),
		strArrayEntry(1004, 9, "summary"), strArrayEntry(1005, 9, "description"), i32Entry(1006, 1700000000), strEntry(1007, "host"),
		i32Entry(1009, 1234), strEntry(1014, "MIT"), strArrayEntry(1016, 9, "Unspecified"), strEntry(1021, "linux"), strEntry(1022, p.Arch),
		i32Entry(1028, 1, 2, 3), {Tag: 1030, Type: 3, Count: 3, Data: []byte{0x81, 0xa4, 0x81, 0xa4, 0x41, 0xed}, Align: 2},
		strArrayEntry(1117, 8, "a", "bb", "ccc"), {Tag: 5009, Type: 5, Count: 1, Data: be64(1 << 40), Align: 8},
		{Tag: 5010, Type: 2, Count: 2, Data: []byte{0xff, 1}}, {Tag: 5011, Type: 1, Count: 3, Data: []byte("xyz")}, {Tag: 5012, Type: 0, Count: 0}}
	if p.RPMVersion != nil {
		main = append(main, strEntry(1064, *p.RPMVersion))
	}
	main[0] = binEntry(63, regionTrailer(63, len(main)))
	return c19Base{tag: "real", lead: buildLead(p.Major, p.Minor, p.Name), sig: sig, main: main, pay: p.Payload, region: true}
}

func canonicalBase(p rpmPkg) c19Base {
	return c19Base{tag: "canon", lead: buildLead(p.Major, p.Minor, p.Name+"-"+p.Version+"-"+p.Release),
		sig: p.sigEntries(p.rawSigs()), main: p.mainEntries(), pay: p.Payload}
}

// is the (mutated) index entry one for which go-rpm allocates count*size bytes before looking at the store?
func entryAlloc(typ, count uint32) uint64 {
	switch typ {
	case 1, 2:
		return uint64(count)
	case 3:
		return 2 * uint64(count)
	case 4:
		return 4 * uint64(count)
	case 5:
		return 8 * uint64(count)
	}
	return 0
}

func genC19(c *Ctx) {
	r := c.R
	var isolated []workerCase
	var isolatedKinds []string
	addIsolated := func(tag string, data []byte) {
		isolated = append(isolated, workerCase{Name: "p.rpm", Data: data})
		isolatedKinds = append(isolatedKinds, tag)
	}
	// route a case by the largest allocation its index entries ask for
	route := func(tag string, data []byte, alloc uint64, truth Sx) {
		switch {
		case alloc > 48<<20:
			addIsolated(tag, data)
		case alloc > 1<<20:
			c19Alloc(c, tag, data)
		default:
			c19Emit(c, tag, data, truth)
		}
	}

	// ---------------- corpus: witnesses of past failures first ----------------
	v := "4.14.3"
	sha := "0123456789abcdef0123456789abcdef01234567"
	corpusPkg := func(s *sigSpec) rpmPkg {
		p := rpmPkg{Major: 3, Name: "dummy", Version: "0.0.1", Release: "1", Arch: "noarch", RPMVersion: &v, SHA1: &sha, Payload: make([]byte, 8)}
		p.Sigs[1] = s
		return p
	}
	// F23: issuer key ID with a leading zero nibble, v4 and v3
	for _, v3 := range []bool{false, true} {
		s := sigSpec{V3: v3, Algo: 1, Hash: 8, Issuer: 0x0123456789ABCDEF, Created: 1700000000, MPIs: [][]byte{{1, 2, 3}}}
		p := corpusPkg(&s)
		c19Emit(c, "corpus-keyid", p.canonical(), p.canonicalTruth())
	}
	for _, k := range []uint64{0, 1, 0x00000000FFFFFFFF, 0x0FFFFFFFFFFFFFFF} {
		s := sigSpec{Algo: 17, Hash: 2, Issuer: k, Created: 1, MPIs: [][]byte{{1}, {2}}}
		p := corpusPkg(&s)
		c19Emit(c, "corpus-keyid", p.canonical(), p.canonicalTruth())
	}
	// F32: ECDSA / EdDSA signatures must show their hash
	for _, a := range []byte{19, 22} {
		s := sigSpec{Algo: a, Hash: 8, Issuer: 0xA1B2C3D4E5F60718, Created: 1700000000, MPIs: [][]byte{{1, 2}, {3, 4}}}
		p := corpusPkg(&s)
		c19Emit(c, "corpus-echash", p.canonical(), p.canonicalTruth())
	}
	// F24: the DSA fixture with 4 bytes changed: NAME of type INT32; a string tag with count 0
	{
		fx := fixture("rpm/DSA-1024-sha1.rpm")
		mainOff := 96 + 16 + 9*16 + 0x1094
		mainOff += (8 - 0x1094%8) % 8
		n := int(binary.BigEndian.Uint32(fx[mainOff+8:]))
		for i := 0; i < n; i++ {
			e := mainOff + 16 + 16*i
			if binary.BigEndian.Uint32(fx[e:]) == 1000 {
				d := append([]byte{}, fx...)
				copy(d[e+4:], be32(4))
				c19Emit(c, "corpus-name-int32", d, SL{})
				d = append([]byte{}, fx...)
				copy(d[e+12:], be32(0))
				c19Emit(c, "corpus-name-count0", d, SL{})
			}
		}
	}
	// F24 on the signature header: digest tags with the wrong type
	{
		p := corpusPkg(nil)
		b := canonicalBase(p)
		for i := range b.sig {
			if b.sig[i].Tag == 269 {
				b.sig[i].OvType = c19_u32p(7)
			}
		}
		c19Emit(c, "corpus-sha1-bin", b.bytes(), SL{})
		s := sigSpec{Algo: 1, Hash: 8, Issuer: 5, MPIs: [][]byte{{1}}}
		p = corpusPkg(&s)
		b = canonicalBase(p)
		for i := range b.sig {
			if b.sig[i].Tag == 268 {
				b.sig[i].OvType = c19_u32p(6)
				b.sig[i].OvCount = c19_u32p(1)
			}
		}
		c19Emit(c, "corpus-rsa-string", b.bytes(), SL{})
	}
	// F36: the store ends inside a string of a string-array entry with count >= 2
	{
		p := corpusPkg(nil)
		b := canonicalBase(p)
		b.main = append(b.main, hEntry{Tag: 1117, Type: 8, Count: 3, Data: []byte("ab")})
		b.main[0] = binEntry(63, regionTrailer(63, len(b.main)))
		c19Emit(c, "corpus-strarray-past-store", b.bytes(), SL{})
		b = canonicalBase(p)
		b.main = append(b.main, hEntry{Tag: 1117, Type: 8, Count: 3, Data: []byte("ab\x00")})
		c19Emit(c, "corpus-strarray-past-store", b.bytes(), SL{})
		b = canonicalBase(p)
		b.main = append(b.main, hEntry{Tag: 1117, Type: 8, Count: 2, Data: []byte("ab")})
		c19Emit(c, "corpus-strarray-unterminated", b.bytes(), SL{})
	}
	// F25: integer entry with a large count (moderate: measured in-process; huge: worker child)
	{
		p := corpusPkg(nil)
		for _, cnt := range []uint32{1 << 20, 1 << 22} {
			b := canonicalBase(p)
			b.main = append(b.main, hEntry{Tag: 1009, Type: 5, Count: 1, Data: be64(7), OvCount: c19_u32p(cnt)})
			c19Alloc(c, "corpus-int64-count", b.bytes())
		}
		for _, tc := range [][2]uint32{{5, 0xffffffff}, {4, 0x7fffffff}, {1, 0xffffffff}, {5, 1 << 27}} {
			b := canonicalBase(p)
			b.main = append(b.main, hEntry{Tag: 1009, Type: 5, Count: 1, Data: be64(7), OvType: c19_u32p(tc[0]), OvCount: c19_u32p(tc[1])})
			addIsolated("corpus-huge-count", b.bytes())
		}
	}

	// ---------------- the three repository fixtures ----------------
	// what they store was read off their hex dumps (lead name, digests in the signature header's
	// store, "04 00 11 02" / "04 00 01 08" and the issuer subpackets "09 10 ..." of the packets)
	fxMD5, _ := hex.DecodeString("d3fb0333e5afbb2de2081d55ed6a02f4")
	fxSHA1 := "b9442a6df9f72170977da430b0e90dc101b5491d"
	fxSHA256 := "7608abc6fcacfde5ad14ae5ac660ac1f6d590b43a8bce8473de4de054cb6616d"
	for _, fx := range []struct {
		file       string
		slots      []int
		algo, hash int
		issuer     uint64
	}{
		{"rpm/DSA-1024-sha1.rpm", []int{0, 2}, 17, 2, 0x8D5FC059A836616C},
		{"rpm/RSA-2048-sha256.rpm", []int{1, 3}, 1, 8, 0x984FEC4B3AEC9BB6},
		{"rpm/unsigned.rpm", nil, 0, 0, 0},
	} {
		p := rpmPkg{Name: "dummy", Version: "0.0.1", Release: "1", Arch: "noarch", MD5: fxMD5, SHA1: &fxSHA1, SHA256: &fxSHA256}
		var st [4]Sx
		for _, k := range fx.slots {
			st[k] = SL{I(fx.algo), I(fx.hash), SL{SB(be64(fx.issuer))}}
		}
		c19Emit(c, "fixture", fixture(fx.file), p.truth(st))
	}

	// ---------------- well-formed generated packages ----------------
	nPkg := 120
	if c.Thorough() {
		nPkg = 3000
	}
	var bases []c19Base
	for i := 0; i < nPkg; i++ {
		p := randPkg(r)
		if i < 4*len(c19Algos)*len(c19Hashes) { // every version x algorithm x hash at least once
			k := i / 2
			a, h := c19Algos[k%len(c19Algos)], c19Hashes[(k/len(c19Algos))%len(c19Hashes)]
			v3 := i%2 == 1 && a != 19 && a != 22
			s := randSig(r, v3)
			s.Algo, s.Hash = a, h
			s.MPIs = nil
			for j := 0; j < mpiCount(a); j++ {
				s.MPIs = append(s.MPIs, r.Bytes(1+r.Intn(40)))
			}
			p.Sigs[r.Intn(4)] = &s
		}
		data := p.canonical()
		c.Emit("encode", SL{p.sx()}, SB(data))
		c.Emit("wf", SL{p.sx()}, I(1))
		c.Emit("report", SL{p.sx()}, obsDescribe(data))
		c19Emit(c, "canon", data, p.canonicalTruth())
		rb := realisticBase(r, p)
		c19Emit(c, "real", rb.bytes(), p.canonicalTruth())
		if i < 12 {
			bases = append(bases, canonicalBase(p), rb)
		}
		// the same package without a payload: go-rpm wants the padding after the main header too
		if i%10 == 0 {
			q := p
			q.Payload = nil
			c19Emit(c, "nopayload", q.canonical(), SL{})
		}
		// the same package whose signature header has no region tag (rpm 3.x layout)
		if i%6 == 0 {
			b := canonicalBase(p)
			b.sig = b.sig[1:]
			c19Emit(c, "noregion", b.bytes(), p.canonicalTruth())
		}
	}

	// ---------------- arbitrary well-formed layouts (Rpm.gencode / gpkg_ok / greport) ----------------
	// every pair of store-length residues mod 8 within 64 consecutive cases
	nLay := 128
	if c.Thorough() {
		nLay = 3200
	}
	for i := 0; i < nLay; i++ {
		g, truth, sigs := randLayout(r, i)
		c19EmitLayout(c, "layout", g, truth, sigs)
	}
	// ---------------- signature packets in every header form / version / subpacket arrangement ----------------
	nG := 192
	if c.Thorough() {
		nG = 6000
	}
	for i := 0; i < nG; i++ {
		c19EmitGSig(c, randGSig(r, i))
	}
	// ---------------- every boundary of the subpacket and packet length encodings ----------------
	c19Boundaries(c)

	// ---------------- signature packets: forms the canonical writer does not produce ----------------
	nSig := 150
	if c.Thorough() {
		nSig = 6000
	}
	for i := 0; i < nSig; i++ {
		s := randSig(r, false)
		iss := subpacket(16, be64(s.Issuer))
		ct := subpacket(2, be32(s.Created))
		var hashed, unhashed []byte
		truthIss := SL{SB(be64(s.Issuer))}
		ok := true
		tag := "v4"
		switch r.Intn(14) {
		case 0: // issuer in the hashed area, with a fingerprint and a signer's user id as gpg writes them
			hashed = append(append(append(subpacket(33, append([]byte{4}, r.Bytes(20)...)), ct...), subpacket(28, []byte("a@b"))...), iss...)
		case 1: // no issuer at all
			hashed, truthIss = ct, SL{}
		case 2: // two issuer subpackets: the last one is kept
			other := r.U64()
			hashed, unhashed = append(append([]byte{}, ct...), iss...), subpacket(16, be64(other))
			truthIss = nil
		case 3: // no creation time: rejected
			unhashed, ok, tag = iss, false, "v4-bad"
		case 4: // creation time in the unhashed area: rejected
			unhashed, ok, tag = append(append([]byte{}, ct...), iss...), false, "v4-bad"
		case 5: // unknown critical subpacket: rejected; unknown non-critical: ignored
			if r.Bool() {
				hashed, unhashed, ok, tag = append(append([]byte{}, ct...), subpacket(0x80|40, []byte{1})...), iss, false, "v4-bad"
			} else {
				hashed, unhashed = append(append([]byte{}, ct...), subpacket(40, []byte{1})...), iss
			}
		case 6: // issuer subpacket of the wrong length
			hashed, unhashed, ok, tag = ct, subpacket(16, r.Bytes(7+2*r.Intn(2))), false, "v4-bad"
		case 7: // embedded signature (cross-certification) of type 0x19 / another type
			inner := sigV4Body([]byte{0x19, 0x18}[r.Intn(2)], 1, 8, append(append([]byte{}, ct...), subpacket(16, be64(r.U64()))...), nil, [2]byte{}, [][]byte{{1}})
			hashed, unhashed = ct, append(append([]byte{}, iss...), subpacket(32, inner)...)
			if inner[1] != 0x19 {
				ok, tag = false, "v4-bad"
			} else if r.Intn(3) == 0 { // an embedded signature that embeds one itself: rejected
				inner2 := sigV4Body(0x19, 1, 8, append(append([]byte{}, ct...), subpacket(16, be64(r.U64()))...), nil, [2]byte{}, [][]byte{{1}})
				inner = sigV4Body(0x19, 1, 8, append(append([]byte{}, ct...), subpacket(16, be64(r.U64()))...), subpacket(32, inner2), [2]byte{}, [][]byte{{1}})
				hashed, unhashed = ct, append(append([]byte{}, iss...), subpacket(32, inner)...)
				ok, tag = false, "v4-bad"
			}
		case 8: // the other subpackets the parser knows, with good and bad lengths
			hashed = append([]byte{}, ct...)
			for _, t := range []byte{3, 9, 11, 21, 22, 25, 27, 29, 30} {
				if r.Bool() {
					hashed = append(hashed, subpacket(t, r.Bytes(r.Intn(6)))...)
				}
			}
			unhashed, truthIss, tag = iss, nil, "v4-subpackets"
		case 9: // two-octet and five-octet subpacket lengths
			big := subpacket(20, r.Bytes(200+r.Intn(100)))
			five := append(append([]byte{255}, be32(9)...), append([]byte{16}, be64(s.Issuer)...)...)
			hashed, unhashed = append(append([]byte{}, ct...), big...), five
		case 10: // truncated subpacket area
			hashed, unhashed, truthIss, tag = ct, iss[:len(iss)-1-r.Intn(3)], nil, "v4-bad"
			ok = false
		default:
			hashed, unhashed = ct, iss
		}
		body := sigV4Body(s.SigType, s.Algo, s.Hash, hashed, unhashed, s.HashTag, s.MPIs)
		form := r.Intn(7)
		pkt := wrapPacket(form, 2, body, r)
		c19EmitSig(c, tag, pkt)
		if i%3 == 0 {
			p := randPkg(r)
			for k := range p.Sigs {
				p.Sigs[k] = nil
			}
			slot := r.Intn(4)
			b := canonicalBase(p)
			b.sig = append(b.sig, binEntry(sigTags[slot], pkt))
			b.sig[0] = binEntry(62, regionTrailer(62, len(b.sig)))
			var truth Sx = SL{}
			if ok && truthIss != nil {
				var st [4]Sx
				st[slot] = SL{I(int(s.Algo)), I(int(s.Hash)), truthIss}
				p.Sigs[slot] = &s // marks the slot as present for truth()
				truth = p.truth(st)
			}
			c19Emit(c, "sigform", b.bytes(), truth)
		}
	}
	// every public-key algorithm octet and every hash octet in a version 3 and in a version 4 signature packet,
	// always (not sampled): an algorithm the reader lets through without knowing its values must not crash it
	for a := 0; a < 256; a++ {
		s3 := randSig(r, true)
		b3 := s3.body()
		b3[15] = byte(a)
		c19EmitSig(c, "v3-every-algorithm", wrapPacket(a%7, 2, b3, r))
		s4 := randSig(r, false)
		b4 := s4.body()
		b4[2] = byte(a)
		c19EmitSig(c, "v4-every-algorithm", wrapPacket(a%7, 2, b4, r))
		if a < 32 || a >= 100 && a < 111 {
			h3 := randSig(r, true)
			bh := h3.body()
			bh[16] = byte(a)
			c19EmitSig(c, "v3-every-hash", wrapPacket(a%7, 2, bh, r))
			h4 := randSig(r, false)
			bh4 := h4.body()
			bh4[3] = byte(a)
			c19EmitSig(c, "v4-every-hash", wrapPacket(a%7, 2, bh4, r))
		}
	}
	// v3 signatures in every header form; unsupported versions, algorithms and hashes; non-signature packets
	for i := 0; i < nSig/2; i++ {
		s := randSig(r, true)
		body := s.body()
		switch r.Intn(8) {
		case 0:
			body[0] = []byte{0, 1, 2, 5, 6}[r.Intn(5)]
		case 1:
			body[1] = byte(r.Intn(8))
		case 2:
			body[15] = []byte{2, 16, 18, 19, 22, 0, 100}[r.Intn(7)]
		case 3:
			body[16] = []byte{0, 4, 5, 6, 7, 12, 13, 14, 100}[r.Intn(9)]
		case 4:
			body = body[:r.Intn(len(body))]
		}
		c19EmitSig(c, "v3", wrapPacket(r.Intn(7), 2, body, r))
	}
	for i := 0; i < nSig/2; i++ {
		s := randSig(r, false)
		body := s.body()
		switch r.Intn(6) {
		case 0:
			body[0] = []byte{5, 6, 255}[r.Intn(3)]
		case 1:
			body[2] = []byte{2, 16, 18, 20, 21, 23, 0, 100}[r.Intn(8)]
		case 2:
			body[3] = []byte{0, 4, 5, 6, 7, 12, 13, 14, 100}[r.Intn(9)]
		case 3:
			body = body[:r.Intn(len(body))]
		case 4:
			body = append(body, r.Bytes(r.Intn(5))...)
		}
		pkt := wrapPacket(r.Intn(7), 2, body, r)
		switch r.Intn(10) {
		case 0:
			pkt[0] &^= 0x80 // MSB clear
		case 1:
			pkt = pkt[:r.Intn(len(pkt))]
		case 2:
			pkt[r.Intn(len(pkt))] ^= byte(1 << r.Intn(8))
		}
		c19EmitSig(c, "v4-mut", pkt)
	}
	for _, t := range []byte{0, 1, 3, 4, 5, 6, 7, 8, 9, 10, 11, 12, 13, 14, 15, 16, 17, 18, 19, 60, 63} {
		for _, body := range [][]byte{nil, []byte("user <u@example.org>"), {4, 0, 0, 0, 1, 1, 0, 8, 0xff, 0, 8, 3}, r.Bytes(12)} {
			if t > 15 {
				c19EmitSig(c, "other", wrapPacket(0, t, body, r))
			} else {
				c19EmitSig(c, "other", wrapPacket(r.Intn(2)*4, t, body, r))
			}
		}
	}
	c19EmitSig(c, "other", nil)

	// ---------------- malformed stream: every index entry's type / count / offset ----------------
	for bi, b0 := range bases {
		if !c.Thorough() && bi >= 6 {
			break
		}
		for hsel := 0; hsel < 2; hsel++ {
			n := len(b0.sig)
			if hsel == 1 {
				n = len(b0.main)
			}
			for ei := 0; ei < n; ei++ {
				mut := func(f func(e *hEntry, actualOff uint32)) (c19Base, *hEntry) {
					b := b0
					b.sig = append([]hEntry{}, b0.sig...)
					b.main = append([]hEntry{}, b0.main...)
					es := b.sig
					if hsel == 1 {
						es = b.main
					}
					// recover the offset the writer will assign
					var store int
					offs := make([]uint32, len(es))
					order := make([]int, 0, len(es))
					st := 0
					if b.region {
						st = 1
					}
					for i := st; i < len(es); i++ {
						order = append(order, i)
					}
					if st == 1 {
						order = append(order, 0)
					}
					for _, i := range order {
						if es[i].Align > 1 {
							for store%es[i].Align != 0 {
								store++
							}
						}
						offs[i] = uint32(store)
						store += len(es[i].Data)
					}
					f(&es[ei], offs[ei])
					return b, &es[ei]
				}
				emit := func(tag string, b c19Base, e *hEntry) {
					typ, cnt := e.Type, e.Count
					if e.OvType != nil {
						typ = *e.OvType
					}
					if e.OvCount != nil {
						cnt = *e.OvCount
					}
					route(tag, b.bytes(), entryAlloc(typ, cnt), SL{})
				}
				for t := uint32(0); t <= 10; t++ {
					b, e := mut(func(e *hEntry, _ uint32) { e.OvType = c19_u32p(t) })
					emit("mut-type", b, e)
				}
				base := b0.sig
				if hsel == 1 {
					base = b0.main
				}
				actual := base[ei].Count
				for _, cv := range []uint32{0, 1, actual - 1, actual + 1, 0xffff, 0x7fffffff, 0xffffffff} {
					b, e := mut(func(e *hEntry, _ uint32) { e.OvCount = c19_u32p(cv) })
					emit("mut-count", b, e)
					if !c.Thorough() && bi >= 2 {
						continue
					}
					// the same count under each type
					for _, t := range []uint32{1, 3, 5, 6, 7, 8} {
						b, e := mut(func(e *hEntry, _ uint32) { e.OvCount = c19_u32p(cv); e.OvType = c19_u32p(t) })
						emit("mut-type-count", b, e)
					}
				}
				for _, k := range []int{0, 1, 2, 3, 4, 5, 6} {
					b, e := mut(func(e *hEntry, off uint32) {
						ov := []uint32{0, 1, off - 1, off + 1, 0xffff, 0x7fffffff, 0xffffffff}[k]
						e.OvOff = c19_u32p(ov)
					})
					emit("mut-offset", b, e)
				}
			}
		}
		// header-level fields: index count and store size at boundary values; truncation at every structural boundary
		data := b0.bytes()
		for _, hoff := range []int{96} {
			for _, fv := range []uint32{0, 1, 0xffff, 0x200000, 0x200001, 0x2000001, 0x7fffffff, 0xffffffff} {
				d := append([]byte{}, data...)
				copy(d[hoff+8:], be32(fv))
				c19Emit(c, "mut-indexcount", d, SL{})
				d = append([]byte{}, data...)
				copy(d[hoff+12:], be32(fv))
				c19Emit(c, "mut-storesize", d, SL{})
			}
			for k := 0; k < 4; k++ {
				d := append([]byte{}, data...)
				d[hoff+k] ^= 1
				c19Emit(c, "mut-magic", d, SL{})
			}
		}
		for _, mv := range []byte{0, 2, 3, 4, 5, 255} {
			d := append([]byte{}, data...)
			d[4] = mv
			c19Emit(c, "mut-lead", d, SL{})
		}
		cuts := []int{0, 1, 95, 96, 97, 111, 112, 113}
		for k := 0; k < 12; k++ {
			cuts = append(cuts, r.Intn(len(data)+1))
		}
		for k := 0; k <= 40 && k <= len(data); k++ {
			cuts = append(cuts, len(data)-k)
		}
		for _, k := range cuts {
			if k <= len(data) {
				c19Emit(c, "truncated", data[:k], SL{})
			}
		}
	}
	// random byte mutations of whole packages (fixtures and generated)
	nMut := 150
	if c.Thorough() {
		nMut = 5000
	}
	seeds := [][]byte{fixture("rpm/DSA-1024-sha1.rpm")[:0x300], fixture("rpm/unsigned.rpm")[:0x300]}
	for _, b := range bases {
		seeds = append(seeds, b.bytes())
	}
	for i := 0; i < nMut; i++ {
		d := append([]byte{}, seeds[r.Intn(len(seeds))]...)
		for k := r.Intn(3); k >= 0; k-- {
			pos := 96 + r.Intn(len(d)-96)
			switch r.Intn(3) {
			case 0:
				d[pos] ^= byte(1 << r.Intn(8))
			case 1:
				d[pos] = []byte{0, 1, 0x7f, 0x80, 0xff}[r.Intn(5)]
			default:
				d[pos] = byte(r.U64())
			}
		}
		// random mutations can create large counts: look before running in-process
		route("mut-bytes", d, c19MaxAlloc(d), SL{})
	}

	// ---------------- isolated cases ----------------
	if len(isolated) > 0 {
		res := runIsolated(c, isolated)
		for i, wc := range isolated {
			c.Emit("isolated:"+isolatedKinds[i], SL{SB(wc.Data)}, SL{S(res[i].Outcome), S(firstLine(res[i].Detail))})
		}
	}
}

func firstLine(s string) string {
	if k := strings.IndexByte(s, '\n'); k >= 0 {
		s = s[:k]
	}
	if len(s) > 120 {
		s = s[:120]
	}
	return s
}

// largest count*size any integer-typed index entry of the two headers asks for (lenient walk)
func c19MaxAlloc(d []byte) uint64 {
	var max uint64
	pos := 96
	for h := 0; h < 2; h++ {
		if len(d)-pos < 16 {
			return max
		}
		n := int(binary.BigEndian.Uint32(d[pos+8:]))
		size := int(binary.BigEndian.Uint32(d[pos+12:]))
		if n > 1<<21 {
			return max
		}
		pos += 16
		for i := 0; i < n && pos+16*i+16 <= len(d); i++ {
			e := d[pos+16*i:]
			if a := entryAlloc(binary.BigEndian.Uint32(e[4:]), binary.BigEndian.Uint32(e[12:])); a > max {
				max = a
			}
		}
		pos += 16*n + size
		if size%8 != 0 {
			pos += 8 - size%8
		}
		if pos < 0 || pos > len(d) {
			return max
		}
	}
	return max
}

// well-formed generated packages for C01's malformed stream
func c19Seeds(c *Ctx) []seedInput {
	r := NewRng(c.Seed ^ 0xC19)
	var out []seedInput
	for i := 0; i < 3; i++ {
		p := randPkg(r)
		s := randSig(r, i == 1)
		p.Sigs[i] = &s
		if i == 2 {
			out = append(out, seedInput{tag: "rpm", name: "gen.rpm", data: realisticBase(r, p).bytes()})
		} else {
			out = append(out, seedInput{tag: "rpm", name: "gen.rpm", data: p.canonical()})
		}
	}
	return out
}
