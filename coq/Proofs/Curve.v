(* Proofs for C16. *)
From WI Require Import Lib.Base Lib.Info Model.Curve.
