package main

import (
	"bytes"
	"encoding/base64"
	"encoding/hex"
	"fmt"
	"strings"
)

// The hostile string pool of C20: strings shaped like every syntax a printer might decide to
// treat specially (and then forget to escape), each carrying control characters where that
// syntax permits them.

// c20Ctl: the control characters of the property (C0, DEL, C1 as UTF-8 and as stray bytes).
var c20Ctl = []string{"\n", "\r", "\x1b", "\x00", "\x07", "\x08", "\t", "\x0b", "\x0c", "\x1f", "\x7f",
	"\u0080", "\u0085", "\u009b", "\u009f", "\x80", "\x85", "\x9b", "\x9f"}

// c20ShapedFixed is emitted as a whole (every entry in every position of a tree, every run).
var c20ShapedFixed = []string{
	// --- JSON text: arrays, objects, strings, numbers ---
	"[\n\"x\"]", "[\"a\x7fb\"]", "[\"a\u009bb\"]", "[\"a\x9bb\"]", "{\"k\":\"v\x7f\"}", "{\"k\":\n\"v\"}", "{\"k\"\r:\t1}",
	"[1,\n2]", "[]", "{}", "[[]]", "[\n]", "{\n}", "[ \"a\" ,\r\n \"b\" ]", "{\"a\":{\"b\":[\"\u0085\"]}}", "[\"\\u001b[31m\"]",
	"[\"x\"]\n", "\n[\"x\"]", "[\"x\"]\n  Forged: yes", "[\"\xc2\"]", "[\"\xff\"]", "{\"\x7f\":1}", "{\"a\x9b\":null}",
	"\"a\x7fb\"", "\"a\u009bb\"", "\"\"", "\"x\"\n", "\"a\\nb\"", "'a\nb'", "\"a\nb\"", "`a\nb`",
	"1", "-1", "0", "1e5", "-0.5E-3", "1\n2", "1\x7f", "0x1b", "0x0a", "0X7F", "0x", "NaN", "null", "true", "false\n",
	// --- other leading characters a printer might special-case ---
	"<b>\x1b[1m</b>", "<!--\n-->", "<![CDATA[\x9b]]>", "<\n>", "<?xml version=\"1.0\"?>\n<a/>", "&#10;&#x1b;&#155;", "&lt;\n",
	"(\n)", "(a\x7f)", "$(printf '\\033[2J')\n", "`id`\r", "#\n", "# comment\x1b[0m", "#!/bin/sh\nrm -rf /", "#00ff00\x7f",
	"-\n", "--\x1b", "-----BEGIN X-----\n", "- a\n- b", "---\nk: v\n", "-1\n", "-n\r", "+\n", "=\n", "@\n", "*\n", "~\x7f", "|\n", ">\n", "!\n", "%\n", "&\n", "/\n", ":\n", ": ", ";\n", ",\n", ".\n", "?\n", "^[[31m", "_\x7f",
	"{\n", "[\n", "\"\n", "{", "[", "\"", "<", "(", "#", "-", "0x",
	// --- URLs, base64, hex, escapes written as text ---
	"https://example.org/a?b=c#d\n", "http://\x1b[31m@example.org/", "https://example.org/%0a%1b%7f%c2%9b", "javascript:alert(1)\r", "file:///etc/passwd\x7f",
	"mailto:a@b\u009b", "urn:uuid:6ba7b810-9dad-11d1-80b4-00c04fd430c8\n", "data:text/plain;base64,Gw==\n", "//\n", "ssh://u@h:22/\x9b",
	"Gw==", "Cg==", "G1szMW0=", "fw==", "wps=", "Gw==\n", "AAAA\x7f", "QUJD\r\nREVG", "-_-_\x1b", "====\n",
	"1b", "0a", "7f", "c29b", "1b5b33316d", "1B:5B:33\n", "de:ad:be:ef\x7f", "\\x1b[31m", "\\x0a", "\\033[2J", "\\e[0m", "\\u001b", "\\u009b", "\\n", "\\r\\n", "\\", "\\\\", "\\\n", "\\\x7f", "\\x", "\\u00", "\\x9",
	// --- printf directives ---
	"%[1]c", "%s", "%d", "%!s(MISSING)", "%%", "%[2]*[1]d", "%c", "%10s", "%x", "%n", "%v\n", "%!(EXTRA string=\n)", "%[1]c%[1]c", "%-5d|", "%q", "%U", "%+v", "%#v", "%T", "%p", "%*d", "%.*s", "%[3]s",
	// --- ANSI / terminal sequences ---
	"\x1b[31m", "\x1b[2J", "\x1b[0m", "\x1b[1;1H", "\x1b]0;title\x07", "\x1b]8;;http://evil/\x1b\\link\x1b]8;;\x1b\\", "\x1bP+q\x1b\\", "\x1bc", "\x1b[?1049h", "\x1b(0", "\x1b#8", "\x1b[6n",
	"\x9b31m", "\u009b31m", "\x9d0;t\x9c", "\u009d0;t\u009c", "\x90q\x9c", "\x8e", "\x84", "\x8d\x8d", "\x07\x07", "\x08\x08\x08", "a\rb", "a\x0bb", "a\x0cb", "\x0e\x0f", "\x18\x1a", "\x05", "\x7f\x7f",
	// --- valid in other encodings ---
	"\xe9t\xe9", "caf\xe9\n", "\xa0\x9b31m", "\x80\x81\x82", "\x1b$B\x1b(B", // Latin-1 / ISO-2022
	"\xff\xfea\x00\n\x00", "\xfe\xff\x00a\x00\n", "a\x00\n\x00", "\x00a\x00\n", "\x00\x1b\x00[", "\xff\xfe\x1b\x00", "\x00\x00\xfe\xff\x00\x00\x00\n", // UTF-16 / UTF-32
	"+AAo-", "+ABs-", "+AH8-", "+AJs-", "a+AAo-b", "+ACI-", "+/v8-", "+AAoAGw-", "+-", // UTF-7
	"=?UTF-8?B?Gw==?=", "=?ISO-8859-1?Q?=1B=5B?=", "=0A=1B", "&AAo-", // MIME words, quoted-printable, IMAP UTF-7
	// --- malformed UTF-8: overlong forms, surrogates, truncation, beyond U+10FFFF ---
	"\xc0\x8a", "\xc0\x9b", "\xc1\xbf", "\xc0\x80", "\xe0\x80\x8a", "\xe0\x82\x9b", "\xf0\x80\x80\x8a", "\xf0\x80\x82\x9b", "\xf8\x80\x80\x80\x8a", "\xfc\x80\x80\x80\x80\x8a",
	"\xed\xa0\x80", "\xed\xbf\xbf", "\xed\xa0\xbd\xed\xb8\x80", "\xed\xb0\x80\n", "\xf4\x90\x80\x80", "\xf7\xbf\xbf\xbf", "\xfe", "\xff", "\xfe\xff", "\xff\xff\xff\xff",
	"\xc2", "\xe2\x82", "\xf0\x9f\x98", "abc\xc2", "\xc2\n", "\xc2\x1b[31m", "\xe2\n\x82", "\xe2\x82\n", "\xf0\x9f\n\x98\x80", "\xc2\xc2\x9b", "\xe2\xc2\x9b", "\xc2\x9b\x9b", "\x9b\xc2\x9b", "\x80\n", "\xbf\x1b",
	"\xc2\x80", "\xc2\x9f", "\xc2\xa0", "\xc2\x7f", "\xdf\xbf", "\xe0\xa0\x80", "\xef\xbf\xbd", "\xef\xbf\xbe", "\xef\xbf\xbf", "\xf4\x8f\xbf\xbf", "\xf0\x90\x80\x80",
	// --- characters that are not C0/C1/DEL but separate lines, reorder or hide text ---
	"\u2028", "\u2029", "a\u2028  Forged: yes", "\u0085", "a\u0085  Forged: yes", "\ufeff", "\ufeffa", "a\ufeff", "\u202e", "\u202egnp.exe", "\u2066a\u2069", "\u2067\u2068\u202a\u202b\u202c\u202d", "\u200e\u200f", "\u061c",
	"\u200b", "\u200c\u200d", "\u2060", "\u00ad", "\u034f", "\u3000", "\u00a0", "\u180e", "\ufff9\ufffa\ufffb", "\ufffc", "\U000e0001\U000e0041", "\U000e0020", "\u0300", "a\u0300\u0301\u0302", "\ufe0f", "\U0001f600", "\U0010ffff", "\U000f0000",
	// --- the report's own syntax ---
	"\n  Forged: yes", "a\n  Forged: yes", "a\r\n  Forged: yes\r\n", "a\rForged", "x: y", "  Name: value", "Key ID", ": ", "/etc/passwd: PKCS#8 private key", "a\n/etc/shadow: SSH private key\n  Type: ssh-rsa",
	"\n", "\n\n", "\r", "\r\n", "\n\r", "a\n", "\na", "a\nb\nc", " ", "  ", "\t", " a ", "", "a", "\x00", "a\x00b", "\x00\n",
}

func init() {
	// very long strings: a control character at the start, in the middle and at the end
	for _, ch := range []string{"\n", "\x1b", "\x7f", "\u009b", "\x9b"} {
		long := strings.Repeat("A", 5000)
		c20ShapedFixed = append(c20ShapedFixed, ch+long, long+ch+long, long+ch)
	}
	c20ShapedFixed = append(c20ShapedFixed, strings.Repeat("\n", 300), strings.Repeat("\x9b", 300), strings.Repeat("\u009b", 300),
		strings.Repeat("é", 3000)+"\x1b", strings.Repeat("%s", 500), strings.Repeat("[", 400)+"\n"+strings.Repeat("]", 400),
		strings.Repeat("A", 20000))
}

// c20JSONStr writes s as a JSON string literal the way a lenient encoder would: only '"', '\' and
// U+0000-U+001F are escaped (RFC 8259, 7), DEL, C1 and invalid UTF-8 stay raw.
func c20JSONStr(s string) string {
	var sb strings.Builder
	sb.WriteByte('"')
	for i := 0; i < len(s); i++ {
		b := s[i]
		switch {
		case b == '"' || b == '\\':
			sb.WriteByte('\\')
			sb.WriteByte(b)
		case b < 0x20:
			fmt.Fprintf(&sb, "\\u%04x", b)
		default:
			sb.WriteByte(b)
		}
	}
	sb.WriteByte('"')
	return sb.String()
}

// c20JSONWs: white space RFC 8259 allows between tokens (raw LF, CR, TAB, space).
func c20JSONWs(r *Rng) string {
	if r.Intn(3) != 0 {
		return ""
	}
	return []string{"\n", "\r", "\t", " ", "\r\n", "\n  ", "\n\n"}[r.Intn(7)]
}

// c20JSONValue: random JSON text of the given depth whose strings come from str.
func c20JSONValue(r *Rng, depth int, str func() string) string {
	k := r.Intn(8)
	if depth <= 0 && k < 3 {
		k += 3
	}
	switch k {
	case 0, 1: // array
		n := r.Intn(4)
		var parts []string
		for i := 0; i < n; i++ {
			parts = append(parts, c20JSONWs(r)+c20JSONValue(r, depth-1, str)+c20JSONWs(r))
		}
		if n == 0 {
			return "[" + c20JSONWs(r) + "]"
		}
		return "[" + strings.Join(parts, ",") + "]"
	case 2: // object
		n := r.Intn(3)
		var parts []string
		for i := 0; i < n; i++ {
			parts = append(parts, c20JSONWs(r)+c20JSONStr(str())+c20JSONWs(r)+":"+c20JSONWs(r)+c20JSONValue(r, depth-1, str)+c20JSONWs(r))
		}
		if n == 0 {
			return "{" + c20JSONWs(r) + "}"
		}
		return "{" + strings.Join(parts, ",") + "}"
	case 3, 4, 5:
		return c20JSONStr(str())
	case 6:
		return []string{"0", "-1", "1700000000", "1.5e3", "-0", "1E+2", "12345678901234567890", "0.000001"}[r.Intn(8)]
	default:
		return []string{"true", "false", "null"}[r.Intn(3)]
	}
}

var evilPieces = []string{
	"\n", "\r", "\x1b[31m", "\x00", "\x07", "\x08", "\t", "\x7f", "\x1f", "\u0085", "\u009b", "\u0080", "\u009f",
	"\x9b", "\x80", "\xff", "\xc2", "\xe2\x82", "\\", "\\n", " ", "  ", "é", "€", "\U0001F600", "�", " ",
	"\n  Forged: yes", "\r\n", "a", "%[1]c", "%s", "%d", "%!s(MISSING)", "%%", "%[2]*[1]d", "%c", "%10s", "%x", "Key ID", ": ", "x", "Ā", "\xc2\x80", "\xed\xa0\x80", "\xf4\x90\x80\x80", "\xc0\x80",
	"[", "]", "{", "}", "\"", "<", ">", "(", ")", "#", "-", "0x", ",", ":", "[\"", "\"]", "{\"a\":", "\u2028", "\u2029", "\ufeff", "\u202e", "\x9d", "\x1b]0;", "\x1b", "+AAo-", "\xc0\x8a", "https://", "Gw==", "\\x1b", "\x0b", "\x0c",
}

func c20Plain(r *Rng) string {
	return []string{"abc", "Subject", "CN=x", "0123", "user@example.org", "example.org", "Alice <alice@example.org>", "1.2.840.113549", "v1.0-rc1", "x86_64"}[r.Intn(10)]
}

// evilMix: a few pieces, plain words and random bytes concatenated.
func evilMix(r *Rng) string {
	n := r.Intn(4)
	var sb bytes.Buffer
	for i := 0; i <= n; i++ {
		switch r.Intn(3) {
		case 0:
			sb.WriteString(evilPieces[r.Intn(len(evilPieces))])
		case 1:
			sb.WriteString(c20Plain(r))
		default:
			sb.WriteByte(byte(r.U64()))
		}
	}
	return sb.String()
}

// c20Shaped: a random string of one of the shapes (JSON text, bracketed, URL, base64, hex, ...)
// with control characters inside.
func c20Shaped(r *Rng) string {
	ctl := func() string { return c20Ctl[r.Intn(len(c20Ctl))] }
	inner := func() string {
		switch r.Intn(4) {
		case 0:
			return c20Plain(r)
		case 1:
			return c20Plain(r) + ctl() + c20Plain(r)
		case 2:
			return ctl()
		}
		return evilMix(r)
	}
	switch r.Intn(16) {
	case 0, 1, 2: // valid JSON array / object with controls inside strings and between tokens
		open := r.Intn(2)
		body := c20JSONValue(r, 2, inner)
		if open == 0 {
			return "[" + c20JSONWs(r) + body + c20JSONWs(r) + "]"
		}
		return "{" + c20JSONWs(r) + c20JSONStr(inner()) + c20JSONWs(r) + ":" + c20JSONWs(r) + body + c20JSONWs(r) + "}"
	case 3: // JSON string / number with something around
		return []string{"", "\n", " "}[r.Intn(3)] + c20JSONValue(r, 0, inner) + []string{"", "\n", "\r\n", ctl()}[r.Intn(4)]
	case 4: // almost JSON
		s := c20JSONValue(r, 2, inner)
		if len(s) > 1 {
			k := r.Intn(len(s))
			return s[:k] + ctl() + s[k:]
		}
		return s + ctl()
	case 5: // leading special character
		return []string{"[", "{", "\"", "<", "(", "#", "-", "0x", "'", "`", "=", "@", "+", "|", ">", "!", "&", "*", "%", "~", "$", "/", "\\", ":", ";"}[r.Intn(25)] + inner()
	case 6: // bracketed
		p := [][2]string{{"[", "]"}, {"{", "}"}, {"\"", "\""}, {"<", ">"}, {"(", ")"}, {"'", "'"}, {"<!--", "-->"}, {"${", "}"}, {"$(", ")"}}[r.Intn(9)]
		return p[0] + inner() + p[1]
	case 7: // URL
		return []string{"https://", "http://", "ftp://", "file://", "mailto:", "urn:", "javascript:", "data:"}[r.Intn(8)] + inner() + []string{"", "/", "?q=" + inner(), "#" + ctl()}[r.Intn(4)]
	case 8: // base64 of hostile bytes, possibly with a control character attached
		e := []*base64.Encoding{base64.StdEncoding, base64.RawStdEncoding, base64.URLEncoding, base64.RawURLEncoding}[r.Intn(4)]
		return e.EncodeToString([]byte(inner())) + []string{"", "", ctl()}[r.Intn(3)]
	case 9: // hex
		h := hex.EncodeToString([]byte(inner()))
		switch r.Intn(4) {
		case 0:
			return "0x" + h + ctl()
		case 1:
			return strings.ToUpper(h)
		case 2:
			return h + ctl()
		}
		return h
	case 10: // ANSI sequence around text
		return []string{"\x1b[", "\x9b", "\u009b", "\x1b]0;", "\x1bP", "\x9d", "\x90"}[r.Intn(7)] + []string{"31m", "2J", "0;1H", "?25l", ""}[r.Intn(5)] + c20Plain(r) + []string{"\x1b[0m", "\x07", "\x1b\\", "\x9c", ""}[r.Intn(5)]
	case 11: // other encodings
		s := inner()
		var out []byte
		switch r.Intn(3) {
		case 0: // UTF-16LE with BOM
			out = []byte{0xff, 0xfe}
			for _, c := range []byte(s) {
				out = append(out, c, 0)
			}
		case 1: // UTF-16BE
			for _, c := range []byte(s) {
				out = append(out, 0, c)
			}
		default: // UTF-7
			var u []byte
			for _, c := range []byte(s) {
				u = append(u, 0, c)
			}
			out = []byte("+" + strings.TrimRight(base64.StdEncoding.EncodeToString(u), "=") + "-")
		}
		return string(out)
	case 12: // overlong / surrogate encodings of a control character
		c := []byte{0x0a, 0x0d, 0x1b, 0x7f, 0x9b, 0x85, 0x00}[r.Intn(7)]
		enc := [][]byte{
			{0xc0 | c>>6, 0x80 | c&0x3f},
			{0xe0, 0x80 | c>>6, 0x80 | c&0x3f},
			{0xf0, 0x80, 0x80 | c>>6, 0x80 | c&0x3f},
			{0xed, 0xa0 | c&0x1f, 0x80 | c&0x3f},
		}[r.Intn(4)]
		return c20Plain(r) + string(enc) + c20Plain(r)
	case 13: // line/paragraph separators, BOM, bidi controls
		return c20Plain(r) + []string{"\u2028", "\u2029", "\u0085", "\ufeff", "\u202e", "\u2066", "\u2069", "\u200f", "\u061c", "\u200b"}[r.Intn(10)] + inner()
	case 14: // long
		return strings.Repeat(c20Plain(r), 50+r.Intn(400)) + ctl() + strings.Repeat("B", r.Intn(3000))
	default: // the report's own syntax
		return c20Plain(r) + []string{"\n", "\r\n", "\r", "\u2028", "\x0b", "\x0c", "\u0085", "\x85"}[r.Intn(8)] + strings.Repeat("  ", r.Intn(3)) + "Forged: " + inner()
	}
}

// evilString: the hostile string source of every generator of C20.
func evilString(r *Rng) string {
	switch r.Intn(10) {
	case 0, 1, 2:
		return c20Shaped(r)
	case 3:
		return c20ShapedFixed[r.Intn(len(c20ShapedFixed))]
	case 4:
		if r.Intn(8) == 0 {
			return ""
		}
		return c20Ctl[r.Intn(len(c20Ctl))]
	}
	return evilMix(r)
}
