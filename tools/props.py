"""Per-property configuration of ./check: rule text, trusted-base slice, assumptions."""

TRUSTED_COMMON = [
    "Coq 8.16.1 kernel and vm_compute (no native_compute); coqchk re-check in the thorough tier",
    "no axioms declared by the development; every Print Assumptions output is recorded in assumptions_printed",
    "extraction: ExtrOcamlBasic only (Extract Inductive bool/option/unit/list/prod/sumbool/sumor; Extract Inlined Constant andb/orb); OCaml 4.13.1; ocaml/driver.ml (s-expression parser/printer); cross-checked each run by in-Coq vm_compute on a sample",
    "translator T1: verif-tagged dump hooks in /repo + tools/gen_tables.py (JSON -> coq/gen/*.v)",
    "correspondence T2: Go harness (generators, observation printers), tools/sexpr.py, the comparison in ./check",
    "go1.23.5 toolchain and standard library as the reference semantics of the modelled library calls",
]

PROPS = {
    "C14": {
        "rule": "exhaustive strings over 10 class representatives up to length 4 (thorough 6) + seeded sampled strings (valid-biased and full-byte) + round trips of random byte strings in 4 encodings x wrap widths; a case is non-trivial when the implementation accepts it (decodes to bytes) or returns the library oracle list; distinct = distinct (op,input)",
        "trusted": ["Go's encoding/base64 decoders re-implemented in Model/Base64.v (std_decode) and compared with the real library on every case (op lib)"],
        "assumptions": ["the 'corresponding standard decoder' of the property is Go's encoding/base64 (Std, URL, RawStd, RawURL), whose answers the harness records per case"],
        "oracle_only_ops": [],
        "level_text": "Theorems over all byte strings (no length bound): the model of DecodeAnyBase64 accepts a string iff one of Go's four base64 decoders (as modelled, and cross-checked against encoding/base64 on every case) accepts it, returns exactly that decoder's bytes, never panics, and round-trips every byte string through all four encodings with arbitrary line wrapping; the 256-entry class table is regenerated from the source and proved equal to the RFC 4648 classes on every run.",
        "level_note": "Trusted: Coq kernel; Model/Base64.v as a model of internal/util/base64.go and of encoding/base64's decoder (tied by the correspondence check on ~29k quick / ~2.4M thorough cases incl. exhaustive class strings); extraction + driver; the dump hook.",
        "technique": "Coq proof (induction over 4-character quanta; finite table lemma by vm_compute) + differential correspondence check",
    },
}

PROPS["C20"] = {
    "rule": "report trees (corpus + every C0/DEL/C1 character at start, middle and end of descriptions, attribute names and values, as UTF-8 and as stray bytes + seeded random trees of depth<=3 with hostile strings) printed by the real printInfo through the verif hook, and end-to-end CLI runs on JWT / SSH public key files whose displayed strings are attacker-controlled; non-trivial = every case (each prints a report); distinct = distinct (op,input)",
    "trusted": ["cmd/decipher verif hook (reads trees, calls the real printInfo)", "Go's unicode/utf8 decoding re-implemented in Lib/Utf8.v (compared with the implementation's sanitize on every tree)"],
    "assumptions": ["terminal interpretation of bytes >= 0xA0 is outside the property", "file paths come from the command line / directory listing, not from inspected content, and are printed verbatim"],
    "level_text": "Theorems over all report trees with arbitrary byte strings in every field: the printed report consists of exactly one LF-terminated line per description and per attribute, each starting with the indentation its depth dictates, and contains no C0 control other than those terminators and no DEL; the layout theorems hold for every sanitiser whose output is free of LF. Correspondence: the real printInfo's bytes equal the model's on every generated tree.",
    "level_note": "Trusted: Coq kernel; Model/Render.v as a model of printInfo/sanitize (tied by byte-exact comparison of the CLI's output on generated trees and files); Lib/Utf8.v as a model of utf8.DecodeRune; extraction + driver; the printInfo hook.",
    "technique": "Coq proof by nested structural induction over report trees + differential correspondence check of printInfo",
}

PROPS["C07"] = {
    "rule": "name predicate on reserved names, near misses, paths, empty and seeded random names; magic predicate on every prefix of every signature; full Inspect on the matrix file-name class x content class (valid instance of every row's format, signature+garbage, polyglots, short prefixes, empty, junk) plus seeded byte mutations of each cell; per case the hooks report each row's sniffer verdict and each row parser's individual result, from which the model computes what Inspect must return; non-trivial = implementation description not empty; distinct = distinct (op,input)",
    "trusted": ["internal/file verif hooks (table dump, per-row predicates, per-row parser runs)", "sniffers and parsers enter the dispatcher model as oracles whose answers the harness records per case"],
    "assumptions": ["the signature list of the property (PuTTY, JKS/JCEKS, RPM, SSH1, PGP armor, PEM) is typed independently in Run/C07.v (spec_signatures)"],
    "level_text": "Theorems for every name, content, sniffer and parser behaviour: Inspect's result is the first success among the candidates in table order; when all candidates fail the description is empty with no attributes or children; a non-empty result is exactly one candidate's result; a signature row whose magic matches and which is preceded only by non-matching signature rows decides the result whatever the name; the dispatcher cannot panic. The format table is regenerated from the running code on every run and its well-formedness (signature rows ordered most-specific-first, no wildcards, parsers present) is re-proved by vm_compute.",
    "level_note": "Trusted: Coq kernel; Model/Dispatch.v as a model of filetype.go/info.go (tied by comparing candidate lists and Inspect results on the matrix); table dump hook + translator; parsers and sniffers are oracles here (their own models belong to other properties).",
    "technique": "Coq proof (list induction over candidates; instance lemma on the regenerated table) + differential correspondence check of Inspect",
}

NOT_YET = {}
