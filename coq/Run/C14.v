(* Case runner and spec checker (T3) for C14. *)
From WI Require Import Lib.Base Model.Base64.
Open Scope N_scope.
Open Scope string_scope.

Definition enc_of_N (n : N) : enc :=
  match n with 0 => RawStd | 1 => RawURL | 2 => Std | _ => URL end.
Definition all_encs := [RawStd; RawURL; Std; URL].

Definition obs_opt (o : option bytes) : arg :=
  match o with None => AL [AZ 0] | Some b => AL [AZ 1; AB b] end.


(* ---- ops that use the implementation the way its callers do (buffers, repeated calls) ----
   entry = (text lib aux): lib = the four standard decoders' answers for the text, aux = the
   answers of the code behind the decoder that is not C14's business (asn1.Unmarshal,
   json.Unmarshal, ASN1File), recorded by the harness on the STANDARD decoder's bytes.
   fn: 0 WhichBase64, 1 DecodeAnyBase64, 2 IsBase64ASN1, 3 IsJWT,
       4 IsBase64ASN1 then Base64ASN1File on the same buffer. *)
Definition entry_text (e : arg) : bytes := arg_bytes (arg_nth 0 e).
Definition entry_lib (e : arg) : list arg := arg_list (arg_nth 1 e).
Definition entry_aux (e : arg) : arg := arg_nth 2 e.

Definition enc_index (o : option enc) : Z :=
  match o with Some RawStd => 0 | Some RawURL => 1 | Some Std => 2 | Some URL => 3 | None => 4 end%Z.

Definition call_C14 (fn : N) (text : bytes) (aux : arg) : arg :=
  match fn with
  | 0 => AL [AZ 0; AZ (enc_index (which_base64 text))]
  | 1 => obs_result AB (decode_any text)
  | 2 => match decode_any text with
         | Ok _ => AL [AZ 0; ok_arg (arg_bool aux)]
         | Err _ => AL [AZ 0; AZ 0]
         | Panic _ => AL [AZ 2]
         end
  | 3 => (* jwt.go:22 ParseJWT: three parts, each decoded; header and payload JSON objects *)
         let parts := split_on 46 text in
         if negb (Nat.eqb (length parts) 3) then AL [AZ 0; AZ 0]
         else if existsb (fun p => is_panic (decode_any p)) parts then AL [AZ 2]
         else AL [AZ 0; ok_arg (forallb (fun p => is_ok (decode_any p)) parts
                                  && arg_bool (arg_nth 2 (arg_nth 0 aux))
                                  && arg_bool (arg_nth 2 (arg_nth 1 aux)))]
  | _ => match decode_any text with
         | Ok _ => AL [AZ 0; AL [ok_arg (arg_bool (arg_nth 0 aux)); arg_nth 1 aux]]
         | Err _ => AL [AZ 0; AL [AZ 0; AL [AZ 1]]]
         | Panic _ => AL [AZ 2]
         end
  end.
Definition call_entry (fn : N) (e : arg) : arg := call_C14 fn (entry_text e) (entry_aux e).

Definition step_of (s : arg) : nat * bytes := (arg_nat (arg_nth 0 s), entry_text (arg_nth 1 s)).

Definition run_C14 (op : bytes) (input : arg) : arg :=
  if bytes_eqb op (bs "any") then
    obs_result AB (decode_any (arg_bytes (arg_nth 0 input)))
  else if bytes_eqb op (bs "lib") then
    AL (map (fun e => obs_opt (std_decode e (arg_bytes (arg_nth 0 input)))) all_encs)
  else if bytes_eqb op (bs "rt") then
    let e := enc_of_N (arg_N (arg_nth 0 input)) in
    let w := arg_nat (arg_nth 1 input) in
    let crlf := arg_bool (arg_nth 2 input) in
    let data := arg_bytes (arg_nth 3 input) in
    obs_result AB (decode_any (wrap w crlf (encode e data)))
  else if bytes_eqb op (bs "twice") then
    (* (fn mode scribble pre post entry) -> (r1 buf rfresh buf r2 buf r1late) *)
    let fn := arg_N (arg_nth 0 input) in
    let pre := arg_bytes (arg_nth 3 input) in
    let post := arg_bytes (arg_nth 4 input) in
    let e := arg_nth 5 input in
    let backing := pre ++ entry_text e ++ post in
    let r := call_C14 fn (window (length pre) (length (entry_text e)) backing) (entry_aux e) in
    AL [r; AB backing; r; AB backing; r; AB backing; r]
  else if bytes_eqb op (bs "reuse") then
    (* (fn mode scribble backing0 ((off entry)...)) -> ((r buf rfresh rlate)...) *)
    let fn := arg_N (arg_nth 0 input) in
    let steps := arg_list (arg_nth 4 input) in
    AL (map (fun sw => match sw with (s, (w, b)) =>
               let r := call_C14 fn w (entry_aux (arg_nth 1 s)) in AL [r; AB b; r; r] end)
            (combine steps (reuse_windows (arg_bytes (arg_nth 3 input)) (map step_of steps))))
  else if bytes_eqb op (bs "conc") then
    (* (fn shape ((entryA entryB)...)) -> ((rA rB stable bufferB)...) *)
    let fn := arg_N (arg_nth 0 input) in
    AL (map (fun p => AL [call_entry fn (arg_nth 0 p); call_entry fn (arg_nth 1 p); AZ 1;
                          AB (entry_text (arg_nth 1 p))])
            (arg_list (arg_nth 2 input)))
  else AL [].

(* The property, evaluated on what the implementation printed, against the four
   standard decoders' own answers (recorded by the harness from encoding/base64). *)
Definition lib_accepts (lib : list arg) : list bytes :=
  flat_map (fun o => match o with AL [AZ 1%Z; AB b] => [b] | _ => [] end) lib.


(* ---- the property for one call, judged from the standard decoders' recorded answers ----
   (independent of the model: no which_base64 / decode_any / std_decode here) *)
Definition first_acc (lib : list arg) : option bytes :=
  match lib_accepts lib with [] => None | b :: _ => Some b end.

(* DecodeAnyBase64's observation against the library's answers *)
Definition judge_decode (lib : list arg) (r : arg) : option string :=
  let acc := lib_accepts lib in
  match r with
  | AL [AZ 2%Z] => Some "failure of the program (panic)"
  | AL [AZ 1%Z] => match acc with [] => None | _ => Some "valid base64 rejected" end
  | AL [AZ 0%Z; AB b] =>
      match acc with
      | [] => Some "invalid base64 accepted"
      | _ => if forallb (bytes_eqb b) acc then None else Some "decoded bytes differ from the standard decoder"
      end
  | _ => Some "malformed observation"
  end.

(* a sniffer's boolean against what it has to be *)
Definition judge_bool (want : bool) (r : arg) : option string :=
  match r with
  | AL [AZ 2%Z] => Some "failure of the program (panic)"
  | AL [AZ 0%Z; AZ v] =>
      if Bool.eqb (negb (Z.eqb v 0)) want then None
      else if want then Some "valid base64 text not recognised by the sniffer"
      else Some "sniffer accepts text that is not valid base64 of the expected content"
  | _ => Some "malformed observation"
  end.

Definition judge_call (fn : N) (e : arg) (r : arg) : option string :=
  let lib := entry_lib e in
  let aux := entry_aux e in
  match fn with
  | 0 => (* WhichBase64 is a pre-filter: it must not send valid text to a decoder that rejects it *)
      match r with
      | AL [AZ 2%Z] => Some "failure of the program (panic)"
      | AL [AZ 0%Z; AZ k] =>
          match lib_accepts lib with
          | [] => None
          | _ => match lib_accepts [nth (Z.to_nat k) lib (AL [])] with
                 | [] => Some "valid base64: the selected encoding is none / one whose decoder rejects the text"
                 | _ => None
                 end
          end
      | _ => Some "malformed observation"
      end
  | 1 => judge_decode lib r
  | 2 => judge_bool (match lib_accepts lib with [] => false | _ => arg_bool aux end) r
  | 3 =>
      (* aux = ((part lib jsonobj)...) ; the parts joined by '.' must be the text *)
      let parts := arg_list aux in
      if negb (bytes_eqb (join [46] (map (fun p => arg_bytes (arg_nth 0 p)) parts)) (entry_text e))
         || existsb (fun p => existsb (N.eqb 46) (arg_bytes (arg_nth 0 p))) parts
      then Some "malformed case: recorded parts are not the text split at '.'"
      else
        let dec_ok := forallb (fun p => match lib_accepts (arg_list (arg_nth 1 p)) with [] => false | _ => true end) parts in
        judge_bool (Nat.eqb (length parts) 3 && dec_ok
                    && arg_bool (arg_nth 2 (nth 0 parts (AL []))) && arg_bool (arg_nth 2 (nth 1 parts (AL [])))) r
  | _ =>
      match r with
      | AL [AZ 2%Z] => Some "failure of the program (panic)"
      | AL [AZ 0%Z; AL [s; p]] =>
          match lib_accepts lib with
          | [] => if arg_eqb s (AZ 0) && arg_eqb p (AL [AZ 1]) then None
                  else Some "invalid base64 sniffed or parsed as base64 ASN.1"
          | _ => if negb (arg_eqb s (ok_arg (arg_bool (arg_nth 0 aux))))
                 then Some "sniffer's answer differs from the answer for the standard decoder's bytes"
                 else if negb (arg_eqb p (arg_nth 1 aux))
                 then Some "parser after sniffer on the same buffer: result differs from parsing the standard decoder's bytes"
                 else None
          end
      | _ => Some "malformed observation"
      end
  end.

Definition first_some (l : list (option string)) : option string :=
  fold_right (fun o acc => match o with Some s => Some s | None => acc end) None l.
Definition verdict (o : option string) : arg :=
  match o with None => AL [] | Some s => AB (bytes_of_string s) end.
Definition same_buf (what : string) (want : bytes) (got : arg) : option string :=
  match got with
  | AB b => if bytes_eqb b want then None else Some what
  | _ => Some "malformed observation"
  end.
Definition same_res (what : string) (a b : arg) : option string :=
  if arg_eqb a b then None else Some what.

(* reuse: the checker follows the buffer itself (expected contents), step by step *)
Fixpoint judge_reuse (fn : N) (b : bytes) (steps obs : list arg) : option string :=
  match steps, obs with
  | [], [] => None
  | s :: steps', AL [r; buf; rf; rl] :: obs' =>
      let off := arg_nat (arg_nth 0 s) in
      let e := arg_nth 1 s in
      let b' := firstn off b ++ entry_text e ++ skipn (off + length (entry_text e)) b in
      first_some [
        same_buf "the call changed bytes of the caller's buffer (inside or outside the text)" b' buf;
        match judge_call fn e r with Some m => Some (String.append "buffer refilled in place: " m) | None => None end;
        judge_call fn e rf;
        same_res "same text, different answers in the refilled buffer and in a fresh copy" r rf;
        same_res "the bytes returned by this call were changed by a later call" r rl;
        judge_reuse fn b' steps' obs']
  | _, _ => Some "malformed observation"
  end.

Definition judge_conc (fn : N) (p o : arg) : option string :=
  match o with
  | AL [ra; rb; st; buf] =>
      first_some [
        match judge_call fn (arg_nth 0 p) ra with Some m => Some (String.append "concurrent callers: " m) | None => None end;
        match judge_call fn (arg_nth 1 p) rb with Some m => Some (String.append "concurrent callers: " m) | None => None end;
        same_res "concurrent callers: the answer for one text changed between iterations" st (AZ 1);
        same_buf "concurrent callers: the call changed the caller's buffer" (entry_text (arg_nth 1 p)) buf]
  | _ => Some "malformed observation"
  end.

Definition check_C14 (op : bytes) (input impl : arg) : arg :=
  if bytes_eqb op (bs "any") then
    let acc := lib_accepts (arg_list (arg_nth 1 input)) in
    match impl with
    | AL [AZ 2%Z] => AS "failure of the program (panic) on invalid text"
    | AL [AZ 1%Z] => match acc with [] => AL [] | _ => AS "valid base64 rejected" end
    | AL [AZ 0%Z; AB b] =>
        match acc with
        | [] => AS "invalid base64 accepted"
        | _ => if forallb (bytes_eqb b) acc then AL [] else AS "decoded bytes differ from the standard decoder"
        end
    | _ => AS "malformed observation"
    end
  else if bytes_eqb op (bs "rt") then
    let data := arg_bytes (arg_nth 3 input) in
    if arg_eqb impl (AL [AZ 0; AB data]) then AL [] else AS "round trip failed"
  else if bytes_eqb op (bs "twice") then
    let fn := arg_N (arg_nth 0 input) in
    let e := arg_nth 5 input in
    let backing := arg_bytes (arg_nth 3 input) ++ entry_text e ++ arg_bytes (arg_nth 4 input) in
    match impl with
    | AL [r1; b1; rf; b2; r2; b3; rl] =>
        verdict (first_some [
          judge_call fn e r1;
          same_buf "the call changed the caller's buffer (text or spare bytes around it)" backing b1;
          judge_call fn e rf;
          same_res "same text, different answers in two buffers" r1 rf;
          same_buf "writing to the returned bytes changed the caller's buffer" backing b2;
          match judge_call fn e r2 with Some m => Some (String.append "second call on the same buffer: " m) | None => None end;
          same_res "second call on the same buffer: the answer differs from the first" r1 r2;
          same_buf "the second call changed the caller's buffer" backing b3;
          same_res "the bytes returned by the first call were changed by a later call" r1 rl])
    | _ => AS "malformed observation"
    end
  else if bytes_eqb op (bs "reuse") then
    verdict (judge_reuse (arg_N (arg_nth 0 input)) (arg_bytes (arg_nth 3 input))
                         (arg_list (arg_nth 4 input)) (arg_list impl))
  else if bytes_eqb op (bs "conc") then
    let fn := arg_N (arg_nth 0 input) in
    let ps := arg_list (arg_nth 2 input) in
    let os := arg_list impl in
    if negb (Nat.eqb (length ps) (length os)) then AS "malformed observation"
    else verdict (first_some (map (fun po => judge_conc fn (fst po) (snd po)) (combine ps os)))
  else AL [].
