From WI Require Import Lib.Base Lib.Info Lib.Utf8 Model.Render Proofs.Render.
Open Scope N_scope.

(* C20.  Each description and each attribute occupies exactly one output line,
   indented according to its depth, so the number and indentation of output lines are
   determined by the structure of the report alone.  No control character taken from
   the inspected content (newline, carriage return, escape, other C0/C1 controls, DEL)
   is written to standard output unescaped.

   [info_ok i]: every string of the report tree [i] is a list of bytes (< 256). *)

(* the output, split at LF, is exactly the list of lines fixed by the tree structure *)
Theorem C20_line_structure : forall i n, info_ok i ->
  split_lines (print_info i n) = lines_of sanitize i n.
Proof. exact report_lines. Qed.
Print Assumptions C20_line_structure.

Theorem C20_count : forall i, info_ok i ->
  length (split_lines (print_info i 0)) = count_lines i.
Proof. exact report_line_count. Qed.
Print Assumptions C20_count.

Theorem C20_indentation : forall i, info_ok i ->
  lines_indented (indents_of i 0) (split_lines (print_info i 0)) = true.
Proof. exact report_indentation. Qed.
Print Assumptions C20_indentation.

(* the only C0 control or DEL in the output is the LF that terminates a line *)
Theorem C20_no_controls : forall i n b, info_ok i ->
  In b (print_info i n) -> is_c0_or_del b = true -> b = 10.
Proof. exact report_no_c0_controls. Qed.
Print Assumptions C20_no_controls.

(* the layout holds for any sanitiser that never emits LF *)
Theorem C20_layout_any_sanitiser : forall san, (forall s, ~ In 10 (san s)) ->
  forall i n, split_lines (print_info_with san i n) = lines_of san i n.
Proof. exact split_print. Qed.
Print Assumptions C20_layout_any_sanitiser.

(* printing strings verbatim (the code before the repair of F30) violates the property *)
Theorem C20_raw_printing_refuted :
  exists i, length (split_lines (print_info_raw i 0)) <> count_lines i.
Proof. exact raw_printing_refuted. Qed.
Print Assumptions C20_raw_printing_refuted.

(* no C1 control in the sanitiser's output, as an encoded rune or as a stray byte *)
Theorem C20_no_c1 : forall s, bytes_ok s = true ->
  existsb bad_rune (runes (sanitize s)) = false /\
  stray_c1 (length (sanitize s)) (sanitize s) = false.
Proof. exact sanitize_no_c1. Qed.
Print Assumptions C20_no_c1.

(* the escaping loses no information *)
Theorem C20_sanitize_injective : forall a b, bytes_ok a = true -> bytes_ok b = true ->
  sanitize a = sanitize b -> a = b.
Proof. exact sanitize_injective. Qed.
Print Assumptions C20_sanitize_injective.

(* ---- the whole output, for every report tree with arbitrary octets in every string ----
   (1) every rune of the output decodes as valid UTF-8 and is the LF that ends a line, printable
       ASCII (0x20..0x7E) or a code point >= U+00A0: no C0, DEL or C1, no malformed octets;
   (2) the output split at LF is exactly the list of lines fixed by the tree, and (3) none of
       them contains an LF (every LF ends a line);
   (4) their number is the number of descriptions and attributes of the tree;
   (5) each line starts with twice its depth in spaces (a description at the depth of its node,
       an attribute one level below). *)
Theorem C20_whole_output : forall i, info_ok i ->
  all_good_runes (length (print_info i 0)) (print_info i 0) = true /\
  split_lines (print_info i 0) = lines_of sanitize i 0 /\
  Forall (fun l => ~ In 10 l) (lines_of sanitize i 0) /\
  length (lines_of sanitize i 0) = size_of i /\
  lines_indented (map (fun d => (2 * d)%nat) (depths_of i 0)) (lines_of sanitize i 0) = true.
Proof. exact report_whole_output. Qed.
Print Assumptions C20_whole_output.

(* non-trivial instance of the hypothesis: a tree whose strings carry LF, ESC, DEL, C1 (encoded
   and stray), JSON text and a printf directive *)
Example C20_whole_output_example :
  info_ok (Info [97; 10; 32; 32; 70; 27; 91] [([91; 10; 34; 127; 34; 93], [194; 155; 155; 37; 115])]
                [Info [192; 138] [] []]).
Proof. repeat (split || constructor). Qed.

(* what the spec checker evaluates on the implementation's output follows from (1) ... *)
Theorem C20_good_runes_imply_checker_clauses : forall fuel s, all_good_runes fuel s = true ->
  has_bad_rune fuel s = false /\ stray_c1 fuel s = false.
Proof. exact all_good_no_bad. Qed.
Print Assumptions C20_good_runes_imply_checker_clauses.

(* ... and its linear-time line splitter is split_lines *)
Theorem C20_checker_split : forall s, split_lines_fast s = split_lines s.
Proof. exact split_lines_fast_eq. Qed.
Print Assumptions C20_checker_split.

(* several files in one run (recursive scan, several arguments), paths printable ASCII:
   the output is the reports one after the other - its lines are the lines of each report,
   the first one behind "path: ", their number is the sum of the sizes of the trees, and
   every rune is as in (1) *)
Theorem C20_scan_lines : forall items, scan_ok items ->
  split_lines (report_all items) = flat_map (fun pi => file_report_lines (fst pi) (snd pi)) items.
Proof. exact scan_lines. Qed.
Print Assumptions C20_scan_lines.

Theorem C20_scan_line_count : forall items, scan_ok items ->
  length (split_lines (report_all items)) = list_sum (map (fun pi => size_of (snd pi)) items).
Proof. exact scan_line_count. Qed.
Print Assumptions C20_scan_line_count.

Theorem C20_scan_no_controls : forall items, scan_ok items ->
  all_good_runes (length (report_all items)) (report_all items) = true.
Proof. exact scan_all_good_runes. Qed.
Print Assumptions C20_scan_no_controls.
