(* C10 — Recursive scans report every file once, in order, and survive bad entries.

   With -r, every regular file below the given directories is reported exactly once, in
   depth-first order with entries sorted by name, and the output equals the concatenation of
   single-file runs; entries that cannot be opened or are not regular files (dangling links,
   sockets, FIFOs) are reported or skipped without crashing, blocking or suppressing later
   entries.  A directory given without -r or a nonexistent path is refused with a non-zero
   exit status, and bytes supplied on standard input are described like the same bytes in a
   file.

   Only statements; proofs are in Proofs/Walk.v.  The model (Model/Walk.v) is
   [main_run q fs argv stdin : list event * status] over file-system trees [fs] (listing of
   the working directory; entry kinds Reg, Dir, LinkFile, LinkDir, LinkNone, Fifo, Sock,
   LinkOther (a link, or chain of links, whose resolved target is a FIFO, a socket, a character
   device, a loop or an unreadable file), NoPerm (a regular file that cannot be opened));
   [repaired] is the code as it is now, [pinned] the code before the repairs F9, F10, F10b.
   [body] is the text printInfo writes for a file of a given name and content (the subject of
   the other properties): the theorems hold for every such function. *)
From Coq Require Import Permutation.
From WI Require Import Lib.Base Lib.Info Lib.Strings Model.Render Model.Dispatch Model.Walk Proofs.Walk.
Open Scope N_scope.

(* ---- the enumeration that specifies a scan ----
   [dfs_sorted_regular_files ch d] enumerates depth first the listing [ch] of directory [d]
   after sorting every listing by name.  The sort is correct: every listing of the sorted tree
   is ascending in byte-wise (Go string) order, and sorting only reorders — each regular file
   of the tree occurs in the enumeration exactly as often as in the tree itself (once). *)
Theorem C10_enumeration_sorted : forall ch,
  sorted_names (map node_name (sort_listing ch)) = true /\
  forallb tree_sorted (sort_listing ch) = true.
Proof. exact sort_listing_sorted. Qed.
Print Assumptions C10_enumeration_sorted.

Theorem C10_enumeration_complete : forall ch d,
  Permutation (dfs_sorted_regular_files ch d) (files_in ch d).
Proof. exact dfs_perm. Qed.
Print Assumptions C10_enumeration_complete.

(* which entries are enumerated: a directory is descended into (a link to one is not); any other
   entry is listed exactly when its RESOLVED target -- what os.Stat finds at the end of the chain
   of links -- is a regular file, whatever the kind of the entry itself *)
Theorem C10_enumeration_by_resolved_target : forall n f,
  files_of n f =
  match n with
  | Dir name ch => flat_map (fun c => files_of c (path_join f name)) ch
  | _ => match stat n with
         | SReg c => [(path_join f (node_name n), c)]
         | _ => []
         end
  end.
Proof. exact files_of_by_target. Qed.
Print Assumptions C10_enumeration_by_resolved_target.

(* ---- every regular file once, in order ----
   For every file system, every argument list of regular files and directories
   ([arg_ok]: a directory's tree is at most max_depth directories high — the named exclusion
   of finding F11 — and no path in it reaches PATH_MAX), the run with -r ends with status 0 and
   the reports on standard output are, in this order, exactly the sorted depth-first
   enumeration of each argument.  No hypothesis on the kinds of the other entries: FIFOs,
   sockets, dangling links, links to directories, links (chains of links) to FIFOs, sockets,
   devices, loops of links and unreadable files may occur anywhere. *)
Theorem C10_each_once_in_order : forall fs d rest stdin,
  plain_arg d = true -> forallb (arg_ok fs) (d :: rest) = true ->
  exists es, main_run repaired fs (bs "-r" :: d :: rest) stdin = (es, Exit 0) /\
             reports es = map report_of_pair (flat_map (arg_files fs) (d :: rest)).
Proof. exact scan_arguments. Qed.
Print Assumptions C10_each_once_in_order.

(* the statement for one directory, as in DESIGN.md *)
Theorem C10_each_once_in_order_one_directory : forall fs d ch stdin,
  plain_arg d = true -> resolve fs d = SDir ch ->
  (Z.of_nat (height_in ch) <= max_depth)%Z -> paths_ok_in ch d = true ->
  exists es, main_run repaired fs [bs "-r"; d] stdin = (es, Exit 0) /\
             reports es = map report_of_pair (dfs_sorted_regular_files ch d).
Proof. exact scan_one_directory. Qed.
Print Assumptions C10_each_once_in_order_one_directory.

(* the hypotheses are met by a tree holding every kind of entry *)
Theorem C10_hypotheses_not_vacuous :
  let fs := [Dir (bs "d") example_listing] in
  plain_arg (bs "d") = true /\ forallb (arg_ok fs) [bs "d"] = true /\
  flat_map (arg_files fs) [bs "d"] = [(bs "d/_/B", bs "2"); (bs "d/a", bs "3"); (bs "d/b", bs "1")].
Proof. exact example_meets_hypotheses. Qed.
Print Assumptions C10_hypotheses_not_vacuous.

(* exactly once: in a tree that can exist (valid names, distinct within each directory) scanned
   under a plain name, the reported paths are pairwise different *)
Theorem C10_exactly_once : forall d ch,
  name_ok d = true -> listing_ok ch = true -> paths_ok_in ch d = true ->
  NoDup (map fst (dfs_sorted_regular_files ch d)).
Proof. exact enumerated_paths_distinct. Qed.
Print Assumptions C10_exactly_once.

(* ---- the output is the concatenation of the single-file runs ----
   Standard output of the scan is the concatenation, over the enumeration, of [report_text];
   and [report_text (p, c)] is what the run on p alone prints, in any file system in which p
   names a regular file with content c (any code variant). *)
Theorem C10_concat_of_singles : forall body argv0 fs d rest stdin,
  plain_arg d = true -> forallb (arg_ok fs) (d :: rest) = true ->
  stdout_of body argv0 (fst (main_run repaired fs (bs "-r" :: d :: rest) stdin))
  = concat (map (report_text body) (flat_map (arg_files fs) (d :: rest))).
Proof. exact scan_stdout. Qed.
Print Assumptions C10_concat_of_singles.

(* one directory, every entry kind anywhere in it: the scan output is the concatenation of the
   single-file reports over exactly the entries whose resolved target is a regular file
   (C10_enumeration_by_resolved_target), depth first, names in byte order *)
Theorem C10_concat_of_singles_one_directory : forall body argv0 fs d ch stdin,
  plain_arg d = true -> resolve fs d = SDir ch ->
  (Z.of_nat (height_in ch) <= max_depth)%Z -> paths_ok_in ch d = true ->
  stdout_of body argv0 (fst (main_run repaired fs [bs "-r"; d] stdin))
  = concat (map (report_text body) (dfs_sorted_regular_files ch d)).
Proof. exact scan_one_directory_stdout. Qed.
Print Assumptions C10_concat_of_singles_one_directory.

(* ---- no history: the output is a function of the enumerated (path, content) pairs ONLY ----
   A scan describes many files in one process.  In the model nothing a file leaves behind can
   reach the next one: (1) two scans - other trees, other argument lists, other standard input -
   that enumerate the same (path, content) pairs print the same bytes; (2) the output is a
   sequence of blocks, one per enumerated file, each a function [report_text body] of that
   file's own path and content, and enumerations that are permutations of each other give the
   permuted blocks; (3) replacing the contents of the files of a tree (by any function of the
   content - swapping two siblings' contents is one) leaves paths and order as they are and
   turns each block into the block of the same path with the new content.  An implementation
   whose description of a file depends on the files before it (a remembered table row, a
   budget that is not reset, a cache) must therefore disagree with the model on some tree. *)
Theorem C10_output_of_enumeration_only : forall body argv0 fs1 d1 rest1 stdin1 fs2 d2 rest2 stdin2,
  plain_arg d1 = true -> forallb (arg_ok fs1) (d1 :: rest1) = true ->
  plain_arg d2 = true -> forallb (arg_ok fs2) (d2 :: rest2) = true ->
  flat_map (arg_files fs1) (d1 :: rest1) = flat_map (arg_files fs2) (d2 :: rest2) ->
  stdout_of body argv0 (fst (main_run repaired fs1 (bs "-r" :: d1 :: rest1) stdin1))
  = stdout_of body argv0 (fst (main_run repaired fs2 (bs "-r" :: d2 :: rest2) stdin2)).
Proof. exact scan_output_of_enumeration_only. Qed.
Print Assumptions C10_output_of_enumeration_only.

Theorem C10_output_blocks_permute : forall body argv0 fs1 d1 rest1 stdin1 fs2 d2 rest2 stdin2,
  plain_arg d1 = true -> forallb (arg_ok fs1) (d1 :: rest1) = true ->
  plain_arg d2 = true -> forallb (arg_ok fs2) (d2 :: rest2) = true ->
  Permutation (flat_map (arg_files fs1) (d1 :: rest1)) (flat_map (arg_files fs2) (d2 :: rest2)) ->
  exists blocks1 blocks2,
    blocks1 = map (report_text body) (flat_map (arg_files fs1) (d1 :: rest1)) /\
    blocks2 = map (report_text body) (flat_map (arg_files fs2) (d2 :: rest2)) /\
    stdout_of body argv0 (fst (main_run repaired fs1 (bs "-r" :: d1 :: rest1) stdin1)) = concat blocks1 /\
    stdout_of body argv0 (fst (main_run repaired fs2 (bs "-r" :: d2 :: rest2) stdin2)) = concat blocks2 /\
    Permutation blocks1 blocks2.
Proof. exact scan_blocks_permute. Qed.
Print Assumptions C10_output_blocks_permute.

Theorem C10_output_follows_contents : forall body argv0 g fs fs' d ch stdin stdin',
  plain_arg d = true -> resolve fs d = SDir ch -> resolve fs' d = SDir (map (map_content g) ch) ->
  (Z.of_nat (height_in ch) <= max_depth)%Z -> paths_ok_in ch d = true ->
  stdout_of body argv0 (fst (main_run repaired fs [bs "-r"; d] stdin))
  = concat (map (report_text body) (dfs_sorted_regular_files ch d)) /\
  stdout_of body argv0 (fst (main_run repaired fs' [bs "-r"; d] stdin'))
  = concat (map (fun pc => report_text body (fst pc, g (snd pc))) (dfs_sorted_regular_files ch d)).
Proof. exact scan_follows_contents. Qed.
Print Assumptions C10_output_follows_contents.

Theorem C10_contents_swap_example :
  let g := fun c => if bytes_eqb c (bs "1") then bs "2" else if bytes_eqb c (bs "2") then bs "1" else c in
  map (map_content g) [Reg (bs "a") (bs "1"); Reg (bs "b") (bs "2"); Fifo (bs "p"); Reg (bs "c") (bs "3")]
  = [Reg (bs "a") (bs "2"); Reg (bs "b") (bs "1"); Fifo (bs "p"); Reg (bs "c") (bs "3")].
Proof. exact example_swap_contents. Qed.
Print Assumptions C10_contents_swap_example.

(* what the check's case runner evaluates (a concatenation without deep recursion) is [stdout_of] *)
Theorem C10_runner_stdout : forall body argv0 es, stdout_tr body argv0 es = stdout_of body argv0 es.
Proof. exact stdout_tr_eq. Qed.
Print Assumptions C10_runner_stdout.

Theorem C10_single_file_run : forall body argv0 q fs p c stdin,
  plain_arg p = true -> resolve fs p = SReg c ->
  main_run q fs [p] stdin = ([Report p c], Exit 0) /\
  stdout_of body argv0 (fst (main_run q fs [p] stdin)) = report_text body (p, c).
Proof.
  intros. split; [now apply single_file_run|now apply single_file_stdout].
Qed.
Print Assumptions C10_single_file_run.

(* in the same file system: for a directory given by a plain name, every path of the enumeration
   names, for os.Stat, the regular file with the enumerated content — so the single-file run of
   the theorem above exists for each of them *)
Theorem C10_enumerated_paths_resolve : forall fs d ch p c,
  name_ok d = true -> listing_ok fs = true -> resolve fs d = SDir ch ->
  paths_ok_in ch d = true ->
  In (p, c) (dfs_sorted_regular_files ch d) -> resolve fs p = SReg c /\ plain_arg p = plain_arg d.
Proof. exact enumerated_paths_resolve. Qed.
Print Assumptions C10_enumerated_paths_resolve.

(* ---- bad entries ----
   (1) the repaired code never crashes, whatever the tree and the arguments, and the only way
       to block is a FIFO named explicitly as an argument (like cat);
   (2) an entry that is not a directory and whose resolved target is not a regular file (a FIFO,
       a socket, a dangling link, a link to a directory, a link or chain of links to a FIFO /
       socket / character device / itself, an unreadable file) changes nothing in what a scan
       of its directory reports (together with C10_each_once_in_order: entries after it are
       still reported). *)
Theorem C10_bad_entries : forall fs argv stdin es st,
  main_run repaired fs argv stdin = (es, st) ->
  (forall p, st <> Crashed p) /\
  (forall p, st = Blocked p -> In p argv /\ resolve fs p = SFifo).
Proof. exact never_crashes_blocks_only_on_named_fifo. Qed.
Print Assumptions C10_bad_entries.

Theorem C10_bad_entries_skipped : forall b ch d, bad_entry b = true ->
  dfs_sorted_regular_files (b :: ch) d = dfs_sorted_regular_files ch d.
Proof. exact bad_entry_changes_nothing. Qed.
Print Assumptions C10_bad_entries_skipped.

Theorem C10_scan_never_stops : forall ch d, snd (walk_top repaired ch d) = None.
Proof. exact walk_top_continues. Qed.
Print Assumptions C10_scan_never_stops.

(* the code before the repairs violated this: d/{a, m, z} with m a dangling link or a socket
   (F9: nil dereference) or a FIFO (F10: open blocks) — z is never reported *)
Theorem C10_bad_entries_refuted_before_repair :
  main_run pinned (witness_listing (LinkNone (bs "m"))) [bs "-r"; bs "d"] []
    = ([Report (bs "d/a") (bs "x"); LogLine (bs "d/m")], Crashed (bs "d/m")) /\
  main_run pinned (witness_listing (Sock (bs "m"))) [bs "-r"; bs "d"] []
    = ([Report (bs "d/a") (bs "x"); LogLine (bs "d/m")], Crashed (bs "d/m")) /\
  main_run pinned (witness_listing (Fifo (bs "m"))) [bs "-r"; bs "d"] []
    = ([Report (bs "d/a") (bs "x")], Blocked (bs "d/m")).
Proof.
  split; [exact pinned_dangling_link_crashes|split; [exact pinned_socket_crashes|exact pinned_fifo_blocks]].
Qed.
Print Assumptions C10_bad_entries_refuted_before_repair.

Theorem C10_bad_entries_witnesses_repaired : forall bad,
  In bad [LinkNone (bs "m"); Sock (bs "m"); Fifo (bs "m"); LinkDir (bs "m") [Reg (bs "i") []]] ->
  main_run repaired (witness_listing bad) [bs "-r"; bs "d"] []
  = ([Report (bs "d/a") (bs "x"); LogLine (bs "d/m"); Report (bs "d/z") (bs "y")], Exit 0).
Proof. exact repaired_on_witnesses. Qed.
Print Assumptions C10_bad_entries_witnesses_repaired.

Theorem C10_bad_link_targets_witnesses : forall t,
  main_run repaired (witness_listing (LinkOther (bs "m") t)) [bs "-r"; bs "d"] []
  = ([Report (bs "d/a") (bs "x"); LogLine (bs "d/m"); Report (bs "d/z") (bs "y")], Exit 0) /\
  main_run repaired (witness_listing (NoPerm (bs "m"))) [bs "-r"; bs "d"] []
  = ([Report (bs "d/a") (bs "x"); LogLine (bs "d/m"); Report (bs "d/z") (bs "y")], Exit 0).
Proof. exact repaired_on_link_witnesses. Qed.
Print Assumptions C10_bad_link_targets_witnesses.

(* a scan that opens what a link leads to without looking at the resolved target (the code before
   repair F10 did) blocks on a link to a FIFO: z is never reported *)
Theorem C10_link_to_fifo_refuted_before_repair :
  main_run pinned (witness_listing (LinkOther (bs "m") OFifo)) [bs "-r"; bs "d"] []
  = ([Report (bs "d/a") (bs "x")], Blocked (bs "d/m")).
Proof. exact pinned_link_to_fifo_blocks. Qed.
Print Assumptions C10_link_to_fifo_refuted_before_repair.

(* ---- resources: a scan never suppresses later entries by running out of descriptors ----
   os.ReadDir closes the directory before the loop over its entries starts and inspectFile closes
   each file before the next is opened: beyond the constant of the process the scan of ANY tree
   has at most one descriptor open at a time - bounded neither by width nor by depth.  The check
   runs the scans under ulimit -n 32/64/256 on trees wider and deeper than that.  A loop that
   defers the close to the end of the directory holds every file of the directory and of its
   ancestors: 300 for a directory of 300 files, 80 for 40 files followed by a sub-directory of 40. *)
Theorem C10_descriptors_bounded : forall n, (peak_fds n <= 1)%nat.
Proof. exact peak_fds_le_1. Qed.
Print Assumptions C10_descriptors_bounded.

Theorem C10_descriptors_deferred_close_refuted :
  peak_fds (Dir (bs "d") (wide_listing 300)) = 1%nat /\
  peak_fds_deferred (Dir (bs "d") (wide_listing 300)) = 300%nat /\
  peak_fds_deferred (Dir (bs "d") (wide_listing 40 ++ [Dir (bs "s") (wide_listing 40)])) = 80%nat.
Proof. exact deferred_close_unbounded. Qed.
Print Assumptions C10_descriptors_deferred_close_refuted.

(* ---- refusals ----
   Arguments that are regular files are reported; the first directory met without -r, or the
   first path that does not exist (with or without -r), ends the run with exit status 1. *)
Theorem C10_refusals_directory : forall q fs pre d ch rest stdin,
  plain_arg (hd d (map fst pre)) = true ->
  Forall (fun pc => resolve fs (fst pc) = SReg (snd pc)) pre ->
  resolve fs d = SDir ch ->
  main_run q fs (map fst pre ++ d :: rest) stdin = (map report_of_pair pre ++ [Refusal d], Exit 1).
Proof. exact refuse_directory. Qed.
Print Assumptions C10_refusals_directory.

Theorem C10_refusals_missing : forall q fs r pre p rest stdin,
  plain_arg (hd p (map fst pre)) = true ->
  Forall (fun pc => resolve fs (fst pc) = SReg (snd pc)) pre ->
  resolve fs p = SMissing ->
  main_run q fs (argv_of r (map fst pre ++ p :: rest)) stdin = (map report_of_pair pre ++ [LogLine p], Exit 1).
Proof. exact refuse_missing. Qed.
Print Assumptions C10_refusals_missing.

(* ---- standard input ----
   No argument, or a first argument "-" (or ""), with or without -r: the bytes on standard
   input are described, and with the dispatcher of C07 as [body] the text is the report of the
   same bytes in a file, minus the "path: " prefix — for every file name that matches no name
   pattern of the format table ([name_neutral]; "authorized_keys" and "known_hosts" select a
   parser by name, which standard input cannot).  T1: the name of standard input itself is
   neutral for the regenerated table. *)
Theorem C10_stdin_name_neutral : name_neutral stdin_path = true.
Proof. exact stdin_path_neutral. Qed.
Print Assumptions C10_stdin_name_neutral.

Theorem C10_stdin_as_file : forall sniff parse argv0 q fs fs' r rest p data stdin',
  match rest with [] => True | a :: _ => a = [] \/ a = [45] end ->
  plain_arg p = true -> name_neutral p = true -> resolve fs' p = SReg data ->
  stdout_of (dispatch_body sniff parse) argv0 (fst (main_run q fs (argv_of r rest) data))
  = drop (length p + 2) (stdout_of (dispatch_body sniff parse) argv0 (fst (main_run q fs' [p] stdin'))).
Proof. exact stdin_as_file. Qed.
Print Assumptions C10_stdin_as_file.

Theorem C10_stdin_hypothesis_examples :
  name_neutral (bs "f") = true /\ name_neutral (bs "dir/key.pem") = true /\
  name_neutral (bs "d/authorized_keys") = false.
Proof. vm_compute. repeat split; reflexivity. Qed.
Print Assumptions C10_stdin_hypothesis_examples.

(* ---- standard input is a stream ----
   Inspect reads standard input with io.ReadAll(io.LimitReader(f, MaxReadSize)).  A stream is the
   list of byte strings the successive Read calls return before io.EOF ([chunks]; a chunk may be
   empty: Read returned 0, nil).  Whatever the chunk boundaries -- the writer's write calls, its
   pauses, the pipe buffer, the room the read loop offers -- the loop delivers the first
   MaxReadSize bytes of the concatenation, so two streams that carry the same bytes are described
   alike, and a stream of at most MaxReadSize bytes is described like a file holding them. *)
Theorem C10_stdin_read_loop : forall chunks cap,
  read_all cap chunks = take_n cap (concat chunks) /\
  take_n cap (concat chunks) = firstn (N.to_nat cap) (concat chunks) /\
  (N.of_nat (length (concat chunks)) <= cap -> read_all cap chunks = concat chunks).
Proof.
  intros. split; [apply read_all_concat|split; [apply take_n_firstn|apply read_all_whole]].
Qed.
Print Assumptions C10_stdin_read_loop.

Theorem C10_stdin_chunking_irrelevant : forall q fs argv chunks1 chunks2,
  concat chunks1 = concat chunks2 ->
  main_run_stream q fs argv chunks1 = main_run_stream q fs argv chunks2.
Proof. exact stream_chunking_irrelevant. Qed.
Print Assumptions C10_stdin_chunking_irrelevant.

Theorem C10_stdin_stream_as_file : forall sniff parse argv0 q fs fs' r rest p chunks stdin',
  match rest with [] => True | a :: _ => a = [] \/ a = [45] end ->
  plain_arg p = true -> name_neutral p = true -> resolve fs' p = SReg (concat chunks) ->
  N.of_nat (length (concat chunks)) <= max_read_size ->
  stdout_of (dispatch_body sniff parse) argv0 (fst (main_run_stream q fs (argv_of r rest) chunks))
  = drop (length p + 2) (stdout_of (dispatch_body sniff parse) argv0 (fst (main_run q fs' [p] stdin'))).
Proof. exact stream_as_file. Qed.
Print Assumptions C10_stdin_stream_as_file.

(* every way of cutting a byte string into pieces is a stream of these bytes (the check's cases) *)
Theorem C10_stdin_pieces : forall lens data, concat (cut_at lens data) = data.
Proof. exact cut_at_concat. Qed.
Print Assumptions C10_stdin_pieces.

(* a stream with empty reads and pieces ending inside a token; and why the statement is one about
   the read loop: a loop that takes a Read which does not fill the offered room for the end of
   the input (right for regular files) loses the rest of a pipe *)
Theorem C10_stdin_example :
  read_all max_read_size example_chunks = bs "123e4567-e89b-12d3-a456-426614174000" ++ [10] /\
  read_all 10 example_chunks = bs "123e4567-e" /\
  read_until_short 4096 example_chunks = bs "123e4567-e89b-12d3-".
Proof. exact example_chunks_read. Qed.
Print Assumptions C10_stdin_example.

Theorem C10_stdin_short_read_refuted : exists chunks,
  N.of_nat (length (concat chunks)) <= max_read_size /\
  read_all max_read_size chunks = concat chunks /\ read_until_short 4096 chunks <> concat chunks.
Proof. exact short_read_reader_refuted. Qed.
Print Assumptions C10_stdin_short_read_refuted.

(* ---- the depth limit (finding F11, kept) ----
   Without the hypothesis on the height the property fails: a regular file max_depth+1
   directories below the scanned directory is in the enumeration, all paths are short, the run
   ends with status 0 — and nothing is reported. *)
Theorem C10_depth_refuted : exists fs d ch,
  resolve fs d = SDir ch /\ paths_ok_in ch d = true /\
  height_in ch = S (Z.to_nat max_depth) /\
  length (dfs_sorted_regular_files ch d) = 1%nat /\
  reports (fst (main_run repaired fs [bs "-r"; d] [])) = [] /\
  snd (main_run repaired fs [bs "-r"; d] []) = Exit 0.
Proof. exists deep_witness, (bs "d"), deep_listing. exact deep_witness_facts. Qed.
Print Assumptions C10_depth_refuted.
