(* Proofs for C01. *)
From WI Require Import Lib.Base Lib.Info Model.Dispatch Model.Safety Proofs.Dispatch.
From WI Require gen.Scan.

Lemma sites_classified_now : sites_classified gen.Scan.panic_sites = true.
Proof. vm_compute. reflexivity. Qed.

Lemma class_used_now : class_used gen.Scan.panic_sites = true.
Proof. vm_compute. reflexivity. Qed.

(* the dispatcher propagates no panic of its own: if no candidate parser can panic, Inspect cannot *)
Lemma first_success_no_panic : forall parse ps data,
  (forall p e, parse p data <> Panic e) -> forall e, first_success parse ps data <> Panic e.
Proof.
  intros parse ps data H. induction ps as [|p ps IH]; intros e; cbn [first_success]; [discriminate|].
  destruct (parse p data) eqn:E; [discriminate|apply IH|]. exfalso. eapply H. exact E.
Qed.

Theorem inspect_no_panic : forall sniff parse name data,
  (forall p e, parse p data <> Panic e) -> forall e, inspect sniff parse name data <> Panic e.
Proof.
  intros sniff parse name data H e.
  destruct (inspect_first_success sniff parse table name data table_no_wildcards) as [ps [_ Hi]].
  unfold inspect. rewrite Hi. now apply first_success_no_panic.
Qed.

(* Inspect always returns: an Ok description (possibly empty) when no parser panics *)
Theorem inspect_returns : forall sniff parse name data,
  (forall p e, parse p data <> Panic e) -> exists i, inspect sniff parse name data = Ok i.
Proof.
  intros sniff parse name data H.
  destruct (inspect_first_success sniff parse table name data table_no_wildcards) as [ps [_ Hi]].
  unfold inspect. rewrite Hi. clear Hi.
  induction ps as [|p ps IH]; cbn [first_success]; [eauto|].
  destruct (parse p data) eqn:E; [eauto|exact IH|]. exfalso. eapply H. exact E.
Qed.

(* ---------- the JWT attribute builder over arbitrary JSON values ---------- *)
From WI Require Model.Jwt Model.Base64 gen.JwtParams.

Lemma jslookup_shallow : forall k m,
  Model.Jwt.jlookup k (shallow_map m) = option_map shallow (jslookup k m).
Proof.
  intros k m. induction m as [|[k' v] r IH]; cbn [shallow_map map jslookup Model.Jwt.jlookup fst snd option_map]; [reflexivity|].
  destruct (bytes_eqb k k'); [reflexivity|]. exact IH.
Qed.

(* a modelled converter cannot panic, whatever the value *)
Lemma convert_tree_total : forall c v, modelled c = true -> exists o, convert_tree c v = Ok o.
Proof.
  intros c v H. destruct c; cbn [modelled] in H; try discriminate; cbn [convert_tree]; eauto.
  destruct v as [s|m e|b| |l|m]; eauto. destruct l as [|x l]; eauto.
  destruct (all_as_string (x :: l)); eauto.
Qed.

Lemma attrs_tree_total : forall t m,
  forallb (fun p => modelled (tp_conv p)) t = true -> exists l, attrs_tree t m = Ok l.
Proof.
  intros t m. induction t as [|p r IH]; cbn [forallb attrs_tree]; intros H; [eauto|].
  apply andb_prop in H. destruct H as [Hp Hr]. destruct (IH Hr) as [lr Elr]. rewrite Elr.
  destruct (jslookup (tp_key p) m) as [v|]; cbn [bind].
  - destruct (convert_tree_total (tp_conv p) v Hp) as [o Eo]. rewrite Eo. cbn [bind]. eauto.
  - eauto.
Qed.

(* on the three converters of the repository the tree model and the model of C18 (Model/Jwt.v, arrays and
   objects opaque) are the same function *)
Definition lift_param (p : Model.Jwt.param) : tparam :=
  mktparam (Model.Jwt.p_key p) (Model.Jwt.p_label p) (tconv_of_conv (Model.Jwt.p_conv p)).
Definition conv_known (c : Model.Jwt.conv) : bool := match c with Model.Jwt.CUnknown => false | _ => true end.

Lemma convert_tree_agrees : forall c v, conv_known c = true ->
  convert_tree (tconv_of_conv c) v = Ok (Model.Jwt.convert c (shallow v)).
Proof. intros c v H. destruct c; cbn [conv_known] in H; try discriminate; reflexivity. Qed.

Lemma attrs_tree_agrees : forall t m,
  forallb (fun p => conv_known (Model.Jwt.p_conv p)) t = true ->
  attrs_tree (map lift_param t) m = Ok (Model.Jwt.attrs_in t (shallow_map m)).
Proof.
  intros t m. unfold Model.Jwt.attrs_in.
  induction t as [|p r IH]; cbn [forallb map attrs_tree flat_map]; intros H; [reflexivity|].
  apply andb_prop in H. destruct H as [Hp Hr]. rewrite (IH Hr). clear IH.
  cbn [lift_param tp_key tp_conv tp_label]. rewrite jslookup_shallow.
  destruct (jslookup (Model.Jwt.p_key p) m) as [v|]; cbn [option_map bind]; [|reflexivity].
  rewrite (convert_tree_agrees _ v Hp). cbn [bind].
  destruct (Model.Jwt.convert (Model.Jwt.p_conv p) (shallow v)); reflexivity.
Qed.

Lemma tconv_names_agree : forall n, tconv_of_conv (Model.Jwt.conv_of_name n) = tconv_of_name n.
Proof.
  intros n. unfold Model.Jwt.conv_of_name, tconv_of_name.
  destruct (bytes_eqb n (bs "str")); [reflexivity|].
  destruct (bytes_eqb n (bs "sigAlg")); [reflexivity|].
  destruct (bytes_eqb n (bs "unixTime")); reflexivity.
Qed.

Lemma tparams_lift : forall t, tparams_of t = map lift_param (Model.Jwt.params_of t).
Proof.
  intros t. unfold tparams_of, Model.Jwt.params_of. rewrite map_map. apply map_ext.
  intros [[k l] c]. unfold lift_param. cbn [Model.Jwt.p_key Model.Jwt.p_label Model.Jwt.p_conv].
  now rewrite tconv_names_agree.
Qed.

(* instance lemmas over the table regenerated from the running code: every converter named in jwtParams is one
   of the three functions modelled here (a new converter breaks this obligation) *)
Lemma jwt_table_modelled : forallb (fun p => modelled (tp_conv p)) jwt_tparams = true.
Proof. vm_compute. reflexivity. Qed.
Lemma jwt_table_known : forallb (fun p => conv_known (Model.Jwt.p_conv p)) Model.Jwt.jwt_params = true.
Proof. vm_compute. reflexivity. Qed.

Theorem jwt_describe_tree_total : forall h p sig,
  describe_tree jwt_tparams h p sig
  = Ok (Model.Jwt.describe_jwt (Model.Jwt.mkjwt (shallow_map h) (shallow_map p) sig)).
Proof.
  intros h p sig. unfold describe_tree, jwt_tparams, Model.Jwt.describe_jwt, Model.Jwt.describe_in.
  rewrite tparams_lift. fold Model.Jwt.jwt_params.
  rewrite !(attrs_tree_agrees _ _ jwt_table_known). reflexivity.
Qed.

Theorem jwt_attrs_tree_no_panic : forall m site, attrs_tree jwt_tparams m <> Panic site.
Proof.
  intros m site. destruct (attrs_tree_total jwt_tparams m jwt_table_modelled) as [l E]. rewrite E. discriminate.
Qed.

(* the shape of defect the array-valued inputs are generated for: joining the elements of an array with an
   unchecked v[i].(string) panics on {"aud":["svc-a",7]}; with the comma-ok form it cannot *)
Definition aud_unchecked : list tparam := [mktparam (bs "aud") (bs "Audience") TListUnchecked].
Lemma unchecked_element_assertion_panics :
  exists m site, attrs_tree aud_unchecked m = Panic site.
Proof.
  exists [(bs "aud", JsArr [JsStr (bs "svc-a"); JsNum 7 0])]. eexists. vm_compute. reflexivity.
Qed.
Lemma checked_element_assertion_total : forall v, exists o, convert_tree TListChecked v = Ok o.
Proof. intros v. now apply convert_tree_total. Qed.

(* ---------- the uncompressed base point: in-place comparison of the halves ---------- *)
Lemma bytes_eqb_app_split : forall x y r, (length x <= length r)%nat ->
  bytes_eqb (x ++ y) r = bytes_eqb x (firstn (length x) r) && bytes_eqb y (skipn (length x) r).
Proof.
  induction x as [|a x IH]; intros y r H.
  - cbn [app length firstn skipn bytes_eqb]. reflexivity.
  - destruct r as [|b r]; [cbn [length] in H; inversion H|].
    cbn [app length firstn skipn bytes_eqb]. cbn [length] in H. apply le_S_n in H.
    rewrite (IH y r H). now rewrite andb_assoc.
Qed.

(* wherever the slices exist the two forms agree ... *)
Lemma sliced_agrees : forall gx gy base, (1 + length gx <= length base)%nat ->
  uncompressed_sliced gx gy base = Ok (uncompressed_appended gx gy base).
Proof.
  intros gx gy base H. unfold uncompressed_sliced, uncompressed_appended.
  destruct (Nat.ltb_spec (length base) (1 + length gx)) as [L|_]; [exfalso; apply (Nat.lt_irrefl (length base)); eapply Nat.lt_le_trans; eassumption|].
  rewrite bytes_eqb_app_split; [reflexivity|]. destruct base as [|b r]; cbn [length tl] in *; [inversion H|]. now apply le_S_n.
Qed.

(* ... and on every shorter point (the 04 prefix alone, 04 and half a coordinate, ...) the sliced form panics
   while the appended form answers false *)
Lemma sliced_panics_when_short : forall gx gy base, (length base < 1 + length gx)%nat ->
  (exists site, uncompressed_sliced gx gy base = Panic site) /\ (gx <> [] -> uncompressed_appended gx gy base = false).
Proof.
  intros gx gy base H. split.
  - unfold uncompressed_sliced. destruct (Nat.ltb_spec (length base) (1 + length gx)) as [_|G]; [eauto|].
    exfalso. apply (Nat.lt_irrefl (length base)). eapply Nat.lt_le_trans; eassumption.
  - intros Hne. unfold uncompressed_appended.
    assert (L : (length (tl base) < length (gx ++ gy))%nat).
    { rewrite app_length. destruct base as [|b r]; cbn [tl length] in *.
      - destruct gx; [congruence|cbn [length]]. apply Nat.lt_0_succ.
      - apply Nat.succ_lt_mono in H. eapply Nat.lt_le_trans; [exact H|]. apply Nat.le_add_r. }
    revert L. generalize (gx ++ gy) as a, (tl base) as r. clear.
    induction a as [|x a IH]; intros r L; [inversion L|].
    destruct r as [|y r]; [reflexivity|]. cbn [bytes_eqb]. cbn [length] in L. apply Nat.succ_lt_mono in L.
    rewrite (IH r L). apply andb_false_r.
Qed.

(* ---------- several keys in one block: skipping to the next key terminates, trying again does not ---------- *)
Lemma skip_others_le : forall l, (length (skip_others l) <= length l)%nat.
Proof.
  induction l as [|p r IH]; cbn [skip_others length]; [apply le_n|].
  destruct p; cbn [length]; [apply le_n|]. now apply le_S.
Qed.
Lemma drop_others_le : forall n l, (length (drop_others n l) <= length l)%nat.
Proof.
  induction n as [|n IH]; intros l; destruct l as [|p r]; cbn [drop_others length]; try apply le_n.
  destruct p; cbn [length]; [apply le_n|]. apply le_S. apply IH.
Qed.

(* every round of the skipping loop shortens the input: length l + 1 rounds always suffice *)
Lemma ring_skip_terminates_gen : forall fuel l, (length l < fuel)%nat -> exists n, ring_skip fuel l = Some n.
Proof.
  induction fuel as [|f IH]; intros l H; [inversion H|].
  cbn [ring_skip]. destruct l as [|p r]; cbn [read_entity]; [eauto|].
  cbn [length] in H. apply Nat.succ_lt_mono in H.
  destruct p as [[|] n|].
  - destruct (IH (skip_others r)) as [k E]; [eapply Nat.le_lt_trans; [apply skip_others_le|exact H]|].
    rewrite E. cbn [option_map]. eauto.
  - apply IH. eapply Nat.le_lt_trans; [apply skip_others_le|].
    eapply Nat.le_lt_trans; [apply drop_others_le|exact H].
  - apply IH. cbn [skip_others]. eapply Nat.le_lt_trans; [apply skip_others_le|exact H].
Qed.

Theorem ring_skip_terminates : forall l, exists n, ring_skip (S (length l)) l = Some n.
Proof. intros l. apply ring_skip_terminates_gen. apply Nat.lt_succ_diag_r. Qed.

(* a usable key, then a key that fails with a packet that is no key left in front: no amount of fuel is enough *)
Definition two_keys_second_damaged : list pkt := [PKey true 0; POther; PKey false 1; POther; POther].
Lemma ring_retry_stuck : forall fuel, ring_retry fuel [POther] = None.
Proof. induction fuel as [|f IH]; [reflexivity|]. cbn [ring_retry read_entity]. exact IH. Qed.
Theorem ring_retry_diverges : forall fuel, ring_retry fuel two_keys_second_damaged = None.
Proof.
  intros [|[|f]]; [reflexivity|reflexivity|].
  cbn [ring_retry read_entity two_keys_second_damaged skip_others drop_others option_map].
  rewrite ring_retry_stuck. reflexivity.
Qed.
Lemma ring_skip_on_witness : ring_skip 6 two_keys_second_damaged = Some 1%nat.
Proof. reflexivity. Qed.
