(* Proofs for C17 (UUID decoding per RFC 9562).  Part 1: bit-field algebra; part 2: what UUIDValue
   displays; part 3: textual forms and white space. *)
From WI Require Import Lib.Base Lib.Info Lib.Utf8 Lib.Strings Lib.Time Model.Uuid Spec.C17.
From WI Require Model.Base64 Proofs.Base64.
From Coq Require Import ZifyN ZifyNat ZifyBool.
Open Scope N_scope.
Ltac Zify.zify_post_hook ::= Z.to_euclidean_division_equations.

(* ---------- big-endian numbers ---------- *)
Lemma be_acc_app : forall l1 l2 a, be_to_N_acc a (l1 ++ l2) = be_to_N_acc (be_to_N_acc a l1) l2.
Proof. induction l1; intros; cbn; auto. Qed.

Lemma be_acc_shift : forall l a, be_to_N_acc a l = a * 256 ^ N.of_nat (length l) + be_to_N l.
Proof.
  unfold be_to_N. induction l; intros a0.
  - cbn. lia.
  - cbn [be_to_N_acc length]. rewrite IHl. rewrite (IHl (0 * 256 + a)).
    rewrite Nat2N.inj_succ, N.pow_succ_r'. lia.
Qed.

Lemma be_app : forall l1 l2, be_to_N (l1 ++ l2) = be_to_N l1 * 256 ^ N.of_nat (length l2) + be_to_N l2.
Proof. intros. unfold be_to_N at 1. rewrite be_acc_app, be_acc_shift. reflexivity. Qed.

Lemma be_bound : forall l, bytes_ok l = true -> be_to_N l < 256 ^ N.of_nat (length l).
Proof.
  induction l; intros H.
  - cbn. lia.
  - cbn in H. apply andb_prop in H. destruct H as [Ha Hl]. unfold byte_ok in Ha.
    change (a :: l) with ([a] ++ l). rewrite be_app. specialize (IHl Hl).
    cbn [length app]. rewrite Nat2N.inj_succ, N.pow_succ_r'.
    change (be_to_N [a]) with (0 * 256 + a). 
    assert (a < 256) by lia. nia.
Qed.

Lemma bits_div n lo w : bits n lo w = (n / 2 ^ lo) mod 2 ^ w.
Proof. unfold bits. rewrite N.land_ones, N.shiftr_div_pow2. reflexivity. Qed.

Lemma pow256 k : 256 ^ k = 2 ^ (8 * k).
Proof. change 256 with (2 ^ 8). rewrite <- N.pow_mul_r. reflexivity. Qed.

(* the bytes m of a ++ m ++ c, read as a number, are the corresponding bit field *)
Lemma bits_be : forall a m c, bytes_ok m = true -> bytes_ok c = true ->
  bits (be_to_N (a ++ m ++ c)) (8 * N.of_nat (length c)) (8 * N.of_nat (length m)) = be_to_N m.
Proof.
  intros a m c Hm Hc. rewrite bits_div, !be_app, <- !pow256.
  pose proof (be_bound _ Hm). pose proof (be_bound _ Hc).
  set (C := 256 ^ N.of_nat (length c)) in *. set (M := 256 ^ N.of_nat (length m)) in *.
  rewrite app_length, Nat2N.inj_add, N.pow_add_r. fold C M.
  assert (C <> 0) by (unfold C; apply N.pow_nonzero; lia).
  assert (M <> 0) by (unfold M; apply N.pow_nonzero; lia).
  replace (be_to_N a * (M * C) + (be_to_N m * C + be_to_N c)) with (be_to_N c + (be_to_N a * M + be_to_N m) * C) by lia.
  rewrite N.div_add by assumption. rewrite (N.div_small (be_to_N c) C) by assumption.
  rewrite N.add_0_l, N.add_comm, N.mod_add by assumption. apply N.mod_small. assumption.
Qed.
Lemma bits_shift n lo k w : bits n (lo + k) w = bits n lo (w + k) / 2 ^ k.
Proof.
  rewrite !bits_div. rewrite N.pow_add_r, <- N.div_div by (apply N.pow_nonzero; lia).
  set (x := n / 2 ^ lo). rewrite (N.add_comm w k), N.pow_add_r.
  assert (2 ^ k <> 0) by (apply N.pow_nonzero; lia). assert (2 ^ w <> 0) by (apply N.pow_nonzero; lia).
  rewrite N.mod_mul_r by assumption.
  set (y := (x / 2 ^ k) mod 2 ^ w).
  replace (x mod 2 ^ k + 2 ^ k * y) with (x mod 2 ^ k + y * 2 ^ k) by lia.
  rewrite N.div_add by assumption.
  rewrite N.div_small by (apply N.mod_lt; assumption). reflexivity.
Qed.

Lemma bits_narrow n lo w k : bits n lo w = bits n lo (w + k) mod 2 ^ w.
Proof.
  rewrite !bits_div. set (x := n / 2 ^ lo). rewrite N.pow_add_r.
  assert (2 ^ k <> 0) by (apply N.pow_nonzero; lia). assert (2 ^ w <> 0) by (apply N.pow_nonzero; lia).
  rewrite N.mod_mul_r by assumption.
  set (y := (x / 2 ^ w) mod 2 ^ k).
  replace (x mod 2 ^ w + 2 ^ w * y) with (x mod 2 ^ w + y * 2 ^ w) by lia.
  rewrite N.mod_add by assumption. rewrite N.mod_mod by assumption. reflexivity.
Qed.

(* disjoint bit ranges: | is + *)
Lemma lor_shiftl_add a b k : a < 2 ^ k -> N.lor a (N.shiftl b k) = a + b * 2 ^ k.
Proof.
  intros Ha. rewrite N.shiftl_mul_pow2.
  assert (N.land a (b * 2 ^ k) = 0).
  { apply N.bits_inj. intros i. rewrite N.land_spec, N.bits_0.
    destruct (N.lt_ge_cases i k) as [Hi | Hi].
    - rewrite N.mul_pow2_bits_low by assumption. apply andb_false_r.
    - destruct (N.eq_dec a 0) as [-> | Hnz]; [rewrite N.bits_0; reflexivity|].
      rewrite (N.bits_above_log2 a i); [reflexivity|].
      apply N.log2_lt_pow2 in Ha; lia. }
  rewrite <- N.lxor_lor by assumption. symmetry. apply N.add_nocarry_lxor. assumption.
Qed.

Section Fields.
  Variables b0 b1 b2 b3 b4 b5 b6 b7 b8 b9 b10 b11 b12 b13 b14 b15 : N.
  Let u := [b0; b1; b2; b3; b4; b5; b6; b7; b8; b9; b10; b11; b12; b13; b14; b15].
  Hypothesis Hok : bytes_ok u = true.
  Let n := be_to_N u.

  Ltac ok_sub Hok := 
    let H := fresh in pose proof Hok as H; cbn [bytes_ok forallb] in H;
    repeat (apply andb_prop in H; let Hx := fresh in destruct H as [Hx H]);
    cbn [bytes_ok forallb];
    repeat match goal with Hb : byte_ok _ = true |- _ => rewrite Hb; clear Hb end; reflexivity.

  Lemma f_tl : bits n 96 32 = be_to_N [b0; b1; b2; b3].
  Proof. refine (bits_be [] [b0; b1; b2; b3] [b4; b5; b6; b7; b8; b9; b10; b11; b12; b13; b14; b15] _ _); ok_sub Hok. Qed.
  Lemma f_tm : bits n 80 16 = be_to_N [b4; b5].
  Proof. refine (bits_be [b0; b1; b2; b3] [b4; b5] [b6; b7; b8; b9; b10; b11; b12; b13; b14; b15] _ _); ok_sub Hok. Qed.
  Lemma f_th : bits n 64 16 = be_to_N [b6; b7].
  Proof. refine (bits_be [b0; b1; b2; b3; b4; b5] [b6; b7] [b8; b9; b10; b11; b12; b13; b14; b15] _ _); ok_sub Hok. Qed.
  Lemma f_b6 : bits n 72 8 = b6.
  Proof. refine (bits_be [b0; b1; b2; b3; b4; b5] [b6] [b7; b8; b9; b10; b11; b12; b13; b14; b15] _ _); ok_sub Hok. Qed.
  Lemma f_ms : bits n 80 48 = be_to_N [b0; b1; b2; b3; b4; b5].
  Proof. refine (bits_be [] [b0; b1; b2; b3; b4; b5] [b6; b7; b8; b9; b10; b11; b12; b13; b14; b15] _ _); ok_sub Hok. Qed.
  Lemma f_cs : bits n 48 16 = be_to_N [b8; b9].
  Proof. refine (bits_be [b0; b1; b2; b3; b4; b5; b6; b7] [b8; b9] [b10; b11; b12; b13; b14; b15] _ _); ok_sub Hok. Qed.
  Lemma f_b9 : bits n 48 8 = b9.
  Proof. refine (bits_be [b0; b1; b2; b3; b4; b5; b6; b7; b8] [b9] [b10; b11; b12; b13; b14; b15] _ _); ok_sub Hok. Qed.
  Lemma f_node : bits n 0 48 = be_to_N [b10; b11; b12; b13; b14; b15].
  Proof. refine (bits_be [b0; b1; b2; b3; b4; b5; b6; b7; b8; b9] [b10; b11; b12; b13; b14; b15] [] _ _); ok_sub Hok. Qed.

  Lemma bound_tl : be_to_N [b0; b1; b2; b3] < 2 ^ 32.
  Proof. refine (be_bound [b0; b1; b2; b3] _). ok_sub Hok. Qed.
  Lemma bound_tm : be_to_N [b4; b5] < 2 ^ 16.
  Proof. refine (be_bound [b4; b5] _). ok_sub Hok. Qed.
  Lemma bound_th : be_to_N [b6; b7] < 2 ^ 16.
  Proof. refine (be_bound [b6; b7] _). ok_sub Hok. Qed.
  Lemma bound_ms : be_to_N [b0; b1; b2; b3; b4; b5] < 2 ^ 48.
  Proof. refine (be_bound [b0; b1; b2; b3; b4; b5] _). ok_sub Hok. Qed.

  (* 4.2: the version shown is the version field *)
  Lemma version_spec : version u = spec_version n.
  Proof.
    unfold spec_version. change (bits n 76 4) with (bits n (72 + 4) 4).
    rewrite bits_shift. change (4 + 4) with 8. rewrite f_b6. reflexivity.
  Qed.

  Lemma time_v1_spec : (version u =? 6) = false -> (version u =? 7) = false ->
    lib_time u = Z.of_N (spec_time_v1 n).
  Proof.
    intros H6 H7. unfold lib_time. rewrite H6, H7. f_equal.
    change (sub u 0 4) with [b0; b1; b2; b3]. change (sub u 4 6) with [b4; b5]. change (sub u 6 8) with [b6; b7].
    change 4095 with (N.ones 12). rewrite N.land_ones.
    pose proof bound_tl. pose proof bound_tm. pose proof bound_th.
    unfold spec_time_v1.
    rewrite f_tl, f_tm, (bits_narrow n 64 12 4). change (12 + 4) with 16. rewrite f_th.
    set (TL := be_to_N [b0; b1; b2; b3]) in *. set (TM := be_to_N [b4; b5]) in *. set (TH := be_to_N [b6; b7]) in *.
    rewrite (lor_shiftl_add TL TM 32) by assumption.
    rewrite lor_shiftl_add; [reflexivity|].
    change (2 ^ 48) with 281474976710656. change (2 ^ 32) with 4294967296 in *. change (2 ^ 16) with 65536 in *. lia.
  Qed.

  Lemma time_v6_spec : v6_time u = Z.of_N (spec_time_v6 n).
  Proof.
    unfold v6_time. f_equal.
    change (sub u 0 4) with [b0; b1; b2; b3]. change (sub u 4 6) with [b4; b5]. change (sub u 6 8) with [b6; b7].
    change 4095 with (N.ones 12). rewrite N.land_ones.
    pose proof bound_tl. pose proof bound_tm. pose proof bound_th.
    unfold spec_time_v6.
    rewrite f_tl, f_tm, (bits_narrow n 64 12 4). change (12 + 4) with 16. rewrite f_th.
    set (TL := be_to_N [b0; b1; b2; b3]) in *. set (TM := be_to_N [b4; b5]) in *. set (TH := be_to_N [b6; b7]) in *.
    assert (Hlo : TH mod 2 ^ 12 < 2 ^ 12) by (apply N.mod_lt; discriminate).
    rewrite <- N.lor_assoc. rewrite (N.lor_comm (N.shiftl TM 12)).
    rewrite (lor_shiftl_add (TH mod 2 ^ 12) TM 12) by assumption.
    rewrite N.lor_comm. rewrite lor_shiftl_add; [lia|].
    change (2 ^ 28) with 268435456. change (2 ^ 12) with 4096 in *. change (2 ^ 16) with 65536 in *. lia.
  Qed.

  Lemma time_v7_spec : (version u =? 6) = false -> (version u =? 7) = true ->
    lib_time u = (Z.of_N (spec_ms_v7 n) * 10000 + gregorian_offset)%Z.
  Proof.
    intros H6 H7. unfold lib_time. rewrite H6, H7.
    change (sub u 0 8) with [b0; b1; b2; b3; b4; b5; b6; b7]. unfold spec_ms_v7. rewrite f_ms.
    pose proof bound_ms. pose proof bound_th.
    change [b0; b1; b2; b3; b4; b5; b6; b7] with ([b0; b1; b2; b3; b4; b5] ++ [b6; b7]). rewrite be_app.
    cbn [length]. change (256 ^ N.of_nat 2) with 65536. rewrite N.shiftr_div_pow2.
    change (2 ^ 16) with 65536 in *. change (2 ^ 48) with 281474976710656 in *.
    set (MS := be_to_N [b0; b1; b2; b3; b4; b5]) in *. set (TH := be_to_N [b6; b7]) in *.
    replace ((MS * 65536 + TH) / 65536) with MS by lia.
    change (Z.to_N g1582ns100) with 122192928000000000.
    rewrite N.mod_small by lia.
    unfold wrap64, gregorian_offset. lia.
  Qed.
End Fields.

Lemma wrap64_small z : (- 9223372036854775808 <= z < 9223372036854775808)%Z -> wrap64 z = z.
Proof. unfold wrap64. lia. Qed.

Lemma unix_norm_trunc d :
  unix_norm (Z.quot d 10000000) (Z.rem d 10000000 * 100) = (spec_sec d, spec_nsec d).
Proof.
  unfold unix_norm, spec_sec, spec_nsec.
  f_equal; lia.
Qed.

Lemma time_utc_string_spec t : (0 <= t < 9223372036854775808)%Z ->
  time_utc_string t = fmt_datetime_frac7_utc (spec_sec (t - gregorian_offset)) (spec_nsec (t - gregorian_offset)).
Proof.
  intros Ht. unfold time_utc_string, lib_unix_time.
  rewrite wrap64_small by (unfold g1582ns100; lia).
  change g1582ns100 with gregorian_offset.
  rewrite unix_norm_trunc. reflexivity.
Qed.
(* ================= part 2: what UUIDValue displays ================= *)
Ltac destruct_uuid u H :=
  let Hl := fresh "Hl" in let Hok := fresh "Hok" in
  unfold uuid_ok in H; apply andb_prop in H; destruct H as [Hl Hok];
  do 16 (destruct u as [| ?b u]; [discriminate Hl|]);
  destruct u; [clear Hl | discriminate Hl].

Lemma bits_lt n lo w : bits n lo w < 2 ^ w.
Proof. rewrite bits_div. apply N.mod_lt. apply N.pow_nonzero. lia. Qed.

Lemma version_ok u : uuid_ok u = true -> version u = spec_version (be_to_N u).
Proof. intros H. destruct_uuid u H. eapply version_spec; eassumption. Qed.

Lemma lib_time_v1 u : uuid_ok u = true -> (version u =? 6) = false -> (version u =? 7) = false ->
  lib_time u = Z.of_N (spec_time_v1 (be_to_N u)).
Proof. intros H. destruct_uuid u H. eapply time_v1_spec; eassumption. Qed.
Lemma v6_time_ok u : uuid_ok u = true -> v6_time u = Z.of_N (spec_time_v6 (be_to_N u)).
Proof. intros H. destruct_uuid u H. eapply time_v6_spec; eassumption. Qed.
Lemma lib_time_v7 u : uuid_ok u = true -> (version u =? 6) = false -> (version u =? 7) = true ->
  lib_time u = (Z.of_N (spec_ms_v7 (be_to_N u)) * 10000 + gregorian_offset)%Z.
Proof. intros H. destruct_uuid u H. eapply time_v7_spec; eassumption. Qed.

Lemma spec_time_v1_lt n : spec_time_v1 n < 2 ^ 60.
Proof.
  unfold spec_time_v1. pose proof (bits_lt n 96 32). pose proof (bits_lt n 80 16). pose proof (bits_lt n 64 12).
  change (2 ^ 60) with 1152921504606846976. change (2 ^ 48) with 281474976710656.
  change (2 ^ 32) with 4294967296 in *. change (2 ^ 16) with 65536 in *. change (2 ^ 12) with 4096 in *. lia.
Qed.
Lemma spec_time_v6_lt n : spec_time_v6 n < 2 ^ 60.
Proof.
  unfold spec_time_v6. pose proof (bits_lt n 96 32). pose proof (bits_lt n 80 16). pose proof (bits_lt n 64 12).
  change (2 ^ 60) with 1152921504606846976. change (2 ^ 28) with 268435456.
  change (2 ^ 32) with 4294967296 in *. change (2 ^ 16) with 65536 in *. change (2 ^ 12) with 4096 in *. lia.
Qed.
Lemma spec_ms_v7_lt n : spec_ms_v7 n < 2 ^ 48.
Proof. apply bits_lt. Qed.

(* the switch of UUIDValue, branch by branch *)
Lemma describe_v1 c u : version u = 1 ->
  describe_gen c u = leaf (bs "UUID v1 (Gregorian time)") [a_node u; a_raw (lib_time u); a_utc (lib_time u); a_clock u].
Proof. intros H. unfold describe_gen. rewrite H. reflexivity. Qed.
Lemma describe_v2 c u : version u = 2 ->
  describe_gen c u = leaf (bs "UUID v2 (DCE)")
    [(bs "Domain", domain_string (dce_domain u)); (bs "Id", dec_of_N (dce_id u)); a_node u;
     a_raw (lib_time u); a_utc (lib_time u); a_clock u].
Proof. intros H. unfold describe_gen. rewrite H. reflexivity. Qed.
Lemma describe_v6 u : version u = 6 ->
  describe u = leaf (bs "UUID v6 (reordered Gregorian time)") [a_raw (v6_time u); a_utc (v6_time u)].
Proof. intros H. unfold describe, describe_gen. rewrite H. reflexivity. Qed.
Lemma describe_v7 c u : version u = 7 ->
  describe_gen c u = leaf (bs "UUID v7 (Unix epoch time)") [a_raw (lib_time u); a_utc (lib_time u)].
Proof. intros H. unfold describe_gen. rewrite H. reflexivity. Qed.

Lemma some_inj {A} (x y : A) : Some x = Some y -> x = y.
Proof. intros H. inversion H. reflexivity. Qed.

(* C17_time *)
Theorem time_shown : forall u d, uuid_ok u = true -> spec_unix100 (be_to_N u) = Some d ->
  shown "Time (UTC)" (describe u) = Some (fmt_datetime_frac7_utc (spec_sec d) (spec_nsec d)).
Proof.
  intros u d Hu Hd. pose proof (version_ok u Hu) as Hv. unfold spec_unix100 in Hd. rewrite <- Hv in Hd.
  destruct (version u =? 1) eqn:E1; [| destruct (version u =? 6) eqn:E6; [| destruct (version u =? 7) eqn:E7; [| discriminate]]].
  - apply N.eqb_eq in E1. apply some_inj in Hd; subst d. unfold describe. rewrite describe_v1 by assumption.
    change (shown "Time (UTC)" _) with (Some (time_utc_string (lib_time u))).
    rewrite lib_time_v1 by (try assumption; rewrite E1; reflexivity).
    pose proof (spec_time_v1_lt (be_to_N u)). change (2 ^ 60) with 1152921504606846976 in *.
    rewrite time_utc_string_spec by lia. reflexivity.
  - apply N.eqb_eq in E6. apply some_inj in Hd; subst d. rewrite describe_v6 by assumption.
    change (shown "Time (UTC)" _) with (Some (time_utc_string (v6_time u))).
    rewrite v6_time_ok by assumption.
    pose proof (spec_time_v6_lt (be_to_N u)). change (2 ^ 60) with 1152921504606846976 in *.
    rewrite time_utc_string_spec by lia. reflexivity.
  - apply some_inj in Hd; subst d. unfold describe. rewrite describe_v7 by (apply N.eqb_eq; assumption).
    change (shown "Time (UTC)" _) with (Some (time_utc_string (lib_time u))).
    rewrite lib_time_v7 by assumption.
    pose proof (spec_ms_v7_lt (be_to_N u)). change (2 ^ 48) with 281474976710656 in *.
    rewrite time_utc_string_spec by (unfold gregorian_offset; lia).
    replace (Z.of_N (spec_ms_v7 (be_to_N u)) * 10000 + gregorian_offset - gregorian_offset)%Z
      with (Z.of_N (spec_ms_v7 (be_to_N u)) * 10000)%Z by lia.
    reflexivity.
Qed.

(* "Time (raw)" of versions 1 and 6 is the 60-bit timestamp *)
Theorem raw_shown : forall u, uuid_ok u = true ->
  (spec_version (be_to_N u) = 1 -> shown "Time (raw)" (describe u) = Some (dec_of_Z (Z.of_N (spec_time_v1 (be_to_N u))))) /\
  (spec_version (be_to_N u) = 6 -> shown "Time (raw)" (describe u) = Some (dec_of_Z (Z.of_N (spec_time_v6 (be_to_N u))))).
Proof.
  intros u Hu. rewrite <- (version_ok u Hu). split; intros Hv.
  - unfold describe. rewrite describe_v1 by assumption.
    change (shown "Time (raw)" _) with (Some (dec_of_Z (lib_time u))).
    rewrite lib_time_v1 by (try assumption; rewrite Hv; reflexivity). reflexivity.
  - rewrite describe_v6 by assumption.
    change (shown "Time (raw)" _) with (Some (dec_of_Z (v6_time u))).
    rewrite v6_time_ok by assumption. reflexivity.
Qed.

(* ---------- node, clock sequence, DCE domain and identifier ---------- *)
Lemma N_to_be_app : forall w n, N_to_be (S w) n = N_to_be w (n / 256) ++ [n mod 256].
Proof. reflexivity. Qed.

Lemma N_to_be_be : forall l, bytes_ok l = true -> N_to_be (length l) (be_to_N l) = l.
Proof.
  intros l. induction l using rev_ind; intros H.
  - reflexivity.
  - unfold bytes_ok in H. rewrite forallb_app in H. apply andb_prop in H. destruct H as [Hl Hx].
    cbn in Hx. rewrite andb_true_r in Hx. unfold byte_ok in Hx.
    rewrite app_length. cbn [length]. rewrite Nat.add_1_r. rewrite N_to_be_app.
    rewrite be_app. cbn [length]. change (256 ^ N.of_nat 1) with 256. change (be_to_N [x]) with (0 * 256 + x).
    assert (x < 256) by lia.
    replace ((be_to_N l * 256 + (0 * 256 + x)) / 256) with (be_to_N l) by lia.
    replace ((be_to_N l * 256 + (0 * 256 + x)) mod 256) with x by lia.
    rewrite IHl by exact Hl. reflexivity.
Qed.

Lemma fields_ok u : uuid_ok u = true ->
  let n := be_to_N u in
  node_id u = N_to_be 6 (spec_node n) /\ clock_sequence u = spec_clock_seq n /\
  dce_domain u = spec_dce_domain n /\ dce_id u = spec_dce_id n.
Proof.
  intros H. destruct_uuid u H. cbv zeta. repeat split.
  - unfold spec_node. rewrite (f_node _ _ _ _ _ _ _ _ _ _ _ _ _ _ _ _ Hok).
    change (node_id _) with [b9; b10; b11; b12; b13; b14].
    symmetry. apply (N_to_be_be [b9; b10; b11; b12; b13; b14]).
    cbn [bytes_ok forallb] in *. repeat (apply andb_prop in Hok; let Hx := fresh in destruct Hok as [Hx Hok]).
    repeat match goal with Hb : byte_ok _ = true |- _ => rewrite Hb; clear Hb end. reflexivity.
  - unfold spec_clock_seq, clock_sequence. rewrite (bits_narrow _ 48 14 2). change (14 + 2) with 16.
    rewrite (f_cs _ _ _ _ _ _ _ _ _ _ _ _ _ _ _ _ Hok). change 16383 with (N.ones 14). rewrite N.land_ones. reflexivity.
  - unfold spec_dce_domain, spec_octet. change (8 * (15 - 9)) with 48.
    rewrite (f_b9 _ _ _ _ _ _ _ _ _ _ _ _ _ _ _ _ Hok). reflexivity.
  - unfold spec_dce_id. rewrite (f_tl _ _ _ _ _ _ _ _ _ _ _ _ _ _ _ _ Hok). reflexivity.
Qed.

Lemma domain_string_spec d : domain_string d = spec_domain_name d.
Proof. reflexivity. Qed.

(* C17_fields *)
Theorem fields_shown : forall u, uuid_ok u = true ->
  let n := be_to_N u in
  (spec_version n = 1 ->
     shown "Node id" (describe u) = Some (hex_of false (N_to_be 6 (spec_node n))) /\
     shown "Clock sequence" (describe u) = Some (dec_of_N (spec_clock_seq n))) /\
  (spec_version n = 2 ->
     shown "Domain" (describe u) = Some (spec_domain_name (spec_dce_domain n)) /\
     shown "Id" (describe u) = Some (dec_of_N (spec_dce_id n)) /\
     shown "Node id" (describe u) = Some (hex_of false (N_to_be 6 (spec_node n)))).
Proof.
  intros u Hu. cbv zeta. pose proof (fields_ok u Hu) as F. cbv zeta in F. destruct F as (Hn & Hc & Hd & Hi).
  rewrite <- (version_ok u Hu). split; intros Hv; unfold describe.
  - rewrite describe_v1 by assumption. split.
    + change (shown "Node id" _) with (Some (hex_of false (node_id u))). rewrite Hn. reflexivity.
    + change (shown "Clock sequence" _) with (Some (dec_of_N (clock_sequence u))). rewrite Hc. reflexivity.
  - rewrite describe_v2 by assumption. repeat split.
    + change (shown "Domain" _) with (Some (domain_string (dce_domain u))). rewrite Hd. reflexivity.
    + change (shown "Id" _) with (Some (dec_of_N (dce_id u))). rewrite Hi. reflexivity.
    + change (shown "Node id" _) with (Some (hex_of false (node_id u))). rewrite Hn. reflexivity.
Qed.

(* ---------- Nil and Max ---------- *)
Definition byte_range : list N := map N.of_nat (seq 0 256).
Lemma byte_range_all b : b < 256 -> In b byte_range.
Proof.
  intros H. unfold byte_range. apply in_map_iff. exists (N.to_nat b). split; [lia|].
  apply in_seq. lia.
Qed.
Lemma hexpair_nil : forall b, byte_ok b = true ->
  (hex_digit false (b / 16) =? 48) && (hex_digit false (b mod 16) =? 48) = (b =? 0).
Proof.
  assert (H : forallb (fun b => Bool.eqb ((hex_digit false (b / 16) =? 48) && (hex_digit false (b mod 16) =? 48)) (b =? 0)) byte_range = true)
    by (vm_compute; reflexivity).
  intros b Hb. rewrite forallb_forall in H. apply eqb_prop. apply H. apply byte_range_all. unfold byte_ok in Hb. lia.
Qed.
Lemma hexpair_max : forall b, byte_ok b = true ->
  (hex_digit false (b / 16) =? 102) && (hex_digit false (b mod 16) =? 102) = (b =? 255).
Proof.
  assert (H : forallb (fun b => Bool.eqb ((hex_digit false (b / 16) =? 102) && (hex_digit false (b mod 16) =? 102)) (b =? 255)) byte_range = true)
    by (vm_compute; reflexivity).
  intros b Hb. rewrite forallb_forall in H. apply eqb_prop. apply H. apply byte_range_all. unfold byte_ok in Hb. lia.
Qed.

Lemma pair_nil b X : byte_ok b = true ->
  (hex_digit false (b / 16) =? 48) && ((hex_digit false (b mod 16) =? 48) && X) = (b =? 0) && X.
Proof. intros H. rewrite andb_assoc, hexpair_nil by assumption. reflexivity. Qed.
Lemma pair_max b X : byte_ok b = true ->
  (hex_digit false (b / 16) =? 102) && ((hex_digit false (b mod 16) =? 102) && X) = (b =? 255) && X.
Proof. intros H. rewrite andb_assoc, hexpair_max by assumption. reflexivity. Qed.

Lemma canon_nil_eq u : uuid_ok u = true -> bytes_eqb (canon u) (canon nil_uuid) = bytes_eqb u nil_uuid.
Proof.
  intros H. destruct_uuid u H.
  cbn [bytes_ok forallb] in Hok. repeat (apply andb_prop in Hok; let Hx := fresh in destruct Hok as [Hx Hok]).
  change (canon nil_uuid) with (repeat 48 8 ++ [45] ++ repeat 48 4 ++ [45] ++ repeat 48 4 ++ [45] ++ repeat 48 4 ++ [45] ++ repeat 48 12).
  cbn [canon hex_of flat_map hex_byte app take drop bytes_eqb nil_uuid repeat].
  change (hyphen =? 45) with true. cbn [andb].
  rewrite !pair_nil by assumption. reflexivity.
Qed.
Lemma canon_max_eq u : uuid_ok u = true -> bytes_eqb (canon u) (canon max_uuid) = bytes_eqb u max_uuid.
Proof.
  intros H. destruct_uuid u H.
  cbn [bytes_ok forallb] in Hok. repeat (apply andb_prop in Hok; let Hx := fresh in destruct Hok as [Hx Hok]).
  change (canon max_uuid) with (repeat 102 8 ++ [45] ++ repeat 102 4 ++ [45] ++ repeat 102 4 ++ [45] ++ repeat 102 4 ++ [45] ++ repeat 102 12).
  cbn [canon hex_of flat_map hex_byte app take drop bytes_eqb max_uuid repeat].
  change (hyphen =? 45) with true. cbn [andb].
  rewrite !pair_max by assumption. reflexivity.
Qed.

Lemma be_cons a l : be_to_N (a :: l) = a * 256 ^ N.of_nat (length l) + be_to_N l.
Proof. change (a :: l) with ([a] ++ l). rewrite be_app. change (be_to_N [a]) with (0 * 256 + a). lia. Qed.

Lemma eqb_zeros : forall l, bytes_eqb l (repeat 0 (length l)) = (be_to_N l =? 0).
Proof.
  induction l.
  - reflexivity.
  - cbn [length repeat bytes_eqb]. rewrite IHl, be_cons.
    assert (256 ^ N.of_nat (length l) <> 0) by (apply N.pow_nonzero; lia).
    destruct (a =? 0) eqn:Ea; destruct (be_to_N l =? 0) eqn:El; cbn [andb]; symmetry.
    + apply N.eqb_eq. apply N.eqb_eq in Ea, El. rewrite Ea, El. lia.
    + apply N.eqb_neq. apply N.eqb_eq in Ea. apply N.eqb_neq in El. rewrite Ea. lia.
    + apply N.eqb_neq. apply N.eqb_neq in Ea. nia.
    + apply N.eqb_neq. apply N.eqb_neq in Ea. nia.
Qed.
Lemma eqb_ffs : forall l, bytes_ok l = true ->
  bytes_eqb l (repeat 255 (length l)) = (be_to_N l =? 256 ^ N.of_nat (length l) - 1).
Proof.
  induction l; intros Hok.
  - reflexivity.
  - cbn [bytes_ok forallb] in Hok. apply andb_prop in Hok. destruct Hok as [Ha Hl]. unfold byte_ok in Ha.
    cbn [length repeat bytes_eqb]. rewrite (IHl Hl), be_cons. pose proof (be_bound l Hl) as Hb.
    rewrite Nat2N.inj_succ, N.pow_succ_r'.
    set (P := 256 ^ N.of_nat (length l)) in *. set (r := be_to_N l) in *.
    assert (a < 256) by lia.
    destruct (a =? 255) eqn:Ea; destruct (r =? P - 1) eqn:El; cbn [andb]; symmetry.
    + apply N.eqb_eq. apply N.eqb_eq in Ea, El. nia.
    + apply N.eqb_neq. apply N.eqb_eq in Ea. apply N.eqb_neq in El. nia.
    + apply N.eqb_neq. apply N.eqb_neq in Ea. nia.
    + apply N.eqb_neq. apply N.eqb_neq in Ea. nia.
Qed.

Lemma nil_test u : uuid_ok u = true -> bytes_eqb (canon u) (canon nil_uuid) = (be_to_N u =? spec_nil).
Proof.
  intros H. rewrite canon_nil_eq by assumption. unfold uuid_ok in H. apply andb_prop in H. destruct H as [Hl _].
  apply Nat.eqb_eq in Hl. unfold nil_uuid. rewrite <- Hl. apply eqb_zeros.
Qed.
Lemma max_test u : uuid_ok u = true -> bytes_eqb (canon u) (canon max_uuid) = (be_to_N u =? spec_max).
Proof.
  intros H. rewrite canon_max_eq by assumption. unfold uuid_ok in H. apply andb_prop in H. destruct H as [Hl Hok].
  apply Nat.eqb_eq in Hl. unfold max_uuid. rewrite <- Hl. rewrite eqb_ffs by assumption. rewrite Hl. reflexivity.
Qed.

(* ---------- description: version, Nil, Max ---------- *)
Lemma describe_v0 c u : version u = 0 ->
  describe_gen c u = if bytes_eqb (canon u) (canon nil_uuid) then leaf (bs "UUID (Nil UUID)") [] else leaf (bs "UUID (unknown type)") [].
Proof. intros H. unfold describe_gen. rewrite H. reflexivity. Qed.
Lemma describe_v15 u : version u = 15 ->
  describe u = if bytes_eqb (canon u) (canon max_uuid) then leaf (bs "UUID (Max UUID)") [] else leaf (bs "UUID (unknown type)") [].
Proof. intros H. unfold describe, describe_gen. rewrite H. reflexivity. Qed.

(* C17_version (exact form) *)
Theorem description_shown : forall u, uuid_ok u = true -> i_desc (describe u) = spec_description (be_to_N u).
Proof.
  intros u Hu. pose proof (version_ok u Hu) as Hv. pose proof (nil_test u Hu) as Hn. pose proof (max_test u Hu) as Hm.
  unfold spec_description.
  destruct (be_to_N u =? spec_nil) eqn:En.
  - apply N.eqb_eq in En. assert (H0 : version u = 0) by (rewrite Hv, En; reflexivity).
    unfold describe. rewrite describe_v0 by assumption. rewrite Hn. reflexivity.
  - destruct (be_to_N u =? spec_max) eqn:Em.
    + apply N.eqb_eq in Em. assert (H15 : version u = 15) by (rewrite Hv, Em; vm_compute; reflexivity).
      rewrite describe_v15 by assumption. rewrite Hm. reflexivity.
    + rewrite <- Hv. unfold describe, describe_gen. cbv zeta. rewrite Hn, Hm.
      destruct (version u =? 0) eqn:E0. { apply N.eqb_eq in E0. rewrite E0. reflexivity. }
      destruct (version u =? 1) eqn:E1. { apply N.eqb_eq in E1. rewrite E1. reflexivity. }
      destruct (version u =? 2) eqn:E2. { apply N.eqb_eq in E2. rewrite E2. reflexivity. }
      destruct (version u =? 3) eqn:E3. { apply N.eqb_eq in E3. rewrite E3. reflexivity. }
      destruct (version u =? 4) eqn:E4. { apply N.eqb_eq in E4. rewrite E4. reflexivity. }
      destruct (version u =? 5) eqn:E5. { apply N.eqb_eq in E5. rewrite E5. reflexivity. }
      destruct (version u =? 6) eqn:E6. { apply N.eqb_eq in E6. rewrite E6. reflexivity. }
      destruct (version u =? 7) eqn:E7. { apply N.eqb_eq in E7. rewrite E7. reflexivity. }
      destruct (version u =? 8) eqn:E8. { apply N.eqb_eq in E8. rewrite E8. reflexivity. }
      unfold version_name. rewrite E1, E2, E3, E4, E5, E6, E7, E8.
      destruct (version u =? 15); reflexivity.
Qed.

Lemma spec_version_lt n : spec_version n < 16.
Proof. apply (bits_lt n 76 4). Qed.

(* the version number claimed is the version field, for the versions RFC 9562 defines; no version is
   claimed otherwise *)
Theorem version_shown : forall u, uuid_ok u = true ->
  let v := spec_version (be_to_N u) in
  shown_version (i_desc (describe u)) = if (1 <=? v) && (v <=? 8) then Some v else None.
Proof.
  intros u Hu. cbv zeta. rewrite description_shown by assumption. unfold spec_description.
  destruct (be_to_N u =? spec_nil) eqn:En.
  - apply N.eqb_eq in En. rewrite En. reflexivity.
  - destruct (be_to_N u =? spec_max) eqn:Em.
    + apply N.eqb_eq in Em. rewrite Em. vm_compute. reflexivity.
    + set (v := spec_version (be_to_N u)). unfold version_name.
      destruct (v =? 1) eqn:E1. { apply N.eqb_eq in E1. rewrite E1. reflexivity. }
      destruct (v =? 2) eqn:E2. { apply N.eqb_eq in E2. rewrite E2. reflexivity. }
      destruct (v =? 3) eqn:E3. { apply N.eqb_eq in E3. rewrite E3. reflexivity. }
      destruct (v =? 4) eqn:E4. { apply N.eqb_eq in E4. rewrite E4. reflexivity. }
      destruct (v =? 5) eqn:E5. { apply N.eqb_eq in E5. rewrite E5. reflexivity. }
      destruct (v =? 6) eqn:E6. { apply N.eqb_eq in E6. rewrite E6. reflexivity. }
      destruct (v =? 7) eqn:E7. { apply N.eqb_eq in E7. rewrite E7. reflexivity. }
      destruct (v =? 8) eqn:E8. { apply N.eqb_eq in E8. rewrite E8. reflexivity. }
      replace ((1 <=? v) && (v <=? 8)) with false; [reflexivity|].
      symmetry. apply andb_false_iff. apply N.eqb_neq in E1, E2, E3, E4, E5, E6, E7, E8.
      destruct (N.le_gt_cases v 8) as [Hle | Hgt]; [left | right]; [apply N.leb_gt | apply N.leb_gt]; lia.
Qed.

Lemma version_name_not_nil_max v :
  version_name v <> bs "UUID (Nil UUID)" /\ version_name v <> bs "UUID (Max UUID)".
Proof. unfold version_name. repeat match goal with |- context [if ?c then _ else _] => destruct c end; split; discriminate. Qed.

(* C17_nil_max *)
Theorem nil_max_shown :
  i_desc (describe nil_uuid) = bs "UUID (Nil UUID)" /\ i_desc (describe max_uuid) = bs "UUID (Max UUID)" /\
  forall u, uuid_ok u = true ->
    (i_desc (describe u) = bs "UUID (Nil UUID)" <-> be_to_N u = spec_nil) /\
    (i_desc (describe u) = bs "UUID (Max UUID)" <-> be_to_N u = spec_max).
Proof.
  split; [vm_compute; reflexivity|]. split; [vm_compute; reflexivity|].
  intros u Hu. rewrite description_shown by assumption. unfold spec_description.
  destruct (version_name_not_nil_max (spec_version (be_to_N u))) as [Hnn Hnm].
  destruct (be_to_N u =? spec_nil) eqn:En; [apply N.eqb_eq in En | apply N.eqb_neq in En].
  - split; split; intros H; try reflexivity; try assumption; try discriminate.
    rewrite En in H. discriminate.
  - destruct (be_to_N u =? spec_max) eqn:Em; [apply N.eqb_eq in Em | apply N.eqb_neq in Em].
    + split; split; intros H; try reflexivity; try assumption; try discriminate. contradiction.
    + split; split; intros H; try contradiction.
Qed.

(* ================= part 3: textual forms and white space ================= *)
Ltac case_ifs := repeat match goal with |- context [if ?c then _ else _] =>
  lazymatch c with context [if _ then _ else _] => fail | _ => destruct c eqn:? end end.

Lemma xval_lower c : xval (to_lower_ascii c) = xval c.
Proof. unfold xval, to_lower_ascii. case_ifs; lia. Qed.

Lemma xval_hex_digit d : d < 16 -> xval (hex_digit false d) = d.
Proof. intros H. unfold xval, hex_digit. case_ifs; lia. Qed.

Lemma xval_inv c : xval c <> 255 -> xval c < 16 /\ to_lower_ascii c = hex_digit false (xval c).
Proof. unfold xval, to_lower_ascii, hex_digit. case_ifs; lia. Qed.

Lemma xtob_lower c1 c2 b : byte_ok b = true ->
  to_lower_ascii c1 = hex_digit false (b / 16) -> to_lower_ascii c2 = hex_digit false (b mod 16) ->
  xtob c1 c2 = Some b.
Proof.
  intros Hb H1 H2. unfold byte_ok in Hb. unfold xtob.
  rewrite <- (xval_lower c1), <- (xval_lower c2), H1, H2.
  rewrite !xval_hex_digit by lia.
  replace (b / 16 =? 255) with false by lia. replace (b mod 16 =? 255) with false by lia.
  cbn [orb]. f_equal. lia.
Qed.

Lemma xtob_inv c1 c2 b : xtob c1 c2 = Some b ->
  byte_ok b = true /\ to_lower_ascii c1 = hex_digit false (b / 16) /\ to_lower_ascii c2 = hex_digit false (b mod 16).
Proof.
  unfold xtob. destruct (xval c1 =? 255) eqn:E1; [discriminate|]. destruct (xval c2 =? 255) eqn:E2; [discriminate|].
  cbn [orb]. intros H. apply some_inj in H. apply N.eqb_neq in E1, E2.
  destruct (xval_inv c1 E1) as [L1 T1]. destruct (xval_inv c2 E2) as [L2 T2].
  subst b. unfold byte_ok.
  replace ((xval c1 * 16 + xval c2) / 16) with (xval c1) by lia.
  replace ((xval c1 * 16 + xval c2) mod 16) with (xval c2) by lia.
  repeat split; try assumption. lia.
Qed.

Lemma hex_decode_of : forall u t, bytes_ok u = true -> map to_lower_ascii t = hex_of false u -> hex_decode t = Some u.
Proof.
  induction u as [| b u IH]; intros t Hok Hm.
  - destruct t; [reflexivity | discriminate].
  - cbn [bytes_ok forallb] in Hok. apply andb_prop in Hok. destruct Hok as [Hb Hu].
    cbn [hex_of flat_map hex_byte app] in Hm.
    destruct t as [| c1 [| c2 t]]; try discriminate.
    cbn [map] in Hm. injection Hm as H1 H2 Hm.
    cbn [hex_decode]. rewrite (xtob_lower c1 c2 b Hb H1 H2). rewrite (IH t Hu Hm). reflexivity.
Qed.

Lemma hex_decode_inv : forall u t, hex_decode t = Some u ->
  bytes_ok u = true /\ map to_lower_ascii t = hex_of false u /\ length t = (2 * length u)%nat.
Proof.
  induction u as [| b u IH]; intros t H.
  - destruct t as [| c1 [| c2 t]]; cbn [hex_decode] in H.
    + repeat split.
    + discriminate.
    + destruct (xtob c1 c2); [destruct (hex_decode t)|]; discriminate.
  - destruct t as [| c1 [| c2 t]]; cbn [hex_decode] in H; try discriminate.
    destruct (xtob c1 c2) as [b'|] eqn:Ex; [|discriminate].
    destruct (hex_decode t) as [l|] eqn:Et; [|discriminate].
    apply some_inj in H. injection H as -> ->.
    destruct (xtob_inv _ _ _ Ex) as (Hb & H1 & H2). destruct (IH t Et) as (Hu & Hm & Hl).
    repeat split.
    + cbn [bytes_ok forallb]. rewrite Hb. exact Hu.
    + cbn [map hex_of flat_map hex_byte app]. rewrite H1, H2. f_equal. f_equal. exact Hm.
    + cbn [length]. lia.
Qed.

Lemma lower_fix c d : to_lower_ascii c = d -> (d <? 97) || (122 <? d) = true -> c = d.
Proof. unfold to_lower_ascii. case_ifs; lia. Qed.

Ltac invert_map H :=
  repeat match type of H with
  | map _ ?t = _ :: _ =>
      destruct t as [| ?c t]; [discriminate H|]; cbn [map] in H;
      let E := fresh "E" in injection H as E H
  | map _ ?t = [] => destruct t; [clear H | discriminate H]
  end.
Ltac rewrite_lowers :=
  repeat match goal with E : to_lower_ascii _ = _ |- _ => rewrite E; clear E end.

(* the tail of Parse on a canonical text in any letter case, whatever follows it *)
Lemma parse36_canon u t rest : uuid_ok u = true -> map to_lower_ascii t = canon u -> parse36 (t ++ rest) = Ok u.
Proof.
  intros H Hm. destruct_uuid u H.
  cbn [canon hex_of flat_map hex_byte app take drop] in Hm.
  invert_map Hm.
  apply lower_fix in E7; [| reflexivity]. apply lower_fix in E12; [| reflexivity].
  apply lower_fix in E17; [| reflexivity]. apply lower_fix in E22; [| reflexivity]. subst.
  unfold parse36, dehyphen. cbn [app nth take drop]. rewrite !N.eqb_refl. cbn [andb].
  rewrite (hex_decode_of _ _ Hok); [reflexivity|].
  cbn [map hex_of flat_map hex_byte app]. rewrite_lowers. reflexivity.
Qed.

Lemma take_app_exact {A} (p q : list A) : take (length p) (p ++ q) = p.
Proof. induction p; cbn; [destruct q; reflexivity | f_equal; assumption]. Qed.
Lemma drop_app_exact {A} (p q : list A) : drop (length p) (p ++ q) = q.
Proof. induction p; cbn; [reflexivity | assumption]. Qed.

Lemma form_length u f : uuid_ok u = true ->
  length (form f u) = match f with Canonical => 36 | Braced => 38 | Urn => 45 | Bare => 32 end%nat.
Proof. intros H. destruct_uuid u H. destruct f; reflexivity. Qed.

Definition brace_check (s : bytes) : bool :=
  Nat.eqb (length s) 38 && negb ((nth 0 s 0 =? 123) && (nth 37 s 0 =? 125)).

Lemma accept_form u f t : uuid_ok u = true -> same_up_to_case t (form f u) ->
  brace_check t = false /\ parse t = Ok u.
Proof.
  intros Hu Hm. unfold same_up_to_case in Hm.
  assert (Hlen : length t = length (form f u)) by (rewrite <- Hm; symmetry; apply map_length).
  rewrite (form_length u f Hu) in Hlen. unfold brace_check, parse. rewrite Hlen.
  destruct f; cbn [form] in Hm; cbn [Nat.eqb andb].
  - split; [reflexivity|]. rewrite <- (app_nil_r t). apply parse36_canon; assumption.
  - destruct t as [| c0 t]; [discriminate|]. cbn [map app] in Hm. injection Hm as E0 Hm.
    apply map_eq_app in Hm. destruct Hm as (t36 & r & -> & H36 & Hr).
    destruct r as [| c37 [| ? ?]]; try discriminate. cbn [map] in Hr. injection Hr as E37.
    apply lower_fix in E0; [| reflexivity]. apply lower_fix in E37; [| reflexivity]. subst c0 c37.
    assert (L36 : length t36 = 36%nat).
    { rewrite <- (map_length to_lower_ascii), H36. apply (form_length u Canonical Hu). }
    split.
    + cbn [nth]. change 37%nat with (S 36). cbn [nth]. rewrite app_nth2 by lia. rewrite L36. reflexivity.
    + cbn [drop]. apply parse36_canon; assumption.
  - apply map_eq_app in Hm. destruct Hm as (p & t36 & -> & Hp & H36).
    assert (Lp : length p = 9%nat) by (rewrite <- (map_length to_lower_ascii), Hp; reflexivity).
    split; [reflexivity|].
    replace (take 9 (p ++ t36)) with p by (rewrite <- Lp; symmetry; apply take_app_exact).
    replace (drop 9 (p ++ t36)) with t36 by (rewrite <- Lp; symmetry; apply drop_app_exact).
    unfold fold_eq_ascii. rewrite Hp.
    change (bytes_eqb urn_prefix (map to_lower_ascii urn_prefix)) with true. cbv iota.
    rewrite <- (app_nil_r t36). apply parse36_canon; assumption.
  - split; [reflexivity|]. unfold uuid_ok in Hu. apply andb_prop in Hu. destruct Hu as [_ Hok].
    rewrite (hex_decode_of u t Hok Hm). reflexivity.
Qed.

(* ---------- strings.TrimSpace removes surrounding white space ---------- *)
Definition is_ws (c : N) : Prop := In c white_space.
Definition edge_ok (t : bytes) : bool :=
  match t with a :: _ => (a <? 128) && negb (is_space_rune a) | [] => false end.

Lemma ws_decode c r : is_ws c ->
  decode_rune (encode_rune c ++ r) = (true, c, length (encode_rune c)) /\ is_space_rune c = true /\
  (0 < length (encode_rune c))%nat.
Proof.
  intros H. unfold is_ws, white_space in H.
  repeat (destruct H as [<- | H]; [repeat split; try reflexivity; cbn; lia |]). contradiction.
Qed.
Lemma ws_last c r : is_ws c -> last_space (rev (encode_rune c) ++ r) = Some (length (encode_rune c)).
Proof.
  intros H. unfold is_ws, white_space in H.
  repeat (destruct H as [<- | H]; [reflexivity |]). contradiction.
Qed.

Lemma trim_left_stop fuel t : edge_ok t = true -> trim_left_space fuel t = t.
Proof.
  intros H. destruct fuel; [reflexivity|]. destruct t as [| a r]; [discriminate|].
  cbn [edge_ok] in H. apply andb_prop in H. destruct H as [Ha Hs]. apply negb_true_iff in Hs.
  cbn [trim_left_space]. unfold decode_rune. rewrite Ha, Hs. reflexivity.
Qed.
Lemma trim_right_stop fuel t : edge_ok t = true -> trim_right_space_rev fuel t = t.
Proof.
  intros H. destruct fuel; [reflexivity|]. destruct t as [| a r]; [discriminate|].
  cbn [edge_ok] in H. apply andb_prop in H. destruct H as [Ha Hs]. apply negb_true_iff in Hs.
  cbn [trim_right_space_rev last_space]. rewrite Ha, Hs. reflexivity.
Qed.

Lemma trim_left_ws : forall cps rest fuel, Forall is_ws cps -> (length cps <= fuel)%nat -> edge_ok rest = true ->
  trim_left_space fuel (flat_map encode_rune cps ++ rest) = rest.
Proof.
  induction cps as [| a cps IH]; intros rest fuel Hws Hf He.
  - apply trim_left_stop. assumption.
  - inversion Hws as [| ? ? Ha Hrest]; subst. cbn [flat_map]. rewrite <- app_assoc.
    destruct fuel as [| fuel]; [cbn in Hf; lia|]. cbn [length] in Hf.
    destruct (ws_decode a (flat_map encode_rune cps ++ rest) Ha) as (Hd & Hs & Hl).
    cbn [trim_left_space].
    destruct (encode_rune a ++ flat_map encode_rune cps ++ rest) eqn:Es.
    + apply (f_equal (@length N)) in Es. rewrite app_length in Es. cbn in Es. lia.
    + rewrite Hd, Hs. rewrite <- Es. rewrite drop_app_exact. apply IH; [assumption | lia | assumption].
Qed.
Lemma trim_right_ws : forall cps rest fuel, Forall is_ws cps -> (length cps <= fuel)%nat -> edge_ok rest = true ->
  trim_right_space_rev fuel (flat_map (fun c => rev (encode_rune c)) cps ++ rest) = rest.
Proof.
  induction cps as [| a cps IH]; intros rest fuel Hws Hf He.
  - apply trim_right_stop. assumption.
  - inversion Hws as [| ? ? Ha Hrest]; subst. cbn [flat_map]. rewrite <- app_assoc.
    destruct fuel as [| fuel]; [cbn in Hf; lia|]. cbn [length] in Hf.
    cbn [trim_right_space_rev]. rewrite (ws_last a _ Ha).
    rewrite <- (rev_length (encode_rune a)). rewrite drop_app_exact. apply IH; [assumption | lia | assumption].
Qed.

Lemma rev_flat_map_enc cps : rev (flat_map encode_rune cps) = flat_map (fun c => rev (encode_rune c)) (rev cps).
Proof.
  induction cps as [| a cps IH]; [reflexivity|].
  cbn [flat_map rev]. rewrite rev_app_distr, IH, flat_map_app. cbn [flat_map]. rewrite app_nil_r. reflexivity.
Qed.
Lemma ws_len cps : Forall is_ws cps -> (length cps <= length (flat_map encode_rune cps))%nat.
Proof.
  induction 1 as [| a cps Ha _ IH]; [cbn; lia|]. cbn [flat_map length]. rewrite app_length.
  destruct (ws_decode a [] Ha) as (_ & _ & Hl). lia.
Qed.
Lemma edge_ok_app t r : edge_ok t = true -> edge_ok (t ++ r) = true.
Proof. destruct t; [discriminate | trivial]. Qed.

Lemma trim_space_ws cps1 cps2 t : Forall is_ws cps1 -> Forall is_ws cps2 ->
  edge_ok t = true -> edge_ok (rev t) = true ->
  trim_space (flat_map encode_rune cps1 ++ t ++ flat_map encode_rune cps2) = t.
Proof.
  intros H1 H2 He Hr. unfold trim_space.
  rewrite trim_left_ws; try assumption.
  - rewrite rev_app_distr, rev_flat_map_enc. rewrite trim_right_ws.
    + apply rev_involutive.
    + apply Forall_rev. assumption.
    + rewrite rev_length, app_length. pose proof (ws_len cps2 H2). lia.
    + assumption.
  - rewrite app_length. pose proof (ws_len cps1 H1). lia.
  - apply edge_ok_app. assumption.
Qed.

Lemma lower_edge c d : to_lower_ascii c = d ->
  ((48 <=? d) && (d <=? 57)) || ((97 <=? d) && (d <=? 125)) = true ->
  (c <? 128) && negb (is_space_rune c) = true.
Proof. unfold to_lower_ascii, is_space_rune. case_ifs; lia. Qed.
Lemma hex_digit_safe x : x < 16 ->
  ((48 <=? hex_digit false x) && (hex_digit false x <=? 57)) || ((97 <=? hex_digit false x) && (hex_digit false x <=? 125)) = true.
Proof. intros H. unfold hex_digit. case_ifs; lia. Qed.

Lemma form_edges u f t : uuid_ok u = true -> same_up_to_case t (form f u) ->
  edge_ok t = true /\ edge_ok (rev t) = true.
Proof.
  intros H Hm. unfold same_up_to_case in Hm.
  assert (Hr : map to_lower_ascii (rev t) = rev (form f u)) by (rewrite map_rev, Hm; reflexivity).
  destruct_uuid u H.
  cbn [bytes_ok forallb] in Hok. repeat (apply andb_prop in Hok; let Hx := fresh in destruct Hok as [Hx Hok]).
  assert (Hd : forall x, byte_ok x = true -> x / 16 < 16 /\ x mod 16 < 16) by (unfold byte_ok; intros; lia).
  destruct f; cbn [form canon hex_of flat_map hex_byte app take drop rev urn_prefix bs bytes_of_string] in Hm, Hr;
    (destruct t as [| c0 t']; [discriminate Hm|]); cbn [map] in Hm; injection Hm as E0 _;
    (destruct (rev (c0 :: t')) as [| z r]; [discriminate Hr|]); cbn [map] in Hr; injection Hr as Ez _;
    cbn [edge_ok]; split;
    (eapply lower_edge; [eassumption|]; first [apply hex_digit_safe; apply Hd; assumption | reflexivity]).
Qed.

(* C17_forms *)
Theorem forms_accepted : forall u f t cps1 cps2,
  uuid_ok u = true -> same_up_to_case t (form f u) -> Forall is_ws cps1 -> Forall is_ws cps2 ->
  let text := flat_map encode_rune cps1 ++ t ++ flat_map encode_rune cps2 in
  is_uuid text = true /\ uuid_value text = Ok (describe u).
Proof.
  intros u f t cps1 cps2 Hu Hm H1 H2 text.
  destruct (form_edges u f t Hu Hm) as [He Hr].
  destruct (accept_form u f t Hu Hm) as [Hb Hp].
  assert (Hpt : parse_text_gen fixed text = Ok u).
  { unfold parse_text_gen, text. rewrite trim_space_ws by assumption.
    change (fx_braces fixed) with true. cbn [andb]. fold (brace_check t). rewrite Hb. exact Hp. }
  unfold is_uuid, is_uuid_gen, uuid_value, uuid_value_gen. rewrite Hpt. split; reflexivity.
Qed.

(* ---------- only UUID texts are accepted ---------- *)
Lemma bytes_eqb_eq : forall a b, bytes_eqb a b = true -> a = b.
Proof.
  induction a as [| x a IH]; destruct b as [| y b]; cbn [bytes_eqb]; intros H; try discriminate; [reflexivity|].
  apply andb_prop in H. destruct H as [Hx Hab]. apply N.eqb_eq in Hx. subst y. f_equal. apply IH. assumption.
Qed.

Lemma parse36_inv s u : (36 <= length s)%nat -> parse36 s = Ok u ->
  uuid_ok u = true /\ map to_lower_ascii (take 36 s) = canon u.
Proof.
  intros HL H.
  do 36 (destruct s as [| ?c s]; [cbn in HL; lia|]). clear HL.
  unfold parse36, dehyphen in H. cbn [nth take drop app] in H.
  destruct (c7 =? hyphen) eqn:E8; [| discriminate H]. destruct (c12 =? hyphen) eqn:E13; [| discriminate H].
  destruct (c17 =? hyphen) eqn:E18; [| discriminate H]. destruct (c22 =? hyphen) eqn:E23; [| discriminate H].
  cbn [andb] in H. apply N.eqb_eq in E8, E13, E18, E23. subst c7 c12 c17 c22.
  match type of H with match hex_decode ?h with _ => _ end = _ => destruct (hex_decode h) as [u'|] eqn:Eh; [| discriminate H] end.
  assert (u' = u) by congruence. subst u'. clear H.
  destruct (hex_decode_inv _ _ Eh) as (Hok & Hm & Hlen). cbn [length] in Hlen.
  split.
  - unfold uuid_ok. rewrite Hok. replace (length u) with 16%nat by lia. reflexivity.
  - unfold canon. rewrite <- Hm. reflexivity.
Qed.

Tactic Notation "explode" ident(t) ident(HL) integer(n) :=
  do n (destruct t as [| ?c t]; [discriminate HL|]); destruct t; [clear HL | discriminate HL].

(* C17_only_uuids *)
Theorem only_uuids : forall s, is_uuid s = true ->
  exists u f, uuid_ok u = true /\ same_up_to_case (trim_space s) (form f u).
Proof.
  intros s H. unfold is_uuid, is_uuid_gen, parse_text_gen in H. set (t := trim_space s) in *. clearbody t.
  change (fx_braces fixed) with true in H. cbn [andb] in H. fold (brace_check t) in H.
  destruct (brace_check t) eqn:Hb; [discriminate H|].
  destruct (parse t) as [u | e | e] eqn:Hp; try discriminate H. clear H.
  unfold parse in Hp. unfold same_up_to_case.
  destruct (Nat.eqb (length t) 36) eqn:L36.
  { apply Nat.eqb_eq in L36. destruct (parse36_inv t u) as [Hu Hm]; [lia | assumption |].
    exists u, Canonical. split; [assumption|]. cbn [form]. rewrite <- Hm. f_equal.
    explode t L36 36. reflexivity. }
  destruct (Nat.eqb (length t) 45) eqn:L45.
  { apply Nat.eqb_eq in L45.
    destruct (fold_eq_ascii (take 9 t) urn_prefix) eqn:Hf; [| discriminate Hp].
    explode t L45 45. cbn [drop] in Hp.
    apply parse36_inv in Hp; [| cbn [length]; lia]. destruct Hp as [Hu Hm]. cbn [take map] in Hm.
    exists u, Urn. split; [assumption|]. cbn [form]. rewrite <- Hm.
    unfold fold_eq_ascii in Hf. apply bytes_eqb_eq in Hf. cbn [take map] in Hf.
    change (map to_lower_ascii urn_prefix) with urn_prefix in Hf.
    cbn [map]. unfold urn_prefix in *. cbn [bs bytes_of_string] in *.
    repeat match goal with Hx : _ :: _ = _ :: _ |- _ => let E := fresh "E" in injection Hx as E Hx end.
    rewrite_lowers. reflexivity. }
  destruct (Nat.eqb (length t) 38) eqn:L38.
  { apply Nat.eqb_eq in L38. unfold brace_check in Hb. rewrite L38 in Hb. cbn [Nat.eqb andb] in Hb.
    apply negb_false_iff in Hb. apply andb_prop in Hb. destruct Hb as [B0 B37].
    explode t L38 38. cbn [nth] in B0, B37. apply N.eqb_eq in B0, B37. subst.
    cbn [drop] in Hp.
    apply parse36_inv in Hp; [| cbn [length]; lia]. destruct Hp as [Hu Hm]. cbn [take map] in Hm.
    exists u, Braced. split; [assumption|]. cbn [form]. rewrite <- Hm. reflexivity. }
  destruct (Nat.eqb (length t) 32) eqn:L32; [| discriminate Hp].
  apply Nat.eqb_eq in L32.
  destruct (hex_decode t) as [u'|] eqn:Eh; [| discriminate Hp]. assert (u' = u) by congruence. subst u'.
  destruct (hex_decode_inv _ _ Eh) as (Hok & Hm & Hlen).
  exists u, Bare. split; [| exact Hm].
  unfold uuid_ok. rewrite Hok. replace (length u) with 16%nat by lia. reflexivity.
Qed.

(* ---------- what TrimSpace removes is white space and nothing else ---------- *)
Lemma decode_rune_inv s r sz : decode_rune s = (true, r, sz) ->
  exists rest, s = encode_rune r ++ rest /\ sz = length (encode_rune r).
Proof.
  unfold decode_rune, encode_rune, is_cont, in_range.
  destruct s as [| b0 s]; [discriminate|].
  destruct (b0 <? 128) eqn:E0.
  { intros H. injection H as <- <-. exists s. rewrite E0. split; reflexivity. }
  destruct ((194 <=? b0) && (b0 <=? 223)) eqn:E2.
  { destruct s as [| b1 s]; [discriminate|].
    destruct ((128 <=? b1) && (b1 <=? 191)) eqn:C1; [| discriminate].
    intros H. injection H as <- <-. exists s.
    replace ((b0 - 192) * 64 + (b1 - 128) <? 128) with false by lia.
    replace ((b0 - 192) * 64 + (b1 - 128) <? 2048) with true by lia.
    split; [| reflexivity]. cbn [app]. f_equal; [lia|]. f_equal. lia. }
  destruct ((224 <=? b0) && (b0 <=? 239)) eqn:E3.
  { destruct s as [| b1 [| b2 s]]; try discriminate.
    match goal with |- context [if ?c then _ else _] => destruct c eqn:C end; [| discriminate].
    intros H. apply pair_equal_spec in H. destruct H as [H <-]. apply pair_equal_spec in H. destruct H as [_ <-]. exists s.
    set (q := (b0 - 224) * 4096 + (b1 - 128) * 64 + (b2 - 128)).
    assert (Hr : 2048 <= q < 65536 /\ (q < 55296 \/ 57343 < q) /\ b0 = 224 + q / 4096 /\ b1 = 128 + (q / 64) mod 64 /\ b2 = 128 + q mod 64).
    { unfold q. destruct (b0 =? 224) eqn:A; destruct (b0 =? 237) eqn:B; lia. }
    clearbody q. destruct Hr as (R1 & R2 & -> & -> & ->).
    replace (q <? 128) with false by lia. replace (q <? 2048) with false by lia.
    replace ((55296 <=? q) && (q <=? 57343) || (1114111 <? q)) with false by lia.
    replace (q <? 65536) with true by lia. split; reflexivity. }
  destruct ((240 <=? b0) && (b0 <=? 244)) eqn:E4; [| discriminate].
  destruct s as [| b1 [| b2 [| b3 s]]]; try discriminate.
  match goal with |- context [if ?c then _ else _] => destruct c eqn:C end; [| discriminate].
  intros H. apply pair_equal_spec in H. destruct H as [H <-]. apply pair_equal_spec in H. destruct H as [_ <-]. exists s.
  set (q := (b0 - 240) * 262144 + (b1 - 128) * 4096 + (b2 - 128) * 64 + (b3 - 128)).
  assert (Hr : 65536 <= q <= 1114111 /\ b0 = 240 + q / 262144 /\ b1 = 128 + (q / 4096) mod 64 /\ b2 = 128 + (q / 64) mod 64 /\ b3 = 128 + q mod 64).
  { unfold q. destruct (b0 =? 240) eqn:A; destruct (b0 =? 244) eqn:B; lia. }
  clearbody q. destruct Hr as (R1 & -> & -> & -> & ->).
  replace (q <? 128) with false by lia. replace (q <? 2048) with false by lia.
  replace ((55296 <=? q) && (q <=? 57343) || (1114111 <? q)) with false by lia.
  replace (q <? 65536) with false by lia. split; reflexivity.
Qed.

Lemma space_is_ws r : is_space_rune r = true -> is_ws r.
Proof. unfold is_space_rune, is_ws, white_space. cbn [In]. case_ifs; lia. Qed.

Lemma trim_left_inv : forall fuel s, exists cps,
  Forall is_ws cps /\ s = flat_map encode_rune cps ++ trim_left_space fuel s.
Proof.
  induction fuel as [| fuel IH]; intros s.
  - exists []. split; [constructor | reflexivity].
  - cbn [trim_left_space]. destruct s as [| b s']; [exists []; split; [constructor | reflexivity]|].
    set (s := b :: s') in *.
    destruct (decode_rune s) as [[v r] sz] eqn:Ed. destruct v; [| exists []; split; [constructor | reflexivity]].
    destruct (is_space_rune r) eqn:Es; [| exists []; split; [constructor | reflexivity]].
    destruct (decode_rune_inv s r sz Ed) as (rest & Hs & Hsz). rewrite Hs, Hsz, drop_app_exact.
    destruct (IH rest) as (cps & Hws & Hr). exists (r :: cps). split.
    + constructor; [apply space_is_ws; assumption | assumption].
    + cbn [flat_map]. rewrite <- app_assoc. f_equal. exact Hr.
Qed.

Lemma try_last_inv l sz : try_last l = Some sz ->
  exists c, is_ws c /\ l = encode_rune c /\ sz = length l.
Proof.
  unfold try_last. destruct (decode_rune l) as [[v c] z] eqn:Ed. destruct v; [| discriminate].
  destruct (Nat.eqb z (length l)) eqn:Ez; [| discriminate]. destruct (is_space_rune c) eqn:Es; [| discriminate].
  cbn [andb]. intros H. apply some_inj in H. subst sz. apply Nat.eqb_eq in Ez.
  destruct (decode_rune_inv l c z Ed) as (rest & Hl & Hz).
  assert (rest = []).
  { apply (f_equal (@length N)) in Hl. rewrite app_length in Hl. destruct rest; [reflexivity | cbn [length] in Hl; lia]. }
  subst rest. rewrite app_nil_r in Hl. exists c. repeat split; [apply space_is_ws; assumption | assumption | assumption].
Qed.

Lemma last_space_inv rs sz : last_space rs = Some sz ->
  exists c rest, is_ws c /\ rs = rev (encode_rune c) ++ rest /\ sz = length (encode_rune c).
Proof.
  unfold last_space. destruct rs as [| b r]; [discriminate|].
  destruct (b <? 128) eqn:Eb.
  { destruct (is_space_rune b) eqn:Es; [| discriminate]. intros H. apply some_inj in H. subst sz.
    exists b, r. unfold encode_rune. rewrite Eb. repeat split. apply space_is_ws. assumption. }
  destruct r as [| b1 r1]; [discriminate|].
  destruct (rune_start b1).
  { intros H. destruct (try_last_inv _ _ H) as (c & Hc & Hl & Hsz). exists c, r1. rewrite <- Hl. repeat split; assumption. }
  destruct r1 as [| b2 r2]; [discriminate|].
  destruct (rune_start b2).
  { intros H. destruct (try_last_inv _ _ H) as (c & Hc & Hl & Hsz). exists c, r2. rewrite <- Hl. repeat split; assumption. }
  destruct r2 as [| b3 r3]; [discriminate|].
  destruct (rune_start b3); [| discriminate].
  intros H. destruct (try_last_inv _ _ H) as (c & Hc & Hl & Hsz). exists c, r3. rewrite <- Hl. repeat split; assumption.
Qed.

Lemma trim_right_inv : forall fuel rs, exists cps,
  Forall is_ws cps /\ rs = flat_map (fun c => rev (encode_rune c)) cps ++ trim_right_space_rev fuel rs.
Proof.
  induction fuel as [| fuel IH]; intros rs.
  - exists []. split; [constructor | reflexivity].
  - cbn [trim_right_space_rev]. destruct (last_space rs) as [sz|] eqn:El; [| exists []; split; [constructor | reflexivity]].
    destruct (last_space_inv rs sz El) as (c & rest & Hc & Hrs & Hsz).
    rewrite Hrs, Hsz, <- (rev_length (encode_rune c)), drop_app_exact.
    destruct (IH rest) as (cps & Hws & Hr). exists (c :: cps). split; [constructor; assumption|].
    cbn [flat_map]. rewrite <- app_assoc. f_equal. exact Hr.
Qed.

(* strings.TrimSpace returns its argument without a run of white-space code points at either end *)
Theorem trim_space_removes_ws : forall s, exists cps1 cps2,
  Forall is_ws cps1 /\ Forall is_ws cps2 /\
  s = flat_map encode_rune cps1 ++ trim_space s ++ flat_map encode_rune cps2.
Proof.
  intros s. unfold trim_space.
  destruct (trim_left_inv (length s) s) as (cps1 & H1 & Hs).
  set (l := trim_left_space (length s) s) in *.
  destruct (trim_right_inv (length l) (rev l)) as (cps & H2 & Hl).
  set (m := trim_right_space_rev (length l) (rev l)) in *.
  exists cps1, (rev cps). split; [assumption|]. split; [apply Forall_rev; assumption|].
  rewrite Hs at 1. f_equal.
  rewrite <- (rev_involutive l), Hl, rev_app_distr. f_equal.
  rewrite <- (rev_involutive cps) at 1. rewrite <- rev_flat_map_enc. apply rev_involutive.
Qed.

(* the two together: an accepted text is white space, one UUID form in some letter case, white space *)
Corollary accepted_text_shape : forall s, is_uuid s = true ->
  exists u f t cps1 cps2, uuid_ok u = true /\ same_up_to_case t (form f u) /\ Forall is_ws cps1 /\ Forall is_ws cps2 /\
    s = flat_map encode_rune cps1 ++ t ++ flat_map encode_rune cps2.
Proof.
  intros s H. destruct (only_uuids s H) as (u & f & Hu & Hm).
  destruct (trim_space_removes_ws s) as (cps1 & cps2 & H1 & H2 & Hs).
  exists u, f, (trim_space s), cps1, cps2. repeat split; assumption.
Qed.

(* ================= witnesses: RFC 9562 test vectors, and the code before the repairs ================= *)
Definition rfc_v1 : bytes := [194; 50; 171; 0; 148; 20; 17; 236; 179; 200; 158; 107; 222; 206; 216; 70].   (* A.1 *)
Definition rfc_v6 : bytes := [30; 201; 65; 76; 35; 42; 107; 0; 179; 200; 158; 107; 222; 206; 216; 70].     (* A.5 *)
Definition rfc_v7 : bytes := [1; 127; 34; 226; 121; 176; 124; 195; 152; 196; 220; 12; 12; 7; 57; 143].     (* A.6 *)
Definition rfc_v8 : bytes := [36; 137; 233; 173; 46; 226; 142; 0; 142; 201; 50; 213; 246; 145; 129; 192]. (* B.1 *)

Lemma rfc_vectors :
  uuid_value (bs "C232AB00-9414-11EC-B3C8-9E6BDECED846") =
    Ok (leaf (bs "UUID v1 (Gregorian time)")
          [(bs "Node id", bs "9e6bdeced846"); (bs "Time (raw)", bs "138648505420000000");
           (bs "Time (UTC)", bs "2022-02-22 19:22:22"); (bs "Clock sequence", bs "13256")]) /\
  uuid_value (bs "1EC9414C-232A-6B00-B3C8-9E6BDECED846") =
    Ok (leaf (bs "UUID v6 (reordered Gregorian time)")
          [(bs "Time (raw)", bs "138648505420000000"); (bs "Time (UTC)", bs "2022-02-22 19:22:22")]) /\
  uuid_value (bs "017F22E2-79B0-7CC3-98C4-DC0C0C07398F") =
    Ok (leaf (bs "UUID v7 (Unix epoch time)")
          [(bs "Time (raw)", bs "138648505420000000"); (bs "Time (UTC)", bs "2022-02-22 19:22:22")]) /\
  uuid_value (bs "5df41881-3aed-3515-88a7-2f4a814cf09e") = Ok (leaf (bs "UUID v3 (MD5)") []) /\
  uuid_value (bs "919108f7-52d1-4320-9bac-f847db4148a8") = Ok (leaf (bs "UUID v4 (random)") []) /\
  uuid_value (bs "2ed6657d-e927-568b-95e1-2665a8aea6a2") = Ok (leaf (bs "UUID v5 (SHA1)") []) /\
  uuid_value (bs "2489E9AD-2EE2-8E00-8EC9-32D5F69181C0") = Ok (leaf (bs "UUID v8 (custom)") []) /\
  (* the spec side on the same vectors: 2022-02-22T19:22:22Z = 1645557742 *)
  spec_unix100 (be_to_N rfc_v1) = Some 16455577420000000%Z /\
  spec_unix100 (be_to_N rfc_v6) = Some 16455577420000000%Z /\
  spec_unix100 (be_to_N rfc_v7) = Some 16455577420000000%Z /\
  spec_read_uuid (bs "1EC9414C-232A-6B00-B3C8-9E6BDECED846") = Some (be_to_N rfc_v6).
Proof. repeat split; vm_compute; reflexivity. Qed.

(* the hypotheses of the theorems are met by ordinary inputs *)
Example uuid_ok_example : uuid_ok rfc_v6 = true.
Proof. reflexivity. Qed.
Example same_up_to_case_example : same_up_to_case (bs "urn:UUID:1Ec9414c-232A-6b00-B3C8-9E6BDECED846") (form Urn rfc_v6).
Proof. reflexivity. Qed.
Example is_ws_example : Forall is_ws [32; 9; 10; 13; 133; 160; 8195; 12288].
Proof.
  repeat (apply Forall_cons; [unfold is_ws, white_space; cbn [In]; repeat first [left; reflexivity | right] |]).
  apply Forall_nil.
Qed.

(* F18: before the repair the library's Time() decided the version 6 time *)
Lemma time_refuted_legacy : exists u d, uuid_ok u = true /\ spec_unix100 (be_to_N u) = Some d /\
  shown "Time (UTC)" (describe_gen legacy u) = Some (bs "8612-07-16 21:57:51.9982336") /\
  fmt_datetime_frac7_utc (spec_sec d) (spec_nsec d) = bs "2022-02-22 19:22:22".
Proof. exists rfc_v6, 16455577420000000%Z. repeat split; vm_compute; reflexivity. Qed.

(* F19: before the repair the Max UUID was an unknown type *)
Lemma max_refuted_legacy :
  i_desc (describe_gen legacy max_uuid) = bs "UUID (unknown type)" /\
  spec_description (be_to_N max_uuid) = bs "UUID (Max UUID)".
Proof. split; vm_compute; reflexivity. Qed.

(* F37: before the repair version 8 was an unknown type *)
Lemma v8_refuted_legacy : uuid_ok rfc_v8 = true /\
  i_desc (describe_gen legacy rfc_v8) = bs "UUID (unknown type)" /\
  spec_description (be_to_N rfc_v8) = bs "UUID v8 (custom)".
Proof. repeat split; vm_compute; reflexivity. Qed.

(* F20: before the repair any two bytes could stand for the braces *)
Lemma only_uuids_refuted_legacy : exists s, is_uuid_gen legacy s = true /\
  ~ exists u f, uuid_ok u = true /\ same_up_to_case (trim_space s) (form f u).
Proof.
  exists (bs "x1EC9414C-232A-6B00-B3C8-9E6BDECED846y"). split; [vm_compute; reflexivity|].
  intros (u & f & Hu & Hm). unfold same_up_to_case in Hm.
  assert (Hl : length (form f u) = 38%nat) by (rewrite <- Hm; vm_compute; reflexivity).
  rewrite (form_length u f Hu) in Hl. destruct f; try discriminate Hl.
  cbn [form app] in Hm. vm_compute in Hm. discriminate Hm.
Qed.

(* ===================================================================== *)
(* The variants for very long texts compute the same values              *)
(* ===================================================================== *)
Lemma trim_left_fast_eq : forall fuel s, trim_left_fast fuel s = trim_left_space (length fuel) s.
Proof.
  induction fuel as [|x f IH]; intro s; cbn [trim_left_fast trim_left_space length]; [reflexivity|].
  destruct s as [|c r]; [reflexivity|].
  destruct (decode_rune (c :: r)) as [[v rn] sz]. destruct v; [|reflexivity].
  destruct (is_space_rune rn); [apply IH|reflexivity].
Qed.
Lemma trim_right_fast_eq : forall fuel rs, trim_right_fast fuel rs = trim_right_space_rev (length fuel) rs.
Proof.
  induction fuel as [|x f IH]; intro rs; cbn [trim_right_fast trim_right_space_rev length]; [reflexivity|].
  destruct (last_space rs); [apply IH|reflexivity].
Qed.
Lemma trim_space_fast_eq : forall s, trim_space_fast s = trim_space s.
Proof.
  intro s. unfold trim_space_fast, trim_space. cbv zeta.
  rewrite <- !rev_alt, trim_left_fast_eq, trim_right_fast_eq, rev_length. reflexivity.
Qed.

Lemma take_length_min {A} : forall n (l : list A), length (take n l) = Nat.min n (length l).
Proof. induction n; destruct l; cbn [take length Nat.min]; auto. Qed.
Lemma len46 {A} (s : list A) k : (k < 46)%nat -> Nat.eqb (length (take 46 s)) k = Nat.eqb (length s) k.
Proof.
  intro H. rewrite take_length_min.
  destruct (Nat.eqb_spec (length s) k), (Nat.eqb_spec (Nat.min 46 (length s)) k); try reflexivity; lia.
Qed.
Lemma parse_fast_eq : forall s, parse_fast s = parse s.
Proof. intro s. unfold parse_fast, parse. cbv zeta. rewrite !len46 by lia. reflexivity. Qed.
Lemma parse_text_fast_eq : forall c data, parse_text_fast c data = parse_text_gen c data.
Proof.
  intros. unfold parse_text_fast, parse_text_gen. cbv zeta.
  rewrite trim_space_fast_eq, parse_fast_eq, len46 by lia. reflexivity.
Qed.
Theorem fast_same : forall c data,
  is_uuid_fast c data = is_uuid_gen c data /\ uuid_value_fast c data = uuid_value_gen c data.
Proof.
  intros. unfold is_uuid_fast, is_uuid_gen, uuid_value_fast, uuid_value_gen.
  rewrite parse_text_fast_eq. split; reflexivity.
Qed.

(* ===================================================================== *)
(* Purity: the report is a function of the TEXT, wherever the text sits   *)
(* ===================================================================== *)
Theorem answers_pure : forall A (f : bytes -> A) steps b, Model.Base64.steps_fit (length b) steps = true ->
  answers_in_place f b steps = map (fun s => f (snd s)) steps.
Proof.
  intros A f steps b H. unfold answers_in_place.
  rewrite <- (map_map fst f), <- (map_map snd f). f_equal.
  exact (Proofs.Base64.reuse_reads_what_was_written steps b H).
Qed.

Lemma report_window : forall pre t post,
  uuid_report (Model.Base64.window (length pre) (length t) (pre ++ t ++ post)) = uuid_report t.
Proof. intros. rewrite Proofs.Base64.window_app. reflexivity. Qed.

Theorem report_pure_reuse : forall steps b, Model.Base64.steps_fit (length b) steps = true ->
  answers_in_place uuid_report b steps = map (fun s => uuid_report (snd s)) steps.
Proof. intros. apply answers_pure. assumption. Qed.

(* [text] is one spelling of the UUID value [u]: white space, one of the four forms in some letter case, white space *)
Definition spells (text u : bytes) : Prop :=
  uuid_ok u = true /\ exists f t cps1 cps2,
    same_up_to_case t (form f u) /\ Forall is_ws cps1 /\ Forall is_ws cps2 /\
    text = flat_map encode_rune cps1 ++ t ++ flat_map encode_rune cps2.

Theorem reuse_describes : forall steps b us, Model.Base64.steps_fit (length b) steps = true ->
  Forall2 (fun s u => spells (snd s) u) steps us ->
  answers_in_place uuid_report b steps = map (fun u => (true, Ok (describe u))) us.
Proof.
  intros steps b us Hfit H. rewrite report_pure_reuse by exact Hfit. clear Hfit.
  induction H as [|s u steps us Hs _ IH]; [reflexivity|].
  cbn [map]. f_equal; [|exact IH].
  destruct Hs as (Hu & f & t & c1 & c2 & Hm & H1 & H2 & ->).
  destruct (forms_accepted u f t c1 c2 Hu Hm H1 H2) as [Ha Hb].
  unfold uuid_report. cbv zeta in Ha, Hb. rewrite Ha, Hb. reflexivity.
Qed.

(* and a text that is no spelling of any UUID is answered (false, error), wherever it sits *)
Theorem reuse_rejects : forall steps b, Model.Base64.steps_fit (length b) steps = true ->
  forall k s, nth_error steps k = Some s -> (forall u, ~ spells (snd s) u) ->
  exists e, nth_error (answers_in_place uuid_report b steps) k = Some (false, Err e).
Proof.
  intros steps b Hfit k s Hk Hno. rewrite report_pure_reuse by exact Hfit.
  rewrite nth_error_map, Hk. cbn [option_map]. unfold uuid_report.
  destruct (is_uuid (snd s)) eqn:E.
  - exfalso. destruct (accepted_text_shape _ E) as (u & f & t & c1 & c2 & Hu & Hm & H1 & H2 & Heq).
    apply (Hno u). split; [exact Hu|]. exists f, t, c1, c2. auto.
  - unfold is_uuid, is_uuid_gen in E. unfold uuid_value, uuid_value_gen.
    destruct (parse_text_gen fixed (snd s)) as [u|e|e] eqn:P; cbn in E; try discriminate.
    + exists e. reflexivity.
    + exfalso. (* the model has no panic *)
      unfold parse_text_gen in P. cbv zeta in P.
      destruct (fx_braces fixed && _ && _) in P; [discriminate|].
      unfold parse in P. repeat match type of P with (if ?c then _ else _) = _ => destruct c end;
        unfold parse36 in P; repeat match type of P with match ?x with _ => _ end = _ => destruct x end; discriminate.
Qed.

Definition i_desc_of (r : result info) : option bytes := match r with Ok i => Some (i_desc i) | _ => None end.
Lemma reuse_example :
  answers_in_place (fun t => i_desc_of (uuid_value t)) (repeat 0 36)
    [(0%nat, bs "f47ac10b-58cc-4372-a567-0e02b2c3d479"); (0%nat, bs "017f22e2-79b0-7cc3-98c4-dc0c0c07398f");
     (0%nat, bs "this line is not a UUID at all, ok?!"); (0%nat, bs "017F22E2-79B0-7CC3-98C4-DC0C0C07398F")]
  = [Some (bs "UUID v4 (random)"); Some (bs "UUID v7 (Unix epoch time)"); None; Some (bs "UUID v7 (Unix epoch time)")].
Proof. vm_compute. reflexivity. Qed.
