package main

import (
	"encoding/binary"
	"fmt"
	"os"
	"path/filepath"
	"strings"
	"time"

	"github.com/google/uuid"

	"github.com/edutko/decipher/internal/file"
)

func init() { gens["C17"] = genC17 }

// ---- observation of the implementation on one text ----

type c17Ctx struct {
	c    *Ctx
	dir  string
	rows []file.VerifRow
	seen map[string]bool
}

func (k *c17Ctx) describe(tag string, data []byte) {
	key := string(data)
	if k.seen[key] {
		return
	}
	k.seen[key] = true
	p := filepath.Join(k.dir, "c17.txt")
	if err := os.WriteFile(p, data, 0o644); err != nil {
		fmt.Fprintln(os.Stderr, "c17:", err)
		os.Exit(1)
	}
	base := file.Info{Path: p, Size: int64(len(data))}
	preds := file.VerifRowPredicates(p, data, int64(len(data)))
	oracle := SL{}
	for i := range k.rows {
		i := i
		if k.rows[i].Parser == "UUIDValue" || k.rows[i].Sniffer == "IsUUID" {
			// answered by the model itself; kept out of the input so that a recorded case
			// regenerates identically on a repaired tree
			oracle = append(oracle, SL{I(0), ObsErr()})
			continue
		}
		res := guard(func() Sx {
			inf, err := file.VerifRunRowParser(i, base, data)
			if err != nil {
				return ObsErr()
			}
			return ObsOk(InfoSx(inf))
		})
		oracle = append(oracle, SL{Bool(preds[i][2]), res})
	}
	isU := guard(func() Sx { return Bool(file.IsUUID(p, data, int64(len(data)))) })
	val := guard(func() Sx {
		inf, err := file.UUIDValue(base, data)
		if err != nil {
			return ObsErr()
		}
		return ObsOk(InfoSx(inf))
	})
	insp, _ := inspectObs(p)
	k.c.Emit("describe:"+tag, SL{S(filepath.Base(p)), SB(data), oracle}, SL{isU, val, insp})
}

// ---- library functions the repository calls, against the re-model ----

func c17Lib(c *Ctx, tag string, u uuid.UUID) {
	obs := guard(func() Sx {
		t := u.Time()
		sec, nsec := t.UnixTime()
		return SL{I(int(u.Version())), S(fmt.Sprintf("%d", int64(t))), S(fmt.Sprintf("%d", sec)), S(fmt.Sprintf("%d", nsec)),
			I(u.ClockSequence()), SB(u.NodeID()), S(u.Domain().String()), I(int(u.ID())), S(u.String())}
	})
	c.Emit("lib:"+tag, SL{SB(u[:])}, obs)
}

func c17Parse(c *Ctx, tag string, s []byte) {
	obs := guard(func() Sx {
		u, err := uuid.Parse(string(s))
		if err != nil {
			return ObsErr()
		}
		return ObsOk(SB(u[:]))
	})
	c.Emit("parse:"+tag, SL{SB(s)}, obs)
}

func c17Trim(c *Ctx, tag string, s []byte) {
	c.Emit("trim:"+tag, SL{SB(s)}, SB([]byte(strings.TrimSpace(string(s)))))
}

func c17Fmt(c *Ctx, sec, nsec int64) {
	c.Emit("fmt", SL{I(int(sec)), I(int(nsec))}, S(time.Unix(sec, nsec).UTC().Format("2006-01-02 15:04:05.9999999")))
}

// ---- construction of UUIDs and texts ----

const c17Greg = 0x01B21DD213814000 // 100-ns units between 1582-10-15 and 1970-01-01

// mkUUID lays out a timestamp for the given version nibble: RFC 9562 5.6 for 6, 5.7 for 7
// (ts = 48-bit milliseconds, low 12 bits of ts2 = rand_a), 5.1 for everything else.
func mkUUID(ver byte, ts uint64, ts2 uint16, clk uint16, variant byte, node []byte) uuid.UUID {
	var u uuid.UUID
	switch ver {
	case 6:
		ts &= 1<<60 - 1
		binary.BigEndian.PutUint32(u[0:], uint32(ts>>28))
		binary.BigEndian.PutUint16(u[4:], uint16(ts>>12))
		binary.BigEndian.PutUint16(u[6:], uint16(ts&0xfff))
	case 7:
		ts &= 1<<48 - 1
		binary.BigEndian.PutUint32(u[0:], uint32(ts>>16))
		binary.BigEndian.PutUint16(u[4:], uint16(ts))
		binary.BigEndian.PutUint16(u[6:], ts2&0xfff)
	default:
		ts &= 1<<60 - 1
		binary.BigEndian.PutUint32(u[0:], uint32(ts))
		binary.BigEndian.PutUint16(u[4:], uint16(ts>>32))
		binary.BigEndian.PutUint16(u[6:], uint16(ts>>48))
	}
	u[6] = u[6]&0x0f | ver<<4
	binary.BigEndian.PutUint16(u[8:], clk)
	u[8] = u[8]&0x1f | variant // variant carries the top three bits
	copy(u[10:], node)
	return u
}

func setCase(r *Rng, s []byte, mode int) []byte {
	out := append([]byte{}, s...)
	for i, ch := range out {
		up := false
		switch mode {
		case 1:
			up = true
		case 2:
			up = r.Bool()
		}
		if up && ch >= 'a' && ch <= 'z' {
			out[i] = ch - 32
		}
	}
	return out
}

func forms(u uuid.UUID) [][]byte {
	canon := u.String()
	return [][]byte{
		[]byte(canon),
		[]byte("{" + canon + "}"),
		[]byte("urn:uuid:" + canon),
		[]byte(strings.ReplaceAll(canon, "-", "")),
	}
}

var c17FormNames = []string{"canon", "braced", "urn", "bare"}

var c17Spaces = []string{" ", "\t", "\n", "\v", "\f", "\r", "\r\n", "\u0085", "\u00a0", "\u1680", "\u2000", "\u2001", "\u2002",
	"\u2003", "\u2004", "\u2005", "\u2006", "\u2007", "\u2008", "\u2009", "\u200a", "\u2028", "\u2029", "\u202f", "\u205f", "\u3000"}

// things that look like padding but are not white space (Unicode White_Space)
var c17NotSpaces = []string{"\x00", "\x1c", "\x1f", "\x7f", "\x85", "\xa0", "\u200b", "\ufeff", "\u180e", "\u2060", "\xc2", "\xe2\x80", "\x80",
	"\u200e", "\u0084", "\u00a1", "\u1681", "\u3001", "\xc0\xa0", "\xe0\x80\xa0", "\xed\xa0\x80", "\u2027", "\u202a", ".", "\"", "'", "<", ">"}

func wsRun(r *Rng, mode int) string {
	switch mode {
	case 0:
		return ""
	case 1:
		return strings.Repeat(" ", 1+r.Intn(3))
	case 2:
		return strings.Repeat("\t", 1+r.Intn(2))
	case 3:
		return "\r\n"
	case 4:
		s := ""
		for k := 1 + r.Intn(3); k > 0; k-- {
			s += c17Spaces[r.Intn(len(c17Spaces))]
		}
		return s
	}
	return "\n"
}

func genC17(c *Ctx) {
	dir := filepath.Join(c.Tmp, "c17")
	os.MkdirAll(dir, 0o755)
	defer os.RemoveAll(dir)
	k := &c17Ctx{c: c, dir: dir, rows: file.VerifFiletypes(), seen: map[string]bool{}}
	R := c.R

	// ---------- corpus: known witnesses first ----------
	vectors := []string{
		"1EC9414C-232A-6B00-B3C8-9E6BDECED846", // F18: RFC 9562 A.5 (v6)
		"ffffffff-ffff-ffff-ffff-ffffffffffff", // F19: Max UUID (5.10)
		"00000000-0000-0000-0000-000000000000", // Nil UUID (5.9)
		"C232AB00-9414-11EC-B3C8-9E6BDECED846", // A.1 v1
		"5df41881-3aed-3515-88a7-2f4a814cf09e", // A.2 v3
		"919108f7-52d1-4320-9bac-f847db4148a8", // A.3 v4
		"2ed6657d-e927-568b-95e1-2665a8aea6a2", // A.4 v5
		"017F22E2-79B0-7CC3-98C4-DC0C0C07398F", // A.6 v7
		"2489E9AD-2EE2-8E00-8EC9-32D5F69181C0", // B.1 v8 (F37)
		"5c146b14-3c52-8afd-938a-375d0df1fbf6", // B.2 v8
		"000003e8-cbb9-21ea-b201-00045a86c8a1", // v2, domain 1 (group), id 1000
		"000001f5-5e9a-21ea-9e00-0242ac130003", // v2, domain 0
		"00000000-0000-0000-0000-000000000001", // version 0 but not Nil
		"ffffffff-ffff-ffff-ffff-fffffffffffe", // version 15 but not Max
		"ffffffff-ffff-fffe-ffff-ffffffffffff",
	}
	for _, v := range vectors {
		u := uuid.MustParse(v)
		for fi, f := range forms(u) {
			k.describe("corpus-"+c17FormNames[fi], f)
			k.describe("corpus-"+c17FormNames[fi], setCase(R, f, 1))
		}
		k.describe("corpus-ws", []byte(" "+v+"\n"))
		c17Lib(c, "corpus", u)
	}
	w := "1EC9414C-232A-6B00-B3C8-9E6BDECED846"
	for _, s := range []string{
		"x" + w + "y", // F20
		"{" + w + "y", "x" + w + "}", "(" + w + ")", "[" + w + "]", "}" + w + "{", "\"" + w + "\"", "'" + w + "'", "<" + w + ">",
		" " + w + "}", "{" + w + " ", "{" + w + "}}", "{{" + w + "}", "{" + w, w + "}", "{}" + w, "{" + w + "}\n{" + w + "}",
		"\x00" + w + "\x00", "\x85" + w + "\x85", "\xa0" + w + "\xa0", "\xc2" + w + "\x85",
	} {
		k.describe("corpus-braces", []byte(s))
		c17Parse(c, "corpus", []byte(s))
	}

	// ---------- every version nibble x variant pattern x timestamp class x form x case x white space ----------
	type tsClass struct {
		name string
		greg uint64 // 60-bit Gregorian count (versions other than 7)
		ms   uint64 // 48-bit Unix milliseconds (version 7)
	}
	unixToGreg := func(sec int64, ns100 int64) uint64 { return uint64(int64(c17Greg) + sec*10000000 + ns100) }
	classes := func() []tsClass {
		rs := int64(R.U64() % 4102444800) // up to 2100
		return []tsClass{
			{"zero", 0, 0},
			{"epoch", c17Greg, 0},
			{"epoch-1", c17Greg - 1, 1},
			{"y2038", unixToGreg(2147483647, 9999999), 2147483647999},
			{"y2038+1", unixToGreg(2147483648, 0), 2147483648000},
			{"max", 1<<60 - 1, 1<<48 - 1},
			{"random", R.U64() & (1<<60 - 1), R.U64() & (1<<48 - 1)},
			{"recent", unixToGreg(rs, int64(R.U64()%10000000)), uint64(rs)*1000 + R.U64()%1000},
			{"pre1970", R.U64() % c17Greg, R.U64() % 1000},
		}
	}
	variants := []byte{0x00, 0x80, 0xc0, 0xe0, 0x60, 0xa0}
	reps := 1
	if c.Thorough() {
		reps = 12
	}
	for rep := 0; rep < reps; rep++ {
		for ver := 0; ver < 16; ver++ {
			for _, variant := range variants {
				for _, tc := range classes() {
					ts := tc.greg
					if ver == 7 {
						ts = tc.ms
					}
					u := mkUUID(byte(ver), ts, uint16(R.U64()), uint16(R.U64()), variant, R.Bytes(6))
					if ver == 2 && R.Intn(2) == 0 {
						u[9] = byte(R.Intn(4)) // the named DCE domains and the first unnamed one
					}
					tag := fmt.Sprintf("v%d-%s", ver, tc.name)
					c17Lib(c, tag, u)
					fs := forms(u)
					if c.Thorough() {
						for fi, f := range fs {
							for cm := 0; cm < 3; cm++ {
								for wm := 0; wm < 5; wm++ {
									txt := wsRun(R, wm) + string(setCase(R, f, cm)) + wsRun(R, (wm+R.Intn(5))%6)
									k.describe(tag+"-"+c17FormNames[fi], []byte(txt))
								}
							}
						}
					} else {
						// quick: all four forms, case and white space drawn per text
						for fi, f := range fs {
							txt := wsRun(R, R.Intn(6)) + string(setCase(R, f, R.Intn(3))) + wsRun(R, R.Intn(6))
							k.describe(tag+"-"+c17FormNames[fi], []byte(txt))
						}
					}
				}
			}
		}
	}
	// fully random 128-bit values
	nr := 300
	if c.Thorough() {
		nr = 20000
	}
	for i := 0; i < nr; i++ {
		var u uuid.UUID
		copy(u[:], R.Bytes(16))
		c17Lib(c, "random", u)
		f := forms(u)[R.Intn(4)]
		k.describe("random", []byte(wsRun(R, R.Intn(6))+string(setCase(R, f, R.Intn(3)))+wsRun(R, R.Intn(6))))
	}

	// ---------- near misses ----------
	nm := 6
	if c.Thorough() {
		nm = 120
	}
	bad := []byte{'g', 'G', 'x', ' ', '-', '{', '}', ':', '/', '@', '`', 0x00, 0x80, 0xff, '\n', 'O', 'l', '.'}
	for i := 0; i < nm; i++ {
		ver := byte(R.Intn(16))
		u := mkUUID(ver, R.U64(), uint16(R.U64()), uint16(R.U64()), variants[R.Intn(len(variants))], R.Bytes(6))
		u2 := mkUUID(byte(R.Intn(16)), R.U64(), uint16(R.U64()), uint16(R.U64()), 0x80, R.Bytes(6))
		for fi, f0 := range forms(u) {
			f := setCase(R, f0, R.Intn(3))
			fn := c17FormNames[fi]
			near := func(tag string, d []byte) {
				k.describe("near-"+tag+"-"+fn, d)
				c17Parse(c, "near-"+tag, d)
			}
			// length -1 at every position (quick: a few), length +1
			for p := 0; p < len(f); p++ {
				if !c.Thorough() && i > 0 && R.Intn(6) != 0 {
					continue
				}
				near("del", append(append([]byte{}, f[:p]...), f[p+1:]...))
				near("ins", append(append(append([]byte{}, f[:p]...), "0-a{ "[R.Intn(5)]), f[p:]...))
			}
			near("ins", append(append([]byte{}, f...), '0'))
			// one non-hex byte at each position
			for p := 0; p < len(f); p++ {
				if !c.Thorough() && i > 0 && R.Intn(4) != 0 {
					continue
				}
				d := append([]byte{}, f...)
				b := bad[R.Intn(len(bad))]
				if d[p] == b {
					b = 'z'
				}
				d[p] = b
				near("sub", d)
			}
			// a hyphen moved by one
			for p := 0; p+1 < len(f); p++ {
				if f[p] == '-' || f[p+1] == '-' {
					d := append([]byte{}, f...)
					d[p], d[p+1] = d[p+1], d[p]
					near("hyphen", d)
				}
			}
			// hyphens inserted into the bare form at the wrong places, removed from the canonical one
			if fi == 3 {
				near("hyphen", []byte(string(f[:7])+"-"+string(f[7:11])+"-"+string(f[11:15])+"-"+string(f[15:19])+"-"+string(f[19:])+"0"))
				near("hyphen", []byte(string(f[:8])+"-"+string(f[8:])))
			}
			if fi == 0 {
				near("hyphen", []byte(strings.Replace(string(f), "-", "", 1)))
				near("hyphen", []byte(strings.ReplaceAll(string(f), "-", " ")))
				near("hyphen", []byte(strings.ReplaceAll(string(f), "-", "_")))
				near("hyphen", []byte(strings.ReplaceAll(string(f), "-", "")+"----"))
			}
			// white space inside
			p := 1 + R.Intn(len(f)-1)
			near("inner-ws", append(append(append([]byte{}, f[:p]...), ' '), f[p:]...))
			near("inner-ws", append(append(append([]byte{}, f[:p]...), '\n'), f[p+1:]...))
			// two UUIDs
			g := forms(u2)[fi]
			for _, sep := range []string{" ", "\n", ",", "", "\r\n", ";"} {
				near("two", []byte(string(f)+sep+string(g)))
			}
			// padding that is not white space
			for _, ns := range c17NotSpaces {
				if !c.Thorough() && i > 0 && R.Intn(5) != 0 {
					continue
				}
				near("notspace", []byte(ns+string(f)))
				near("notspace", []byte(string(f)+ns))
				near("notspace", []byte(" "+ns+string(f)+" "))
				near("notspace", []byte(c17Spaces[R.Intn(len(c17Spaces))]+string(f)+ns+c17Spaces[R.Intn(len(c17Spaces))]))
			}
		}
		canon := u.String()
		bare := strings.ReplaceAll(canon, "-", "")
		for _, s := range []string{
			"urn:uuid;" + canon, "urn-uuid:" + canon, "urm:uuid:" + canon, "URN:UUID:" + canon, "uRn:UuId:" + canon, "urn:uuid:" + bare,
			"urn:uuid:{" + canon + "}", "{urn:uuid:" + canon + "}", "urn:uuid: " + canon, "urn:uuid:" + canon + "}", "uuid:" + canon,
			"urn:" + canon, "urn:uuid:urn:uuid:" + canon, "urn:uuid" + canon, "urn:uuid::" + canon, "\u212arn:uuid:" + canon,
			"urn:uu\u0131d:" + canon, "urn:uu\u0130d:" + canon, "ur\xee:uuid:" + canon, "urn\x1auuid\x1a" + canon, "URN:UUID\x1a" + canon,
			"[rn:uuid:" + canon, "{" + bare + "}", "{" + canon + "}", "0x" + bare, bare + "h", canon[:35], canon + canon[35:],
			"{" + canon[:35] + "}}", "{" + canon + "\n", "\n" + canon + "}", canon + "\x00", canon + "\n" + canon + "\n", "",
			" ", "\n", "{}", "urn:uuid:", "----", "--------------------------------",
		} {
			k.describe("near-misc", []byte(s))
			c17Parse(c, "near-misc", []byte(s))
		}
	}

	// ---------- malformed stream ----------
	alphabet := []byte("0123456789abcdefABCDEF0123456789abcdef-{}urn:UID gG\n\t\x00\x85\xa0\xc2\xe2\x80")
	nmal := 400
	if c.Thorough() {
		nmal = 40000
	}
	lens := []int{0, 1, 31, 32, 33, 35, 36, 37, 38, 39, 44, 45, 46, 64, 72}
	for i := 0; i < nmal; i++ {
		n := lens[R.Intn(len(lens))]
		if R.Intn(4) == 0 {
			n = R.Intn(80)
		}
		d := make([]byte, n)
		for j := range d {
			if R.Intn(8) == 0 {
				d[j] = alphabet[R.Intn(len(alphabet))]
			} else {
				d[j] = alphabet[R.Intn(22)] // mostly hex digits
			}
		}
		if n >= 36 && R.Intn(2) == 0 {
			off := 0
			if n == 38 {
				off = 1
			} else if n == 45 {
				off = 9
				copy(d, setCase(R, []byte("urn:uuid:"), R.Intn(3)))
			}
			for _, p := range []int{8, 13, 18, 23} {
				if R.Intn(12) != 0 {
					d[off+p] = '-'
				}
			}
		}
		k.describe("malformed", d)
		c17Parse(c, "malformed", d)
	}

	// ---------- strings.TrimSpace against the re-model ----------
	pieces := append(append([]string{}, c17Spaces...), c17NotSpaces...)
	pieces = append(pieces, "a", "0", "{", "}", "\xe2", "\x80\x80", "\xe2\x80\x80\x80", "\xf0\x9f\x98\x80", "\xef\xbf\xbd", "\xe1\x9a", "\xe3\x80")
	ntrim := 600
	if c.Thorough() {
		ntrim = 30000
	}
	for i := 0; i < ntrim; i++ {
		s := ""
		for j := R.Intn(6); j > 0; j-- {
			s += pieces[R.Intn(len(pieces))]
		}
		if R.Bool() {
			s += "core"
		}
		for j := R.Intn(6); j > 0; j-- {
			s += pieces[R.Intn(len(pieces))]
		}
		c17Trim(c, "mixed", []byte(s))
	}
	for i := 0; i < ntrim/4; i++ {
		c17Trim(c, "bytes", R.Bytes(R.Intn(8)))
		b := R.Bytes(1 + R.Intn(6))
		for j := range b {
			b[j] = []byte{0xc2, 0x85, 0xa0, 0xe2, 0x80, 0x81, 0x9f, 0xe1, 0x9a, 0xe3, 0x20, 0x0a, 0xaf, 0xa8, 0x8a, 0x8b}[b[j]%16]
		}
		c17Trim(c, "bytes", b)
	}

	// ---------- time.Unix(...).UTC().Format against Lib/Time.v ----------
	nf := 300
	if c.Thorough() {
		nf = 20000
	}
	for _, p := range [][2]int64{{0, 0}, {-1, 999999900}, {0, -100}, {-12219292800, 0}, {2147483647, 999999900}, {2147483648, 0},
		{103072857660, 684697500}, {281474976710, 655000000}, {253402300799, 999999900}, {253402300800, 0}, {951782400, 0}, {951868800, 100},
		{1709164800, 1000000}, {-11644473600, 0}, {4107542400, 0}} {
		c17Fmt(c, p[0], p[1])
	}
	for i := 0; i < nf; i++ {
		sec := int64(R.U64()%(281474976711+12219292800)) - 12219292800
		nsec := int64(R.U64()%10000000) * 100
		switch R.Intn(4) {
		case 0:
			nsec = -nsec
		case 1:
			nsec = int64(R.U64()%1000) * 1000000
		}
		c17Fmt(c, sec, nsec)
	}
}
