// Command verifharness: generates cases for the properties in /verif/properties.jsonl,
// runs the implementation (edutko/what-is built with -tags verif from /repo's working
// tree) on them, and prints one line per case:
//
//	id \t kind \t input-sexpr \t impl-observation-sexpr
//
// It also dumps the tables that are regenerated into coq/gen (T1).
package main

import (
	"bufio"
	"fmt"
	"os"
	"sort"
	"strconv"
)

type Ctx struct {
	Prop  string
	Tier  string
	Seed  uint64
	R     *Rng
	W     *bufio.Writer
	N     int
	Kinds map[string]int
	Repo  string
	Bin   string // path of the decipher CLI built from /repo (for CLI-level cases)
	BinV  string // the same CLI built with -tags verif (batch printInfo hook)
	Tmp   string // scratch directory
}

func (c *Ctx) Thorough() bool { return c.Tier == "thorough" }

// Emit writes one case line.
func (c *Ctx) Emit(kind string, input, impl Sx) {
	c.N++
	c.Kinds[kind]++
	fmt.Fprintf(c.W, "%d\t%s\t%s\t%s\n", c.N, kind, input.String(), impl.String())
	// flushed per case: if the code under test takes the harness down (a fatal run-time error cannot be
	// recovered) the cases observed so far are still judged
	c.W.Flush()
}

var gens = map[string]func(*Ctx){}

func main() {
	if len(os.Args) < 2 {
		fmt.Fprintln(os.Stderr, "usage: verifharness dump <dir> | cases <prop> <tier> <seed> <tmp> <bin> | replay <prop> <input-sexpr>")
		os.Exit(2)
	}
	switch os.Args[1] {
	case "dump":
		if err := dumpAll(os.Args[2]); err != nil {
			fmt.Fprintln(os.Stderr, "dump:", err)
			os.Exit(1)
		}
	case "cases":
		prop, tier := os.Args[2], os.Args[3]
		seed, _ := strconv.ParseUint(os.Args[4], 10, 64)
		c := &Ctx{Prop: prop, Tier: tier, Seed: seed, R: NewRng(seed), Kinds: map[string]int{}, Repo: repoDir()}
		if len(os.Args) > 5 {
			c.Tmp = os.Args[5]
		}
		if len(os.Args) > 6 {
			c.Bin = os.Args[6]
		}
		if len(os.Args) > 7 {
			c.BinV = os.Args[7]
		}
		c.W = bufio.NewWriterSize(os.Stdout, 1<<20)
		g, ok := gens[prop]
		if !ok {
			fmt.Fprintln(os.Stderr, "no generator for", prop)
			os.Exit(2)
		}
		g(c)
		c.W.Flush()
		ks := make([]string, 0, len(c.Kinds))
		for k := range c.Kinds {
			ks = append(ks, k)
		}
		sort.Strings(ks)
		for _, k := range ks {
			fmt.Fprintf(os.Stderr, "KIND\t%s\t%d\n", k, c.Kinds[k])
		}
	case "worker":
		workerMain()
	case "c04conc":
		c04ConcMain()
	case "inspect1":
		inspect1Main()
	case "mkfixtures":
		mkFixtures(os.Args[2])
	default:
		fmt.Fprintln(os.Stderr, "unknown subcommand")
		os.Exit(2)
	}
}

func repoDir() string {
	if d := os.Getenv("VERIF_REPO"); d != "" {
		return d
	}
	return "/repo"
}
