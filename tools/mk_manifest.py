#!/usr/bin/env python3
"""Regenerates MANIFEST.json from tools/props.py (claimed properties) and properties.jsonl."""
import json, os, sys, subprocess
V = os.path.dirname(os.path.dirname(os.path.abspath(__file__)))
sys.path.insert(0, os.path.join(V, "tools"))
import props as P
ids = [json.loads(l)["id"] for l in open(os.path.join(V, "properties.jsonl"))]
claimed = [i for i in ids if i in P.PROPS and P.PROPS[i].get("claimed", True)]
commits = subprocess.run(["git", "-C", "/repo", "log", "--format=%H %s", "--grep=^verif:"], stdout=subprocess.PIPE, text=True).stdout.strip().splitlines()
m = {
 "version": 1,
 "setup_cmd": "./setup.sh",
 "hooks": {"guard": "verif",
           "enable": "go build -tags verif  (add-only files */verif_hooks.go carrying //go:build verif; the harness module /verif/harness replaces github.com/edutko/decipher => /repo)",
           "baseline_off_cmd": "cd /repo && go test -mod=mod -json -vet=off -count=1 -timeout 25m ./...",
           "source_commits": [c.split()[0] for c in commits],
           "add_only": True},
 "engines": [
  {"name": "coq-model", "path": "coq/", "serves_properties": claimed,
   "kind_free_text": "Coq 8.16.1 development: executable Gallina models (Model/), case runners and spec checkers (Run/), proofs (Proofs/), property theorems with Print Assumptions (Props/), tables regenerated from /repo on every run (gen/)"},
  {"name": "harness", "path": "harness/", "serves_properties": claimed,
   "kind_free_text": "Go harness built with -tags verif against /repo's working tree: seeded case generators, implementation observations, table dump"},
  {"name": "modelrun", "path": "ocaml/", "serves_properties": claimed,
   "kind_free_text": "model extracted with ExtrOcamlBasic + OCaml driver: runs the model and the spec checkers on the harness's cases"}],
 "checks": [],
 "notes": "Technique: machine-checked proof in Coq 8.16.1 over executable models, tied to /repo by regenerated tables (T1) and a correspondence check (T2); see DESIGN.md.",
 "not_applicable": [],
}
for i in ids:
    if i in claimed:
        c = P.PROPS[i]
        m["checks"].append({
            "property_id": i,
            "quick_cmd": "./check %s --tier quick" % i,
            "thorough_cmd": "./check %s --tier thorough" % i,
            "evidence_file": "evidence/%s.json" % i,
            "replay_cmd_template": "./check %s --replay {path}" % i,
            "engine": "coq-model",
            "level_claimed": {"category": "proof", "text": c["level_text"], "design_ref": c.get("design_ref", "DESIGN.md section 4, " + i)},
            "level_note": c["level_note"],
            "technique": c.get("technique", "machine-checked proof in Coq over an executable model + correspondence check against the Go code"),
        })
    else:
        m["not_applicable"].append({"property_id": i, "reason": P.NOT_YET.get(i, "no check is claimed yet: the model and theorems for this property are not built in the committed tree (planned in DESIGN.md section 4); the technique applies")})
json.dump(m, open(os.path.join(V, "MANIFEST.json"), "w"), indent=1)
print("claimed:", " ".join(claimed))
