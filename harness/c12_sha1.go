package main

// C12, SHA-1 inside the model: (a) op sha1 — the model's SHA-1 (coq/Lib/Sha1.v) against Go's
// crypto/sha1 on structured lengths; (b) helpers that make the key cases independent of recorded
// SHA-1 answers: the oracle without them, and the public part of every key packet of a stream for
// the spec checker, which recomputes the RFC 4880 12.2 fingerprints itself.

import (
	"crypto/sha1"
)

// c12NoSha1Answers drops the recorded SHA-1 digests (68 2 msg digest) from an oracle: the model
// computes SHA-1 itself, for fingerprints and for signature digests under hash id 2.
func c12NoSha1Answers(oracle SL) SL {
	out := SL{}
	for _, e := range oracle {
		if l, ok := e.(SL); ok && len(l) >= 2 {
			if k, ok1 := l[0].(sInt); ok1 && k == 68 {
				if h, ok2 := l[1].(sInt); ok2 && h == 2 {
					continue
				}
			}
		}
		out = append(out, e)
	}
	return out
}

// c12KeyBodies lists ((tag public-part) ...) for every version-4 key packet (tags 5, 6, 7, 14) that
// the structural reader of pgpw.go finds in the stream, in stream order: the octets from the
// version octet to the end of the public fields, i.e. what RFC 4880 12.2 hashes.
func c12KeyBodies(stream []byte) SL {
	out := SL{}
	pkts, _ := splitStream(stream)
	for _, p := range pkts {
		switch p.tag {
		case 5, 6, 7, 14:
			if p.short {
				continue
			}
			k, ok := readRawKey(p.body)
			if !ok || k.pubLen > len(p.body) {
				continue
			}
			out = append(out, SL{I(p.tag), SB(p.body[:k.pubLen])})
		}
	}
	return out
}

func genC12Sha1(c *Ctx) {
	emit := func(tag string, msg []byte) {
		impl := guard(func() Sx {
			d := sha1.Sum(msg)
			return ObsOk(SB(d[:]))
		})
		c.Emit("sha1:"+tag, SL{SB(msg)}, impl)
	}
	// published vectors (FIPS 180-2 appendix A, NIST examples)
	emit("vector", nil)
	emit("vector", []byte("abc"))
	emit("vector", []byte("abcdbcdecdefdefgefghfghighijhijkijkljklmklmnlmnomnopnopq"))
	emit("vector", []byte("abcdefghbcdefghicdefghijdefghijkefghijklfghijklmghijklmnhijklmnoijklmnopjklmnopqklmnopqrlmnopqrsmnopqrstnopqrstu"))
	fixedR := NewRng(0x5a1)
	// every length 0..130 (one and two padding blocks, all residues of the length mod 64 twice)
	for n := 0; n <= 130; n++ {
		emit("len-0-130", fixedR.Bytes(n))
	}
	// block boundaries with octets that look like padding
	fill := func(n int, b byte) []byte {
		m := make([]byte, n)
		for i := range m {
			m[i] = b
		}
		return m
	}
	for _, n := range []int{55, 56, 57, 63, 64, 65, 119, 120, 121, 127, 128, 129, 183, 184, 191, 192} {
		for _, b := range []byte{0x00, 0x80, 0xff} {
			emit("boundary", fill(n, b))
		}
		m := fixedR.Bytes(n)
		m[n-1] = 0x80
		emit("boundary", m)
	}
	// a few KiB: lengths whose bit count needs 2 and 3 octets of the 64-bit length field
	for _, n := range []int{255, 256, 511, 512, 1000, 2047, 2048, 4095, 4096, 4097, 8191, 8192} {
		emit("kib", fixedR.Bytes(n))
	}
	emit("kib", fill(1000, 'a'))
	emit("kib", fill(1000, 0))
	// seeded: random lengths and contents
	nr := 40
	if c.Thorough() {
		nr = 2000
	}
	for i := 0; i < nr; i++ {
		n := c.R.Intn(700)
		if c.R.Intn(8) == 0 {
			n = c.R.Intn(6000)
		}
		emit("random", c.R.Bytes(n))
	}
	// the hashed form of keys: 0x99, length, body (what the fingerprints are computed over)
	for _, a := range append(primaryAlgos(), subkeyAlgos()...) {
		k := a.mk(pickTime(c.R), NewRng(c.R.U64()))
		emit("key-hash-input", k.hashInput())
	}
}
