"""Generator for coq/gen/Asn1Names.v (C13): the universal tag name table of internal/names
and the nesting limit of internal/asn1struct, as the running code holds them."""
from gen_tables import generator, bytes_lit

@generator("Asn1Names.v", "asn1_names")
def asn1_names(t):
    rows = []
    for k in sorted(t["asn1_names"], key=lambda x: int(x)):
        v = t["asn1_names"][k]
        rows.append("  (%d%%N, %s)  (* %s *)" % (int(k), bytes_lit(list(v.encode("latin1"))), v.replace("*)", "* )")))
    return ("Definition asn1_tag_names : list (N * list N) := [\n" + ";\n".join(rows) + "\n].\n"
            "Definition asn1_max_depth : N := %d%%N.\n" % int(t.get("asn1_max_depth", 0)))
