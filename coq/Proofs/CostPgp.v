(* Proofs for C08, second part: the armor reader, the typed OpenPGP packet parsers, ReadEntity. *)
From WI Require Import Lib.Base Lib.Info Model.Base64 Model.Cost Model.CostPgp Proofs.Cost.
From Coq Require Import ZifyN ZifyNat ZifyBool Lia.
Open Scope N_scope.

(* ------------------------------------------------------------------------------------- *)
(* requests made from a length field: backed by the bytes in reach, or at most a constant  *)
(* ------------------------------------------------------------------------------------- *)
Definition alloc_okc (c : N) (a : alloc) : Prop :=
  match a with Make s r => s <= r \/ s <= c | Grow _ => True end.
Definition log_okc (c : N) (l : log) : Prop := Forall (alloc_okc c) l.

Lemma log_okc_nil : forall c, log_okc c []. Proof. constructor. Qed.
Lemma log_okc_app : forall c l1 l2, log_okc c l1 -> log_okc c l2 -> log_okc c (l1 ++ l2).
Proof. intros. apply Forall_app. tauto. Qed.
Lemma log_okc_cons : forall c a l, alloc_okc c a -> log_okc c l -> log_okc c (a :: l).
Proof. intros. constructor; assumption. Qed.
Lemma log_okc_mono : forall c c' l, c <= c' -> log_okc c l -> log_okc c' l.
Proof.
  intros c c' l H O. unfold log_okc in *. eapply Forall_impl; [|exact O].
  intros [s r|s]; cbn; [|tauto]. intros [A|A]; [left|right]; lia.
Qed.
Lemma log_ok_okc : forall l, log_ok l -> log_okc area_max l.
Proof.
  intros l O. unfold log_ok, log_okc in *. eapply Forall_impl; [|exact O].
  intros [s r|s]; cbn; [|tauto]. unfold fixed_max, area_max. intros [A|A]; [left|right]; lia.
Qed.
Lemma okc_const : forall c s r, s <= c -> alloc_okc c (Make s r). Proof. intros. right. assumption. Qed.
Lemma okc_backed : forall c s r, s <= r -> alloc_okc c (Make s r). Proof. intros. left. assumption. Qed.
Lemma log_okc_readall : forall c m, log_okc c (readall_log m).
Proof.
  intros c m. apply Forall_forall. intros a H. destruct (readall_log_grow _ _ H) as [s ->]. exact I.
Qed.

Ltac okc_alloc := first [assumption | exact I | apply okc_const; unfold area_max, max_oid_len; cbn; lia | apply okc_backed; lia].
Ltac okc_tac :=
  unfold log_okc in *;
  repeat match goal with
  | |- Forall _ [] => apply Forall_nil
  | |- Forall _ (_ :: _) => apply Forall_cons; [okc_alloc|]
  | |- Forall _ (_ ++ _) => apply Forall_app; split
  | H : Forall _ ?l |- Forall _ ?l => exact H
  | |- Forall _ (readall_log _) => apply log_okc_readall
  end.

Ltac fin := repeat match goal with |- _ /\ _ => split end; try lia; try assumption; try reflexivity; try (now log_tac); try (now okc_tac); try (now apply log_ok_okc).

(* ------------------------------------------------------------------------------------- *)
(* bytes stay bytes                                                                       *)
(* ------------------------------------------------------------------------------------- *)
Lemma bytes_ok_app_intro : forall a b, bytes_ok a = true -> bytes_ok b = true -> bytes_ok (a ++ b) = true.
Proof. intros a b A B. unfold bytes_ok in *. rewrite forallb_app, A, B. reflexivity. Qed.

Lemma bytes_ok_nil : bytes_ok [] = true. Proof. reflexivity. Qed.

Lemma take_n_spec : forall n l d r, take_n n l = (d, r) ->
  l = d ++ r /\ lenN d <= n /\ (lenN d = n \/ r = []).
Proof.
  intros n l d r H. unfold take_n in H. destruct (split_at n l) as [[a b]|] eqn:S.
  - inversion H; subst. destruct (split_at_some _ _ _ _ S) as [E L]. split; [exact E|]. split; [lia|]. left. exact L.
  - inversion H; subst. apply split_at_none in S. split; [now rewrite app_nil_r|]. split; [lia|]. right. reflexivity.
Qed.

Lemma take_n_ok : forall n l d r, take_n n l = (d, r) -> bytes_ok l = true -> bytes_ok d = true /\ bytes_ok r = true.
Proof. intros n l d r H B. destruct (take_n_spec _ _ _ _ H) as [-> _]. now apply bytes_ok_app. Qed.

Lemma take_n_nonempty : forall n l d r, take_n n l = (d, r) -> 0 < n -> l <> [] -> 1 <= lenN d.
Proof.
  intros n l d r H N L. destruct (take_n_spec _ _ _ _ H) as [E [_ [A|A]]]; [lia|].
  subst r. rewrite app_nil_r in E. subst d. destruct l; [congruence|]. rewrite lenN_cons. lia.
Qed.

(* ------------------------------------------------------------------------------------- *)
(* readers: what one Read does to the octets in reach                                     *)
(* ------------------------------------------------------------------------------------- *)
Definition rdr_ok (st : rdr) : Prop :=
  bytes_ok (r_und st) = true /\ match r_buf st with Some b => bytes_ok b = true | None => True end.

Lemma pgp_length_ok : forall r len p r' l, pgp_read_length r = (Ok (len, p, r'), l) -> bytes_ok r = true -> bytes_ok r' = true.
Proof.
  intros r len p r' l H B. unfold pgp_read_length, read_full in H.
  destruct (split_at 1 r) as [[b r1]|] eqn:S1; cbn [tick rbind rret rfail fst snd app] in H; [|discriminate].
  destruct (split_at_bytes_ok _ _ _ _ S1 B) as [_ B1].
  destruct (nth 0 b 0 <? 192); [inversion H; subst; exact B1|].
  destruct (nth 0 b 0 <? 224).
  { destruct (split_at 1 r1) as [[c r2]|] eqn:S2; cbn [tick rbind rret rfail fst snd app] in H; [|discriminate].
    inversion H; subst. now destruct (split_at_bytes_ok _ _ _ _ S2 B1). }
  destruct (nth 0 b 0 <? 255); [inversion H; subst; exact B1|].
  destruct (split_at 4 r1) as [[c r2]|] eqn:S2; cbn [tick rbind rret rfail fst snd app] in H; [|discriminate].
  inversion H; subst. now destruct (split_at_bytes_ok _ _ _ _ S2 B1).
Qed.

(* src_read: delivered octets come off the underlying octets; a partial length costs 4 and takes
   at least one octet *)
Lemma src_read_spec : forall s k und, 0 < k -> bytes_ok und = true ->
  match src_read s k und with
  | ((RData d, s', und'), l) =>
      1 <= lenN d /\ lenN d <= k /\ lenN und' + lenN d <= lenN und /\
      log_cost l + 4 * (lenN und' + lenN d) <= 4 * lenN und /\ log_ok l /\
      bytes_ok d = true /\ bytes_ok und' = true
  | ((_, s', und'), l) =>
      lenN und' <= lenN und /\ log_cost l + 4 * lenN und' <= 4 * lenN und + 4 /\ log_ok l /\ bytes_ok und' = true
  end.
Proof.
  intros s k und K B. destruct s as [n|rem more|]; cbn [src_read].
  - destruct (N.eqb_spec n 0) as [Z|Z]; unfold cret.
    { cbn [log_cost]. fin. }
    destruct und as [|x u]. { cbn [log_cost]. fin. }
    destruct (take_n (N.min k n) (x :: u)) as [d und'] eqn:T.
    pose proof (take_n_nonempty _ _ _ _ T ltac:(lia) ltac:(discriminate)).
    destruct (take_n_spec _ _ _ _ T) as [E [L _]]. destruct (take_n_ok _ _ _ _ T B) as [Bd Bu].
    rewrite E, lenN_app. cbn [log_cost]. fin.
  - cbv zeta.
    destruct (N.eqb_spec rem 0) as [Z|Z]; cbn [negb].
    2:{ destruct und as [|x u]. { cbn [log_cost]. fin. }
        destruct (take_n (N.min k rem) (x :: u)) as [d und'] eqn:T.
        pose proof (take_n_nonempty _ _ _ _ T ltac:(lia) ltac:(discriminate)).
        destruct (take_n_spec _ _ _ _ T) as [E [L _]]. destruct (take_n_ok _ _ _ _ T B) as [Bd Bu].
        rewrite E, lenN_app. cbn [log_cost]. fin. }
    destruct more; cbn [negb]; unfold cret.
    2:{ cbn [log_cost]. fin. }
    pose proof (pgp_length_spec und) as LS.
    destruct (pgp_read_length und) as [[[[len partial] und1]|e|e] l] eqn:PL.
    + destruct LS as [C [L O]]. pose proof (pgp_length_ok _ _ _ _ _ PL B) as B1.
      destruct (N.eqb_spec len 0) as [Z2|Z2]; cbn [negb].
      * destruct partial; fin.
      * destruct und1 as [|x u]. { rewrite lenN_nil in *. fin. }
        destruct (take_n (N.min k len) (x :: u)) as [d und'] eqn:T.
        pose proof (take_n_nonempty _ _ _ _ T ltac:(lia) ltac:(discriminate)).
        destruct (take_n_spec _ _ _ _ T) as [E [L2 _]]. destruct (take_n_ok _ _ _ _ T B1) as [Bd Bu].
        rewrite E, lenN_app in *. fin.
    + destruct LS as [C O]. rewrite lenN_nil. fin.
    + destruct LS as [C O]. rewrite lenN_nil. fin.
  - destruct und as [|x u]; unfold cret. { cbn [log_cost]. fin. }
    destruct (take_n k (x :: u)) as [d und'] eqn:T.
    pose proof (take_n_nonempty _ _ _ _ T ltac:(lia) ltac:(discriminate)).
    destruct (take_n_spec _ _ _ _ T) as [E [L _]]. destruct (take_n_ok _ _ _ _ T B) as [Bd Bu].
    rewrite E, lenN_app. cbn [log_cost]. fin.
Qed.

(* the octets in reach of a reader *)
Notation reach := rdr_rem.

Lemma rd_read_spec : forall st k, 0 < k -> rdr_ok st ->
  match rd_read st k with
  | ((RData d, st'), l) =>
      1 <= lenN d /\ lenN d <= k /\ reach st' + lenN d <= reach st /\
      log_cost l + 4 * (reach st' + lenN d) <= 4 * reach st /\ log_ok l /\
      bytes_ok d = true /\ rdr_ok st'
  | ((_, st'), l) =>
      reach st' <= reach st /\ log_cost l + 4 * reach st' <= 4 * reach st + 4 /\ log_ok l /\ rdr_ok st'
  end.
Proof.
  intros st k K [Bu Bb]. unfold rd_read, rdr_rem. destruct st as [s buf und]. cbn [r_src r_buf r_und] in *.
  destruct buf as [[|x b]|].
  - pose proof (src_read_spec s (if 4096 <=? k then k else 4096) und ltac:(destruct (4096 <=? k); lia) Bu) as S.
    destruct (src_read s (if 4096 <=? k then k else 4096) und) as [[[[d| |] s'] u'] l].
    + destruct S as [S1 [S2 [S3 [S4 [S5 [S6 S7]]]]]].
      destruct (N.leb_spec 4096 k) as [G|G]; cbn [r_buf r_und].
      * rewrite lenN_nil. fin.
      * destruct (take_n k d) as [d1 b'] eqn:T.
        pose proof (take_n_nonempty _ _ _ _ T K ltac:(intro; subst; rewrite lenN_nil in S1; lia)).
        destruct (take_n_spec _ _ _ _ T) as [E [L _]]. destruct (take_n_ok _ _ _ _ T S6) as [Bd Bb'].
        cbn [r_buf r_und]. rewrite E, lenN_app in *. fin.
    + cbn [r_buf r_und]. destruct S as [S1 [S2 [S3 S4]]]. rewrite !lenN_nil. fin.
    + cbn [r_buf r_und]. destruct S as [S1 [S2 [S3 S4]]]. rewrite !lenN_nil. fin.
  - destruct (take_n k (x :: b)) as [d b'] eqn:T. unfold cret. cbn [r_buf r_und log_cost].
    pose proof (take_n_nonempty _ _ _ _ T K ltac:(discriminate)).
    destruct (take_n_spec _ _ _ _ T) as [E [L _]]. destruct (take_n_ok _ _ _ _ T Bb) as [Bd Bb'].
    rewrite E, lenN_app. fin.
  - pose proof (src_read_spec s k und K Bu) as S.
    destruct (src_read s k und) as [[[[d| |] s'] u'] l]; cbn [r_buf r_und].
    + destruct S as [S1 [S2 [S3 [S4 [S5 [S6 S7]]]]]]. fin.
    + destruct S as [S1 [S2 [S3 S4]]]. fin.
    + destruct S as [S1 [S2 [S3 S4]]]. fin.
Qed.

(* io.ReadFull *)
Lemma rd_full_loop_spec : forall fuel k acc st, rdr_ok st -> bytes_ok acc = true ->
  match rd_full_loop fuel k acc st with
  | (FOk d st', l) =>
      lenN d = lenN acc + k /\ reach st' + k <= reach st /\
      log_cost l + 4 * (reach st' + k) <= 4 * reach st /\ log_ok l /\ bytes_ok d = true /\ rdr_ok st'
  | (_, l) => log_cost l <= 4 * reach st + 4 /\ log_ok l
  end.
Proof.
  induction fuel as [|f IH]; intros k acc st O B; cbn [rd_full_loop].
  - destruct (N.eqb_spec k 0) as [Z|Z]; unfold cret; cbn [log_cost].
    + fin.
    + split; [lia|log_tac].
  - destruct (N.eqb_spec k 0) as [Z|Z]; unfold cret; cbn [log_cost].
    { fin. }
    pose proof (rd_read_spec st k ltac:(lia) O) as R.
    destruct (rd_read st k) as [[[d| |] st'] l].
    + destruct R as [R1 [R2 [R3 [R4 [R5 [R6 R7]]]]]].
      specialize (IH (k - lenN d) (acc ++ d) st' R7 (bytes_ok_app_intro _ _ B R6)).
      destruct (rd_full_loop f (k - lenN d) (acc ++ d) st') as [[d2 st2| |] l2].
      * destruct IH as [I1 [I2 [I3 [I4 [I5 I6]]]]]. rewrite lenN_app in I1. rewrite log_cost_app.
        fin.
      * destruct IH as [I1 I2]. rewrite log_cost_app. split; [lia|log_tac].
      * destruct IH as [I1 I2]. rewrite log_cost_app. split; [lia|log_tac].
    + destruct R as [R1 [R2 [R3 R4]]]. destruct acc; (split; [lia|exact R3]).
    + destruct R as [R1 [R2 [R3 R4]]]. split; [lia|exact R3].
Qed.

(* ------------------------------------------------------------------------------------- *)
(* the shape of the statements about parsers that read from a reader                      *)
(* ------------------------------------------------------------------------------------- *)
(* K: what one octet taken out of reach pays for.  On success the parser's own inequality S holds
   (cost against K times the octets taken, with what it leaves over), on failure the cost is paid
   by everything in reach plus a constant.  KK is the K of the final statements; the secret key
   material is parsed a second time from a copy, at the small rate K2. *)
Definition KK : N := 2400.
Definition K2 : N := 24.

Definition rspec {A} (K : N) (st : rdr) (cf : N) (S : A -> rdr -> log -> Prop) (m : cres (A * rdr)) : Prop :=
  match m with
  | (Ok (x, st'), l) => S x st' l /\ reach st' <= reach st /\ log_okc area_max l /\ rdr_ok st'
  | (_, l) => log_cost l <= K * reach st + cf /\ log_okc area_max l
  end.

(* io.ReadFull: k octets; only length octets of partial bodies cost anything, the k octets keep
   their K each *)
Lemma rd_full_gen : forall J k st, rdr_ok st ->
  rspec (J + 4) st 4 (fun d st' l => lenN d = k /\ bytes_ok d = true /\
                             log_cost l + (J + 4) * reach st' + (J + 4) * k <= (J + 4) * reach st) (rd_full k st).
Proof.
  intros J k st O. unfold rd_full, rd_fuel, rspec.
  pose proof (rd_full_loop_spec (S (length (r_und st) + match r_buf st with Some b => length b | None => 0%nat end)) k [] st O eq_refl) as R.
  destruct (rd_full_loop _ k [] st) as [[d st'| |] l].
  - destruct R as [R1 [R2 [R3 [R4 [R5 R6]]]]]. rewrite lenN_nil in R1.
    assert (J * (reach st' + k) <= J * reach st) by (apply N.mul_le_mono_l; lia). fin.
  - destruct R as [R1 R2]. split; [lia|fin].
  - destruct R as [R1 R2]. split; [lia|fin].
Qed.

Lemma rd_full_io_gen : forall J k st, rdr_ok st ->
  rspec (J + 4) st 4 (fun d st' l => lenN d = k /\ bytes_ok d = true /\
                             log_cost l + (J + 4) * reach st' + (J + 4) * k <= (J + 4) * reach st) (rd_full_io k st).
Proof.
  intros J k st O. unfold rd_full_io, rd_fuel, rspec.
  pose proof (rd_full_loop_spec (S (length (r_und st) + match r_buf st with Some b => length b | None => 0%nat end)) k [] st O eq_refl) as R.
  destruct (rd_full_loop _ k [] st) as [[d st'| |] l].
  - destruct R as [R1 [R2 [R3 [R4 [R5 R6]]]]]. rewrite lenN_nil in R1.
    assert (J * (reach st' + k) <= J * reach st) by (apply N.mul_le_mono_l; lia). fin.
  - destruct R as [R1 R2]. split; [lia|fin].
  - destruct R as [R1 R2]. split; [lia|fin].
Qed.

Lemma rd_full_spec : forall k st, rdr_ok st ->
  rspec KK st 4 (fun d st' l => lenN d = k /\ bytes_ok d = true /\
                             log_cost l + KK * reach st' + KK * k <= KK * reach st) (rd_full k st).
Proof. intros. exact (rd_full_gen (KK - 4) k st H). Qed.
Lemma rd_full_io_spec : forall k st, rdr_ok st ->
  rspec KK st 4 (fun d st' l => lenN d = k /\ bytes_ok d = true /\
                             log_cost l + KK * reach st' + KK * k <= KK * reach st) (rd_full_io k st).
Proof. intros. exact (rd_full_io_gen (KK - 4) k st H). Qed.
Lemma rd_full_spec2 : forall k st, rdr_ok st ->
  rspec K2 st 4 (fun d st' l => lenN d = k /\ bytes_ok d = true /\
                             log_cost l + K2 * reach st' + K2 * k <= K2 * reach st) (rd_full k st).
Proof. intros. exact (rd_full_gen 20 k st H). Qed.

(* io.ReadAll *)
Lemma rd_all_loop_spec : forall fuel acc st, rdr_ok st -> bytes_ok acc = true ->
  match rd_all_loop fuel acc st with
  | ((d, _, st'), l) =>
      lenN d + reach st' <= lenN acc + reach st /\ reach st' <= reach st /\
      log_cost l + 4 * reach st' <= 4 * reach st + 4 /\ log_ok l /\ bytes_ok d = true /\ rdr_ok st'
  end.
Proof.
  induction fuel as [|f IH]; intros acc st O B; cbn [rd_all_loop].
  - unfold cret. cbn [log_cost]. fin.
  - pose proof (rd_read_spec st 512 ltac:(lia) O) as R.
    destruct (rd_read st 512) as [[[d| |] st'] l].
    + destruct R as [R1 [R2 [R3 [R4 [R5 [R6 R7]]]]]].
      specialize (IH (acc ++ d) st' R7 (bytes_ok_app_intro _ _ B R6)).
      destruct (rd_all_loop f (acc ++ d) st') as [[[d2 ok] st2] l2].
      destruct IH as [I1 [I2 [I3 [I4 [I5 I6]]]]]. rewrite lenN_app in I1. rewrite log_cost_app.
      fin.
    + destruct R as [R1 [R2 [R3 R4]]]. fin.
    + destruct R as [R1 [R2 [R3 R4]]]. fin.
Qed.

Lemma rd_all_spec : forall st, rdr_ok st ->
  match rd_all st with
  | ((d, _, st'), l) =>
      lenN d + reach st' <= reach st /\ reach st' <= reach st /\
      log_cost l + 4 * reach st' <= 4 * reach st + 4 /\ log_ok l /\ bytes_ok d = true /\ rdr_ok st'
  end.
Proof.
  intros st O. unfold rd_all. pose proof (rd_all_loop_spec (rd_fuel st) [] st O eq_refl) as R.
  destruct (rd_all_loop (rd_fuel st) [] st) as [[[d ok] st'] l]. rewrite lenN_nil in R. exact R.
Qed.

(* ------------------------------------------------------------------------------------- *)
(* tactics: one call of a specified reader function                                       *)
(* ------------------------------------------------------------------------------------- *)
Fixpoint sumlen (ms : list bytes) : N := match ms with [] => 0 | m :: r => lenN m + 2 + sumlen r end.

Ltac lc := repeat (progress (cbn [log_cost alloc_sz app fst snd sumlen tk_mpis tk_algo]) || rewrite log_cost_app || rewrite app_nil_r).
Ltac done_ok := unfold rspec, KK, K2 in *; lc; fin.

Ltac close_fail :=
  match goal with
  | H : _ /\ _ |- _ => destruct H; close_fail
  | |- _ => unfold rspec; step_simpl; lc; split; [unfold KK, K2 in *; lia | fin]
  end.

(* [call_with lemma R]: pose the rspec of a call that occurs in the goal, destruct its result; the
   failure cases are closed, the success case goes on with the facts R in the context *)
Ltac call_with t R :=
  pose proof t as R; unfold rspec in R;
  match type of R with
  | match ?m with _ => _ end =>
      let x := fresh "x" in let st' := fresh "st" in let l := fresh "l" in let e := fresh "e" in
      destruct m as [[[x st']|e|e] l]; step_simpl;
      [ | try close_fail | try close_fail ]
  end.

Lemma nth0_byte : forall b, bytes_ok b = true -> nth 0 b 0 <= 255.
Proof.
  intros [|x b] H; cbn [nth]; [lia|]. unfold bytes_ok in H. cbn [forallb] in H. unfold byte_ok in H. lia.
Qed.

(* ------------------------------------------------------------------------------------- *)
(* readMPI, parseOID, s2k.Parse                                                           *)
(* ------------------------------------------------------------------------------------- *)
(* an MPI of n octets: 2 + n are requested; at any rate of 24 or more the 2 + n octets read keep
   all but 8 each *)
Lemma t_read_mpi_gen : forall J st, rdr_ok st ->
  rspec (J + 24) st 8300 (fun x st' l => lenN (fst x) <= 8192 /\ bytes_ok (fst x) = true /\
                  log_cost l + (J + 24) * reach st' + (J + 24) * (lenN (fst x) + 2) <= (J + 24) * reach st + 8 * (lenN (fst x) + 2)) (t_read_mpi st).
Proof.
  intros J st O. unfold t_read_mpi.
  call_with (rd_full_gen (J + 20) 2 st O) R.
  destruct R as [[R1 [R2 R3]] [R4 [R5 R6]]].
  pose proof (be16_bound _ R2) as B16.
  assert (Hn : (be16 x + 7) / 8 <= 8192).
  { assert ((be16 x + 7) / 8 < 8193) by (apply N.div_lt_upper_bound; lia). lia. }
  set (n := (be16 x + 7) / 8) in *.
  call_with (rd_full_gen (J + 20) n st0 R6) R'.
  destruct R' as [[S1 [S2 S3]] [S4 [S5 S6]]].
  unfold rspec; lc; fin.
Qed.

Lemma t_read_mpi_spec : forall st, rdr_ok st ->
  rspec KK st 8300 (fun x st' l => lenN (fst x) <= 8192 /\ bytes_ok (fst x) = true /\
                  log_cost l + KK * reach st' + KK * (lenN (fst x) + 2) <= KK * reach st + 8 * (lenN (fst x) + 2)) (t_read_mpi st).
Proof. intros. exact (t_read_mpi_gen (KK - 24) st H). Qed.

Lemma t_read_mpi_spec2 : forall st, rdr_ok st ->
  rspec K2 st 8300 (fun x st' l => lenN (fst x) <= 8192 /\ bytes_ok (fst x) = true /\
                  log_cost l + K2 * reach st' + K2 * (lenN (fst x) + 2) <= K2 * reach st + 8 * (lenN (fst x) + 2)) (t_read_mpi st).
Proof. intros. exact (t_read_mpi_gen 0 st H). Qed.

Lemma nth_sumlen : forall i (ms : list bytes), lenN (nth i ms []) <= sumlen ms.
Proof.
  induction i; intros [|m r]; cbn [nth sumlen]; try (rewrite lenN_nil; lia); [lia|].
  specialize (IHi r). lia.
Qed.

(* k MPIs with their big.Int values: every octet read keeps K - 20 *)
Ltac prove_read_mpis mpi_spec :=
  let k := fresh "k" in induction k as [|k IH]; intros st O; cbn [t_read_mpis];
  [ unfold rret, rspec; cbn [sumlen log_cost]; fin
  | let R := fresh "R" in
    call_with (mpi_spec st O) R;
    destruct R as [[?R1 [?R2 ?R3]] [?R4 [?R5 ?R6]]];
    match goal with x : (bytes * N)%type |- _ => destruct x as [?m ?bits] end; cbn [fst snd] in *;
    unfold setbytes_log;
    match goal with H : rdr_ok ?s |- context [t_read_mpis k ?s] =>
      let R' := fresh "R" in
      call_with (IH s H) R';
      destruct R' as [[?S0 ?S1] [?S4 [?S5 ?S6]]]
    end;
    cbn [sumlen]; done_ok ].

Lemma t_read_mpis_spec : forall k st, rdr_ok st ->
  rspec KK st 8300 (fun ms st' l => 2 * N.of_nat k <= sumlen ms /\
     log_cost l + KK * reach st' + KK * sumlen ms <= KK * reach st + 20 * sumlen ms) (t_read_mpis k st).
Proof. prove_read_mpis t_read_mpi_spec. Qed.

Lemma t_read_mpis_spec2 : forall k st, rdr_ok st ->
  rspec K2 st 8300 (fun ms st' l => 2 * N.of_nat k <= sumlen ms /\
     log_cost l + K2 * reach st' + K2 * sumlen ms <= K2 * reach st + 20 * sumlen ms) (t_read_mpis k st).
Proof. prove_read_mpis t_read_mpi_spec2. Qed.

Lemma max_oid_len_small : max_oid_len <= 255.
Proof. vm_compute. discriminate. Qed.

Ltac okc_alloc ::= first [assumption | exact I | apply okc_const; unfold area_max; pose proof max_oid_len_small; lia | apply okc_backed; lia].

(* public_key.go parseOID *)
Lemma t_parse_oid_spec : forall st, rdr_ok st ->
  rspec KK st 300 (fun oid st' l => log_cost l + KK * reach st' <= KK * reach st) (t_parse_oid st).
Proof.
  intros st O. unfold t_parse_oid. pose proof max_oid_len_small as M.
  call_with (rd_full_spec 1 st O) R. destruct R as [[R1 [R2 R3]] [R4 [R5 R6]]].
  destruct (max_oid_len <? nth 0 x 0); step_simpl. { close_fail. }
  call_with (rd_full_spec (nth 0 x 0) st0 R6) R'. destruct R' as [[S1 [S2 S3]] [S4 [S5 S6]]].
  done_ok.
Qed.

(* s2k.Parse *)
Lemma t_s2k_parse_spec : forall o st, rdr_ok st ->
  rspec KK st 300 (fun _ st' l => log_cost l + KK * reach st' <= KK * reach st) (t_s2k_parse o st).
Proof.
  intros o st O. unfold t_s2k_parse.
  call_with (rd_full_io_spec 2 st O) R. destruct R as [[R1 [R2 R3]] [R4 [R5 R6]]].
  destruct (negb (hash_known (nth 1 x 0))); step_simpl. { close_fail. }
  destruct ((nth 1 x 0 =? 3) && negb o); step_simpl. { close_fail. }
  destruct (nth 0 x 0 =? 0); step_simpl. { done_ok. }
  destruct (nth 0 x 0 =? 1); step_simpl.
  { call_with (rd_full_io_spec 8 st0 R6) R'. destruct R' as [[S1 [S2 S3]] [S4 [S5 S6]]]. done_ok. }
  destruct (nth 0 x 0 =? 3); step_simpl.
  { call_with (rd_full_io_spec 9 st0 R6) R'. destruct R' as [[S1 [S2 S3]] [S4 [S5 S6]]]. done_ok. }
  close_fail.
Qed.

(* the algorithm-specific part of a public key *)
Lemma t_parse_keymat_spec : forall algo st, rdr_ok st ->
  rspec KK st 9000 (fun ms st' l =>
     log_cost l + KK * reach st' + KK * sumlen ms <= KK * reach st + 100 * sumlen ms) (t_parse_keymat algo st).
Proof.
  intros algo st O. unfold t_parse_keymat, sizeof_keystruct.
  destruct ((algo =? 1) || (algo =? 2) || (algo =? 3)).
  { call_with (t_read_mpis_spec 2 st O) R. destruct R as [[R0 R1] [R4 [R5 R6]]].
    destruct (3 <? lenN (nth 1 x [])); step_simpl; [close_fail|done_ok]. }
  destruct (algo =? 17).
  { call_with (t_read_mpis_spec 4 st O) R. destruct R as [[R0 R1] [R4 [R5 R6]]]. done_ok. }
  destruct (algo =? 16).
  { call_with (t_read_mpis_spec 3 st O) R. destruct R as [[R0 R1] [R4 [R5 R6]]]. done_ok. }
  destruct ((algo =? 19) || (algo =? 22)).
  { call_with (t_parse_oid_spec st O) R. destruct R as [R1 [R4 [R5 R6]]].
    call_with (t_read_mpi_spec st0 R6) R'. destruct R' as [[S1 [S2 S3]] [S4 [S5 S6]]].
    destruct x0 as [m bits]. cbn [fst snd] in *.
    destruct (is_curve_oid x); step_simpl; close_fail. }
  destruct (algo =? 18).
  { call_with (t_parse_oid_spec st O) R. destruct R as [R1 [R4 [R5 R6]]].
    call_with (t_read_mpi_spec st0 R6) R'. destruct R' as [[S1 [S2 S3]] [S4 [S5 S6]]].
    destruct x0 as [m bits]. cbn [fst snd] in *.
    call_with (rd_full_spec 1 st1 S6) R''. destruct R'' as [[T1 [T2 T3]] [T4 [T5 T6]]].
    pose proof (nth0_byte _ T2) as NB.
    destruct (nth 0 x0 0 <? 3); step_simpl. { close_fail. }
    call_with (rd_full_spec (nth 0 x0 0) st2 T6) R3. destruct R3 as [[U1 [U2 U3]] [U4 [U5 U6]]].
    destruct (negb (nth 0 x1 0 =? 1)); step_simpl. { close_fail. }
    destruct (is_curve_oid x); step_simpl; close_fail. }
  step_simpl. close_fail.
Qed.

(* io.ReadAll at the rate J + 4: the octets delivered keep J each *)
Lemma rd_all_gen : forall J st, rdr_ok st ->
  match rd_all st with
  | ((d, _, st'), l) =>
      log_cost l + (J + 4) * reach st' + J * lenN d <= (J + 4) * reach st + 4 /\
      reach st' <= reach st /\ log_okc area_max l /\ bytes_ok d = true /\ rdr_ok st'
  end.
Proof.
  intros J st O. pose proof (rd_all_spec st O) as R.
  destruct (rd_all st) as [[[d ok] st'] l]. destruct R as [R1 [R2 [R3 [R4 [R5 R6]]]]].
  assert (J * (lenN d + reach st') <= J * reach st) by (apply N.mul_le_mono_l; lia). fin.
Qed.

Lemma rd_all_KK : forall st, rdr_ok st ->
  match rd_all st with
  | ((d, _, st'), l) =>
      log_cost l + KK * reach st' + (KK - 4) * lenN d <= KK * reach st + 4 /\
      reach st' <= reach st /\ log_okc area_max l /\ bytes_ok d = true /\ rdr_ok st'
  end.
Proof. intros. exact (rd_all_gen (KK - 4) st H). Qed.

(* PublicKey.parse: the octets of the key material keep KK - 100 each, and 5000 are left over from
   the six octets of the fixed part *)
Lemma t_parse_public_key_spec : forall sub st, rdr_ok st ->
  rspec KK st 9500 (fun k st' l =>
     log_cost l + KK * reach st' + KK * sumlen (tk_mpis k) + 5000 <= KK * reach st + 100 * sumlen (tk_mpis k))
    (t_parse_public_key sub st).
Proof.
  intros sub st O. unfold t_parse_public_key, sizeof_fingerprint.
  call_with (rd_full_spec 6 st O) R. destruct R as [[R1 [R2 R3]] [R4 [R5 R6]]].
  destruct (negb (nth 0 x 0 =? 4)); step_simpl. { close_fail. }
  call_with (t_parse_keymat_spec (nth 5 x 0) st0 R6) R'. destruct R' as [S1 [S4 [S5 S6]]].
  cbn [tk_mpis]. done_ok.
Qed.

Lemma t_parse_public_key_v3_spec : forall sub st, rdr_ok st ->
  rspec KK st 9500 (fun k st' l =>
     log_cost l + KK * reach st' + KK * sumlen (tk_mpis k) + 5000 <= KK * reach st + 100 * sumlen (tk_mpis k))
    (t_parse_public_key_v3 sub st).
Proof.
  intros sub st O. unfold t_parse_public_key_v3, sizeof_fingerprint, sizeof_keystruct.
  call_with (rd_full_spec 8 st O) R. destruct R as [[R1 [R2 R3]] [R4 [R5 R6]]].
  destruct ((nth 0 x 0 <? 2) || (3 <? nth 0 x 0)); step_simpl. { close_fail. }
  destruct (negb ((nth 7 x 0 =? 1) || (nth 7 x 0 =? 2) || (nth 7 x 0 =? 3))); step_simpl. { close_fail. }
  call_with (t_read_mpis_spec 2 st0 R6) R'. destruct R' as [[S0 S1] [S4 [S5 S6]]].
  destruct (lenN (nth 0 x0 []) <? 8); step_simpl. { close_fail. }
  destruct (3 <? lenN (nth 1 x0 [])); step_simpl. { close_fail. }
  cbn [tk_mpis]. done_ok.
Qed.

(* the secret key material, parsed from the copy that io.ReadAll made *)
Lemma buf_rdr_ok : forall b, bytes_ok b = true -> rdr_ok (buf_rdr b).
Proof. intros b H. split; [exact H|exact I]. Qed.
Lemma buf_rdr_reach : forall b, reach (buf_rdr b) = lenN b.
Proof. intros. unfold rdr_rem, buf_rdr. cbn [r_und r_buf]. lia. Qed.

Lemma t_parse_secret_mpis_spec : forall k data, bytes_ok data = true ->
  let m := t_parse_secret_mpis k data in
  log_okc area_max (snd m) /\
  log_cost (snd m) <= K2 * lenN data + 24 * sumlen (tk_mpis k) + (if is_ok (fst m) then 400 else 9000).
Proof.
  intros k data B. unfold t_parse_secret_mpis, sizeof_keystruct.
  pose proof (buf_rdr_ok _ B) as O. pose proof (buf_rdr_reach data) as RE.
  pose proof (nth_sumlen 0 (tk_mpis k)) as NS.
  destruct ((tk_algo k =? 1) || (tk_algo k =? 2) || (tk_algo k =? 3)).
  { pose proof (t_read_mpis_spec2 3 (buf_rdr data) O) as R. unfold rspec in R.
    destruct (t_read_mpis 3 (buf_rdr data)) as [[[ms st']|e|e] l]; step_simpl; lc.
    - destruct R as [[R0 R1] [R4 [R5 R6]]].
      destruct (rsa_validate _ _ _ _ _); step_simpl; lc; cbn [is_ok]; (split; [fin|unfold K2 in *; lia]).
    - destruct R as [R1 R2]. cbn [is_ok]. split; [fin|unfold K2 in *; lia].
    - destruct R as [R1 R2]. cbn [is_ok]. split; [fin|unfold K2 in *; lia]. }
  destruct ((tk_algo k =? 17) || (tk_algo k =? 16)).
  { pose proof (t_read_mpis_spec2 1 (buf_rdr data) O) as R. unfold rspec in R.
    destruct (t_read_mpis 1 (buf_rdr data)) as [[[ms st']|e|e] l]; step_simpl; lc.
    - destruct R as [[R0 R1] [R4 [R5 R6]]]. cbn [is_ok]. split; [fin|unfold K2 in *; lia].
    - destruct R as [R1 R2]. cbn [is_ok]. split; [fin|unfold K2 in *; lia].
    - destruct R as [R1 R2]. cbn [is_ok]. split; [fin|unfold K2 in *; lia]. }
  step_simpl; lc. cbn [is_ok]. split; [fin|lia].
Qed.

Lemma readall_log_cost : forall m, log_cost (readall_log m) <= 7 * m + 512.
Proof. intros. pose proof (readall_cost_le m) as H. unfold readall_cost in H. exact H. Qed.

(* PrivateKey.parse *)
Lemma t_parse_private_key_spec : forall o sub st, rdr_ok st ->
  rspec KK st 30000 (fun k st' l => log_cost l + KK * reach st' <= KK * reach st)
    (t_parse_private_key o sub st).
Proof.
  intros o sub st O. unfold t_parse_private_key.
  call_with (t_parse_public_key_spec sub st O) R. destruct R as [R1 [R4 [R5 R6]]].
  call_with (rd_full_spec 1 st0 R6) R'. destruct R' as [[S1 [S2 S3]] [S4 [S5 S6]]].
  (* the string-to-key part *)
  match goal with |- context [rbind ?m _] => set (M := m) in * end.
  assert (E : rspec KK st1 400 (fun (_ : bool) st' l => log_cost l + KK * reach st' <= KK * reach st1) M).
  { subst M. destruct (nth 0 x0 0 =? 0). { done_ok. }
    destruct ((nth 0 x0 0 =? 254) || (nth 0 x0 0 =? 255)); [|close_fail].
    call_with (rd_full_spec 1 st1 S6) T. destruct T as [[T1 [T2 T3]] [T4 [T5 T6]]].
    call_with (t_s2k_parse_spec o st2 T6) U. destruct U as [U1 [U4 [U5 U6]]].
    assert (CB : cipher_block_size (nth 0 x1 0) <= 16).
    { unfold cipher_block_size. destruct ((nth 0 x1 0 =? 2) || (nth 0 x1 0 =? 3)); [lia|].
      destruct ((nth 0 x1 0 =? 7) || (nth 0 x1 0 =? 8) || (nth 0 x1 0 =? 9)); lia. }
    destruct (cipher_block_size (nth 0 x1 0) =? 0); step_simpl. { close_fail. }
    call_with (rd_full_spec (cipher_block_size (nth 0 x1 0)) st3 U6) V. destruct V as [[V1 [V2 V3]] [V4 [V5 V6]]].
    done_ok. }
  unfold rspec in E. destruct M as [[[enc st2]|e|e] l1]; step_simpl.
  2,3: close_fail.
  destruct E as [E1 [E4 [E5 E6]]].
  pose proof (rd_all_KK st2 E6) as A. destruct (rd_all st2) as [[[data ok] st3] l2].
  destruct A as [A1 [A2 [A3 [A4 A5]]]].
  pose proof (readall_log_cost (lenN data)) as RA.
  step_simpl.
  destruct (negb ok); step_simpl. { close_fail. }
  destruct enc; step_simpl. { done_ok. }
  pose proof (t_parse_secret_mpis_spec x data A4) as SM. cbv zeta in SM.
  destruct (t_parse_secret_mpis x data) as [[u|e|e] l3]; cbn [fst snd is_ok] in SM; destruct SM as [SM1 SM2]; step_simpl.
  - done_ok.
  - close_fail.
  - close_fail.
Qed.

(* ------------------------------------------------------------------------------------- *)
(* signature subpackets                                                                   *)
(* ------------------------------------------------------------------------------------- *)
(* what the parser of an embedded signature costs: EB per octet of the subpacket and EC *)
Definition emb_ok (emb : option (bytes -> cres tsig)) (EB EC ECf : N) : Prop :=
  match emb with
  | None => True
  | Some p => forall body, bytes_ok body = true ->
      log_cost (snd (p body)) <= EB * lenN body + (if is_ok (fst (p body)) then EC else ECf) /\
      log_okc area_max (snd (p body))
  end.

(* the embedded signature is parsed at most once per signature: what is left of that budget *)
Definition emb_budget (EC : N) (st : spst) : N := if sp_emb st then 0 else EC + 500.

Lemma lenN_drop_eq : forall k (l : bytes), N.of_nat k <= lenN l -> lenN l = N.of_nat k + lenN (drop k l).
Proof.
  induction k; intros l H; cbn [drop]; [lia|].
  destruct l as [|x r]. { rewrite lenN_nil in H. lia. }
  rewrite lenN_cons in *. rewrite (IHk r) at 1; lia.
Qed.

Lemma bytes_ok_drop : forall k (l : bytes), bytes_ok l = true -> bytes_ok (drop k l) = true.
Proof.
  induction k; intros l H; cbn [drop]; [exact H|]. destruct l as [|x r]; [reflexivity|].
  apply IHk. unfold bytes_ok in *. cbn [forallb] in H. now apply andb_prop in H.
Qed.

Lemma bytes_ok_cons : forall x (l : bytes), bytes_ok (x :: l) = true -> bytes_ok l = true.
Proof. intros x l H. unfold bytes_ok in *. cbn [forallb] in H. now apply andb_prop in H. Qed.

Lemma append_grow_outsub : forall c cap, cap <= 2 * c ->
  let '(cap', lg) := append_grow sizeof_outsub c cap in
  cap' <= 2 * (c + 1) /\ log_cost lg + 64 * cap <= 64 * cap' /\ log_okc area_max lg.
Proof.
  intros c cap H. unfold append_grow, sizeof_outsub.
  destruct (N.eqb_spec c cap) as [E|E].
  - destruct (N.eqb_spec cap 0) as [Z|Z]; cbn [log_cost alloc_sz]; fin.
  - cbn [log_cost]. fin.
Qed.

Lemma t_parse_subpacket_spec : forall emb EB EC ECf hashed st l,
  emb_ok emb EB EC ECf -> bytes_ok l = true -> sp_rawcap st <= 2 * sp_raw st ->
  let m := t_parse_subpacket emb hashed st l in
  log_okc area_max (snd m) /\
  match fst m with
  | Ok (st', rest) =>
      lenN rest + 2 <= lenN l /\ bytes_ok rest = true /\
      sp_raw st' = sp_raw st + 1 /\ sp_rawcap st' <= 2 * sp_raw st' /\
      log_cost (snd m) + 64 * sp_rawcap st + (EB + 2) * lenN rest + emb_budget EC st'
        <= 64 * sp_rawcap st' + (EB + 2) * lenN l + emb_budget EC st
  | _ => log_cost (snd m) + 64 * sp_rawcap st <= (EB + 2) * lenN l + 128 * (sp_raw st + 1) + emb_budget EC st + ECf
  end.
Proof.
  intros emb EB EC ECf hashed st l EO B CAP. unfold t_parse_subpacket.
  destruct l as [|b0 l0]. { unfold rfail. cbn [fst snd log_cost]. split; [fin|lia]. }
  set (l := b0 :: l0) in *.
  (* the length octets *)
  assert (HL : exists k len, (1 <= k)%nat /\
     (if b0 <? 192 then rret (b0, drop 1 l)
      else if b0 <? 255 then (if lenN l <? 2 then rfail "signature subpacket truncated" else rret ((b0 - 192) * 256 + nth 1 l 0 + 192, drop 2 l))
      else (if lenN l <? 5 then rfail "signature subpacket truncated" else rret (be32 (drop 1 l), drop 5 l)))
     = (if N.of_nat k <=? lenN l then rret (len, drop k l) else rfail "signature subpacket truncated")).
  { destruct (b0 <? 192).
    - exists 1%nat, b0. split; [lia|]. replace (N.of_nat 1 <=? lenN l) with true; [reflexivity|].
      subst l. rewrite lenN_cons. lia.
    - destruct (b0 <? 255).
      + exists 2%nat, ((b0 - 192) * 256 + nth 1 l 0 + 192). split; [lia|].
        destruct (N.ltb_spec (lenN l) 2); destruct (N.leb_spec (N.of_nat 2) (lenN l)); try reflexivity; lia.
      + exists 5%nat, (be32 (drop 1 l)). split; [lia|].
        destruct (N.ltb_spec (lenN l) 5); destruct (N.leb_spec (N.of_nat 5) (lenN l)); try reflexivity; lia. }
  destruct HL as [k [len [K1 ->]]].
  destruct (N.leb_spec (N.of_nat k) (lenN l)) as [KL|KL]; step_simpl.
  2:{ split; [fin|lia]. }
  pose proof (lenN_drop_eq k l KL) as DL. pose proof (bytes_ok_drop k l B) as BD.
  set (rest0 := drop k l) in *.
  destruct (N.ltb_spec (lenN rest0) len) as [T|T]; step_simpl. { split; [fin|lia]. }
  destruct (take_n len rest0) as [sp rest] eqn:TK.
  destruct (take_n_spec _ _ _ _ TK) as [E0 [L0 L1]]. destruct (take_n_ok _ _ _ _ TK BD) as [Bsp Brest].
  assert (Lsp : lenN sp = len).
  { destruct L1 as [L1|L1]; [exact L1|]. subst rest. rewrite app_nil_r in E0. subst sp. lia. }
  assert (LR : lenN rest0 = lenN sp + lenN rest) by (rewrite E0, lenN_app; reflexivity).
  destruct sp as [|t0 body]. { step_simpl. split; [fin|lia]. }
  rewrite lenN_cons in *. pose proof (bytes_ok_cons _ _ Bsp) as Bbody.
  pose proof (append_grow_outsub (sp_raw st) (sp_rawcap st) CAP) as AG.
  destruct (append_grow sizeof_outsub (sp_raw st) (sp_rawcap st)) as [cap' lg]. destruct AG as [A1 [A2 A3]].
  step_simpl. cbn [sp_created sp_issuer sp_emb sp_raw sp_rawcap].
  unfold emb_budget.
  (* one finishing step for all the kinds that go on *)
  Ltac sub_ok := step_simpl; lc; cbn [sp_created sp_issuer sp_emb sp_raw sp_rawcap];
    match goal with DL : lenN _ = N.of_nat _ + lenN _, LR : lenN _ = lenN _ + 1 + lenN _ |- _ => rewrite DL, LR end;
    try match goal with |- context [if sp_emb ?s then _ else _] => destruct (sp_emb s) end; (split; [fin|fin]).
  Ltac sub_err := step_simpl; lc;
    match goal with DL : lenN _ = N.of_nat _ + lenN _, LR : lenN _ = lenN _ + 1 + lenN _ |- _ => rewrite DL, LR end;
    try match goal with |- context [if sp_emb ?s then _ else _] => destruct (sp_emb s) end; (split; [fin|lia]).
  destruct (N.land t0 127 =? 2).
  { destruct (negb hashed); [sub_err|]. destruct (N.eqb_spec (lenN body) 4); cbn [negb]; [sub_ok|sub_err]. }
  destruct ((N.land t0 127 =? 3) || (N.land t0 127 =? 9)).
  { destruct (negb hashed); [sub_ok|]. destruct (N.eqb_spec (lenN body) 4); cbn [negb]; [sub_ok|sub_err]. }
  destruct ((N.land t0 127 =? 11) || (N.land t0 127 =? 21) || (N.land t0 127 =? 22)).
  { destruct (negb hashed); sub_ok. }
  destruct (N.land t0 127 =? 16).
  { destruct (N.eqb_spec (lenN body) 8); cbn [negb]; [sub_ok|sub_err]. }
  destruct (N.land t0 127 =? 25).
  { destruct (negb hashed); [sub_ok|]. destruct (N.eqb_spec (lenN body) 1); cbn [negb]; [sub_ok|sub_err]. }
  destruct (N.land t0 127 =? 27).
  { destruct (negb hashed); [sub_ok|]. destruct (N.eqb_spec (lenN body) 0); [sub_err|sub_ok]. }
  destruct (N.land t0 127 =? 29).
  { destruct (negb hashed); [sub_ok|]. destruct (N.eqb_spec (lenN body) 0); [sub_err|sub_ok]. }
  destruct (N.land t0 127 =? 30). { sub_ok. }
  destruct (N.land t0 127 =? 32).
  { destruct (sp_emb st) eqn:SE; [sub_err|].
    destruct emb as [p|]; [|sub_err].
    destruct (EO body Bbody) as [P1 P2]. unfold sizeof_signature.
    destruct (p body) as [[es|e|e] lp]; cbn [fst snd is_ok] in *; step_simpl; try sub_err.
    destruct (negb (ts_type es =? gen.PgpTables.pgp_sigtype_primary_key_binding)); [sub_err|sub_ok]. }
  destruct (negb (N.land t0 128 =? 0)); [sub_err|sub_ok].
Qed.

Lemma t_parse_subpackets_spec : forall fuel emb EB EC ECf hashed st l,
  emb_ok emb EB EC ECf -> bytes_ok l = true -> sp_rawcap st <= 2 * sp_raw st ->
  let m := t_parse_subpackets fuel emb hashed st l in
  log_okc area_max (snd m) /\
  match fst m with
  | Ok st' =>
      sp_rawcap st' <= 2 * sp_raw st' /\ 2 * sp_raw st' <= 2 * sp_raw st + lenN l /\
      log_cost (snd m) + 64 * sp_rawcap st + emb_budget EC st' <= 64 * sp_rawcap st' + (EB + 2) * lenN l + emb_budget EC st
  | _ => log_cost (snd m) + 64 * sp_rawcap st <= (EB + 66) * lenN l + 128 * (sp_raw st + 1) + emb_budget EC st + ECf
  end.
Proof.
  induction fuel as [|f IH]; intros emb EB EC ECf hashed st l EO B CAP; cbn [t_parse_subpackets].
  - destruct l as [|x r].
    + destruct (sp_created st); unfold rret, rfail; cbn [fst snd log_cost]; (split; [fin|]); [|lia].
      rewrite lenN_nil. fin.
    + unfold rfail. cbn [fst snd log_cost]. split; [fin|lia].
  - destruct l as [|x r].
    + destruct (sp_created st); unfold rret, rfail; cbn [fst snd log_cost]; (split; [fin|]); [|lia].
      rewrite lenN_nil. fin.
    + set (l := x :: r) in *.
      pose proof (t_parse_subpacket_spec emb EB EC ECf hashed st l EO B CAP) as S. cbv zeta in S.
      destruct (t_parse_subpacket emb hashed st l) as [[[st' rest]|e|e] l1]; cbn [fst snd] in S; step_simpl.
      * destruct S as [S0 [S1 [S2 [S3 [S4 S5]]]]].
        specialize (IH emb EB EC ECf hashed st' rest EO S2 S4). cbv zeta in IH.
        destruct (t_parse_subpackets f emb hashed st' rest) as [[st2|e|e] l2]; cbn [fst snd] in IH; lc.
        -- destruct IH as [I0 [I1 [I2 I3]]]. split; [fin|]. fin.
        -- destruct IH as [I0 I1]. split; [fin|]. unfold emb_budget in *.
           destruct (sp_emb st); destruct (sp_emb st'); lia.
        -- destruct IH as [I0 I1]. split; [fin|]. unfold emb_budget in *.
           destruct (sp_emb st); destruct (sp_emb st'); lia.
      * destruct S as [S0 S1]. split; [fin|]. lia.
      * destruct S as [S0 S1]. split; [fin|]. lia.
Qed.

(* ------------------------------------------------------------------------------------- *)
(* Signature.parse                                                                        *)
(* ------------------------------------------------------------------------------------- *)
Lemma be16_drop_bound : forall k (b : bytes), bytes_ok b = true -> be16 (drop k b) <= 65535.
Proof. intros. apply be16_bound. now apply bytes_ok_drop. Qed.

Lemma t_parse_signature_gen_spec : forall emb EB ECf J st, emb_ok emb EB 0 ECf -> rdr_ok st ->
  rspec (J + EB + 400) st (ECf + 150000)
    (fun g st' l => log_cost l + (J + EB + 400) * reach st' + 4 * (J + EB + 400) <= (J + EB + 400) * reach st)
    (t_parse_signature_gen emb st).
Proof.
  intros emb EB ECf J st EO O. unfold t_parse_signature_gen.
  call_with (rd_full_gen (J + EB + 396) 1 st O) R. destruct R as [[R1 [R2 R3]] [R4 [R5 R6]]].
  destruct (negb (nth 0 x 0 =? 4)); step_simpl. { close_fail. }
  call_with (rd_full_gen (J + EB + 396) 5 st0 R6) R'. destruct R' as [[S1 [S2 S3]] [S4 [S5 S6]]].
  destruct (negb (sig_algo_ok (nth 1 x0 0))); step_simpl. { close_fail. }
  destruct (negb (hash_known (nth 2 x0 0))); step_simpl. { close_fail. }
  pose proof (be16_drop_bound 3 x0 S2) as HL. set (hl := be16 (drop 3 x0)) in *.
  call_with (rd_full_gen (J + EB + 396) hl st1 S6) T. destruct T as [[T1 [T2 T3]] [T4 [T5 T6]]].
  (* hashed subpackets *)
  pose proof (t_parse_subpackets_spec (S (length x1)) emb EB 0 ECf true (mk_spst false None false 0 0) x1 EO T2 ltac:(cbn; lia)) as H1.
  cbv zeta in H1. cbn [sp_rawcap sp_raw] in H1. unfold emb_budget in H1. cbn [sp_emb] in H1.
  destruct (t_parse_subpackets (S (length x1)) emb true (mk_spst false None false 0 0) x1) as [[sp1|e|e] l3];
    cbn [fst snd] in H1; step_simpl.
  all: try solve [destruct H1 as [H1a H1b]; unfold rspec; lc; split; [lia|fin]].
  destruct H1 as [H1a [H1b [H1c H1d]]].
  call_with (rd_full_gen (J + EB + 396) 2 st2 T6) U.
  all: try solve [destruct U as [U1 U2]; unfold rspec; lc; split; [destruct (sp_emb sp1); lia|fin]].
  destruct U as [[U1 [U2 U3]] [U4 [U5 U6]]].
  pose proof (be16_bound _ U2) as UL. set (ul := be16 x2) in *.
  call_with (rd_full_gen (J + EB + 396) ul st3 U6) V.
  all: try solve [destruct V as [V1 V2]; unfold rspec; lc; split; [destruct (sp_emb sp1); lia|fin]].
  destruct V as [[V1 [V2 V3]] [V4 [V5 V6]]].
  pose proof (t_parse_subpackets_spec (S (length x3)) emb EB 0 ECf false sp1 x3 EO V2 H1b) as H2.
  cbv zeta in H2. unfold emb_budget in H2.
  destruct (t_parse_subpackets (S (length x3)) emb false sp1 x3) as [[sp2|e|e] l6]; cbn [fst snd] in H2; step_simpl.
  all: try solve [destruct H2 as [H2a H2b]; unfold rspec; lc; split; [destruct (sp_emb sp1); lia|fin]].
  destruct H2 as [H2a [H2b [H2c H2d]]].
  call_with (rd_full_gen (J + EB + 396) 2 st4 V6) W.
  all: try solve [destruct W as [W1 W2]; unfold rspec; lc; split; [destruct (sp_emb sp1); destruct (sp_emb sp2); lia|fin]].
  destruct W as [[W1 [W2 W3]] [W4 [W5 W6]]].
  call_with (t_read_mpi_gen (J + EB + 376) st5 W6) M1.
  all: try solve [destruct M1 as [M1a M1b]; unfold rspec; lc; split; [destruct (sp_emb sp1); destruct (sp_emb sp2); lia|fin]].
  destruct M1 as [[M1a [M1b M1c]] [M1d [M1e M1f]]]. destruct x5 as [m1 bits1]. cbn [fst snd] in *.
  destruct ((nth 1 x0 0 =? 1) || (nth 1 x0 0 =? 3)); step_simpl.
  { unfold rspec; lc. destruct (sp_emb sp1); destruct (sp_emb sp2); fin. }
  call_with (t_read_mpi_gen (J + EB + 376) st6 M1f) M2.
  all: try solve [destruct M2 as [M2a M2b]; unfold rspec; lc; split; [destruct (sp_emb sp1); destruct (sp_emb sp2); lia|fin]].
  destruct M2 as [[M2a [M2b M2c]] [M2d [M2e M2f]]]. destruct x5 as [m2 bits2]. cbn [fst snd] in *.
  step_simpl. unfold rspec; lc. destruct (sp_emb sp1); destruct (sp_emb sp2); fin.
Qed.

(* the embedded signature (no embedded signature of its own), parsed from the octets of its subpacket
   at the rate of 400 *)
Lemma emb_ok_embedded : emb_ok (Some t_parse_embedded) 400 0 150000.
Proof.
  intros body B. unfold t_parse_embedded. rewrite rmap_snd.
  pose proof (t_parse_signature_gen_spec None 0 0 0 (buf_rdr body) I (buf_rdr_ok _ B)) as R.
  unfold rspec in R. rewrite buf_rdr_reach in R.
  destruct (t_parse_signature_gen None (buf_rdr body)) as [[[g st']|e|e] l]; cbn [fst snd rmap is_ok].
  - destruct R as [R1 [R2 [R3 R4]]]. split; [lia|exact R3].
  - destruct R as [R1 R2]. split; [lia|exact R2].
  - destruct R as [R1 R2]. split; [lia|exact R2].
Qed.

Lemma t_parse_signature_spec : forall st, rdr_ok st ->
  rspec KK st 300000 (fun g st' l => log_cost l + KK * reach st' + 4 * KK <= KK * reach st) (t_parse_signature st).
Proof. intros st O. exact (t_parse_signature_gen_spec (Some t_parse_embedded) 400 150000 (KK - 800) st emb_ok_embedded O). Qed.

(* SignatureV3.parse *)
Lemma t_parse_signature_v3_spec : forall st, rdr_ok st ->
  rspec KK st 20000 (fun g st' l => log_cost l + KK * reach st' + 4 * KK <= KK * reach st) (t_parse_signature_v3 st).
Proof.
  intros st O. unfold t_parse_signature_v3.
  call_with (rd_full_spec 1 st O) R. destruct R as [[R1 [R2 R3]] [R4 [R5 R6]]].
  destruct ((nth 0 x 0 <? 2) || (3 <? nth 0 x 0)); step_simpl. { close_fail. }
  call_with (rd_full_spec 1 st0 R6) R'. destruct R' as [[S1 [S2 S3]] [S4 [S5 S6]]].
  destruct (negb (nth 0 x0 0 =? 5)); step_simpl. { close_fail. }
  call_with (rd_full_spec 5 st1 S6) T. destruct T as [[T1 [T2 T3]] [T4 [T5 T6]]].
  call_with (rd_full_spec 8 st2 T6) U. destruct U as [[U1 [U2 U3]] [U4 [U5 U6]]].
  call_with (rd_full_spec 2 st3 U6) V. destruct V as [[V1 [V2 V3]] [V4 [V5 V6]]].
  destruct (negb ((nth 0 x3 0 =? 1) || (nth 0 x3 0 =? 3) || (nth 0 x3 0 =? 17))); step_simpl. { close_fail. }
  destruct (negb (hash_known (nth 1 x3 0))); step_simpl. { close_fail. }
  call_with (rd_full_spec 2 st4 V6) W. destruct W as [[W1 [W2 W3]] [W4 [W5 W6]]].
  call_with (t_read_mpi_spec st5 W6) M1. destruct M1 as [[M1a [M1b M1c]] [M1d [M1e M1f]]].
  destruct x5 as [m1 bits1]. cbn [fst snd] in *.
  destruct (nth 0 x3 0 =? 17); step_simpl.
  - call_with (t_read_mpi_spec st6 M1f) M2. destruct M2 as [[M2a [M2b M2c]] [M2d [M2e M2f]]].
    destruct x5 as [m2 bits2]. cbn [fst snd] in *. step_simpl. done_ok.
  - done_ok.
Qed.

(* UserId.parse *)
Lemma t_parse_userid_spec : forall st, rdr_ok st ->
  rspec KK st 600 (fun id st' l => log_cost l + KK * reach st' <= KK * reach st + 520) (t_parse_userid st).
Proof.
  intros st O. unfold t_parse_userid.
  pose proof (rd_all_KK st O) as A. destruct (rd_all st) as [[[data ok] st1] l1].
  destruct A as [A1 [A2 [A3 [A4 A5]]]]. pose proof (readall_log_cost (lenN data)) as RA.
  step_simpl. destruct (negb ok); step_simpl; [close_fail|done_ok].
Qed.

(* OpaqueSubpackets *)
Lemma append_grow_8 : forall c cap, cap <= 2 * c ->
  let '(cap', lg) := append_grow 8 c cap in
  cap' <= 2 * (c + 1) /\ log_cost lg + 16 * cap <= 16 * cap' /\ log_okc area_max lg.
Proof.
  intros c cap H. unfold append_grow.
  destruct (N.eqb_spec c cap) as [E|E].
  - destruct (N.eqb_spec cap 0) as [Z|Z]; cbn [log_cost alloc_sz]; fin.
  - cbn [log_cost]. fin.
Qed.

Lemma t_opaque_subpackets_spec : forall fuel (l : bytes) c cap, cap <= 2 * c ->
  let m := t_opaque_subpackets fuel l c cap in
  log_okc area_max (snd m) /\ log_cost (snd m) + 16 * cap <= 48 * lenN l + 32 * c.
Proof.
  induction fuel as [|f IH]; intros l c cap CAP; cbn [t_opaque_subpackets]; destruct l as [|b0 l0].
  - unfold rret. cbn [fst snd log_cost]. rewrite lenN_nil. fin.
  - unfold rfail. cbn [fst snd log_cost]. rewrite lenN_cons. fin.
  - unfold rret. cbn [fst snd log_cost]. rewrite lenN_nil. fin.
  - set (l := b0 :: l0) in *. unfold sizeof_opaque_sub.
    assert (HL : exists hl slen, 2 <= hl /\
        (if b0 <? 192 then (2, b0) else if b0 <? 255 then (3, (b0 - 192) * 256 + nth 1 l 0 + 192) else (6, be32 (drop 1 l))) = (hl, slen)).
    { destruct (b0 <? 192); [exists 2, b0; split; [lia|reflexivity]|].
      destruct (b0 <? 255); [eexists 3, _; split; [lia|reflexivity]|eexists 6, _; split; [lia|reflexivity]]. }
    destruct HL as [hl [slen [H2 ->]]].
    assert (L1 : 1 <= lenN l) by (subst l; rewrite lenN_cons; lia).
    destruct (N.ltb_spec (lenN l) hl) as [T|T]; step_simpl. { lc. fin. }
    assert (DL : lenN l = N.of_nat (N.to_nat (hl - 1)) + lenN (drop (N.to_nat (hl - 1)) l)) by (apply lenN_drop_eq; lia).
    set (rest0 := drop (N.to_nat (hl - 1)) l) in *.
    destruct ((lenN rest0 <? slen) || (slen =? 0)) eqn:C2; step_simpl. { lc. fin. }
    apply Bool.orb_false_iff in C2. destruct C2 as [C2a C2b].
    assert (DL2 : lenN rest0 = N.of_nat (N.to_nat slen) + lenN (drop (N.to_nat slen) rest0)) by (apply lenN_drop_eq; lia).
    pose proof (append_grow_8 c cap CAP) as AG. destruct (append_grow 8 c cap) as [cap' lg]. destruct AG as [A1 [A2 A3]].
    specialize (IH (drop (N.to_nat slen) rest0) (c + 1) cap' A1). cbv zeta in IH. destruct IH as [I1 I2].
    step_simpl. lc. split; [fin|]. lia.
Qed.

(* UserAttribute.parse *)
Lemma t_parse_userattr_spec : forall st, rdr_ok st ->
  rspec KK st 600 (fun n st' l => log_cost l + KK * reach st' <= KK * reach st + 520) (t_parse_userattr st).
Proof.
  intros st O. unfold t_parse_userattr.
  pose proof (rd_all_KK st O) as A. destruct (rd_all st) as [[[data ok] st1] l1].
  destruct A as [A1 [A2 [A3 [A4 A5]]]]. pose proof (readall_log_cost (lenN data)) as RA.
  step_simpl. destruct (negb ok); step_simpl. { close_fail. }
  pose proof (t_opaque_subpackets_spec (S (length data)) data 0 0 ltac:(lia)) as OS. cbv zeta in OS.
  destruct (t_opaque_subpackets (S (length data)) data 0 0) as [[n|e|e] l2]; cbn [fst snd] in OS; destruct OS as [O1 O2]; step_simpl.
  - done_ok.
  - close_fail.
  - close_fail.
Qed.

(* ------------------------------------------------------------------------------------- *)
(* packet.Read, Reader.Next                                                               *)
(* ------------------------------------------------------------------------------------- *)
Lemma pgp_header_ok : forall r tag br r1 l, pgp_read_header r = (Ok (tag, br, r1), l) -> bytes_ok r = true -> bytes_ok r1 = true.
Proof.
  intros r tag br r1 l H B. unfold pgp_read_header in H. destruct r as [|b0 r0]; cbn [tick rfail] in H; [discriminate|].
  pose proof (bytes_ok_cons _ _ B) as B0.
  destruct (N.land b0 128 =? 0); cbn [tick rfail] in H; [discriminate|].
  destruct (N.land b0 64 =? 0).
  - destruct (N.land b0 3 =? 3); cbn [tick rret] in H; [inversion H; subst; exact B0|].
    unfold read_full in H. destruct (split_at (N.shiftl 1 (N.land b0 3)) r0) as [[lb r2]|] eqn:S; cbn [tick rbind rret rfail] in H; [|discriminate].
    inversion H; subst. now destruct (split_at_bytes_ok _ _ _ _ S B0).
  - destruct (pgp_read_length r0) as [[[[len partial] r2]|e|e] ll] eqn:PL; cbn [tick rbind rret] in H; try discriminate.
    inversion H; subst. exact (pgp_length_ok _ _ _ _ _ PL B0).
Qed.

Lemma rd_peek1_spec : forall st, rdr_ok st ->
  match rd_peek1 st with
  | (inl (v, st1), l) =>
      log_cost l + KK * reach st1 <= KK * reach st /\ reach st1 <= reach st /\ 1 <= reach st1 /\ log_okc area_max l /\ rdr_ok st1
  | (inr _, l) => log_cost l <= KK * reach st + 4 /\ log_okc area_max l
  end.
Proof.
  intros st [Bu Bb]. unfold rd_peek1, rdr_rem. destruct st as [s buf und]. cbn [r_src r_buf r_und] in *.
  pose proof (src_read_spec s 4096 und ltac:(lia) Bu) as S.
  destruct (src_read s 4096 und) as [[[[d| |] s'] u'] l]; cbn [r_buf r_und].
  - destruct S as [S1 [S2 [S3 [S4 [S5 [S6 S7]]]]]].
    assert ((KK - 4) * (lenN u' + lenN d) <= (KK - 4) * lenN und) by (apply N.mul_le_mono_l; lia).
    unfold KK in *. split; [destruct buf; lia|]. split; [destruct buf; lia|]. split; [lia|]. split; [fin|]. split; assumption.
  - destruct S as [S1 [S2 [S3 S4]]]. unfold KK. split; [destruct buf; lia|fin].
  - destruct S as [S1 [S2 [S3 S4]]]. unfold KK. split; [destruct buf; lia|fin].
Qed.

(* the parser of a modelled tag: what it leaves over (four octets' worth for the packets read through
   peekVersion) and at most 900 for the structures *)
Definition body_credit (tag : N) : N := if peeked_tag tag then 4800 else 0.

Lemma rspec_weaken : forall A K st cf (S S' : A -> rdr -> log -> Prop) (m : cres (A * rdr)),
  (forall x st' l, S x st' l -> S' x st' l) -> rspec K st cf S m -> rspec K st cf S' m.
Proof.
  intros A K st cf S S' [[[x st']|e|e] l] IMP H; cbn [rspec] in *; [|exact H|exact H].
  destruct H as [H1 H2]. split; [now apply IMP|exact H2].
Qed.

Lemma public_key_spec' : forall sub st, rdr_ok st ->
  rspec KK st 9500 (fun (_ : tkey) st' l => log_cost l + KK * reach st' + 5000 <= KK * reach st) (t_parse_public_key sub st).
Proof.
  intros sub st O. eapply rspec_weaken; [|exact (t_parse_public_key_spec sub st O)].
  intros k st' l H. cbv beta in *. unfold KK in *. lia.
Qed.
Lemma public_key_v3_spec' : forall sub st, rdr_ok st ->
  rspec KK st 9500 (fun (_ : tkey) st' l => log_cost l + KK * reach st' + 5000 <= KK * reach st) (t_parse_public_key_v3 sub st).
Proof.
  intros sub st O. eapply rspec_weaken; [|exact (t_parse_public_key_v3_spec sub st O)].
  intros k st' l H. cbv beta in *. unfold KK in *. lia.
Qed.

Lemma lift_parse_rspec : forall A (f : A -> tpacket) K st cf (S : rdr -> log -> Prop) (m : cres (A * rdr)),
  rspec K st cf (fun _ st' l => S st' l) m -> rspec K st cf (fun _ st' l => S st' l) (lift_parse f m).
Proof. intros A f K st cf S [[[x st']|e|e] l] H; exact H. Qed.

Lemma t_parse_body_spec : forall o tag v st, rdr_ok st -> modelled_tag tag = true ->
  rspec KK st 301000 (fun _ st' l => log_cost l + KK * reach st' + body_credit tag <= KK * reach st + 900)
    (t_parse_body o tag v st).
Proof.
  intros o tag v st O MT. unfold t_parse_body, body_credit, peeked_tag.
  unfold sizeof_signature, sizeof_signature_v3, sizeof_public_key, sizeof_public_key_v3, sizeof_private_key, sizeof_userid, sizeof_userattr.
  assert (TK : forall A f (m : cres (A * rdr)) sz cf (S : rdr -> log -> Prop) (S' : rdr -> log -> Prop),
     rspec KK st cf (fun _ st' l => S st' l) m -> cf + sz <= 301000 ->
     (forall st' l, S st' l -> S' st' (Grow sz :: l)) ->
     rspec KK st 301000 (fun _ st' l => S' st' l) (tick (Grow sz) (lift_parse f m))).
  { intros A f m sz cf S S' R E IMP. rewrite tick_eq. unfold rspec in *.
    destruct m as [[[x st']|e|e] l]; cbn [lift_parse rmap fst snd]; lc.
    - destruct R as [R1 [R2 [R3 R4]]]. fin. now apply IMP.
    - destruct R as [R1 R2]. split; [lia|fin].
    - destruct R as [R1 R2]. split; [lia|fin]. }
  assert (TG : tag = 2 \/ tag = 5 \/ tag = 6 \/ tag = 7 \/ tag = 13 \/ tag = 14 \/ tag = 17).
  { unfold modelled_tag in MT. repeat (apply Bool.orb_true_iff in MT; destruct MT as [MT|MT]);
      apply N.eqb_eq in MT; subst; tauto. }
  destruct TG as [->|[->|[->|[->|[->|[->| ->]]]]]]; cbv [N.eqb Pos.eqb orb].
  - destruct (v <? 4).
    + eapply TK; [exact (t_parse_signature_v3_spec st O)|lia|]. intros st' l H. cbv beta in H. lc. unfold KK in *. lia.
    + eapply TK; [exact (t_parse_signature_spec st O)|lia|]. intros st' l H. cbv beta in H. lc. unfold KK in *. lia.
  - eapply TK; [exact (t_parse_private_key_spec o false st O)|lia|]. intros st' l H. cbv beta in H. lc. unfold KK in *. lia.
  - destruct (v <? 4).
    + eapply TK; [exact (public_key_v3_spec' false st O)|lia|]. intros st' l H. cbv beta in H. lc. unfold KK in *. lia.
    + eapply TK; [exact (public_key_spec' false st O)|lia|]. intros st' l H. cbv beta in H. lc. unfold KK in *. lia.
  - eapply TK; [exact (t_parse_private_key_spec o true st O)|lia|]. intros st' l H. cbv beta in H. lc. unfold KK in *. lia.
  - eapply TK; [exact (t_parse_userid_spec st O)|lia|]. intros st' l H. cbv beta in H. lc. unfold KK in *. lia.
  - destruct (v <? 4).
    + eapply TK; [exact (public_key_v3_spec' true st O)|lia|]. intros st' l H. cbv beta in H. lc. unfold KK in *. lia.
    + eapply TK; [exact (public_key_spec' true st O)|lia|]. intros st' l H. cbv beta in H. lc. unfold KK in *. lia.
  - eapply TK; [exact (t_parse_userattr_spec st O)|lia|]. intros st' l H. cbv beta in H. lc. unfold KK in *. lia.
Qed.

Definition t_read_fail_const : N := 320000.

Definition t_read_post (r : bytes) (x : tres) (r' : bytes) (l : log) : Prop :=
  log_okc area_max l /\ bytes_ok r' = true /\
  match x with
  | TOk _ => log_cost l + KK * lenN r' + 200 <= KK * lenN r /\ lenN r' < lenN r
  | TSkip => log_cost l + KK * lenN r' <= KK * lenN r /\ lenN r' < lenN r
  | _ => r' = [] /\ log_cost l <= KK * lenN r + t_read_fail_const
  end.

Lemma t_read_spec : forall o r, bytes_ok r = true ->
  match t_read o r with ((x, r'), l) => t_read_post r x r' l end.
Proof.
  intros o r B. unfold t_read, t_read_post, t_read_fail_const.
  pose proof (pgp_header_spec r) as HS.
  destruct (pgp_read_header r) as [[[[tag br] r1]|e|e] l] eqn:HD.
  2:{ destruct HS as [C O]. destruct (String.eqb e "EOF"); (split; [fin|]); (split; [reflexivity|split; [reflexivity|unfold KK; lia]]). }
  2:{ destruct HS as [C O]. split; [fin|]. split; [reflexivity|split; [reflexivity|unfold KK; lia]]. }
  destruct HS as [C [L [O P]]]. pose proof (pgp_header_ok _ _ _ _ _ HD B) as B1. apply log_ok_okc in O.
  set (st := mkrdr (src_of br) None r1).
  assert (SO : rdr_ok st) by (split; [exact B1|exact I]).
  assert (SR : reach st = lenN r1) by (unfold rdr_rem, st; cbn [r_und r_buf]; lia).
  cbv zeta.
  destruct (ignored_tag tag). { split; [fin|]. split; [reflexivity|split; [reflexivity|unfold KK; lia]]. }
  destruct (modelled_tag tag) eqn:MT; cbn [negb].
  2:{ pose proof (rd_all_KK st SO) as A. destruct (rd_all st) as [[[d ok] st'] l2].
      destruct A as [A1 [A2 [A3 [A4 [A5u A5b]]]]]. unfold rdr_pos.
      assert (lenN (r_und st') <= reach st') by (unfold rdr_rem; lia).
      lc. split; [fin|]. split; [exact A5u|]. unfold KK in *. split; lia. }
  (* what packet.Read makes of the result of a parser that started at st0 with l1 logged before *)
  assert (FIN : forall (st0 : rdr) (l1 : log) (parsed : cres (tpacket * rdr)),
      rspec KK st0 301000 (fun _ st' lp => log_cost lp + KK * reach st' + body_credit tag <= KK * reach st0 + 900) parsed ->
      log_okc area_max l1 -> reach st0 <= reach st ->
      log_cost l1 + KK * reach st0 + 2128 <= KK * reach st + KK + body_credit tag ->
      match t_finish l1 parsed with ((x, r'), l) =>
          log_okc area_max l /\ bytes_ok r' = true /\
          match x with
          | TOk _ => log_cost l + KK * lenN r' + 200 <= KK * lenN r /\ lenN r' < lenN r
          | TSkip => log_cost l + KK * lenN r' <= KK * lenN r /\ lenN r' < lenN r
          | _ => r' = [] /\ log_cost l <= KK * lenN r + 320000
          end
      end).
  { intros st0 l1 parsed R O1 E0 E1. unfold rspec in R. unfold t_finish. destruct parsed as [[[p st']|e|e] l2].
    - destruct R as [R1 [R2 [R3 R4]]].
      pose proof (rd_all_KK st' R4) as A. destruct (rd_all st') as [[[d ok] st2] l3].
      destruct A as [A1 [A2 [A3 [A4 [A5u A5b]]]]]. unfold rdr_pos.
      assert (lenN (r_und st2) <= reach st2) by (unfold rdr_rem; lia).
      lc. destruct ok.
      + split; [fin|]. split; [exact A5u|]. unfold KK in *. split; lia.
      + split; [fin|]. split; [reflexivity|]. split; [reflexivity|]. unfold body_credit, KK in *. destruct (peeked_tag tag); lia.
    - destruct R as [R1 R2]. lc. destruct (String.eqb e "EOF"); (split; [fin|]); (split; [reflexivity|split; [reflexivity|unfold body_credit, KK in *; destruct (peeked_tag tag); lia]]).
    - destruct R as [R1 R2]. lc. split; [fin|]. split; [reflexivity|split; [reflexivity|unfold body_credit, KK in *; destruct (peeked_tag tag); lia]]. }
  destruct (peeked_tag tag) eqn:PT.
  - pose proof (rd_peek1_spec st SO) as PK. destruct (rd_peek1 st) as [[[v st1]|e] l2].
    + destruct PK as [P1 [P2 [P2' [P3 P4]]]].
      apply (FIN st1); [exact (t_parse_body_spec o tag v st1 P4 MT)|fin|lia|].
      unfold body_credit. rewrite PT. unfold sizeof_bufio. lc. unfold KK in *. lia.
    + destruct PK as [P1 P2]. lc. unfold sizeof_bufio. destruct e; (split; [fin|]); (split; [reflexivity|split; [reflexivity|unfold KK in *; lia]]).
  - apply (FIN st); [exact (t_parse_body_spec o tag 0 st SO MT)|fin|lia|].
    unfold body_credit. rewrite PT. unfold KK in *. lia.
Qed.

Lemma t_next_spec : forall fuel o r, bytes_ok r = true ->
  match t_next fuel o r with ((x, r'), l) => t_read_post r x r' l end.
Proof.
  induction fuel as [|f IH]; intros o r B; cbn [t_next].
  - unfold cret, t_read_post, t_read_fail_const. cbn [log_cost]. split; [fin|]. split; [reflexivity|split; [reflexivity|lia]].
  - pose proof (t_read_spec o r B) as R.
    destruct (t_read o r) as [[x r'] l]. destruct x as [p| | |e]; try exact R.
    unfold t_read_post in R. destruct R as [R1 [R2 [R3 R4]]].
    specialize (IH o r' R2). destruct (t_next f o r') as [[x2 r2] l2].
    unfold t_read_post in *. destruct IH as [I1 [I2 I3]]. lc. split; [fin|]. split; [exact I2|].
    destruct x2; [destruct I3; split; lia|destruct I3; split; lia|destruct I3; split; [assumption|unfold t_read_fail_const in *; lia]|destruct I3; split; [assumption|unfold t_read_fail_const in *; lia]].
Qed.

(* the loop over all packets: linear *)
Lemma t_all_spec : forall fuel o r, bytes_ok r = true ->
  let m := t_all fuel o r in
  log_okc area_max (snd m) /\ log_cost (snd m) <= KK * lenN r + t_read_fail_const.
Proof.
  induction fuel as [|f IH]; intros o r B; cbn [t_all].
  - unfold cret. cbn [snd log_cost]. split; [fin|lia].
  - pose proof (t_next_spec (S (length r)) o r B) as R.
    destruct (t_next (S (length r)) o r) as [[x r'] l]. unfold t_read_post in R. destruct R as [R1 [R2 R3]].
    destruct x as [p| | |e]; cbn [snd].
    + destruct R3 as [R3 R4]. specialize (IH o r' R2). cbv zeta in IH.
      destruct (t_all f o r') as [[ps e2] l2]. cbn [snd] in *. destruct IH as [I1 I2]. lc. split; [fin|lia].
    + destruct R3 as [R3 R4]. split; [exact R1|lia].
    + destruct R3 as [R3 R4]. split; [exact R1|lia].
    + destruct R3 as [R3 R4]. split; [exact R1|lia].
Qed.

Lemma pgp_typed_all_spec : forall o data, bytes_ok data = true ->
  cost_of (pgp_typed_all o data) <= KK * lenN data + t_read_fail_const /\ log_okc area_max (snd (pgp_typed_all o data)).
Proof.
  intros o data B. unfold pgp_typed_all, cost_of.
  destruct (t_all_spec (S (length data)) o data B) as [H1 H2]. split; assumption.
Qed.

(* ------------------------------------------------------------------------------------- *)
(* ReadEntity                                                                             *)
(* ------------------------------------------------------------------------------------- *)
(* what is left to pay with: KK per octet not yet read, what a pushed-back packet kept, and - once -
   the constant of the call of Next that finds the end of the packets *)
Definition ended (s : estate) : bool := match e_rest s with [] => true | _ => false end.
Definition epot (s : estate) : N :=
  KK * lenN (e_rest s) + (match e_unread s with Some _ => 200 | None => 0 end)
  + (if ended s then 0 else t_read_fail_const).

Lemma t_next_nil : forall fuel o, t_next (S fuel) o [] = ((TEnd, []), [Make 4 0]).
Proof. intros. reflexivity. Qed.

(* Next: a packet leaves 200 over; the end of the packets costs 4 once it has been found *)
Lemma e_next_spec : forall o s, bytes_ok (e_rest s) = true ->
  match e_next o s with
  | ((x, s'), l) =>
      log_okc area_max l /\ bytes_ok (e_rest s') = true /\ e_unread s' = None /\
      match x with
      | TOk _ => log_cost l + epot s' + 200 <= epot s
      | TEnd => log_cost l + epot s' <= epot s + 4 /\ ended s' = true
      | _ => log_cost l <= epot s + t_read_fail_const
      end
  end.
Proof.
  intros o s B. unfold e_next, epot, ended. destruct s as [rest un n]. cbn [e_rest e_unread e_sigs] in *.
  destruct un as [p|].
  - unfold cret. cbn [e_rest e_unread log_cost]. split; [fin|]. split; [exact B|]. split; [reflexivity|].
    destruct rest; lia.
  - destruct rest as [|x0 rest0].
    + rewrite t_next_nil. cbn [e_rest e_unread log_cost alloc_sz]. split; [fin|]. split; [reflexivity|]. split; [reflexivity|].
      rewrite lenN_nil. split; [lia|reflexivity].
    + set (rest := x0 :: rest0) in *.
      pose proof (t_next_spec (S (length rest)) o rest B) as R.
      destruct (t_next (S (length rest)) o rest) as [[x r'] l]. unfold t_read_post in R. destruct R as [R1 [R2 R3]].
      cbn [e_rest e_unread]. split; [exact R1|]. split; [exact R2|]. split; [reflexivity|].
      destruct x as [p| | |e].
      * destruct R3. destruct r'; lia.
      * destruct R3. unfold t_read_fail_const. lia.
      * destruct R3 as [-> R3]. rewrite lenN_nil. split; [lia|reflexivity].
      * destruct R3 as [_ R3]. unfold t_read_fail_const in *. lia.
Qed.

Lemma e_unread_pot : forall p s, e_unread s = None -> epot (e_unread_p p s) = epot s + 200.
Proof. intros p s H. unfold epot, ended, e_unread_p. cbn [e_rest e_unread]. rewrite H. lia. Qed.
Lemma e_unread_rest : forall p s, e_rest (e_unread_p p s) = e_rest s.
Proof. reflexivity. Qed.

Lemma append_grow_24 : forall c cap, cap <= 2 * c ->
  let '(cap', lg) := append_grow sizeof_subkey c cap in
  cap' <= 2 * (c + 1) /\ log_cost lg + 48 * cap <= 48 * cap' /\ log_okc area_max lg.
Proof.
  intros c cap H. unfold append_grow, sizeof_subkey.
  destruct (N.eqb_spec c cap) as [E|E].
  - destruct (N.eqb_spec cap 0) as [Z|Z]; cbn [log_cost alloc_sz]; fin.
  - cbn [log_cost]. fin.
Qed.

(* addUserID: the signatures that are collected pay for their place in the slice *)
Lemma e_add_userid_spec : forall fuel o kid ov others cap s,
  bytes_ok (e_rest s) = true -> cap <= 2 * others ->
  match e_add_userid fuel o kid ov others cap s with
  | (Ok (_, s'), l) =>
      log_okc area_max l /\ bytes_ok (e_rest s') = true /\ log_cost l + epot s' + 16 * cap <= epot s + 32 * others + 4
  | (_, l) => log_okc area_max l /\ log_cost l + 16 * cap <= epot s + 32 * others + t_read_fail_const
  end.
Proof.
  assert (TF : 4 <= t_read_fail_const) by (unfold t_read_fail_const; lia).
  induction fuel as [|f IH]; intros o kid ov others cap s B CAP; cbn [e_add_userid].
  - unfold rfail. cbn [log_cost]. split; [fin|lia].
  - pose proof (e_next_spec o s B) as N. destruct (e_next o s) as [[x s1] l]. destruct N as [N1 [N2 [N3 N4]]].
    destruct x as [p| | |e].
    2:{ split; [exact N1|lia]. }
    2:{ destruct N4 as [N4 N5]. split; [exact N1|]. split; [exact N2|lia]. }
    2:{ split; [exact N1|lia]. }
    destruct p as [k secret|g|id|n].
    2:{ rewrite logged_eq.
        match goal with |- context [if ?c then _ else _] => destruct c end.
        - destruct (verify_ok ov s1).
          + specialize (IH o kid ov others cap s1 N2 CAP).
            destruct (e_add_userid f o kid ov others cap s1) as [[[kept s2]|e|e] l2]; cbn [rmap fst snd]; lc.
            * destruct IH as [I1 [I2 I3]]. split; [fin|]. split; [exact I2|lia].
            * destruct IH as [I1 I2]. split; [fin|lia].
            * destruct IH as [I1 I2]. split; [fin|lia].
          + unfold rfail. cbn [fst snd]. lc. split; [fin|lia].
        - destruct (ts_v3 g).
          + unfold rret. cbn [fst snd]. lc. rewrite (e_unread_pot _ _ N3), e_unread_rest. split; [fin|]. split; [exact N2|lia].
          + pose proof (append_grow_8 others cap CAP) as AG. destruct (append_grow 8 others cap) as [cap' lg].
            destruct AG as [A1 [A2 A3]]. rewrite logged_eq.
            specialize (IH o kid ov (others + 1) cap' s1 N2 A1).
            destruct (e_add_userid f o kid ov (others + 1) cap' s1) as [[[kept s2]|e|e] l2]; cbn [fst snd]; lc.
            * destruct IH as [I1 [I2 I3]]. split; [fin|]. split; [exact I2|lia].
            * destruct IH as [I1 I2]. split; [fin|lia].
            * destruct IH as [I1 I2]. split; [fin|lia]. }
    all: rewrite (e_unread_pot _ _ N3), e_unread_rest; split; [exact N1|]; split; [exact N2|lia].
Qed.

(* addSubkey *)
Lemma e_add_subkey_spec : forall fuel o ov have s, bytes_ok (e_rest s) = true ->
  match e_add_subkey fuel o ov have s with
  | (Ok s', l) => log_okc area_max l /\ bytes_ok (e_rest s') = true /\ log_cost l + epot s' <= epot s + 4
  | (_, l) => log_okc area_max l /\ log_cost l <= epot s + t_read_fail_const
  end.
Proof.
  assert (TF : 4 <= t_read_fail_const) by (unfold t_read_fail_const; lia).
  induction fuel as [|f IH]; intros o ov have s B; cbn [e_add_subkey].
  - unfold rfail. cbn [log_cost]. split; [fin|lia].
  - pose proof (e_next_spec o s B) as N. destruct (e_next o s) as [[x s1] l]. destruct N as [N1 [N2 [N3 N4]]].
    destruct x as [p| | |e].
    2:{ split; [exact N1|lia]. }
    2:{ destruct N4 as [N4 N5]. destruct have; [split; [exact N1|]; split; [exact N2|lia]|split; [exact N1|lia]]. }
    2:{ split; [exact N1|lia]. }
    destruct p as [k secret|g|id|n].
    2:{ rewrite logged_eq. destruct (ts_v3 g).
        - destruct have; [unfold rret|unfold rfail]; cbn [fst snd]; lc.
          + rewrite (e_unread_pot _ _ N3), e_unread_rest. split; [fin|]. split; [exact N2|lia].
          + split; [fin|lia].
        - match goal with |- context [if ?c then _ else _] => destruct c end.
          { unfold rfail. cbn [fst snd]. lc. split; [fin|lia]. }
          destruct (negb (verify_ok ov s1)). { unfold rfail. cbn [fst snd]. lc. split; [fin|lia]. }
          specialize (IH o ov true s1 N2).
          destruct (e_add_subkey f o ov true s1) as [[s2|e|e] l2]; cbn [fst snd]; lc.
          * destruct IH as [I1 [I2 I3]]. split; [fin|]. split; [exact I2|lia].
          * destruct IH as [I1 I2]. split; [fin|lia].
          * destruct IH as [I1 I2]. split; [fin|lia]. }
    all: destruct have; [rewrite (e_unread_pot _ _ N3), e_unread_rest; split; [exact N1|]; split; [exact N2|lia]|split; [exact N1|lia]].
Qed.

(* the EachPacket loop *)
Lemma e_loop_spec : forall fuel o kid ov en revs s,
  bytes_ok (e_rest s) = true -> en_subcap en <= 2 * en_subkeys en ->
  let m := e_loop fuel o kid ov en revs s in
  log_okc area_max (snd m) /\
  log_cost (snd m) + 48 * en_subcap en <= epot s + 96 * en_subkeys en + t_read_fail_const.
Proof.
  assert (TF : 4 <= t_read_fail_const) by (unfold t_read_fail_const; lia).
  induction fuel as [|f IH]; intros o kid ov en revs s B CAP; cbn [e_loop].
  - unfold rfail. cbn [snd log_cost]. split; [fin|lia].
  - pose proof (e_next_spec o s B) as N. destruct (e_next o s) as [[x s1] l]. destruct N as [N1 [N2 [N3 N4]]].
    destruct x as [p| | |e]; cbn [snd].
    2:{ split; [exact N1|lia]. }
    2:{ destruct N4 as [N4 N5]. split; [exact N1|lia]. }
    2:{ split; [exact N1|lia]. }
    destruct p as [k secret|g|id|n]; rewrite logged_eq; cbn [snd].
    + (* a key packet *)
      destruct (tk_v3 k).
      { specialize (IH o kid ov en revs s1 N2 CAP). cbv zeta in IH. destruct IH as [I1 I2]. lc. split; [fin|lia]. }
      destruct (negb (tk_sub k)). { unfold rret. cbn [snd]. lc. split; [fin|lia]. }
      pose proof (e_add_subkey_spec (S (length (e_rest s1))) o ov false s1 N2) as A.
      destruct (e_add_subkey (S (length (e_rest s1))) o ov false s1) as [[s2|e|e] l2]; step_simpl.
      2,3: (destruct A as [A1 A2]; lc; split; [fin|lia]).
      destruct A as [A1 [A2 A3]].
      pose proof (append_grow_24 (en_subkeys en) (en_subcap en) CAP) as AG.
      destruct (append_grow sizeof_subkey (en_subkeys en) (en_subcap en)) as [cap' lg]. destruct AG as [G1 [G2 G3]].
      rewrite logged_eq. cbn [snd].
      specialize (IH o kid ov (mk_ent (en_ids en) (en_idcap en) (en_subkeys en + 1) cap' (en_revs en)) revs s2 A2 G1).
      cbv zeta in IH. cbn [en_subcap en_subkeys] in IH. destruct IH as [I1 I2]. lc. split; [fin|lia].
    + (* a signature at the top level *)
      match goal with |- context [if ?c then _ else _] => destruct c end.
      * rewrite tick_eq. cbn [snd]. specialize (IH o kid ov en (e_sigs s1 :: revs) s1 N2 CAP). cbv zeta in IH.
        destruct IH as [I1 I2]. lc. split; [fin|lia].
      * specialize (IH o kid ov en revs s1 N2 CAP). cbv zeta in IH. destruct IH as [I1 I2]. lc. split; [fin|lia].
    + (* a user ID *)
      unfold sizeof_identity.
      pose proof (e_add_userid_spec (S (length (e_rest s1))) o kid ov 0 0 s1 N2 ltac:(lia)) as A.
      destruct (e_add_userid (S (length (e_rest s1))) o kid ov 0 0 s1) as [[[kept s2]|e|e] l2]; step_simpl.
      2,3: (destruct A as [A1 A2]; lc; split; [fin|lia]).
      destruct A as [A1 [A2 A3]].
      match goal with |- context [e_loop f o kid ov ?en' revs s2] =>
        assert (CAP' : en_subcap en' <= 2 * en_subkeys en') by (destruct kept; cbn [en_subcap en_subkeys]; exact CAP);
        pose proof (IH o kid ov en' revs s2 A2 CAP') as I;
        assert (E1 : en_subcap en' = en_subcap en) by (destruct kept; reflexivity);
        assert (E2 : en_subkeys en' = en_subkeys en) by (destruct kept; reflexivity);
        cbv zeta in I; rewrite E1, E2 in I; destruct I as [I1 I2]
      end.
      lc. split; [fin|lia].
    + (* a user attribute *)
      specialize (IH o kid ov en revs s1 N2 CAP). cbv zeta in IH. destruct IH as [I1 I2]. lc. split; [fin|lia].
Qed.

Definition entity_const : N := 650000.

Lemma pgp_read_entity_spec : forall o kid ov data, bytes_ok data = true ->
  cost_of (pgp_read_entity o kid ov data) <= KK * lenN data + entity_const /\
  log_okc area_max (snd (pgp_read_entity o kid ov data)).
Proof.
  intros o kid ov data B. unfold pgp_read_entity, cost_of, entity_const, sizeof_entity. rewrite tick_eq. cbn [snd].
  pose proof (e_next_spec o (mk_est data None O) B) as N.
  assert (EP : epot (mk_est data None O) <= KK * lenN data + t_read_fail_const).
  { unfold epot, ended. cbn [e_rest e_unread]. destruct data; lia. }
  destruct (e_next o (mk_est data None O)) as [[x s1] l]. destruct N as [N1 [N2 [N3 N4]]].
  unfold t_read_fail_const in *.
  destruct x as [p| | |e]; cbn [snd].
  2:{ lc. split; [lia|fin]. }
  2:{ destruct N4 as [N4 N5]. lc. split; [lia|fin]. }
  2:{ lc. split; [lia|fin]. }
  destruct p as [k secret|g|id|n]; cbn [snd]; try (lc; split; [lia|fin]).
  rewrite logged_eq. cbn [snd].
  destruct (tk_v3 k). { unfold rfail. cbn [snd]. lc. split; [lia|fin]. }
  destruct (negb (can_sign (tk_algo k))). { unfold rfail. cbn [snd]. lc. split; [lia|fin]. }
  pose proof (e_loop_spec (S (length data)) o kid ov (mk_ent 0 0 0 0 0) [] s1 N2 ltac:(cbn; lia)) as L.
  cbv zeta in L. cbn [en_subcap en_subkeys] in L. unfold t_read_fail_const in L.
  destruct (e_loop (S (length data)) o kid ov (mk_ent 0 0 0 0 0) [] s1) as [[[en revs]|e|e] l2]; cbn [snd] in L; step_simpl.
  2,3: (destruct L as [L1 L2]; lc; split; [lia|fin]).
  destruct L as [L1 L2].
  destruct (en_ids en =? 0). { unfold rfail. cbn [snd]. lc. split; [lia|fin]. }
  destruct (forallb _ revs); [unfold rret|unfold rfail]; cbn [snd]; lc; (split; [lia|fin]).
Qed.

(* ------------------------------------------------------------------------------------- *)
(* ASCII armor                                                                            *)
(* ------------------------------------------------------------------------------------- *)
Lemma lenN_rev : forall (l : bytes), lenN (rev l) = lenN l.
Proof. intros. rewrite !lenN_length, rev_length. reflexivity. Qed.

Lemma find_nl_spec : forall k l acc line rest, find_nl k l acc = Some (line, rest) ->
  lenN line + 1 + lenN rest = lenN acc + lenN l.
Proof.
  induction k as [|k IH]; intros l acc line rest H; cbn [find_nl] in H; [discriminate|].
  destruct l as [|c r]; [discriminate|]. destruct (c =? 10).
  - inversion H; subst. rewrite lenN_rev, lenN_cons. lia.
  - apply IH in H. rewrite !lenN_cons in *. lia.
Qed.

Lemma strip_cr_len : forall l, lenN (strip_cr l) <= lenN l.
Proof.
  intros l. unfold strip_cr. destruct (rev l) as [|x r] eqn:E; [lia|].
  destruct (x =? 13); [|lia].
  rewrite lenN_rev. assert (lenN (rev l) = lenN r + 1) by (rewrite E, lenN_cons; lia). rewrite lenN_rev in H. lia.
Qed.

Lemma lenN_firstn_skipn : forall n (l : bytes), lenN (firstn n l) + lenN (skipn n l) = lenN l.
Proof. intros. rewrite <- lenN_app, firstn_skipn. reflexivity. Qed.

(* a line: what it holds and what is left are within what was there, and something was consumed *)
Lemma read_line_spec : forall r line pre rest, read_line r = Some (line, pre, rest) ->
  lenN line + lenN rest <= lenN r /\ lenN rest < lenN r /\ (pre = false -> lenN line + lenN rest < lenN r \/ rest = []).
Proof.
  intros r line pre rest H. unfold read_line in H. destruct r as [|x0 r0]; [discriminate|].
  set (r := x0 :: r0) in *. assert (R1 : 1 <= lenN r) by (subst r; rewrite lenN_cons; lia).
  destruct (find_nl armor_bufsize r []) as [[ln rs]|] eqn:F.
  - inversion H; subst line pre rest. apply find_nl_spec in F. rewrite lenN_nil in F. pose proof (strip_cr_len ln). split; [lia|]. split; [lia|]. intros _. left. lia.
  - destruct (Nat.ltb (length r) armor_bufsize) eqn:LT.
    + inversion H; subst line pre rest. rewrite lenN_nil. split; [lia|]. split; [lia|]. intros _. right. reflexivity.
    + apply Nat.ltb_ge in LT. unfold armor_bufsize in *. cbn [Nat.pred] in H.
      pose proof (lenN_firstn_skipn 100 r) as FS. pose proof (lenN_firstn_skipn 99 r) as FS2.
      assert (L100 : lenN (firstn 100 r) = 100) by (rewrite lenN_length, firstn_length; lia).
      assert (L99 : lenN (firstn 99 r) = 99) by (rewrite lenN_length, firstn_length; lia).
      set (f100 := firstn 100 r) in *. set (s100 := skipn 100 r) in *. set (s99 := skipn 99 r) in *. clearbody f100 s100 s99.
      destruct (rev f100) as [|c p'] eqn:RV.
      * inversion H; subst line pre rest. split; [lia|]. split; [lia|]. discriminate.
      * assert (LR : lenN (rev f100) = lenN p' + 1) by (rewrite RV, lenN_cons; lia). rewrite lenN_rev in LR.
        destruct (c =? 13); inversion H; subst line pre rest; try rewrite lenN_rev; (split; [lia|]); (split; [lia|discriminate]).
Qed.

Lemma lenN_take_le : forall n (l : bytes), lenN (take n l) <= lenN l.
Proof.
  induction n; intros l; cbn [take]; [rewrite lenN_nil; lia|]. destruct l; [lia|].
  rewrite !lenN_cons. specialize (IHn l). lia.
Qed.

Lemma trim_left_len : forall l, lenN (trim_left l) <= lenN l.
Proof. induction l as [|c r IH]; cbn [trim_left]; [lia|]. destruct (is_space c); [rewrite lenN_cons; lia|lia]. Qed.

Lemma trim_space_len : forall l, lenN (trim_space l) <= lenN l.
Proof.
  intros l. unfold trim_space. rewrite lenN_rev.
  pose proof (trim_left_len (rev (trim_left l))). pose proof (trim_left_len l). rewrite lenN_rev in H. lia.
Qed.

Lemma buffer_grow_spec : forall cap n,
  let '(cap', lg) := buffer_grow cap n in
  log_cost lg + 2 * cap <= 2 * cap' /\ cap <= cap' /\ (cap' <= cap \/ cap' <= 3 * n + 64) /\ log_okc area_max lg.
Proof.
  intros cap n. unfold buffer_grow. destruct (N.leb_spec n cap) as [L|L].
  - cbn [log_cost]. fin.
  - cbn [log_cost alloc_sz]. fin.
Qed.

(* The armor reader's cost statement is proved in Proofs/CostArmor.v (armor_decode_spec: 106 n + 2580,
   every entry of its log a Grow entry) from the lemmas above: read_line_spec, the length lemmas and
   the potential form of buffer_grow_spec. *)

(* requests made from a length field, in the typed parsers and ReadEntity *)
Lemma okc_in : forall c l sz rem, log_okc c l -> In (Make sz rem) l -> sz <= rem \/ sz <= c.
Proof. intros c l sz rem O I. unfold log_okc in O. rewrite Forall_forall in O. exact (O _ I). Qed.
