(* Proofs for C03, DER layer: the CANONICAL writer.  [concrete raw c] is the certificate as DER writes
   the content c (minimal INTEGERs, UTCTime through 2049 and GeneralizedTime from 2050, the shortest
   BIT STRING for the bit list, DEFAULT values omitted), with the opaque parts [raw] supplied;
   [abstract o (concrete raw c) = c]: every content within the stated ranges is reachable, so the
   theorems over the octets (Proofs/CertDer.v) cover every well-formed content. *)
From Coq Require Import ZifyN ZifyNat ZifyBool.
From WI Require Import Lib.Base Lib.Info Lib.Time Model.Cert Model.CertDer Proofs.CertTime Proofs.Cert Proofs.CertDer.
From WI Require Model.Der Proofs.Der Proofs.DerValues.
Open Scope N_scope.
Local Ltac Zify.zify_post_hook ::= Z.div_mod_to_equations.

(* ================================================================== *)
(* A. non-negative INTEGER: the minimal content octets of a number     *)
(* ================================================================== *)
Fixpoint be_min_fuel (fuel : nat) (n : N) : bytes :=
  match fuel with
  | O => []
  | S f => if n =? 0 then [] else be_min_fuel f (n / 256) ++ [n mod 256]
  end.
(* big-endian magnitude without leading zero octets (empty for 0) *)
Definition be_min (n : N) : bytes := be_min_fuel (S (N.to_nat (N.size n))) n.
(* X.690 8.3: at least one octet; a zero octet in front when the top bit is set *)
Definition enc_nat (n : N) : bytes :=
  match be_min n with
  | [] => [0]
  | b :: r => if b <? 128 then b :: r else 0 :: b :: r
  end.

Lemma be_to_N_acc_snoc : forall l acc x, be_to_N_acc acc (l ++ [x]) = be_to_N_acc acc l * 256 + x.
Proof. induction l as [|b l IH]; intros acc x; cbn [app be_to_N_acc]; [reflexivity|apply IH]. Qed.
Lemma be_to_N_snoc : forall l x, be_to_N (l ++ [x]) = be_to_N l * 256 + x.
Proof. intros. unfold be_to_N. apply be_to_N_acc_snoc. Qed.

Lemma be_min_fuel_spec : forall fuel n, n < 2 ^ N.of_nat fuel ->
  be_to_N (be_min_fuel fuel n) = n /\
  (be_min_fuel fuel n = [] -> n = 0) /\
  (forall b r, be_min_fuel fuel n = b :: r -> 0 < b < 256).
Proof.
  induction fuel as [|f IH]; intros n Hn.
  - cbn in Hn. assert (n = 0) by lia. subst n. cbn [be_min_fuel].
    split; [reflexivity|]. split; [reflexivity|]. intros b r H. discriminate H.
  - cbn [be_min_fuel]. destruct (n =? 0) eqn:E0.
    + apply N.eqb_eq in E0. subst n. split; [reflexivity|]. split; [reflexivity|]. intros b r H. discriminate H.
    + apply N.eqb_neq in E0.
      assert (Hq : n / 256 < 2 ^ N.of_nat f).
      { rewrite Nat2N.inj_succ, N.pow_succ_r' in Hn. apply N.div_lt_upper_bound; lia. }
      destruct (IH (n / 256) Hq) as (V & Z0 & Hd).
      split; [|split].
      * rewrite be_to_N_snoc, V. lia.
      * intro H. apply app_eq_nil in H as [_ H]. discriminate H.
      * intros b r H. destruct (be_min_fuel f (n / 256)) as [|b' r'] eqn:El.
        -- cbn [app] in H. injection H as <- <-. specialize (Z0 eq_refl). lia.
        -- cbn [app] in H. injection H as <- _. apply (Hd b' r' eq_refl).
Qed.

Lemma be_min_spec : forall n,
  be_to_N (be_min n) = n /\ (be_min n = [] -> n = 0) /\ (forall b r, be_min n = b :: r -> 0 < b < 256).
Proof.
  intros n. apply be_min_fuel_spec. rewrite Nat2N.inj_succ, N2Nat.id, N.pow_succ_r'.
  pose proof (N.size_gt n). lia.
Qed.

Lemma be_to_N_cons0 : forall l, be_to_N (0 :: l) = be_to_N l.
Proof. reflexivity. Qed.

Theorem enc_nat_ok : forall n, nat_content_ok (enc_nat n) = true /\ be_to_N (enc_nat n) = n.
Proof.
  intros n. destruct (be_min_spec n) as (V & Z0 & Hd). unfold enc_nat.
  destruct (be_min n) as [|b r] eqn:E.
  - specialize (Z0 eq_refl). subst n. split; reflexivity.
  - destruct (Hd b r eq_refl) as [Hb1 Hb2]. destruct (b <? 128) eqn:E128.
    + split; [|exact V]. unfold nat_content_ok. rewrite E128, andb_true_r.
      apply N.ltb_lt in E128. unfold Der.check_integer. destruct r as [|b1 r']; [reflexivity|].
      replace (b =? 0) with false by (symmetry; apply N.eqb_neq; lia).
      replace (b =? 255) with false by (symmetry; apply N.eqb_neq; lia). reflexivity.
    + split; [|rewrite be_to_N_cons0; exact V]. unfold nat_content_ok. apply N.ltb_ge in E128.
      cbn [Der.check_integer N.eqb]. replace (b <? 128) with false by (symmetry; apply N.ltb_ge; lia).
      reflexivity.
Qed.

(* length: a number below 256^k takes at most k octets (plus the sign octet) *)
Lemma be_min_fuel_length : forall fuel n k, n < 256 ^ N.of_nat k -> (length (be_min_fuel fuel n) <= k)%nat.
Proof.
  induction fuel as [|f IH]; intros n k Hn; [cbn; lia|].
  cbn [be_min_fuel]. destruct (n =? 0) eqn:E0; [cbn; lia|]. apply N.eqb_neq in E0.
  destruct k as [|k]; [cbn in Hn; lia|].
  rewrite app_length. cbn [length].
  assert (n / 256 < 256 ^ N.of_nat k).
  { rewrite Nat2N.inj_succ, N.pow_succ_r' in Hn. apply N.div_lt_upper_bound; lia. }
  specialize (IH (n / 256) k H). lia.
Qed.
Lemma enc_nat_length_8 : forall n, n < 2 ^ 63 -> (length (enc_nat n) <= 8)%nat.
Proof.
  intros n Hn. unfold enc_nat. destruct (be_min_spec n) as (V & _ & Hd).
  assert (L : (length (be_min n) <= 8)%nat).
  { unfold be_min. apply be_min_fuel_length. change (256 ^ N.of_nat 8) with (2 ^ 64). 
    assert (2 ^ 63 < 2 ^ 64) by (apply N.pow_lt_mono_r; lia). lia. }
  destruct (be_min n) as [|b r] eqn:E; [cbn; lia|].
  destruct (b <? 128) eqn:E128; [exact L|].
  (* top bit set and eight octets would make n >= 2^63 *)
  apply N.ltb_ge in E128. cbn [length] in *.
  destruct (Nat.eq_dec (length r) 7) as [L7|]; [|lia].
  exfalso. rewrite <- V in Hn.
  assert (Hr : 128 * 256 ^ 7 <= be_to_N (b :: r)).
  { clear - E128 L7. unfold be_to_N. cbn [be_to_N_acc]. rewrite N.mul_0_l, N.add_0_l.
    rewrite Proofs.Cert.be_to_N_acc_spec. rewrite L7. change (N.of_nat 7) with 7. nia. }
  change (2 ^ 63) with (128 * 256 ^ 7) in Hn. lia.
Qed.

(* ================================================================== *)
(* B. Time: the text of an instant                                     *)
(* ================================================================== *)
Open Scope Z_scope.

(* the day of the month exists: one 400-year cycle day by day, then periodicity *)
Definition civil_dim_ok (z : Z) : bool :=
  match civil_of_days z with (y, m, d) => d <=? Der.days_in m y end.

Lemma civil_dim_cycle : forallb civil_dim_ok one_cycle = true.
Proof. vm_cast_no_check (@eq_refl bool true). Qed.

Lemma is_leap_period : forall y k, Der.is_leap (y + 400 * k) = Der.is_leap y.
Proof.
  intros y k. unfold Der.is_leap.
  replace ((y + 400 * k) mod 4) with (y mod 4) by (replace (y + 400 * k) with (y + (100 * k) * 4) by ring; rewrite Z_mod_plus_full; reflexivity).
  replace ((y + 400 * k) mod 100) with (y mod 100) by (replace (y + 400 * k) with (y + (4 * k) * 100) by ring; rewrite Z_mod_plus_full; reflexivity).
  replace ((y + 400 * k) mod 400) with (y mod 400) by (replace (y + 400 * k) with (y + k * 400) by ring; rewrite Z_mod_plus_full; reflexivity).
  reflexivity.
Qed.

Lemma civil_dim_ok_all : forall z, civil_dim_ok z = true.
Proof.
  intro z.
  assert (Hz : z = z mod 146097 + 146097 * (z / 146097)) by (pose proof (Z.div_mod z 146097); lia).
  rewrite Hz. unfold civil_dim_ok. rewrite civil_of_days_period.
  pose proof civil_dim_cycle as A. rewrite forallb_forall in A.
  specialize (A (z mod 146097) (in_one_cycle _ (Z.mod_pos_bound z 146097 ltac:(lia)))).
  unfold civil_dim_ok in A. destruct (civil_of_days (z mod 146097)) as [[y m] d]. cbn [shift_years].
  unfold Der.days_in in *. rewrite is_leap_period. exact A.
Qed.

Theorem civil_valid : forall z,
  match civil_of_days z with
  | (y, m, d) => days_of_civil y m d = z /\ 1 <= m <= 12 /\ 1 <= d <= Der.days_in m y
  end.
Proof.
  intro z. pose proof (days_of_civil_of_days z) as H. pose proof (civil_dim_ok_all z) as D.
  unfold civil_dim_ok in D. destruct (civil_of_days z) as [[y m] d].
  apply Z.leb_le in D. intuition lia.
Qed.

Definition time_of (sec : Z) : der_time :=
  let rem := sec mod 86400 in
  match civil_of_days (sec / 86400) with
  | (y, m, d) =>
      if (1950 <=? y) && (y <=? 2049)
      then TUtc (y mod 100) m d (rem / 3600) (rem mod 3600 / 60) (rem mod 60)     (* RFC 5280 4.1.2.5 *)
      else TGen y m d (rem / 3600) (rem mod 3600 / 60) (rem mod 60)
  end.
Definition year_of (sec : Z) : Z := match civil_of_days (sec / 86400) with (y, _, _) => y end.

Theorem time_of_ok : forall sec, 0 <= year_of sec < 10000 ->
  time_ok (time_of sec) /\ time_abs (time_of sec) = sec.
Proof.
  intros sec Hy. unfold time_of, year_of in *. pose proof (civil_valid (sec / 86400)) as H.
  destruct (civil_of_days (sec / 86400)) as [[y m] d]. destruct H as (Hd & Hm & Hdd).
  assert (Hrem : 0 <= sec mod 86400 < 86400) by (apply Z.mod_pos_bound; lia).
  set (rem := sec mod 86400) in *.
  assert (Hsec : sec = 86400 * (sec / 86400) + rem) by (subst rem; apply Z.div_mod; lia).
  destruct ((1950 <=? y) && (y <=? 2049)) eqn:E.
  - apply andb_true_iff in E as [E1 E2]. apply Z.leb_le in E1, E2.
    assert (Hfy : DerValues.full_year (y mod 100) = y).
    { unfold DerValues.full_year. destruct (50 <=? y mod 100) eqn:E50; [apply Z.leb_le in E50|apply Z.leb_gt in E50]; lia. }
    cbn [time_ok time_abs]. rewrite Hfy. split.
    + unfold DerValues.utc_fields_ok. rewrite Hfy. repeat split; try lia.
    + rewrite Hd. lia.
  - cbn [time_ok time_abs]. split.
    + unfold gen_fields_ok. repeat split; try lia.
    + rewrite Hd. lia.
Qed.
Open Scope N_scope.

(* ================================================================== *)
(* C. BIT STRING: the shortest content for a bit list                  *)
(* ================================================================== *)
(* value of up to w bits, the first bit weighing 2^(w-1); missing bits are zero *)
Fixpoint bits_value (w : nat) (l : list bool) : N :=
  match w with
  | O => 0
  | S w' => match l with
            | [] => 0
            | b :: r => (if b then 2 ^ N.of_nat w' else 0) + bits_value w' r
            end
  end.
Definition byte_of_bits (l : list bool) : N := bits_value 8 l.
Fixpoint pack_bits (fuel : nat) (l : list bool) : bytes :=
  match fuel with
  | O => []
  | S f => match l with
           | [] => []
           | _ => byte_of_bits (firstn 8 l) :: pack_bits f (skipn 8 l)
           end
  end.
Definition pad_of (l : list bool) : nat := ((8 - length l mod 8) mod 8)%nat.
(* unused-bits octet and data octets *)
Definition bits_unused (l : list bool) : N := N.of_nat (pad_of l).
Definition bits_data (l : list bool) : bytes := pack_bits (length l) l.

Fixpoint bools_eqb (a b : list bool) : bool :=
  match a, b with
  | [], [] => true
  | x :: a', y :: b' => Bool.eqb x y && bools_eqb a' b'
  | _, _ => false
  end.
Lemma bools_eqb_eq : forall a b, bools_eqb a b = true -> a = b.
Proof.
  induction a as [|x a IH]; destruct b as [|y b]; cbn; intro H; try discriminate; [reflexivity|].
  apply andb_true_iff in H as [H1 H2]. apply Bool.eqb_prop in H1. subst. f_equal. apply IH. exact H2.
Qed.

Lemma chunk_check :
  forallb (fun c => bools_eqb (byte_bits (byte_of_bits c)) (c ++ repeat false (8 - length c)) &&
                    (N.land (byte_of_bits c) (2 ^ N.of_nat (8 - length c) - 1) =? 0))
          (all_bool_lists 8) = true.
Proof. vm_compute. reflexivity. Qed.

Lemma chunk_spec : forall c, (length c <= 8)%nat ->
  byte_bits (byte_of_bits c) = c ++ repeat false (8 - length c) /\
  N.land (byte_of_bits c) (2 ^ N.of_nat (8 - length c) - 1) = 0.
Proof.
  intros c H. pose proof chunk_check as A. rewrite forallb_forall in A.
  specialize (A c (in_all_bool_lists 8 c H)). apply andb_true_iff in A as [A1 A2].
  split; [apply bools_eqb_eq; exact A1|apply N.eqb_eq; exact A2].
Qed.

Lemma pack_bits_nil : forall f, pack_bits f [] = [].
Proof. destruct f; reflexivity. Qed.

Lemma pack_bits_spec : forall fuel l, (length l <= fuel)%nat ->
  flat_map byte_bits (pack_bits fuel l) = l ++ repeat false (pad_of l) /\
  (8 * length (pack_bits fuel l) = length l + pad_of l)%nat /\
  (l <> [] -> pack_bits fuel l <> [] /\ N.land (last (pack_bits fuel l) 0) (2 ^ N.of_nat (pad_of l) - 1) = 0).
Proof.
  induction fuel as [|f IH]; intros l Hl.
  - destruct l; [|cbn in Hl; lia]. cbn. repeat split; try reflexivity; try (intro HH; contradiction).
  - destruct l as [|b0 l0] eqn:El; [cbn; repeat split; try reflexivity; try (intro HH; contradiction)|].
    rewrite <- El in *. assert (Hne : l <> []) by (subst l; discriminate).
    assert (Hpk : pack_bits (S f) l = byte_of_bits (firstn 8 l) :: pack_bits f (skipn 8 l)) by (subst l; reflexivity).
    rewrite Hpk. clear Hpk.
    destruct (Nat.le_gt_cases (length l) 8) as [H8|H8].
    + (* the last chunk *)
      rewrite firstn_all2 by exact H8. rewrite skipn_all2 by exact H8. rewrite pack_bits_nil.
      destruct (chunk_spec l H8) as [C1 C2].
      assert (Hlen : (1 <= length l)%nat) by (subst l; cbn; lia).
      assert (Hpad : pad_of l = (8 - length l)%nat).
      { unfold pad_of. destruct (Nat.eq_dec (length l) 8) as [E|E]; [rewrite E; reflexivity|].
        rewrite (Nat.mod_small (length l) 8) by lia. apply Nat.mod_small. lia. }
      rewrite Hpad. cbn [flat_map length last]. rewrite app_nil_r.
      split; [exact C1|]. split; [lia|]. intros _. split; [discriminate|exact C2].
    + (* a full chunk, then the rest *)
      assert (Hf8 : length (firstn 8 l) = 8%nat) by (rewrite firstn_length; lia).
      assert (Hs8 : length (skipn 8 l) = (length l - 8)%nat) by (apply skipn_length).
      destruct (chunk_spec (firstn 8 l)) as [C1 _]; [lia|]. rewrite Hf8 in C1. cbn [repeat Nat.sub] in C1.
      rewrite app_nil_r in C1.
      destruct (IH (skipn 8 l)) as (I1 & I2 & I3); [lia|].
      assert (Hpad : pad_of (skipn 8 l) = pad_of l).
      { unfold pad_of. rewrite Hs8. f_equal. f_equal.
        replace (length l) with ((length l - 8) + 1 * 8)%nat at 2 by lia. rewrite Nat.mod_add by lia. reflexivity. }
      assert (Hrne : skipn 8 l <> []).
      { intro E. rewrite E in Hs8. cbn in Hs8. lia. }
      destruct (I3 Hrne) as [I4 I5].
      cbn [flat_map length]. rewrite C1, I1, Hpad. rewrite app_assoc, firstn_skipn.
      split; [reflexivity|]. split; [lia|]. intros _. split; [discriminate|].
      rewrite <- Hpad.
      destruct (pack_bits f (skipn 8 l)) as [|x r] eqn:Ep; [contradiction|]. exact I5.
Qed.

Theorem bits_enc_ok : forall l,
  bits_content_ok (bits_unused l) (bits_data l) = true /\ bitstring_bits (bits_unused l) (bits_data l) = l.
Proof.
  intros l. unfold bits_unused, bits_data.
  destruct (pack_bits_spec (length l) l (Nat.le_refl _)) as (P1 & P2 & P3).
  assert (Hp7 : (pad_of l <= 7)%nat).
  { unfold pad_of. pose proof (Nat.mod_upper_bound (8 - length l mod 8) 8). lia. }
  split.
  - unfold bits_content_ok, cb_bits.
    replace (7 <? N.of_nat (pad_of l)) with false by (symmetry; apply N.ltb_ge; lia).
    destruct l as [|b l'] eqn:El.
    + reflexivity.
    + rewrite <- El in *. assert (Hne : l <> []) by (subst l; discriminate).
      destruct (P3 Hne) as [Q1 Q2]. destruct (pack_bits (length l) l) as [|x r] eqn:Ep; [contradiction|].
      rewrite Q2. reflexivity.
  - unfold bitstring_bits. rewrite P1, Nat2N.id.
    replace (8 * length (pack_bits (length l) l) - pad_of l)%nat with (length l + 0)%nat by lia.
    rewrite firstn_app_2. cbn [firstn]. apply app_nil_r.
Qed.

(* ================================================================== *)
(* D. the canonical writer of a content                                *)
(* ================================================================== *)
(* the parts the model leaves to the library, as octets *)
Record raw_parts := { r_sigalg : bytes; r_issuer : bytes; r_subject : bytes; r_spki : bytes; r_signature : bytes }.

(* identifier octet of a GeneralName: [1] [2] [6] [7] primitive; a name of another kind is numbered
   256 + its identifier octet in [enc_cert] (see abs_name) *)
Definition san_item (g : general_name) : N * bytes :=
  match g with
  | GN t d => (if t =? 1 then 129 else if t =? 2 then 130 else if t =? 6 then 134 else if t =? 7 then 135 else t - 256, d)
  end.
Definition san_kind_ok (g : general_name) : bool :=
  match g with
  | GN t _ => (t =? 1) || (t =? 2) || (t =? 6) || (t =? 7) ||
              ((256 <=? t) && negb ((t =? 385) || (t =? 386) || (t =? 390) || (t =? 391)))
  end.

Definition opt_ext {A} (f : A -> der_ext) (o : option A) : list der_ext :=
  match o with Some a => [f a] | None => [] end.

(* keyUsage and basicConstraints critical (RFC 5280 4.2.1.3, 4.2.1.9), DEFAULT FALSE omitted *)
Definition concrete_exts (c : enc_cert) : list der_ext :=
  opt_ext (fun bits => (Some true, XKu (bits_unused bits) (bits_data bits))) (e_key_usage c) ++
  opt_ext (fun b : bool * option Z => (Some true, XBc (if fst b then Some true else None)
                                     (option_map (fun n => enc_nat (Z.to_N n)) (snd b)))) (e_basic c) ++
  opt_ext (fun l => (None, XEku l)) (e_ekus c) ++
  opt_ext (fun l => (None, XSan (map san_item l))) (e_sans c) ++
  opt_ext (fun k => (None, XSki k)) (e_ski c) ++
  opt_ext (fun k => (None, XAki (Some k) [])) (e_aki c).

Definition concrete (raw : raw_parts) (c : enc_cert) : der_cert :=
  {| d_version := if e_version c =? 1 then None else Some (e_version c - 1);
     d_serial := enc_nat (e_serial c);
     d_sigalg := r_sigalg raw; d_issuer := r_issuer raw;
     d_not_before := time_of (e_not_before c); d_not_after := time_of (e_not_after c);
     d_subject := r_subject raw; d_spki := r_spki raw;
     d_exts := match concrete_exts c with [] => None | l => Some l end;
     d_signature := r_signature raw |}.

(* the content is well-formed (enc_ok), within the ranges DER and the library can hold, and the
   library's oracles read the opaque parts as the content says *)
Definition canon_ok (o : oracles) (raw : raw_parts) (c : enc_cert) : Prop :=
  enc_ok c = true /\
  o_name o (r_subject raw) = Some (e_subject c) /\ o_name o (r_issuer raw) = Some (e_issuer c) /\
  o_spki o (r_spki raw) = Some (e_spki c) /\
  o_sig o (r_sigalg raw) = Some (match e_sig c with SigKnown id => (id, []) | SigUnknown so => (0, so) end) /\
  (0 <= year_of (e_not_before c) < 10000)%Z /\ (0 <= year_of (e_not_after c) < 10000)%Z /\
  match e_basic c return Prop with Some (_, Some n) => (n < 2 ^ 63)%Z | _ => True end /\
  forallb oid_cb_ok (opt_list (e_ekus c)) = true /\
  forallb (fun g => san_kind_ok g && name_item_ok (o_uri o) (san_item g)) (opt_list (e_sans c)) = true /\
  len_ok (length (cert_enc (concrete raw c))) = true.

Lemma exts_list_concrete : forall raw c, exts_list (concrete raw c) = concrete_exts c.
Proof. intros. unfold exts_list, concrete. cbn [d_exts]. destruct (concrete_exts c); reflexivity. Qed.

Lemma abs_name_san_item : forall g, san_kind_ok g = true -> abs_name (san_item g) = g.
Proof.
  intros [t d] H. unfold san_kind_ok in H. unfold san_item, abs_name.
  destruct (t =? 1) eqn:E1; [apply N.eqb_eq in E1; subst t; reflexivity|].
  destruct (t =? 2) eqn:E2; [apply N.eqb_eq in E2; subst t; reflexivity|].
  destruct (t =? 6) eqn:E6; [apply N.eqb_eq in E6; subst t; reflexivity|].
  destruct (t =? 7) eqn:E7; [apply N.eqb_eq in E7; subst t; reflexivity|].
  cbn [orb] in H. apply andb_true_iff in H as [H1 H2]. apply N.leb_le in H1.
  apply negb_true_iff in H2. repeat (apply orb_false_iff in H2 as [H2 ?]).
  repeat match goal with H : (_ =? _) = false |- _ => apply N.eqb_neq in H end.
  replace (t - 256 =? 129) with false by (symmetry; apply N.eqb_neq; lia).
  replace (t - 256 =? 130) with false by (symmetry; apply N.eqb_neq; lia).
  replace (t - 256 =? 134) with false by (symmetry; apply N.eqb_neq; lia).
  replace (t - 256 =? 135) with false by (symmetry; apply N.eqb_neq; lia).
  f_equal. lia.
Qed.

Lemma fold_concrete : forall c,
  fold_left (fun s e => abs_apply (snd e) s) (concrete_exts c) abs0 =
  {| a_basic := option_map (fun b : bool * option Z => (match (if fst b then Some true else None) with Some x => x | None => false end,
                                      option_map (fun k => Z.of_N (be_to_N k)) (option_map (fun n => enc_nat (Z.to_N n)) (snd b))))
                           (e_basic c);
     a_ku := option_map (fun bits => bitstring_bits (bits_unused bits) (bits_data bits)) (e_key_usage c);
     a_ekus := e_ekus c;
     a_sans := option_map (fun l => map abs_name (map san_item l)) (e_sans c);
     a_ski := e_ski c; a_aki := e_aki c |}.
Proof.
  intros c. unfold concrete_exts.
  destruct (e_key_usage c); destruct (e_basic c); destruct (e_ekus c); destruct (e_sans c);
    destruct (e_ski c); destruct (e_aki c); reflexivity.
Qed.

Theorem concrete_abstract : forall o raw c, canon_ok o raw c -> abstract o (concrete raw c) = c.
Proof.
  intros o raw c (Hok & Hsub & Hiss & Hpk & Hsig & Hnb & Hna & Hpl & Heku & Hsan & Hlen).
  unfold abstract. rewrite exts_list_concrete, fold_concrete.
  unfold concrete. cbn [d_version d_serial d_subject d_issuer d_not_before d_not_after d_spki d_sigalg
                        a_basic a_ku a_ekus a_sans a_ski a_aki].
  rewrite Hsub, Hiss, Hpk, Hsig. cbn [oget].
  rewrite (proj2 (enc_nat_ok (e_serial c))).
  rewrite (proj2 (time_of_ok _ Hnb)), (proj2 (time_of_ok _ Hna)).
  pose proof Hok as Hok'. enc_split Hok'.
  destruct c as [ver ser sub iss nb na key basic ku ekus sans ski aki sg].
  cbn [e_version e_serial e_subject e_issuer e_not_before e_not_after e_spki e_basic e_key_usage e_ekus
       e_sans e_ski e_aki e_sig] in *.
  f_equal.
  - destruct (ver =? 1) eqn:E; [apply N.eqb_eq in E; congruence|].
    apply N.eqb_neq in E. match goal with H : (1 <=? ver) = true |- _ => apply N.leb_le in H end. lia.
  - destruct basic as [[ca [n|]]|]; cbn [option_map fst snd]; [|destruct ca; reflexivity|reflexivity].
    rewrite (proj2 (enc_nat_ok (Z.to_N n))).
    match goal with H : (0 <=? n)%Z = true |- _ => apply Z.leb_le in H end.
    rewrite Z2N.id by assumption. destruct ca; reflexivity.
  - destruct ku as [bits|]; [|reflexivity]. cbn [option_map]. rewrite (proj2 (bits_enc_ok bits)). reflexivity.
  - destruct sans as [l|]; [|reflexivity]. cbn [option_map opt_list] in *. f_equal.
    rewrite map_map. rewrite <- (map_id l) at 2. apply map_ext_in. intros g Hg.
    rewrite forallb_forall in Hsan. specialize (Hsan g Hg). apply andb_true_iff in Hsan as [Hk _].
    apply abs_name_san_item. exact Hk.
  - unfold sig_of. destruct sg as [id|so]; cbn [fst snd].
    + match goal with H : negb (id =? 0) = true |- _ => apply negb_true_iff in H; rewrite H end. reflexivity.
    + reflexivity.
Qed.

Lemma oids_distinct_concrete : forall c, oids_distinct [] (concrete_exts c) = true.
Proof.
  intros c. unfold concrete_exts.
  destruct (e_key_usage c); destruct (e_basic c); destruct (e_ekus c); destruct (e_sans c);
    destruct (e_ski c); destruct (e_aki c); reflexivity.
Qed.

Lemma forallb_app_true : forall {A} (p : A -> bool) a b,
  forallb p a = true -> forallb p b = true -> forallb p (a ++ b) = true.
Proof. intros. rewrite forallb_app. rewrite H, H0. reflexivity. Qed.

Theorem concrete_der_ok : forall o raw c, canon_ok o raw c -> der_ok o (concrete raw c).
Proof.
  intros o raw c (Hok & Hsub & Hiss & Hpk & Hsig & Hnb & Hna & Hpl & Heku & Hsan & Hlen).
  pose proof Hok as Hok'. enc_split Hok'.
  unfold der_ok. rewrite exts_list_concrete.
  unfold concrete at 1 2 3 4 5 6 7 8. cbn [d_version d_serial d_sigalg d_issuer d_subject d_spki d_not_before d_not_after].
  repeat split.
  - destruct (e_version c =? 1); [exact I|].
    match goal with H : (e_version c <=? 3) = true |- _ => apply N.leb_le in H end. lia.
  - apply enc_nat_ok.
  - rewrite Hsig. destruct (e_sig c) as [id|so]; [apply orb_true_r|reflexivity].
  - rewrite Hiss. discriminate.
  - rewrite Hsub. discriminate.
  - rewrite Hpk. discriminate.
  - apply time_of_ok. exact Hnb.
  - apply time_of_ok. exact Hna.
  - unfold concrete_exts.
    repeat apply forallb_app_true.
    + destruct (e_key_usage c) as [bits|]; [|reflexivity]. cbn [opt_ext forallb]. rewrite andb_true_r.
      unfold ext_ok. cbn [fst snd ext_oid value_ok crit_of]. rewrite (proj1 (bits_enc_ok bits)). reflexivity.
    + destruct (e_basic c) as [[ca pl]|]; [|reflexivity]. cbn [opt_ext forallb]. rewrite andb_true_r.
      unfold ext_ok. cbn [fst snd ext_oid value_ok crit_of].
      destruct pl as [n|]; cbn [option_map]; [|reflexivity].
      rewrite (proj1 (enc_nat_ok (Z.to_N n))).
      match goal with H : (0 <=? n)%Z = true |- _ => apply Z.leb_le in H end.
      assert (L : (length (enc_nat (Z.to_N n)) <= 8)%nat).
      { apply enc_nat_length_8. change (2 ^ 63)%N with (Z.to_N (2 ^ 63)). apply Z2N.inj_lt; lia. }
      apply Nat.leb_le in L. rewrite L. reflexivity.
    + destruct (e_ekus c) as [l|]; [|reflexivity]. cbn [opt_ext forallb opt_list] in *. rewrite andb_true_r.
      unfold ext_ok. cbn [fst snd ext_oid value_ok crit_of]. rewrite Heku. reflexivity.
    + destruct (e_sans c) as [l|]; [|reflexivity]. cbn [opt_ext forallb opt_list] in *. rewrite andb_true_r.
      unfold ext_ok. cbn [fst snd ext_oid value_ok crit_of].
      replace (forallb (name_item_ok (o_uri o)) (map san_item l)) with true; [reflexivity|].
      symmetry. rewrite forallb_forall. intros it Hit. apply in_map_iff in Hit as [g [<- Hg]].
      rewrite forallb_forall in Hsan. specialize (Hsan g Hg). apply andb_true_iff in Hsan. tauto.
    + destruct (e_ski c); reflexivity.
    + destruct (e_aki c); reflexivity.
  - apply oids_distinct_concrete.
  - exact Hlen.
Qed.

(* ================================================================== *)
(* E. every well-formed content: the report from the octets DER writes *)
(* ================================================================== *)
Theorem canonical_octets_parse : forall o raw c, canon_ok o raw c ->
  parse_certificate_der o (cert_enc (concrete raw c)) = Some (x509_spec c).
Proof.
  intros o raw c H. rewrite parse_cert_enc by (apply concrete_der_ok; exact H).
  rewrite concrete_abstract by exact H. reflexivity.
Qed.

Theorem canonical_octets_faithful : forall o raw c, canon_ok o raw c ->
  describe_der o (cert_enc (concrete raw c)) = Some (expected_info c) /\
  match describe_der o (cert_enc (concrete raw c)) with Some i => read_back i | None => None end =
  Some (canonical_view c).
Proof.
  intros o raw c H. pose proof (concrete_der_ok o raw c H) as Hd. pose proof (concrete_abstract o raw c H) as Ha.
  assert (He : enc_ok (abstract o (concrete raw c)) = true) by (rewrite Ha; apply H).
  split.
  - rewrite (octets_exactly_expected o _ Hd He), Ha. reflexivity.
  - rewrite (octets_faithful o _ Hd He), Ha. reflexivity.
Qed.

(* the hypotheses are met by a content that uses every field *)
Definition ex_raw : raw_parts :=
  {| r_sigalg := [6; 8; 42; 129; 28; 207; 85; 1; 131; 117]; r_issuer := ex_issuer; r_subject := ex_subject;
     r_spki := [48; 19; 6; 7; 42; 134; 72; 206; 61; 2; 1; 6; 8; 42; 134; 72; 206; 61; 3; 1; 7; 3; 2; 0; 4];
     r_signature := repeat 85 64 |}.
Definition ex_canon_content : enc_cert :=
  {| e_version := 3; e_serial := 2 ^ 159 + 12345; e_subject := bs "CN=leaf.example"; e_issuer := bs "CN=Example CA";
     e_not_before := 2524607999; e_not_after := 2524608000; e_spki := SEc [1; 2; 840; 10045; 3; 1; 7];
     e_basic := Some (true, Some 0%Z);
     e_key_usage := Some [true; false; false; false; false; true; true];
     e_ekus := Some [[1; 2; 3; 4]; [1; 3; 6; 1; 5; 5; 7; 3; 1]; [2; 999; 1]; [2; 5; 29; 37; 0]];
     e_sans := Some [GN 7 [0; 0; 0; 0; 0; 0; 0; 0; 0; 0; 255; 255; 192; 0; 2; 1]; GN 2 (bs "a.example");
                     GN 416 [6; 1; 42; 160; 1; 5]; GN 7 [32; 1; 13; 184; 0; 0; 0; 0; 0; 1; 0; 0; 0; 0; 0; 1];
                     GN 1 (bs "x@a.example"); GN 6 (bs "https://a.example/p?q=1#f"); GN 7 [192; 0; 2; 1]];
     e_ski := Some [3; 222; 80; 53]; e_aki := Some [10; 188];
     e_sig := SigUnknown [1; 2; 156; 10197; 1; 501] |}.
Definition ex_canon_oracles : oracles :=
  {| o_name := o_name ex_oracles;
     o_spki := fun b => if bytes_eqb b (r_spki ex_raw) then Some (SEc [1; 2; 840; 10045; 3; 1; 7]) else None;
     o_sig := fun b => if bytes_eqb b (r_sigalg ex_raw) then Some (0, [1; 2; 156; 10197; 1; 501]) else None;
     o_uri := fun b => Some b; o_ext := fun _ _ _ => true; o_negative_serial := true |}.

Example ex_canon_ok : canon_ok ex_canon_oracles ex_raw ex_canon_content.
Proof.
  unfold canon_ok. repeat split; try (vm_compute; reflexivity); try (vm_compute; discriminate);
    try (vm_compute; intuition congruence).
Qed.
