package main

func dumpMore2(out map[string]any) {}
