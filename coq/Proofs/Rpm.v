(* Proofs for C19. *)
From WI Require Import Lib.Base Lib.Info Model.Rpm.
