"""Tiny s-expression helpers shared by ./check (parse, convert to Coq terms)."""

def parse(s):
    pos = 0
    n = len(s)
    def value():
        nonlocal pos
        while pos < n and s[pos] == ' ':
            pos += 1
        c = s[pos]
        if c == '(':
            pos += 1
            items = []
            while True:
                while pos < n and s[pos] == ' ':
                    pos += 1
                if s[pos] == ')':
                    pos += 1
                    return items
                items.append(value())
        start = pos
        while pos < n and s[pos] not in ' )':
            pos += 1
        tok = s[start:pos]
        if tok.startswith('#'):
            return bytes.fromhex(tok[1:])
        return int(tok)
    return value()

def coq_bytes(b):
    return "[" + "; ".join(str(x) for x in b) + "]"

def to_coq_v(v):
    if isinstance(v, bytes):
        return "AB " + coq_bytes(v)
    if isinstance(v, int):
        return "AZ (%d)%%Z" % v
    return "AL [" + "; ".join("(" + to_coq_v(x) + ")" for x in v) + "]"

def to_coq(s):
    return "(" + to_coq_v(parse(s)) + ")"

def text_of(s):
    """verdict s-expr -> readable text"""
    try:
        v = parse(s)
    except Exception:
        return s
    def t(v):
        if isinstance(v, bytes):
            return v.decode("latin1")
        if isinstance(v, int):
            return str(v)
        return "(" + " ".join(t(x) for x in v) + ")"
    return t(v)
